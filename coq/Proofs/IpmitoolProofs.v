(* Lemmas for C19, part 1: the command lines built by Model/IpmitoolIf.v are sequences of
   tokens in the sense of Proofs/ShellProofs.v, hence lex to the specified argv. *)
From Coq Require Import String Ascii.
From Coq Require Import NArith List Bool Lia.
From PyIpmi Require Import Lib.Res Lib.Bytes Model.Shell Model.IpmitoolIf Model.IpmitoolSpec
  Proofs.ShellProofs.
Import ListNotations.
Open Scope N_scope.

(* ---- numbers are rendered as plain words ---- *)
Lemma digit_char_lit d : lit (digit_char d) = true.
Proof.
  unfold digit_char. generalize (N.to_nat d) as k. intro k.
  do 16 (destruct k as [|k]; [reflexivity|]). destruct k; reflexivity.
Qed.
Lemma digits_aux_lit base fuel : forall n acc,
  forallb lit acc = true -> forallb lit (digits_aux base fuel n acc) = true.
Proof.
  induction fuel as [|f IH]; intros n acc H; cbn [digits_aux]; [assumption|].
  assert (H' : forallb lit (digit_char (n mod base) :: acc) = true)
    by (cbn [forallb]; now rewrite digit_char_lit).
  destruct (n / base =? 0); [assumption | now apply IH].
Qed.
Lemma digits_aux_ne base fuel : forall n acc, acc <> [] -> digits_aux base fuel n acc <> [].
Proof.
  induction fuel as [|f IH]; intros n acc H; cbn [digits_aux]; [assumption|].
  destruct (n / base =? 0); [discriminate | apply IH; discriminate].
Qed.
Lemma plain_intro w : forallb lit w = true -> w <> [] -> plain_word w = true.
Proof. intros H Hne. unfold plain_word. rewrite H. destruct w; [congruence | reflexivity]. Qed.
Lemma plain_elim w : plain_word w = true -> forallb lit w = true /\ w <> [].
Proof.
  unfold plain_word. intros H. apply andb_prop in H as [H1 H2]. split; [assumption|].
  destruct w; [discriminate | congruence].
Qed.
Lemma digits_plain base n : plain_word (digits base n) = true.
Proof.
  unfold digits. apply plain_intro.
  - now apply digits_aux_lit.
  - cbn [digits_aux]. destruct (n / base =? 0); [discriminate | apply digits_aux_ne; discriminate].
Qed.
Lemma dec_plain n : plain_word (dec n) = true.
Proof. apply digits_plain. Qed.
Lemma hex2_lit n : forallb lit (hex2 n) = true.
Proof.
  unfold hex2. destruct (n <? 16).
  - cbn [forallb]. now rewrite digit_char_lit.
  - apply (plain_elim _ (digits_plain 16 n)).
Qed.
Lemma ox2_plain n : plain_word (ox2 n) = true.
Proof.
  apply plain_intro; [|discriminate]. unfold ox2. cbn [forallb]. now rewrite hex2_lit.
Qed.
Lemma plain_app a b : plain_word a = true -> forallb lit b = true -> plain_word (a ++ b) = true.
Proof.
  intros Ha Hb. destruct (plain_elim _ Ha) as [H1 H2]. apply plain_intro.
  - now rewrite forallb_app, H1, Hb.
  - destruct a; [congruence | discriminate].
Qed.

(* ---- token lists of the four command lines ---- *)
Definition L (s : string) : tok := TLit (B s).
Definition cred_toks (a : auth) : list tok :=
  match a with AuthPassword u p => [L "-U"; TDq u; L "-P"; TDq p] | _ => [L "-P"; TDq []] end.
Definition front_toks (c : config) : list tok :=
  match c_type c with
  | Lan | Lanplus =>
      [L "-I"; TLit (iftype_name (c_type c)); L "-H"; TLit (c_host c); L "-p"; TLit (dec (c_port c));
       L "-L"; TLit (level_name (c_priv c))] ++ map TLit (cipher_args (c_cipher c)) ++ cred_toks (c_auth c)
  | SerialTerminal =>
      [L "-I"; TLit (iftype_name (c_type c)); L "-D"; TLit (c_serial_port c ++ [58] ++ dec (c_baud c))]
  | OpenIf => [L "-I"; TLit (iftype_name (c_type c))]
  end.
Definition tail_toks (c : config) : list tok :=
  match c_type c with SerialTerminal => [] | _ => [TRedir] end.
Definition cmd_toks (c : config) (t : option target) (lun netfn : N) (raw : list N) : list tok :=
  front_toks c ++ map TLit (target_args t) ++ map TLit (raw_args lun netfn raw) ++ tail_toks c.

Lemma vals_app a b : vals (a ++ b) = vals a ++ vals b.
Proof. apply flat_map_app. Qed.
Lemma vals_lit l : vals (map TLit l) = l.
Proof. induction l as [|x l IH]; [reflexivity | cbn; f_equal; exact IH]. Qed.
Lemma redir_app a b : has_redir (a ++ b) = has_redir a || has_redir b.
Proof. apply existsb_app. Qed.
Lemma redir_lit l : has_redir (map TLit l) = false.
Proof. induction l as [|x l IH]; [reflexivity | exact IH]. Qed.
Lemma ok_lit l : forallb tok_ok (map TLit l) = forallb plain_word l.
Proof. induction l as [|x l IH]; [reflexivity | cbn; now rewrite IH]. Qed.

Lemma iftype_plain t : plain_word (iftype_name t) = true.
Proof. destruct t; reflexivity. Qed.
Lemma level_plain l : plain_word (level_name l) = true.
Proof. unfold level_name. destruct (l =? 2); [reflexivity|]. destruct (l =? 3); reflexivity. Qed.

Lemma target_args_plain t : forallb plain_word (target_args t) = true.
Proof.
  destruct t as [[a rt]|]; [|reflexivity]. unfold target_args. cbn [t_routing t_addr].
  destruct rt as [rt|].
  - destruct rt as [|r0 [|r1 [|r2 [|r3 rt]]]]; try reflexivity;
      cbn [forallb]; unfold ch; rewrite ?ox2_plain, ?dec_plain; reflexivity.
  - destruct a as [a|]; [|reflexivity]. destruct (a =? 0); [reflexivity|].
    cbn [forallb]. now rewrite ox2_plain.
Qed.
Lemma raw_args_plain lun netfn raw : forallb plain_word (raw_args lun netfn raw) = true.
Proof.
  unfold raw_args. rewrite forallb_app.
  change (forallb plain_word [B "-l"; dec lun; B "raw"]) with (plain_word (dec lun) && true).
  rewrite dec_plain. cbn [andb]. induction (netfn :: raw) as [|b l IH]; [reflexivity|].
  cbn [map forallb]. now rewrite ox2_plain.
Qed.
Lemma cipher_args_plain c : forallb plain_word (cipher_args c) = true.
Proof. destruct c; [|reflexivity]. unfold cipher_args. cbn [forallb]. rewrite dec_plain. reflexivity. Qed.

Lemma cmd_toks_ok c t lun netfn raw : wf_config c = true ->
  forallb tok_ok (cmd_toks c t lun netfn raw) = true.
Proof.
  intros W. unfold cmd_toks. rewrite !forallb_app, !ok_lit, target_args_plain, raw_args_plain.
  assert (Ht : forallb tok_ok (tail_toks c) = true) by (unfold tail_toks; destruct (c_type c); reflexivity).
  rewrite Ht, !andb_true_r. unfold wf_config in W. unfold front_toks.
  destruct (c_type c) eqn:E.
  - apply andb_prop in W as [W Wa]. apply andb_prop in W as [Wh Wp].
    rewrite forallb_app, forallb_app, ok_lit, cipher_args_plain. cbn [forallb tok_ok L].
    rewrite Wh, dec_plain, level_plain. cbn.
    destruct (c_auth c) as [|u p|]; [reflexivity | | discriminate].
    apply andb_prop in Wa as [Wu Wpw]. cbn. now rewrite Wu, Wpw.
  - apply andb_prop in W as [W Wa]. apply andb_prop in W as [Wh Wp].
    rewrite forallb_app, forallb_app, ok_lit, cipher_args_plain. cbn [forallb tok_ok L].
    rewrite Wh, dec_plain, level_plain. cbn.
    destruct (c_auth c) as [|u p|]; [reflexivity | | discriminate].
    apply andb_prop in Wa as [Wu Wpw]. cbn. now rewrite Wu, Wpw.
  - cbn [forallb tok_ok L]. rewrite plain_app; [reflexivity | assumption |].
    cbn [app forallb]. apply (plain_elim _ (dec_plain (c_baud c))).
  - reflexivity.
Qed.

(* ---- the builders produce "ipmitool" followed by these tokens ---- *)
Lemma join_lead x xs : join [32] (map ox2 (x :: xs)) = ox2 x ++ lead (map TLit (map ox2 xs)).
Proof.
  revert x. induction xs as [|y ys IH]; intros x.
  - cbn. now rewrite app_nil_r.
  - change (join [32] (map ox2 (x :: y :: ys))) with (ox2 x ++ [32] ++ join [32] (map ox2 (y :: ys))).
    rewrite IH. reflexivity.
Qed.

Local Opaque dec ox2 dq_escape join.
Ltac norm := cbn; repeat (rewrite <- app_assoc; cbn [app]); rewrite ?app_nil_r.

Lemma raw_seg lun netfn raw : bytes_ok raw = true ->
  build_raw lun netfn raw = Ok (lead (map TLit (raw_args lun netfn raw))).
Proof.
  intros H. unfold build_raw. rewrite H. f_equal. rewrite join_lead.
  unfold raw_args. rewrite map_app, lead_app. norm.
  reflexivity.
Qed.

Lemma target_seg t : wf_target t = true ->
  build_target false t = Ok (lead (map TLit (target_args t))).
Proof.
  destruct t as [[a rt]|]; [|reflexivity]. unfold wf_target, build_target, target_args.
  cbn [t_routing t_addr]. destruct rt as [rt|].
  - destruct rt as [|r0 [|r1 [|r2 [|r3 rt]]]]; try discriminate; try reflexivity.
    + destruct (r_channel r0) as [c0|]; [|discriminate]. intros _. norm. reflexivity.
    + destruct (r_channel r0) as [c0|]; [|discriminate].
      destruct (r_channel r1) as [c1|]; [|discriminate]. intros _. norm. reflexivity.
  - intros _. destruct a as [a|]; [|reflexivity]. destruct (a =? 0); [reflexivity|].
    norm. reflexivity.
Qed.

Lemma priv_seg c : ((c_priv c =? 2) || (c_priv c =? 3) || (c_priv c =? 4)) = true ->
  priv_name (c_priv c) = Ok (level_name (c_priv c)).
Proof.
  unfold priv_name, level_name. intros H.
  destruct (c_priv c =? 2); [reflexivity|]. destruct (c_priv c =? 3); [reflexivity|].
  cbn in H. now rewrite H.
Qed.

Lemma cipher_seg c : cipher_opt false c = lead (map TLit (cipher_args c)).
Proof. destruct c; [|reflexivity]. cbn. now rewrite app_nil_r. Qed.

Lemma cred_seg a : a <> AuthOther -> auth_opt dq_escape a = Ok (lead (cred_toks a)).
Proof.
  destruct a as [|u p|]; intros H; [reflexivity | | congruence].
  norm. reflexivity.
Qed.

Theorem cmd_is_tokens c t lun netfn raw :
  wf_config c = true -> wf_target t = true -> bytes_ok raw = true ->
  cmd_of c t lun netfn raw = Ok (B "ipmitool" ++ lead (cmd_toks c t lun netfn raw)).
Proof.
  intros W Wt Hr. unfold cmd_of, build_cmd, cmd_toks, front_toks, tail_toks. unfold wf_config in W.
  destruct (c_type c) eqn:E.
  - apply andb_prop in W as [W Wa]. apply andb_prop in W as [Wh Wp].
    unfold build_lan_cmd. rewrite (priv_seg c Wp), cred_seg, (target_seg t Wt), (raw_seg _ _ _ Hr), cipher_seg.
    + cbn [bind]. rewrite E. rewrite !lead_app. f_equal; try (norm; reflexivity).
    + destruct (c_auth c); congruence.
  - apply andb_prop in W as [W Wa]. apply andb_prop in W as [Wh Wp].
    unfold build_lan_cmd. rewrite (priv_seg c Wp), cred_seg, (target_seg t Wt), (raw_seg _ _ _ Hr), cipher_seg.
    + cbn [bind]. rewrite E. rewrite !lead_app. f_equal; try (norm; reflexivity).
    + destruct (c_auth c); congruence.
  - unfold build_serial_cmd. rewrite (target_seg t Wt), (raw_seg _ _ _ Hr). cbn [bind]. rewrite E.
    rewrite !lead_app. f_equal; try (norm; reflexivity).
  - unfold build_open_cmd. rewrite (target_seg t Wt), (raw_seg _ _ _ Hr). cbn [bind]. rewrite E.
    rewrite !lead_app. f_equal; try (norm; reflexivity).
Qed.

Lemma cmd_vals c t lun netfn raw :
  B "ipmitool" :: vals (cmd_toks c t lun netfn raw) = spec_argv c t lun netfn raw.
Proof.
  unfold cmd_toks, spec_argv, front_toks, tail_toks.
  destruct (c_type c); rewrite ?vals_app, ?vals_lit; try (destruct (c_auth c));
    unfold vals; cbn [flat_map cred_toks L app cred_args];
    repeat (rewrite <- app_assoc; cbn [app]); rewrite ?app_nil_r; reflexivity.
Qed.
Lemma cmd_redir c t lun netfn raw : has_redir (cmd_toks c t lun netfn raw) = spec_err2out c.
Proof.
  unfold cmd_toks, spec_err2out, front_toks, tail_toks. rewrite !redir_app, !redir_lit.
  destruct (c_type c); rewrite ?redir_app, ?redir_lit; try reflexivity;
    destruct (c_auth c); reflexivity.
Qed.

(* the master statement: the command line the library hands to the shell makes the shell
   start ipmitool with exactly the specified argument vector *)
Theorem cmd_argv c t lun netfn raw :
  wf_config c = true -> wf_target t = true -> bytes_ok raw = true ->
  exists cmd, cmd_of c t lun netfn raw = Ok cmd /\
              sh_lex cmd = Words (spec_argv c t lun netfn raw) (spec_err2out c).
Proof.
  intros W Wt Hr. eexists. split; [now apply cmd_is_tokens|].
  rewrite lex_command; [| reflexivity | discriminate | now apply cmd_toks_ok].
  rewrite cmd_redir, <- cmd_vals. reflexivity.
Qed.

(* ---- rmcp_ping ---- *)
Definition ping_toks (c : config) : list tok :=
  [L "-I"; TLit (iftype_name (c_type c)); L "-H"; TLit (c_host c); L "-p"; TLit (dec (c_port c))] ++
  match c_auth c with
  | AuthNone => [L "-A"; L "NONE"]
  | AuthPassword u p => [L "-U"; TDq u; L "-P"; TDq p]
  | AuthOther => []
  end ++ [L "session"; L "info"; L "all"].

Theorem ping_argv c : wf_ping c = true ->
  exists cmd, ping_cmd_of c = Ok cmd /\ sh_lex cmd = Words (spec_ping_argv c) false.
Proof.
  unfold wf_ping. intros W. apply andb_prop in W as [W Wa]. apply andb_prop in W as [Wt Wh].
  exists (B "ipmitool" ++ lead (ping_toks c)). split.
  - unfold ping_cmd_of, build_ping_cmd, ping_toks.
    destruct (c_type c); try discriminate; f_equal; destruct (c_auth c); norm; reflexivity.
  - rewrite lex_command; [| reflexivity | discriminate |].
    + unfold ping_toks, spec_ping_argv. rewrite !vals_app, !redir_app.
      destruct (c_auth c); reflexivity.
    + unfold ping_toks. rewrite !forallb_app. cbn [forallb tok_ok L].
      rewrite iftype_plain, Wh, dec_plain.
      destruct (c_auth c) as [|u p|]; try reflexivity.
      apply andb_prop in Wa as [Wu Wp]. cbn. now rewrite Wu, Wp.
Qed.

(* ---- the code before fix F19: the full statement is false ---- *)
Definition witness_cfg : config :=
  mkConfig Lan None (B "10.0.1.1") 623 4 (AuthPassword (B "admin") (B "$x")) [] 0.
Definition witness_tgt : option target := Some (mkTarget (Some 32) None).
Lemma legacy_refuted :
  wf_config witness_cfg = true /\ wf_target witness_tgt = true /\
  exists cmd, cmd_of_legacy witness_cfg witness_tgt 0 6 [1] = Ok cmd /\ sh_lex cmd = Expansion.
Proof. split; [reflexivity|]. split; [reflexivity|]. eexists. split; vm_compute; reflexivity. Qed.
(* ... and other witnesses: splitting, command substitution, lost backslash *)
Definition legacy_lex (pw : list N) : outcome :=
  match cmd_of_legacy (mkConfig Lan None (B "10.0.1.1") 623 4 (AuthPassword (B "admin") pw) [] 0)
          witness_tgt 0 6 [1] with Ok cmd => sh_lex cmd | Err _ => Other end.
Lemma legacy_more :
  legacy_lex [96; 120; 96] = Substitution /\ legacy_lex (B "$(x)") = Substitution /\
  legacy_lex [97; 34; 98] = Unterminated /\
  (exists a, legacy_lex [97; 92; 92; 98] = Words a true /\ nth 12 a [] = [97; 92; 98]).
Proof. repeat split; try (vm_compute; reflexivity). eexists. split; vm_compute; reflexivity. Qed.

(* ---- the statements of Props/C19.v ---- *)
Lemma argv_credentials : forall c user pw t lun netfn raw,
  (c_type c = Lan \/ c_type c = Lanplus) -> c_auth c = AuthPassword user pw ->
  nonul user = true -> nonul pw = true ->
  plain_word (c_host c) = true -> (c_priv c = 2 \/ c_priv c = 3 \/ c_priv c = 4) ->
  wf_target t = true -> bytes_ok raw = true ->
  exists cmd, cmd_of c t lun netfn raw = Ok cmd /\
    sh_lex cmd = Words ([B "ipmitool"; B "-I"; iftype_name (c_type c); B "-H"; c_host c;
                         B "-p"; dec (c_port c); B "-L"; level_name (c_priv c)] ++
                        cipher_args (c_cipher c) ++ [B "-U"; user; B "-P"; pw] ++
                        target_args t ++ [B "-l"; dec lun; B "raw"] ++ map ox2 (netfn :: raw)) true.
Proof.
  intros c user pw t lun netfn raw Ht Ha Hu Hp Hh Hl Wt Hr.
  assert (W : wf_config c = true).
  { unfold wf_config. destruct Ht as [E|E]; rewrite E, Ha, Hh, Hu, Hp;
      destruct Hl as [E2|[E2|E2]]; rewrite E2; reflexivity. }
  destruct (cmd_argv c t lun netfn raw W Wt Hr) as (cmd & E1 & E2). exists cmd. split; [assumption|].
  rewrite E2. unfold spec_argv, spec_err2out, raw_args, cred_args. rewrite Ha.
  destruct Ht as [E|E]; rewrite E; cbn [app]; repeat (rewrite <- app_assoc; cbn [app]); reflexivity.
Qed.

Lemma target_args_shape : forall a ad s0 s1 s2 c0 c1 k0 k1, a <> 0 ->
  target_args (Some (mkTarget (Some a) None)) = [B "-t"; ox2 a] /\
  target_args (Some (mkTarget ad (Some [mkRoute s0 c0]))) = [] /\
  target_args (Some (mkTarget ad (Some [mkRoute s0 (Some k0); mkRoute s1 c1]))) =
    [B "-t"; ox2 s1; B "-b"; dec k0] /\
  target_args (Some (mkTarget ad (Some [mkRoute s0 (Some k0); mkRoute s1 (Some k1); mkRoute s2 c1]))) =
    [B "-T"; ox2 s1; B "-B"; dec k0; B "-t"; ox2 s2; B "-b"; dec k1].
Proof.
  intros a ad s0 s1 s2 c0 c1 k0 k1 Ha. repeat split; try reflexivity.
  unfold target_args. cbn [t_routing t_addr]. apply N.eqb_neq in Ha. now rewrite Ha.
Qed.
