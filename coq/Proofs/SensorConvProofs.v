(* Lemmas for C17: the exact model is the IPMI reading formula, and the (repaired)
   inverse undoes it for every M <> 0, B, K1, K2 and raw reading. *)
From Coq Require Import NArith ZArith List Lia Bool QArith Qpower Qabs Qfield.
From PyIpmi Require Import Lib.Res Model.SensorConv.
Import ListNotations.
Open Scope Z_scope.

(* ---------------------------------------------------------------- the specification *)
(* the raw byte read as a number, by analog data format (IPMI 2.0 table 43-1 byte 21
   [7:6]): 0 unsigned, 1 one's complement, 2 two's complement *)
Definition signed_of (fmt raw : N) : Z :=
  let r := Z.of_N raw in
  if (fmt =? 1)%N then (if r <? 128 then r else r - 255)
  else if (fmt =? 2)%N then (if r <? 128 then r else r - 256)
  else r.
(* y = (M x + B 10^K1) 10^K2 *)
Definition formula (m b k1 k2 x : Z) : Q :=
  ((inject_Z m * inject_Z x + inject_Z b * (10 # 1) ^ k1) * (10 # 1) ^ k2)%Q.

(* ---------------------------------------------------------------- finite sweeps *)
Definition nrange (n : nat) : list N := map N.of_nat (seq 0 n).
Lemma nrange_in n x : (x < N.of_nat n)%N -> In x (nrange n).
Proof.
  intros H. unfold nrange. apply in_map_iff. exists (N.to_nat x). split; [lia|]. apply in_seq. lia.
Qed.
Lemma sweep2 (P : N -> N -> bool) n m :
  forallb (fun x => forallb (P x) (nrange m)) (nrange n) = true ->
  forall x y, (x < N.of_nat n)%N -> (y < N.of_nat m)%N -> P x y = true.
Proof.
  intros H x y Hx Hy. rewrite forallb_forall in H. specialize (H x (nrange_in _ _ Hx)).
  rewrite forallb_forall in H. exact (H y (nrange_in _ _ Hy)).
Qed.

Lemma raw_signed_spec fmt raw : (fmt < 3)%N -> (raw < 256)%N -> raw_signed fmt raw = signed_of fmt raw.
Proof.
  intros Hf Hr. apply Z.eqb_eq.
  exact (sweep2 (fun f r => raw_signed f r =? signed_of f r) 3 256 ltac:(vm_compute; reflexivity) fmt raw Hf Hr).
Qed.

(* ---------------------------------------------------------------- forward *)
Section Forward.
  Variable V : Type.
  Variable of_Q : Q -> V.
  Variables f_ln f_log10 f_log2 f_exp f_exp10 f_exp2 f_1_x f_sqr f_cube f_sqrt f_cubert : V -> V.
  Let conv := convert_sensor_raw_to_value V of_Q f_ln f_log10 f_log2 f_exp f_exp10 f_exp2 f_1_x f_sqr f_cube f_sqrt f_cubert.
  Let linf := lin V f_ln f_log10 f_log2 f_exp f_exp10 f_exp2 f_1_x f_sqr f_cube f_sqrt f_cubert.

  (* the linearisation selected by a code (bit 7 ignored): table 43-1 byte 24 *)
  Definition lin_spec (code : N) : option (V -> V) :=
    nth_error [(fun x => x); f_ln; f_log10; f_log2; f_exp; f_exp10; f_exp2; f_1_x; f_sqr; f_cube; f_sqrt; f_cubert]
              (N.to_nat (code mod 128)).

  Lemma lin_table code : (code < 256)%N ->
    linf code = match lin_spec code with Some L => Ok L | None => Err DecodingError end.
  Proof.
    intros H. unfold linf, lin, lin_spec.
    replace (N.land code 127) with (code mod 128)%N
      by (change 127%N with (N.ones 7); now rewrite N.land_ones).
    assert (Hc : (code mod 128 < 128)%N) by (apply N.mod_lt; discriminate).
    remember (code mod 128)%N as c eqn:E. clear E H code.
    destruct c as [|p]; [reflexivity|].
    do 7 (try destruct p as [p|p|]); try reflexivity; lia.
  Qed.

  Lemma forward_formula s raw : (s_fmt s < 3)%N -> (raw < 256)%N ->
    conv s (Some raw) =
    (do L <- linf (s_lin s);
     Ok (Some (L (of_Q (formula (s_m s) (s_b s) (s_k1 s) (s_k2 s) (signed_of (s_fmt s) raw)))))).
  Proof.
    intros Hf Hr. unfold conv, convert_sensor_raw_to_value, linear_Q, formula, pow10.
    rewrite (raw_signed_spec _ _ Hf Hr). reflexivity.
  Qed.

  Lemma forward_none s : conv s None = Ok None.
  Proof. reflexivity. Qed.
End Forward.

(* ---------------------------------------------------------------- inverse *)
Lemma round_int q z : q == inject_Z z -> round_half_even q = z.
Proof.
  unfold Qeq, round_half_even. cbn [Qnum Qden inject_Z]. intros H.
  assert (Hn : Qnum q = z * Z.pos (Qden q)) by lia.
  rewrite Hn, Z.div_mul, Z.mod_mul by lia. cbn [Z.mul].
  destruct (0 <? Z.pos (Qden q)) eqn:E; [reflexivity | lia].
Qed.

Lemma ten_nz : ~ (10 # 1) == 0.
Proof. discriminate. Qed.
Lemma pow10_inv k : pow10 k * pow10 (- k) == 1.
Proof. unfold pow10. rewrite Qpower_opp. apply Qmult_inv_r, Qpower_not_0, ten_nz. Qed.

Lemma rawq_exact s x : s_m s <> 0 ->
  (linear_Q s x * pow10 (- s_k2 s) - inject_Z (s_b s) * pow10 (s_k1 s)) / inject_Z (s_m s) == inject_Z x.
Proof.
  intros Hm. unfold linear_Q.
  assert (Hq : ~ inject_Z (s_m s) == 0).
  { unfold Qeq. cbn. lia. }
  set (m := inject_Z (s_m s)) in *. set (b := inject_Z (s_b s)). set (P1 := pow10 (s_k1 s)).
  transitivity (((m * inject_Z x + b * P1) * (pow10 (s_k2 s) * pow10 (- s_k2 s)) - b * P1) / m)%Q.
  - field. exact Hq.
  - rewrite pow10_inv. field. exact Hq.
Qed.

(* the sign handling and range check of the inverse, on the byte domain *)
Definition encode_signed (fmt : N) (raw : Z) : Z :=
  if (fmt =? 1)%N then (if raw <? 0 then Z.lor (Z.lxor (- raw) 0x7f) 0x80 else raw)
  else if (fmt =? 2)%N then (if raw <? 0 then Z.lor (Z.lxor (- (raw + 1)) 0x7f) 0x80 else raw)
  else raw.
Lemma encode_signed_spec fmt raw : (fmt < 3)%N -> (raw < 256)%N -> ~ (fmt = 1%N /\ raw = 255%N) ->
  encode_signed fmt (raw_signed fmt raw) = Z.of_N raw.
Proof.
  intros Hf Hr Hz.
  pose proof (sweep2 (fun f r => ((f =? 1)%N && (r =? 255)%N) || (encode_signed f (raw_signed f r) =? Z.of_N r))
                     3 256 ltac:(vm_compute; reflexivity) fmt raw Hf Hr) as E.
  cbv beta in E. apply orb_prop in E as [E|E].
  - apply andb_prop in E as [E1 E2]. apply N.eqb_eq in E1, E2. tauto.
  - now apply Z.eqb_eq.
Qed.

Theorem inverse_forward s raw v :
  s_m s <> 0 -> N.land (s_lin s) 0x7f = 0%N -> (s_fmt s < 3)%N -> (raw < 256)%N ->
  ~ (s_fmt s = 1%N /\ raw = 255%N) ->
  v == linear_Q s (raw_signed (s_fmt s) raw) ->
  convert_sensor_value_to_raw s v = Ok (Z.of_N raw).
Proof.
  intros Hm Hl Hf Hr Hz Hv. unfold convert_sensor_value_to_raw.
  rewrite Hl. cbn [N.eqb negb].
  destruct (Z.eqb_spec (s_m s) 0) as [|_]; [contradiction|].
  assert (E : round_half_even ((v * pow10 (- s_k2 s) - inject_Z (s_b s) * pow10 (s_k1 s)) / inject_Z (s_m s))
              = raw_signed (s_fmt s) raw).
  { apply round_int. rewrite Hv. apply rawq_exact, Hm. }
  rewrite E. fold (encode_signed (s_fmt s) (raw_signed (s_fmt s) raw)).
  rewrite (encode_signed_spec _ _ Hf Hr Hz).
  destruct (Z.gtb_spec (Z.of_N raw) 255); [lia | reflexivity].
Qed.
