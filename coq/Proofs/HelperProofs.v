(* Lemmas about the retry / reservation loops of Model/Helper.v, for EVERY outcome oracle
   (no length bound): all proofs are inductions on the retry counter. *)
From Coq Require Import NArith ZArith List Bool Lia ZifyN ZifyBool ZifyNat.
From PyIpmi Require Import Lib.Res Model.Helper.
Import ListNotations.
Open Scope N_scope.

(* ------------------------------------------------------------------------- *)
(* specification vocabulary over event sequences                              *)
(* ------------------------------------------------------------------------- *)
Definition is_clear (k : N) (e : event) : bool :=
  match e with ECall (CClear c _) _ => c =? k | _ => false end.
Definition is_reserve (e : event) : bool := match e with ECall CReserve _ => true | _ => false end.
Definition is_send (e : event) : bool := match e with ECall (CSend _) _ => true | _ => false end.
Definition is_xfer (e : event) : bool := match e with ECall CXfer _ => true | _ => false end.
(* a clear call / a chunk request answered "reservation cancelled" *)
Definition is_cancelled (e : event) : bool :=
  match e with
  | ECall (CClear _ _) (OCc cc) => cc =? CC_RES_CANCELED
  | ECall (CSend _) (OVal cc) => cc =? CC_RES_CANCELED
  | _ => false
  end.
Definition count (p : event -> bool) (t : list event) : nat := length (filter p t).

(* the outcomes consumed, in order *)
Fixpoint outs (t : list event) : list outcome :=
  match t with [] => [] | ECall _ o :: r => o :: outs r | ESleep _ :: r => outs r end.

(* the reservation in force after the events: the last value returned by reserve_fn *)
Fixpoint cur_resv (cur : option N) (t : list event) : option N :=
  match t with
  | [] => cur
  | ECall CReserve (OVal v) :: r => cur_resv (Some v) r
  | _ :: r => cur_resv cur r
  end.
(* every clear call / chunk request carries the reservation in force when it is made *)
Definition carries (cur : option N) (x : N) : bool :=
  match cur with Some c => x =? c | None => false end.
Fixpoint fresh_ok (cur : option N) (t : list event) : bool :=
  match t with
  | [] => true
  | ECall CReserve (OVal v) :: r => fresh_ok (Some v) r
  | ECall (CClear _ x) _ :: r => carries cur x && fresh_ok cur r
  | ECall (CSend x) _ :: r => carries cur x && fresh_ok cur r
  | _ :: r => fresh_ok cur r
  end.

Definition lastev (t : list event) : option event := hd_error (rev t).

(* "this status read says: not in progress" *)
Definition done_ev (ctrl : N) (e : event) : bool :=
  match e with ECall (CClear c _) (OVal v) => (c =? ctrl) && negb (v =? ERASURE_IN_PROGRESS) | _ => false end.
Definition ends_with (p : event -> bool) (t : list event) : bool :=
  match lastev t with Some e => p e | None => false end.

(* status polls happen only after an initiate call was accepted (returned a status other
   than in-progress) *)
Fixpoint init_first (started : bool) (t : list event) : bool :=
  match t with
  | [] => true
  | ECall (CClear c _) o :: r =>
      if c =? INITIATE_ERASE
      then init_first (started || match o with OVal v => negb (v =? ERASURE_IN_PROGRESS) | _ => false end) r
      else started && init_first started r
  | _ :: r => init_first started r
  end.

(* oracle letters that are not the model's own tokens *)
Definition clean (o : outcome) : Prop := o <> OExc RetryError /\ o <> OExc OutOfFuel.

(* ------------------------------------------------------------------------- *)
(* list facts                                                                 *)
(* ------------------------------------------------------------------------- *)
Lemma count_app p a b : count p (a ++ b) = (count p a + count p b)%nat.
Proof. unfold count. rewrite filter_app, app_length. reflexivity. Qed.
Lemma count_cons p e t : count p (e :: t) = ((if p e then 1 else 0) + count p t)%nat.
Proof. unfold count. cbn [filter]. destruct (p e); reflexivity. Qed.
Lemma outs_app a b : outs (a ++ b) = outs a ++ outs b.
Proof. induction a as [|[c o|ms] a IH]; cbn; [reflexivity | rewrite IH; reflexivity | exact IH]. Qed.
Lemma cur_resv_app a : forall cur b, cur_resv cur (a ++ b) = cur_resv (cur_resv cur a) b.
Proof.
  induction a as [|e a IH]; intros cur b; cbn; [reflexivity|].
  destruct e as [[| | |] [v|cc|x]|ms]; apply IH.
Qed.
Lemma fresh_ok_app a : forall cur b, fresh_ok cur (a ++ b) = fresh_ok cur a && fresh_ok (cur_resv cur a) b.
Proof.
  induction a as [|e a IH]; intros cur b; cbn; [reflexivity|].
  destruct e as [[| | |] [v|cc|x]|ms]; cbn; rewrite ?IH, ?andb_assoc; reflexivity.
Qed.
Lemma lastev_app a b : lastev (a ++ b) = match lastev b with Some e => Some e | None => lastev a end.
Proof. unfold lastev. rewrite rev_app_distr. destruct (rev b); reflexivity. Qed.
Lemma lastev_none t : lastev t = None -> t = [].
Proof.
  unfold lastev. intros H. destruct (rev t) eqn:E; [|discriminate].
  rewrite <- (rev_involutive t), E. reflexivity.
Qed.
Lemma ends_with_app p a b : ends_with p (a ++ b) = match b with [] => ends_with p a | _ => ends_with p b end.
Proof.
  unfold ends_with. rewrite lastev_app. destruct b as [|e b]; [reflexivity|].
  destruct (lastev (e :: b)) eqn:L; [reflexivity|]. apply lastev_none in L. discriminate.
Qed.
Lemma ends_with_cons p e t : ends_with p (e :: t) = match t with [] => p e | _ => ends_with p t end.
Proof. change (e :: t) with ([e] ++ t). rewrite ends_with_app. destruct t; reflexivity. Qed.
Lemma init_first_app a : forall s b,
  init_first s (a ++ b) = true <->
  init_first s a = true /\ init_first (s || existsb (done_ev INITIATE_ERASE) a) b = true.
Proof.
  induction a as [|e a IH]; intros s b; cbn [app init_first existsb].
  - rewrite orb_false_r. tauto.
  - destruct e as [[|c r|r|] o|ms]; cbn [done_ev andb]; rewrite ?orb_false_r; try apply IH.
    destruct (c =? INITIATE_ERASE) eqn:Ec.
    + rewrite IH. destruct o as [v|cc|x]; cbn [andb]; rewrite ?orb_assoc, ?(orb_false_r s); tauto.
    + rewrite andb_true_iff, IH. rewrite (andb_true_iff s).
      destruct o; cbn [andb orb]; rewrite ?(orb_false_r s); tauto.
Qed.

(* ------------------------------------------------------------------------- *)
(* _clear_repository                                                          *)
(* ------------------------------------------------------------------------- *)
Ltac inv H := inversion H; subst; clear H.
Ltac splits := repeat match goal with |- _ /\ _ => split end.
Ltac split_rec f H :=
  match type of H with
  | prepend _ ?call = _ =>
      let t' := fresh "t'" in let x' := fresh "x'" in let rs' := fresh "rs'" in let E := fresh "E" in
      destruct call as [[t' x'] rs'] eqn:E; cbn [prepend] in H; inv H
  end.
(* one goal per path through the loop body; in the recursive ones [E] is the equation of
   the remaining iterations and [IH] the induction hypothesis *)
Ltac clear_cases n IH :=
  induction n as [|n IH]; intros ctrl resv seen os t x rs H; cbn [clear_iter] in H;
  [ inv H
  | destruct os as [|o os1]; [ inv H |
    destruct o as [v|cc|e];
    [ destruct (v =? ERASURE_IN_PROGRESS) eqn:Ev; [ split_rec clear_iter H | inv H ]
    | destruct (cc =? CC_RES_CANCELED) eqn:Ec;
      [ destruct os1 as [|o2 os2]; [ inv H | destruct o2 as [nv|c2|e2]; [ split_rec clear_iter H | inv H | inv H ] ]
      | destruct (cc =? 0) eqn:E0; [ destruct seen; [ split_rec clear_iter H | inv H ] | inv H ] ]
    | inv H ] ] ].

Lemma clear_iter_consumes n : forall ctrl resv seen os t x rs,
  clear_iter n ctrl resv seen os = (t, x, rs) -> outs t ++ rs = os.
Proof.
  clear_cases n IH; cbn [outs app]; try (apply IH in E; rewrite E); reflexivity.
Qed.

Lemma clear_iter_counts n : forall ctrl resv seen os t x rs,
  clear_iter n ctrl resv seen os = (t, x, rs) ->
  (count (is_clear ctrl) t <= n)%nat /\
  (forall k, k <> ctrl -> count (is_clear k) t = 0%nat) /\
  (count is_reserve t <= count is_cancelled t)%nat /\
  count is_send t = 0%nat /\ count is_xfer t = 0%nat.
Proof.
  clear_cases n IH; try (apply IH in E; destruct E as (E1 & E2 & E3 & E4 & E5));
    unfold count in *; cbn [filter is_clear is_reserve is_cancelled is_send is_xfer];
    rewrite ?N.eqb_refl, ?Ec; cbn [length];
    (split; [|split; [|split; [|split]]];
     [ lia | intros k Hk; try specialize (E2 k Hk);
             try (assert (ctrl =? k = false) as -> by (apply N.eqb_neq; congruence)); cbn [length]; lia
     | lia | lia | lia ]).
Qed.

Lemma clear_iter_fresh n : forall ctrl resv seen os t x rs,
  clear_iter n ctrl resv seen os = (t, x, rs) ->
  fresh_ok (Some resv) t = true /\ (forall r, x = Ok r -> cur_resv (Some resv) t = Some r).
Proof.
  clear_cases n IH; try (apply IH in E; destruct E as (E1 & E2));
    cbn [app fresh_ok cur_resv carries]; rewrite ?N.eqb_refl; cbn [andb];
    (split; [ assumption || reflexivity | intros r Hr; (apply E2; exact Hr) || (inv Hr; reflexivity) || discriminate ]).
Qed.

Lemma clear_iter_ends n : forall ctrl resv seen os t x rs,
  clear_iter n ctrl resv seen os = (t, x, rs) -> is_ok x = ends_with (done_ev ctrl) t.
Proof.
  clear_cases n IH; try (apply IH in E; rewrite E, !ends_with_cons; destruct t'; reflexivity);
    unfold ends_with; cbn; rewrite ?N.eqb_refl, ?Ev; try reflexivity.
  all: destruct c2 || destruct e2 || idtac; reflexivity.
Qed.

Ltac in_cases Hin :=
  cbn [app In] in Hin;
  repeat match type of Hin with _ \/ _ => destruct Hin as [Hin|Hin] end.

Lemma clear_iter_propagate n : forall ctrl resv seen os t x rs,
  clear_iter n ctrl resv seen os = (t, x, rs) ->
  (forall c cc, In (ECall c (OCc cc)) t -> cc <> 0 -> (c = CReserve \/ cc <> CC_RES_CANCELED) ->
     x = Err (CCError cc)) /\
  (forall c e, In (ECall c (OExc e)) t -> x = Err e).
Proof.
  clear_cases n IH; try (apply IH in E; destruct E as (E1 & E2));
    (split; [ intros c0 cc0 Hin Hnz Hc | intros c0 e0 Hin ]); in_cases Hin;
    try contradiction; try discriminate;
    try (eapply E1; eassumption); try (eapply E2; eassumption);
    try (inv Hin; try reflexivity; exfalso;
         try (apply N.eqb_eq in Ec; subst; destruct Hc; [discriminate | congruence]);
         try (apply N.eqb_eq in E0; congruence)).
Qed.

Lemma clean_raised {A} o : clean o -> (raised o : res A) <> Err RetryError /\ (raised o : res A) <> Err OutOfFuel.
Proof. destruct o as [v|cc|e]; cbn; intros [H1 H2]; split; congruence. Qed.

Lemma clear_iter_budget n : forall ctrl resv seen os t x rs,
  clear_iter n ctrl resv seen os = (t, x, rs) -> Forall clean os ->
  (x = Err RetryError -> count (is_clear ctrl) t = n) /\
  (x = Err OutOfFuel -> (length os < 2 * n)%nat).
Proof.
  clear_cases n IH; intros Hcl;
    repeat match goal with Hc : Forall clean (_ :: _) |- _ => inv Hc end;
    try (apply IH in E; [destruct E as (E1 & E2) | assumption]);
    unfold count in *; cbn [filter is_clear length app]; rewrite ?N.eqb_refl; cbn [length];
    (split; intros Hx; try discriminate; try (inv Hx);
     try (specialize (E1 eq_refl)); try (specialize (E2 eq_refl)); try lia).
  all: try match goal with Hc : clean (OExc _) |- _ => destruct Hc; congruence end.
  all: try match goal with Hc : clean ?o, Hx : raised ?o = _ |- _ => apply (@clean_raised N) in Hc; destruct Hc; congruence end.
Qed.

Lemma clear_iter_init n : forall ctrl resv seen os t x rs,
  clear_iter n ctrl resv seen os = (t, x, rs) ->
  (forall s, ctrl = INITIATE_ERASE \/ s = true -> init_first s t = true) /\
  existsb (done_ev ctrl) t = is_ok x.
Proof.
  clear_cases n IH; try (apply IH in E; destruct E as (E1 & E2));
    (split; [ intros s Hs | ]); cbn [app init_first existsb done_ev is_ok];
    rewrite ?N.eqb_refl, ?Ev; cbn [andb negb orb]; try reflexivity; try assumption.
  all: try (destruct Hs as [->| ->]; cbn; try apply E1; auto; fail).
  all: try (destruct (ctrl =? INITIATE_ERASE) eqn:Ei; [ try apply E1; try reflexivity; left; apply N.eqb_eq; exact Ei
            | destruct Hs as [->| ->]; [discriminate | cbn; try apply E1; auto] ]).
Qed.

Lemma clear_iter_calls n : forall ctrl resv seen os t x rs,
  clear_iter n ctrl resv seen os = (t, x, rs) -> (length (outs t) <= 2 * n)%nat.
Proof.
  clear_cases n IH; try (apply IH in E); cbn [app outs length]; lia.
Qed.

(* ------------------------------------------------------------------------- *)
(* clear_repository_helper                                                    *)
(* ------------------------------------------------------------------------- *)
Lemma init_ne_status : INITIATE_ERASE <> GET_ERASE_STATUS.
Proof. discriminate. Qed.

Ltac phases_cases H :=
  unfold clear_phases, clear_loop in H;
  match type of H with
  | match clear_iter ?n ?c ?r ?s ?os with _ => _ end = _ =>
    let t1 := fresh "t1" in let x1 := fresh "x1" in let os1 := fresh "os1" in let P1 := fresh "P1" in
    destruct (clear_iter n c r s os) as [[t1 x1] os1] eqn:P1;
    destruct x1 as [r1|e1];
    [ match type of H with
      | match clear_iter ?n ?c ?r ?s ?os with _ => _ end = _ =>
        let t2 := fresh "t2" in let x2 := fresh "x2" in let os2 := fresh "os2" in let P2 := fresh "P2" in
        destruct (clear_iter n c r s os) as [[t2 x2] os2] eqn:P2;
        destruct x2 as [r2|e2]; inv H
      end
    | inv H ]
  end.

Lemma phases_counts retry resv os t x rs :
  clear_phases retry resv os = (t, x, rs) ->
  (count (is_clear INITIATE_ERASE) t <= pred retry)%nat /\
  (count (is_clear GET_ERASE_STATUS) t <= pred retry)%nat /\
  (forall k, k <> INITIATE_ERASE -> k <> GET_ERASE_STATUS -> count (is_clear k) t = 0%nat) /\
  (count is_reserve t <= count is_cancelled t)%nat /\
  count is_send t = 0%nat /\ count is_xfer t = 0%nat /\
  outs t ++ rs = os /\ (length (outs t) <= 4 * pred retry)%nat.
Proof.
  intros H. pose proof init_ne_status as Hne. phases_cases H.
  1,2: pose proof (clear_iter_counts _ _ _ _ _ _ _ _ P1) as (A1 & A2 & A3 & A4 & A5);
       pose proof (clear_iter_counts _ _ _ _ _ _ _ _ P2) as (B1 & B2 & B3 & B4 & B5);
       pose proof (clear_iter_consumes _ _ _ _ _ _ _ _ P1) as C1;
       pose proof (clear_iter_consumes _ _ _ _ _ _ _ _ P2) as C2;
       pose proof (clear_iter_calls _ _ _ _ _ _ _ _ P1) as D1;
       pose proof (clear_iter_calls _ _ _ _ _ _ _ _ P2) as D2;
       pose proof (A2 GET_ERASE_STATUS ltac:(congruence)); pose proof (B2 INITIATE_ERASE ltac:(congruence));
       (splits; [ | | intros k K1 K2 | | | | | ]);
       rewrite ?count_app, ?count_cons, ?outs_app, ?app_length;
       cbn [is_clear is_reserve is_cancelled is_send is_xfer outs];
       try (rewrite (A2 k K1), (B2 k K2)); try lia;
       rewrite <- C1, <- C2, <- app_assoc; reflexivity.
  pose proof (clear_iter_counts _ _ _ _ _ _ _ _ P1) as (A1 & A2 & A3 & A4 & A5).
  pose proof (clear_iter_consumes _ _ _ _ _ _ _ _ P1) as C1.
  pose proof (clear_iter_calls _ _ _ _ _ _ _ _ P1) as D1.
  pose proof (A2 GET_ERASE_STATUS ltac:(congruence)).
  splits; try lia; try assumption. intros k K1 K2. apply A2; assumption.
Qed.

Lemma phases_fresh retry resv os t x rs :
  clear_phases retry resv os = (t, x, rs) -> fresh_ok (Some resv) t = true.
Proof.
  intros H. phases_cases H.
  1,2: pose proof (clear_iter_fresh _ _ _ _ _ _ _ _ P1) as (A1 & A2);
       pose proof (clear_iter_fresh _ _ _ _ _ _ _ _ P2) as (B1 & B2);
       rewrite fresh_ok_app, A1, (A2 _ eq_refl); cbn [fresh_ok andb]; exact B1.
  apply (clear_iter_fresh _ _ _ _ _ _ _ _ P1).
Qed.

Lemma phases_init retry resv os t x rs :
  clear_phases retry resv os = (t, x, rs) -> init_first false t = true.
Proof.
  intros H. phases_cases H.
  1,2: pose proof (clear_iter_init _ _ _ _ _ _ _ _ P1) as (A1 & A2);
       pose proof (clear_iter_init _ _ _ _ _ _ _ _ P2) as (B1 & B2);
       apply init_first_app; split; [apply A1; left; reflexivity|];
       rewrite A2; cbn [is_ok orb init_first]; apply B1; right; reflexivity.
  apply (clear_iter_init _ _ _ _ _ _ _ _ P1). left; reflexivity.
Qed.

Lemma done_is_clear k e : done_ev k e = true -> is_clear k e = true.
Proof. destruct e as [[| c r | r |] [v|cc|x]|ms]; cbn; try discriminate. intros H. apply andb_prop in H. tauto. Qed.
Lemma ends_with_count k t : count (is_clear k) t = 0%nat -> ends_with (done_ev k) t = false.
Proof.
  induction t as [|e t IH]; [reflexivity|]. rewrite count_cons, ends_with_cons. intros H.
  destruct (is_clear k e) eqn:E; [discriminate|]. destruct t as [|e' t].
  - destruct (done_ev k e) eqn:D; [apply done_is_clear in D; congruence | reflexivity].
  - apply IH. exact H.
Qed.

Lemma phases_ends retry resv os t x rs :
  clear_phases retry resv os = (t, x, rs) -> is_ok x = ends_with (done_ev GET_ERASE_STATUS) t.
Proof.
  intros H. pose proof init_ne_status as Hne. phases_cases H.
  1,2: pose proof (clear_iter_ends _ _ _ _ _ _ _ _ P2) as B;
       rewrite ends_with_app, ends_with_cons; cbn [is_ok] in *; rewrite B; destruct t2; reflexivity.
  pose proof (clear_iter_counts _ _ _ _ _ _ _ _ P1) as (A1 & A2 & _).
  symmetry. apply ends_with_count. apply A2. congruence.
Qed.

Lemma phases_propagate retry resv os t x rs :
  clear_phases retry resv os = (t, x, rs) ->
  (forall c cc, In (ECall c (OCc cc)) t -> cc <> 0 -> (c = CReserve \/ cc <> CC_RES_CANCELED) ->
     x = Err (CCError cc)) /\
  (forall c e, In (ECall c (OExc e)) t -> x = Err e).
Proof.
  intros H. phases_cases H.
  1,2: pose proof (clear_iter_propagate _ _ _ _ _ _ _ _ P1) as (A1 & A2);
       pose proof (clear_iter_propagate _ _ _ _ _ _ _ _ P2) as (B1 & B2);
       (split; [intros c cc Hin Hz Hc | intros c e Hin]); apply in_app_or in Hin; destruct Hin as [Hin|[Hin|Hin]];
       try discriminate;
       try (specialize (A1 _ _ Hin Hz Hc); discriminate); try (specialize (A2 _ _ Hin); discriminate);
       try (specialize (B1 _ _ Hin Hz Hc); congruence); try (specialize (B2 _ _ Hin); congruence).
  pose proof (clear_iter_propagate _ _ _ _ _ _ _ _ P1) as (A1 & A2).
  split; [intros c cc Hin Hz Hc; specialize (A1 _ _ Hin Hz Hc) | intros c e Hin; specialize (A2 _ _ Hin)]; congruence.
Qed.

Lemma phases_budget retry resv os t x rs :
  clear_phases retry resv os = (t, x, rs) -> Forall clean os ->
  (x = Err RetryError ->
     count (is_clear INITIATE_ERASE) t = pred retry \/ count (is_clear GET_ERASE_STATUS) t = pred retry) /\
  (x = Err OutOfFuel -> (length os < 4 * pred retry)%nat).
Proof.
  intros H Hcl. pose proof init_ne_status as Hne. phases_cases H.
  1,2: pose proof (clear_iter_consumes _ _ _ _ _ _ _ _ P1) as C1;
       pose proof (clear_iter_calls _ _ _ _ _ _ _ _ P1) as D1;
       pose proof (clear_iter_counts _ _ _ _ _ _ _ _ P1) as (_ & A2 & _);
       assert (Forall clean os1) as Hcl1 by (rewrite <- C1 in Hcl; apply Forall_app in Hcl; tauto);
       pose proof (clear_iter_budget _ _ _ _ _ _ _ _ P2 Hcl1) as (B1 & B2);
       (split; intros Hx; [| rewrite <- C1, app_length]; try discriminate; inv Hx;
        first [ right; rewrite count_app, count_cons, (A2 GET_ERASE_STATUS ltac:(congruence)); cbn [is_clear];
                rewrite (B1 eq_refl); reflexivity
              | specialize (B2 eq_refl); lia ]).
  pose proof (clear_iter_budget _ _ _ _ _ _ _ _ P1 Hcl) as (B1 & B2).
  split; intros Hx; inv Hx; [left; auto | specialize (B2 eq_refl); lia].
Qed.

(* lifting over "if reservation is None: reservation = reserve_fn()" *)
Ltac helper_cases H :=
  unfold clear_repository_helper in H;
  match type of H with
  | match ?resv with _ => _ end = _ =>
    destruct resv as [r0|];
    [ | match type of H with
        | match ?os with _ => _ end = _ =>
          destruct os as [|o0 os0]; [ inv H | destruct o0 as [v0|cc0|e0]; [ split_rec clear_phases H | inv H | inv H ] ]
        end ]
  end.

Definition initial_reserves (resv : option N) : nat := match resv with Some _ => 0%nat | None => 1%nat end.

Lemma helper_counts retry resv os t x rs :
  clear_repository_helper retry resv os = (t, x, rs) ->
  (count (is_clear INITIATE_ERASE) t <= pred retry)%nat /\
  (count (is_clear GET_ERASE_STATUS) t <= pred retry)%nat /\
  (forall k, k <> INITIATE_ERASE -> k <> GET_ERASE_STATUS -> count (is_clear k) t = 0%nat) /\
  (count is_reserve t <= initial_reserves resv + count is_cancelled t)%nat /\
  count is_send t = 0%nat /\ count is_xfer t = 0%nat /\
  outs t ++ rs = os /\ (length (outs t) <= 4 * pred retry + initial_reserves resv)%nat.
Proof.
  intros H. helper_cases H; cbn [initial_reserves].
  - apply phases_counts in H. destruct H as (A1 & A2 & A3 & A4 & A5 & A6 & A7 & A8). splits; auto; lia.
  - splits; cbn; auto; lia.
  - apply phases_counts in E. destruct E as (A1 & A2 & A3 & A4 & A5 & A6 & A7 & A8).
    cbn [app]. rewrite !count_cons. cbn [is_clear is_reserve is_cancelled is_send is_xfer outs length].
    splits; try lia; [intros k K1 K2; rewrite count_cons; cbn [is_clear]; rewrite (A3 k K1 K2); reflexivity
                     | rewrite <- A7; reflexivity].
  - splits; cbn; auto; lia.
  - splits; cbn; auto; lia.
Qed.

Lemma helper_fresh retry resv os t x rs :
  clear_repository_helper retry resv os = (t, x, rs) -> fresh_ok resv t = true.
Proof.
  intros H. helper_cases H; try reflexivity.
  - eapply phases_fresh; eauto.
  - cbn. eapply phases_fresh; eauto.
Qed.

Lemma helper_init retry resv os t x rs :
  clear_repository_helper retry resv os = (t, x, rs) -> init_first false t = true.
Proof.
  intros H. helper_cases H; try reflexivity.
  - eapply phases_init; eauto.
  - cbn. eapply phases_init; eauto.
Qed.

Lemma helper_ends retry resv os t x rs :
  clear_repository_helper retry resv os = (t, x, rs) -> is_ok x = ends_with (done_ev GET_ERASE_STATUS) t.
Proof.
  intros H. helper_cases H; try reflexivity.
  - eapply phases_ends; eauto.
  - apply phases_ends in E. rewrite E. cbn [app]. rewrite ends_with_cons. destruct t'; reflexivity.
Qed.

Lemma helper_propagate retry resv os t x rs :
  clear_repository_helper retry resv os = (t, x, rs) ->
  (forall c cc, In (ECall c (OCc cc)) t -> cc <> 0 -> (c = CReserve \/ cc <> CC_RES_CANCELED) ->
     x = Err (CCError cc)) /\
  (forall c e, In (ECall c (OExc e)) t -> x = Err e).
Proof.
  intros H. helper_cases H.
  - eapply phases_propagate; eauto.
  - split; intros; contradiction.
  - apply phases_propagate in E. destruct E as (A1 & A2).
    split; [intros c cc Hin Hz Hc | intros c e Hin]; destruct Hin as [Hin|Hin]; try discriminate; eauto.
  - split; [intros c cc Hin Hz Hc | intros c e Hin]; destruct Hin as [Hin|[]]; inv Hin; reflexivity.
  - split; [intros c cc Hin Hz Hc | intros c e Hin]; destruct Hin as [Hin|[]]; inv Hin; reflexivity.
Qed.

Lemma helper_budget retry resv os t x rs :
  clear_repository_helper retry resv os = (t, x, rs) -> Forall clean os ->
  (x = Err RetryError ->
     count (is_clear INITIATE_ERASE) t = pred retry \/ count (is_clear GET_ERASE_STATUS) t = pred retry) /\
  (x = Err OutOfFuel -> (length os < 4 * pred retry + initial_reserves resv)%nat).
Proof.
  intros H Hcl. helper_cases H; cbn [initial_reserves].
  - pose proof (phases_budget _ _ _ _ _ _ H Hcl) as (A & B). split; auto. intros Hx. specialize (B Hx). lia.
  - split; intros Hx; [discriminate | cbn; lia].
  - inv Hcl. pose proof (phases_budget _ _ _ _ _ _ E H2) as (A & B). split; intros Hx.
    + cbn [app]. rewrite !count_cons. cbn [is_clear]. auto.
    + specialize (B Hx). cbn [length]. lia.
  - split; intros Hx; discriminate.
  - inv Hcl. destruct H1. split; intros Hx; cbn in Hx; congruence.
Qed.

(* ------------------------------------------------------------------------- *)
(* get_sdr_chunk_helper                                                       *)
(* ------------------------------------------------------------------------- *)
Ltac chunk_cases n IH :=
  induction n as [|n IH]; intros resv os t x rs H; cbn [chunk_iter] in H;
  [ inv H
  | destruct os as [|o os1]; [ inv H |
    destruct o as [cc|cc|e];
    [ destruct (cc =? 0) eqn:E0; [ inv H |
      destruct (cc =? CC_RES_CANCELED) eqn:Ec;
      [ destruct os1 as [|o2 os2]; [ inv H | destruct o2 as [nv|c2|e2]; [ split_rec chunk_iter H | inv H | inv H ] ]
      | destruct (cc =? CC_TIMEOUT) eqn:Et; [ split_rec chunk_iter H |
        destruct (cc =? CC_RESP_COULD_NOT_BE_PRV) eqn:Eu; [ split_rec chunk_iter H | inv H ] ] ] ]
    | inv H | inv H ] ] ].

Definition sent_ok (e : event) : bool :=
  match e with ECall (CSend _) (OVal cc) => cc =? 0 | _ => false end.

Lemma chunk_iter_consumes n : forall resv os t x rs,
  chunk_iter n resv os = (t, x, rs) -> outs t ++ rs = os.
Proof. chunk_cases n IH; cbn [outs app]; try (apply IH in E; rewrite E); reflexivity. Qed.

Lemma chunk_iter_counts n : forall resv os t x rs,
  chunk_iter n resv os = (t, x, rs) ->
  (count is_send t <= n)%nat /\ (count is_reserve t <= count is_cancelled t)%nat /\
  (forall k, count (is_clear k) t = 0%nat) /\ count is_xfer t = 0%nat /\
  (length (outs t) <= 2 * n)%nat.
Proof.
  chunk_cases n IH; try (apply IH in E; destruct E as (E1 & E2 & E3 & E4 & E5));
    cbn [app]; rewrite ?count_cons; cbn [is_send is_reserve is_cancelled is_clear is_xfer outs length];
    rewrite ?Ec; try (apply N.eqb_eq in Et; subst cc); try (apply N.eqb_eq in Eu; subst cc);
    (splits; [ | | intros k; rewrite ?count_cons; cbn [is_clear]; try rewrite (E3 k) | | ]);
    try reflexivity; try (cbn; lia).
Qed.

Lemma chunk_iter_fresh n : forall resv os t x rs,
  chunk_iter n resv os = (t, x, rs) ->
  fresh_ok (Some resv) t = true /\ (forall r, x = Ok r -> cur_resv (Some resv) t = Some r).
Proof.
  chunk_cases n IH; try (apply IH in E; destruct E as (E1 & E2));
    cbn [app fresh_ok cur_resv carries]; rewrite ?N.eqb_refl; cbn [andb];
    (split; [ assumption || reflexivity | intros r Hr; (apply E2; exact Hr) || (inv Hr; reflexivity) || discriminate ]).
Qed.

Lemma chunk_iter_ends n : forall resv os t x rs,
  chunk_iter n resv os = (t, x, rs) -> is_ok x = ends_with sent_ok t.
Proof.
  chunk_cases n IH; try (apply IH in E; cbn [app]; rewrite E, !ends_with_cons; destruct t'; reflexivity);
    unfold ends_with; cbn; rewrite ?E0; try reflexivity.
  all: destruct c2 || destruct e2 || idtac; reflexivity.
Qed.

Lemma chunk_iter_propagate n : forall resv os t x rs,
  chunk_iter n resv os = (t, x, rs) ->
  (forall r cc, In (ECall (CSend r) (OVal cc)) t -> cc <> 0 -> cc <> CC_RES_CANCELED -> cc <> CC_TIMEOUT ->
     cc <> CC_RESP_COULD_NOT_BE_PRV -> x = Err (CCError cc)) /\
  (forall c cc, In (ECall c (OCc cc)) t -> x = Err (CCError cc)) /\
  (forall c e, In (ECall c (OExc e)) t -> x = Err e).
Proof.
  chunk_cases n IH; try (apply IH in E; destruct E as (E1 & E2 & E3));
    (splits; [ intros r0 cc0 Hin Hz H5 H3 He | intros c0 cc0 Hin | intros c0 e0 Hin ]); in_cases Hin;
    try contradiction; try discriminate;
    try (eapply E1; eassumption); try (eapply E2; eassumption); try (eapply E3; eassumption);
    try (inv Hin; try reflexivity; exfalso;
         try (apply N.eqb_eq in E0; congruence); try (apply N.eqb_eq in Ec; congruence);
         try (apply N.eqb_eq in Et; congruence); try (apply N.eqb_eq in Eu; congruence)).
Qed.

Lemma chunk_iter_budget n : forall resv os t x rs,
  chunk_iter n resv os = (t, x, rs) -> Forall clean os ->
  (x = Err RetryError -> count is_send t = n) /\
  (x = Err OutOfFuel -> (length os < 2 * n)%nat).
Proof.
  chunk_cases n IH; intros Hcl;
    repeat match goal with Hc : Forall clean (_ :: _) |- _ => inv Hc end;
    try (apply IH in E; [destruct E as (E1 & E2) | assumption]);
    cbn [app]; rewrite ?count_cons; cbn [is_send length];
    (split; intros Hx; try discriminate; try (inv Hx);
     try (specialize (E1 eq_refl)); try (specialize (E2 eq_refl)); try (cbn; lia)).
  all: try match goal with Hc : clean (OExc _) |- _ => destruct Hc; congruence end.
  all: try match goal with Hc : clean ?o, Hx : raised ?o = _ |- _ => apply (@clean_raised N) in Hc; destruct Hc; congruence end.
Qed.

(* ------------------------------------------------------------------------- *)
(* Ipmi.send_message                                                          *)
(* ------------------------------------------------------------------------- *)
Ltac send_cases n IH :=
  induction n as [|n IH]; intros os t x rs H; cbn [send_loop] in H;
  [ inv H
  | destruct os as [|o os1]; [ inv H |
    destruct o as [v|cc|e];
    [ inv H | destruct (cc =? CC_NODE_BUSY) eqn:Eb; [ split_rec send_loop H | inv H ] | inv H ] ] ].

Definition busy_ev : event := ECall CXfer (OCc CC_NODE_BUSY).
Definition got_rsp (e : event) : bool := match e with ECall CXfer (OVal _) => true | _ => false end.

Lemma send_consumes n : forall os t x rs, send_loop n os = (t, x, rs) -> outs t ++ rs = os.
Proof. send_cases n IH; cbn [outs app]; try (apply IH in E; rewrite E); reflexivity. Qed.

Lemma send_counts n : forall os t x rs, send_loop n os = (t, x, rs) ->
  (count is_xfer t <= n)%nat /\ length t = count is_xfer t.
Proof.
  send_cases n IH; try (apply IH in E; destruct E as (E1 & E2)); cbn [app]; rewrite ?count_cons;
    cbn [is_xfer length]; split; try (cbn; lia).
Qed.

Lemma send_busy_only n : forall os t x rs, send_loop n os = (t, x, rs) ->
  Forall (fun e => e = busy_ev) (removelast t).
Proof.
  send_cases n IH; try (cbn; constructor; fail).
  apply IH in E. cbn [app]. destruct t' as [|e' t'']; [cbn; constructor|].
  change (removelast (ECall CXfer (OCc cc) :: e' :: t'')) with (ECall CXfer (OCc cc) :: removelast (e' :: t'')).
  constructor; [|exact E]. apply N.eqb_eq in Eb. subst cc. reflexivity.
Qed.

Lemma send_ends n : forall os t x rs, send_loop n os = (t, x, rs) ->
  is_ok x = ends_with got_rsp t /\ (forall v, x = Ok v -> lastev t = Some (ECall CXfer (OVal v))).
Proof.
  send_cases n IH; try (split; [reflexivity | intros v0 Hv; inv Hv; reflexivity]).
  apply IH in E. destruct E as (E1 & E2). cbn [app]. split.
  - rewrite E1, ends_with_cons. destruct t'; reflexivity.
  - intros v Hv. specialize (E2 v Hv). change (ECall CXfer (OCc cc) :: t') with ([ECall CXfer (OCc cc)] ++ t').
    rewrite lastev_app, E2. reflexivity.
Qed.

Lemma send_propagate n : forall os t x rs, send_loop n os = (t, x, rs) ->
  (forall c cc, In (ECall c (OCc cc)) t -> cc <> CC_NODE_BUSY -> x = Err (CCError cc)) /\
  (forall c e, In (ECall c (OExc e)) t -> x = Err e).
Proof.
  send_cases n IH; try (apply IH in E; destruct E as (E1 & E2));
    (split; [ intros c0 cc0 Hin Hb | intros c0 e0 Hin ]); in_cases Hin;
    try contradiction; try discriminate; try (eapply E1; eassumption); try (eapply E2; eassumption);
    try (inv Hin; try reflexivity; exfalso; apply N.eqb_eq in Eb; congruence).
Qed.

Lemma send_budget n : forall os t x rs, send_loop n os = (t, x, rs) -> Forall clean os ->
  (x = Err RetryError -> count is_xfer t = n /\ Forall (fun e => e = busy_ev) t) /\
  (x = Err OutOfFuel -> (length os < n)%nat).
Proof.
  send_cases n IH; intros Hcl;
    repeat match goal with Hc : Forall clean (_ :: _) |- _ => inv Hc end;
    try (apply IH in E; [destruct E as (E1 & E2) | assumption]);
    cbn [app]; rewrite ?count_cons; cbn [is_xfer length];
    (split; intros Hx; try discriminate; try (inv Hx);
     try (specialize (E1 eq_refl)); try (specialize (E2 eq_refl)); try (cbn; lia)).
  all: try match goal with Hc : clean (OExc _) |- _ => destruct Hc; congruence end.
  - split; [reflexivity | constructor].
  - destruct (E1 Hx) as (E3 & E4). split; [lia|]. constructor; [|exact E4]. apply N.eqb_eq in Eb. subst cc. reflexivity.
Qed.

(* what the repair changes: on the unrepaired loop a non-busy code is followed by a resend *)
Lemma unrepaired_resends :
  exists os t x rs, send_loop_unrepaired 3 os = (t, x, rs) /\
    ~ Forall (fun e => e = busy_ev) (removelast t).
Proof.
  exists [OCc 0xC1; OVal 7], [ECall CXfer (OCc 0xC1); ECall CXfer (OVal 7)], (Ok 7), [].
  split; [reflexivity|]. cbn. intros H. inv H. discriminate.
Qed.

(* ------------------------------------------------------------------------- *)
(* statements at the level of the modelled entry points                       *)
(* ------------------------------------------------------------------------- *)
Lemma chunk_helper_eq retry resv os :
  (1 <= retry)%nat -> get_sdr_chunk_helper retry resv os = chunk_iter (pred retry) resv os.
Proof. destruct retry; [lia | reflexivity]. Qed.

Lemma chunk_helper_counts retry resv os t x rs :
  (1 <= retry)%nat -> get_sdr_chunk_helper retry resv os = (t, x, rs) ->
  (count is_send t <= pred retry)%nat /\ (count is_reserve t <= count is_cancelled t)%nat /\
  (forall k, count (is_clear k) t = 0%nat) /\ count is_xfer t = 0%nat /\
  (length (outs t) <= 2 * pred retry)%nat /\ outs t ++ rs = os.
Proof.
  intros Hr H. rewrite chunk_helper_eq in H by exact Hr.
  pose proof (chunk_iter_counts _ _ _ _ _ _ H) as (A1 & A2 & A3 & A4 & A5).
  pose proof (chunk_iter_consumes _ _ _ _ _ _ H). tauto.
Qed.
Lemma chunk_helper_fresh retry resv os t x rs :
  (1 <= retry)%nat -> get_sdr_chunk_helper retry resv os = (t, x, rs) ->
  fresh_ok (Some resv) t = true /\ (forall r, x = Ok r -> cur_resv (Some resv) t = Some r).
Proof. intros Hr H. rewrite chunk_helper_eq in H by exact Hr. eapply chunk_iter_fresh; eauto. Qed.
Lemma chunk_helper_ends retry resv os t x rs :
  (1 <= retry)%nat -> get_sdr_chunk_helper retry resv os = (t, x, rs) -> is_ok x = ends_with sent_ok t.
Proof. intros Hr H. rewrite chunk_helper_eq in H by exact Hr. eapply chunk_iter_ends; eauto. Qed.
Lemma chunk_helper_propagate retry resv os t x rs :
  (1 <= retry)%nat -> get_sdr_chunk_helper retry resv os = (t, x, rs) ->
  (forall r cc, In (ECall (CSend r) (OVal cc)) t -> cc <> 0 -> cc <> CC_RES_CANCELED -> cc <> CC_TIMEOUT ->
     cc <> CC_RESP_COULD_NOT_BE_PRV -> x = Err (CCError cc)) /\
  (forall c cc, In (ECall c (OCc cc)) t -> x = Err (CCError cc)) /\
  (forall c e, In (ECall c (OExc e)) t -> x = Err e).
Proof. intros Hr H. rewrite chunk_helper_eq in H by exact Hr. eapply chunk_iter_propagate; eauto. Qed.
Lemma chunk_helper_budget retry resv os t x rs :
  (1 <= retry)%nat -> get_sdr_chunk_helper retry resv os = (t, x, rs) -> Forall clean os ->
  (x = Err RetryError -> count is_send t = pred retry) /\
  (x = Err OutOfFuel -> (length os < 2 * pred retry)%nat).
Proof. intros Hr H. rewrite chunk_helper_eq in H by exact Hr. eapply chunk_iter_budget; eauto. Qed.

Lemma send_message_counts retry os t x rs :
  send_message retry os = (t, x, rs) ->
  (count is_xfer t <= retry)%nat /\ length t = count is_xfer t /\ outs t ++ rs = os.
Proof.
  intros H. pose proof (send_counts _ _ _ _ _ H) as (A & B). pose proof (send_consumes _ _ _ _ _ H). tauto.
Qed.

(* "repeated only after node-busy": every send that is followed by another one was
   answered with CompletionCodeError(node busy) *)
Lemma send_message_busy_only retry os t x rs :
  send_message retry os = (t, x, rs) ->
  forall a e b, t = a ++ e :: b -> b <> [] -> e = busy_ev.
Proof.
  intros H a e b -> Hb. apply send_busy_only in H.
  rewrite removelast_app in H by discriminate.
  apply Forall_app in H as [_ H]. destruct b as [|e' b]; [congruence|].
  change (removelast (e :: e' :: b)) with (e :: removelast (e' :: b)) in H. inv H. reflexivity.
Qed.

Lemma unrepaired_resends_split :
  exists retry os t x rs a e b, send_loop_unrepaired retry os = (t, x, rs) /\
    t = a ++ e :: b /\ b <> [] /\ e <> busy_ev.
Proof.
  exists 3%nat, [OCc 0xC1; OVal 7], [ECall CXfer (OCc 0xC1); ECall CXfer (OVal 7)], (Ok 7), [],
    [], (ECall CXfer (OCc 0xC1)), [ECall CXfer (OVal 7)].
  repeat split; discriminate.
Qed.
