(* Proofs about Model/FruParse.v against Model/FruSpec.v (C15): the parser inverts the
   independent encoder. *)
From Coq Require Import String.
From Coq Require Import NArith List Lia ZArith ZifyN ZifyBool ZifyNat Bool.
From PyIpmi Require Import Lib.Res Lib.Bytes Lib.Bits Gen.FruTables Model.FruParse Model.FruSpec.
Import ListNotations.
Open Scope N_scope.
Ltac Zify.zify_post_hook ::= Z.to_euclidean_division_equations.

(* the translator understood both constants (fail-closed: otherwise this breaks) *)
Lemma fru_tables_translated : fru_tables_untranslated = None.
Proof. reflexivity. Qed.
Lemma custom_field_end_c1 : custom_field_end = 0xc1.
Proof. reflexivity. Qed.

(* ---- byte-level bit identities, by exhaustion over the 256 byte values ---- *)
Definition all_bytes : list N := map N.of_nat (seq 0 256).
Lemma byte_forall (P : N -> bool) : forallb P all_bytes = true -> forall x, x < 256 -> P x = true.
Proof.
  intros H x Hx. rewrite forallb_forall in H. apply H. unfold all_bytes.
  apply in_map_iff. exists (N.to_nat x). split; [lia | apply in_seq; lia].
Qed.
Lemma byte_bits x : x < 256 ->
  N.land x 0x3f = x mod 64 /\ N.shiftr (N.land x 0xc0) 6 = x / 64 /\
  N.land x 0xf = x mod 16 /\ N.shiftr (N.land x 0xf0) 4 = x / 16 /\
  N.land x 0x3 = x mod 4 /\ N.shiftr (N.land x 0xfc) 2 = x / 4 /\
  N.land (N.shiftr x 6) 0x3 = x / 64 /\ N.land (N.shiftr x 4) 0xf = x / 16.
Proof.
  intros Hx.
  pose proof (byte_forall (fun x =>
    (N.land x 0x3f =? x mod 64) && (N.shiftr (N.land x 0xc0) 6 =? x / 64) &&
    (N.land x 0xf =? x mod 16) && (N.shiftr (N.land x 0xf0) 4 =? x / 16) &&
    (N.land x 0x3 =? x mod 4) && (N.shiftr (N.land x 0xfc) 2 =? x / 4) &&
    (N.land (N.shiftr x 6) 0x3 =? x / 64) && (N.land (N.shiftr x 4) 0xf =? x / 16))
    ltac:(vm_compute; reflexivity) x Hx) as H.
  cbv beta in H. repeat (apply andb_prop in H as [H ?]).
  repeat split; now apply N.eqb_eq.
Qed.

(* ---- list helpers ---- *)
Lemma firstn_app_len {A} (a b : list A) : firstn (length a) (a ++ b) = a.
Proof. now apply firstn_app_exact. Qed.
Lemma skipn_app_len {A} (a b : list A) : skipn (length a) (a ++ b) = b.
Proof. now apply skipn_app_exact. Qed.

Lemma pair_ind {A} (P : list A -> Prop) :
  P [] -> (forall a, P [a]) -> (forall a b r, P r -> P (a :: b :: r)) -> forall l, P l.
Proof.
  intros H0 H1 H2. fix IH 1. intros [|a [|b r]]; [exact H0 | apply H1 | apply H2, IH].
Qed.
Lemma quad_ind {A} (P : list A -> Prop) :
  P [] -> (forall a, P [a]) -> (forall a b, P [a; b]) -> (forall a b c, P [a; b; c]) ->
  (forall a b c d r, P r -> P (a :: b :: c :: d :: r)) -> forall l, P l.
Proof.
  intros H0 H1 H2 H3 H4. fix IH 1.
  intros [|a [|b [|c [|d r]]]]; [exact H0 | apply H1 | apply H2 | apply H3 | apply H4, IH].
Qed.

(* ---- BCD plus ---- *)
Lemma bcd_char_code c : bcd_char_ok c = true -> bcd_code c < 13 /\ bcd_char (bcd_code c) = Ok [c].
Proof.
  unfold bcd_char_ok, bcd_code.
  destruct ((48 <=? c) && (c <=? 57)) eqn:E1.
  - intros _. split; [lia|].
    assert (H : c = 48 \/ c = 49 \/ c = 50 \/ c = 51 \/ c = 52 \/ c = 53 \/ c = 54 \/ c = 55 \/
                c = 56 \/ c = 57) by lia.
    repeat (destruct H as [-> | H]; [reflexivity|]). subst; reflexivity.
  - destruct (c =? 32) eqn:E2; [apply N.eqb_eq in E2; subst; intros _; split; [lia | reflexivity]|].
    destruct (c =? 45) eqn:E3; [apply N.eqb_eq in E3; subst; intros _; split; [lia | reflexivity]|].
    destruct (c =? 46) eqn:E4; [apply N.eqb_eq in E4; subst; intros _; split; [lia | reflexivity]|].
    cbn. discriminate.
Qed.

Lemma bcd_roundtrip s : forallb bcd_char_ok s = true -> Nat.even (length s) = true ->
  bcd_decode (enc_bcd s) = Ok s.
Proof.
  induction s as [|a|a b r IH] using pair_ind; intros Hc He; [reflexivity | discriminate |].
  cbn in Hc. apply andb_prop in Hc as [Ha Hc]. apply andb_prop in Hc as [Hb Hc].
  destruct (bcd_char_code a Ha) as [Ha1 Ha2]. destruct (bcd_char_code b Hb) as [Hb1 Hb2].
  cbn [enc_bcd bcd_decode].
  destruct (byte_bits (16 * bcd_code a + bcd_code b) ltac:(lia)) as (_ & _ & Hlo & _ & _ & _ & _ & Hhi).
  rewrite Hhi, Hlo.
  replace ((16 * bcd_code a + bcd_code b) / 16) with (bcd_code a) by lia.
  replace ((16 * bcd_code a + bcd_code b) mod 16) with (bcd_code b) by lia.
  rewrite Ha2, Hb2. cbn [bind]. rewrite IH by assumption. reflexivity.
Qed.

Lemma enc_bcd_length s : Nat.even (length s) = true -> (2 * length (enc_bcd s) = length s)%nat.
Proof.
  induction s as [|a|a b r IH] using pair_ind; intros He; [reflexivity | discriminate |].
  cbn [enc_bcd length]. cbn in He. specialize (IH He). lia.
Qed.

(* ---- 6-bit ASCII ---- *)
Lemma quad_bytes d0 d1 d2 : d0 < 256 -> d1 < 256 -> d2 < 256 ->
  quad d0 d1 d2 = [32 + d0 mod 64; 32 + (d0 / 64 + d1 mod 16 * 4);
                   32 + (d1 / 16 + d2 mod 4 * 16); 32 + d2 / 4].
Proof.
  intros H0 H1 H2. unfold quad.
  destruct (byte_bits d0 H0) as (A1 & A2 & _).
  destruct (byte_bits d1 H1) as (_ & _ & B3 & B4 & _).
  destruct (byte_bits d2 H2) as (_ & _ & _ & _ & C5 & C6 & _).
  rewrite A1, A2, B3, B4, C5, C6.
  rewrite (lor_shift_add (d0 / 64) (d1 mod 16) 2) by (cbn; lia).
  rewrite (lor_shift_add (d1 / 16) (d2 mod 4) 4) by (cbn; lia).
  reflexivity.
Qed.

Lemma six_ok c : six_char_ok c = true -> 32 <= c < 96.
Proof. unfold six_char_ok. lia. Qed.

Lemma unpack6_groups_enc s : forallb six_char_ok s = true -> Nat.modulo (length s) 4 <> 3%nat ->
  (exists pad, unpack6_groups (enc_6bit s) = s ++ pad) /\
  Nat.div (Nat.mul (length (enc_6bit s)) 8) 6 = length s.
Proof.
  induction s as [|a|a b|a b c|a b c d r IH] using quad_ind; intros Hc Hm.
  - split; [exists []; reflexivity | reflexivity].
  - cbn in Hc. rewrite andb_true_r in Hc. apply six_ok in Hc.
    split; [|reflexivity]. cbn [enc_6bit unpack6_groups].
    rewrite quad_bytes by lia. eexists. cbn [app]. f_equal. lia.
  - cbn in Hc. apply andb_prop in Hc as [Ha Hc]. rewrite andb_true_r in Hc.
    apply six_ok in Ha. apply six_ok in Hc.
    split; [|reflexivity]. cbn [enc_6bit unpack6_groups].
    rewrite quad_bytes by lia. eexists. cbn [app]. f_equal; [lia|]. f_equal. lia.
  - cbn in Hm. congruence.
  - cbn in Hc. apply andb_prop in Hc as [Ha Hc]. apply andb_prop in Hc as [Hb Hc].
    apply andb_prop in Hc as [Hc' Hc]. apply andb_prop in Hc as [Hd Hc].
    apply six_ok in Ha. apply six_ok in Hb. apply six_ok in Hc'. apply six_ok in Hd.
    destruct IH as [[pad Hp] Hl]; [assumption| |].
    { cbn [length] in Hm. intros E. apply Hm.
      replace (S (S (S (S (length r))))) with (length r + 1 * 4)%nat by lia.
      now rewrite Nat.mod_add by lia. }
    split.
    + exists pad. cbn [enc_6bit app unpack6_groups]. rewrite quad_bytes by lia. rewrite Hp.
      cbn [app]. repeat (f_equal; try lia).
    + cbn [enc_6bit app length]. cbn [length] in Hl. lia.
Qed.

Lemma six_roundtrip s : forallb six_char_ok s = true -> Nat.modulo (length s) 4 <> 3%nat ->
  unpack6 (enc_6bit s) = s.
Proof.
  intros Hc Hm. destruct (unpack6_groups_enc s Hc Hm) as [[pad Hp] Hl].
  unfold unpack6. rewrite Hl, Hp. apply firstn_app_len.
Qed.

(* ---- one type/length field ---- *)
Lemma type_len_byte t n : t < 4 -> n < 64 ->
  N.land (N.shiftr (t * 64 + n) 6) 3 = t /\ N.land (t * 64 + n) 0x3f = n.
Proof.
  intros Ht Hn. destruct (byte_bits (t * 64 + n) ltac:(lia)) as (A1 & _ & _ & _ & _ & _ & A7 & _).
  rewrite A1, A7. lia.
Qed.

Lemma field_type_lt f : field_type f < 4.
Proof. destruct f; cbn; lia. Qed.

Lemma wf_field_len f : wf_field f = true -> (length (field_payload f) <= 63)%nat.
Proof. unfold wf_field. intros H. apply andb_prop in H as [H _]. now apply Nat.leb_le. Qed.

Lemma tls_enc off f rest : wf_field f = true ->
  tls off (enc_field f ++ rest) = Ok (view_field off f).
Proof.
  intros Hwf. pose proof (wf_field_len f Hwf) as Hlen. pose proof (field_type_lt f) as Ht.
  unfold enc_field, view_field. cbn [app tls].
  destruct (type_len_byte (field_type f) (N.of_nat (length (field_payload f))) Ht ltac:(lia)) as [E1 E2].
  rewrite E1, E2, Nat2N.id, firstn_app_len.
  unfold wf_field in Hwf. apply andb_prop in Hwf as [_ Hwf].
  destruct f as [r|s|s|s]; cbn [field_type field_payload field_string N.eqb Pos.eqb] in *.
  - reflexivity.
  - apply andb_prop in Hwf as [Hc He]. now rewrite bcd_roundtrip.
  - apply andb_prop in Hwf as [Hc Hm]. rewrite six_roundtrip; [reflexivity | assumption|].
    apply negb_true_iff, Nat.eqb_neq in Hm. exact Hm.
  - reflexivity.
Qed.

(* ---- runs of fields ---- *)
Lemma enc_field_length f : length (enc_field f) = S (length (field_payload f)).
Proof. reflexivity. Qed.

Fixpoint fields_span (fs : list sfield) : N :=
  match fs with [] => 0 | f :: r => N.of_nat (length (field_payload f)) + 1 + fields_span r end.

Lemma skipn_enc_field f rest :
  skipn (N.to_nat (N.of_nat (length (field_payload f))) + 1) (enc_field f ++ rest) = rest.
Proof.
  rewrite Nat2N.id. replace (length (field_payload f) + 1)%nat with (length (enc_field f)).
  - apply skipn_app_len.
  - rewrite enc_field_length. lia.
Qed.

Lemma parse_fields_enc fs : forall off rest, forallb wf_field fs = true ->
  parse_fields (length fs) off (enc_fields fs ++ rest) = Ok (view_fields off fs, off + fields_span fs, rest).
Proof.
  induction fs as [|f r IH]; intros off rest Hwf.
  - cbn. now rewrite N.add_0_r.
  - cbn in Hwf. apply andb_prop in Hwf as [Hf Hr].
    unfold enc_fields. cbn [map concat length parse_fields]. rewrite <- app_assoc.
    rewrite tls_enc by assumption. cbn [bind view_field f_len].
    rewrite skipn_enc_field. fold (enc_fields r). rewrite IH by assumption. cbn [bind view_fields fields_span].
    do 3 f_equal. lia.
Qed.

Lemma custom_fields_enc cs : forall fuel off rest, forallb wf_custom cs = true ->
  (length cs < fuel)%nat ->
  custom_fields fuel off (enc_fields cs ++ 0xc1 :: rest) = Ok (view_fields off cs).
Proof.
  induction cs as [|f r IH]; intros fuel off rest Hwf Hfuel.
  - destruct fuel; [cbn in Hfuel; lia|]. cbn. reflexivity.
  - destruct fuel; [cbn in Hfuel; lia|].
    cbn in Hwf. apply andb_prop in Hwf as [Hf Hr]. unfold wf_custom in Hf.
    apply andb_prop in Hf as [Hf Hne].
    unfold enc_fields. cbn [map concat]. rewrite <- app_assoc. fold (enc_fields r).
    cbn [custom_fields]. unfold enc_field at 1. cbn [app].
    rewrite custom_field_end_c1.
    apply negb_true_iff in Hne. rewrite Hne.
    change ((field_type f * 64 + N.of_nat (length (field_payload f))) :: field_payload f ++ enc_fields r ++ 193 :: rest)
      with (enc_field f ++ (enc_fields r ++ 193 :: rest)).
    rewrite tls_enc by assumption. cbn [bind view_field f_len].
    rewrite skipn_enc_field. rewrite IH by (try assumption; cbn in Hfuel; lia).
    reflexivity.
Qed.

Lemma enc_fields_length_ge fs : (length fs <= length (enc_fields fs))%nat.
Proof.
  induction fs as [|f r IH]; [cbn; lia|].
  unfold enc_fields in *. cbn [map concat]. rewrite app_length, enc_field_length. cbn [length]. lia.
Qed.

(* ---- zero-sum ---- *)
Lemma zero_sum_byte_lt l : zero_sum_byte l < 256.
Proof. unfold zero_sum_byte. lia. Qed.
Lemma sum256_zero_sum l : sum256 (l ++ [zero_sum_byte l]) = 0.
Proof. unfold sum256, zero_sum_byte. rewrite sum_app. cbn [sum]. lia. Qed.

(* ---- info areas ---- *)
Lemma area_blocks_fit dated a :
  (2 + length (area_body dated a) + 1 <= area_blocks dated a * 8)%nat /\
  (area_blocks dated a * 8 < 2 + length (area_body dated a) + 1 + 8)%nat.
Proof. unfold area_blocks. lia. Qed.

Lemma enc_area_length dated a : length (enc_area dated a) = (area_blocks dated a * 8)%nat.
Proof.
  pose proof (area_blocks_fit dated a). unfold enc_area.
  rewrite !app_length, repeat_length. cbn [length]. lia.
Qed.

Lemma minutes_le m : m < 16777216 ->
  N.lor (N.lor (N.shiftl (m / 256 / 256 mod 256) 16) (N.shiftl (m / 256 mod 256) 8)) (m mod 256) = m.
Proof.
  intros Hm.
  rewrite (N.lor_comm _ (m mod 256)), (N.lor_comm (N.shiftl _ 16)), N.lor_assoc.
  rewrite (lor_shift_add (m mod 256) _ 8) by (cbn; lia).
  rewrite lor_shift_add by (cbn; lia). cbn. lia.
Qed.

Lemma common_info_gen A blocks rest :
  length A = (blocks * 8)%nat -> sum256 A = 0 ->
  firstn 2 A = [1; N.of_nat blocks] ->
  common_info (A ++ rest) = Ok (1, 8 * N.of_nat blocks).
Proof.
  intros Hlen Hsum Hhd. destruct A as [|a0 [|a1 tl]]; try discriminate.
  cbn in Hhd. injection Hhd as -> ->.
  unfold common_info. cbn [app idx nth_error bind]. change (N.land 1 15) with 1. cbn [N.eqb Pos.eqb negb].
  change (1 :: N.of_nat blocks :: tl ++ rest) with ((1 :: N.of_nat blocks :: tl) ++ rest).
  rewrite firstn_app_exact by (rewrite Hlen; lia). rewrite Hsum. cbn [N.eqb negb].
  do 2 f_equal. lia.
Qed.

Lemma parse_area_enc dated nf a rest : wf_area dated nf a = true ->
  parse_area dated nf (enc_area dated a ++ rest) = Ok (view_area dated a).
Proof.
  unfold wf_area. intros H.
  apply andb_prop in H as [H Hblocks]. apply andb_prop in H as [H Hcust].
  apply andb_prop in H as [H Hflds]. apply andb_prop in H as [H Hnf].
  apply andb_prop in H as [Hb2 Hmin]. apply Nat.eqb_eq in Hnf. apply Nat.leb_le in Hblocks.
  pose proof (enc_area_length dated a) as Hlen. pose proof (area_blocks_fit dated a) as [Hfit _].
  (* the common part *)
  assert (Hci : common_info (enc_area dated a ++ rest) = Ok (1, 8 * N.of_nat (area_blocks dated a))).
  { apply common_info_gen; [exact Hlen | apply sum256_zero_sum | reflexivity]. }
  unfold parse_area. rewrite Hci. cbn [bind]. clear Hci Hlen Hfit.
  unfold enc_area.
  match goal with |- context [repeat 0 ?n] => generalize (repeat 0 n) as pad end. intros pad.
  match goal with |- context [zero_sum_byte ?l] => generalize (zero_sum_byte l) as cs end. intros cs.
  unfold area_body. cbn [app]. rewrite <- !app_assoc. cbn [app].
  set (tail := pad ++ cs :: rest).
  unfold view_area.
  assert (Hcl : (length (sa_custom a) < S (length (enc_fields (sa_custom a) ++ 193%N :: tail)))%nat).
  { rewrite app_length. pose proof (enc_fields_length_ge (sa_custom a)). lia. }
  destruct dated.
  - cbn [le_bytes app idx nth_error bind N.to_nat Pos.to_nat Pos.iter_op Nat.add skipn].
    rewrite minutes_le by lia. change (Pos.to_nat 6) with 6%nat. cbn [skipn].
    rewrite <- Hnf, parse_fields_enc by assumption. cbn [bind].
    unfold decode_custom_fields. rewrite custom_fields_enc by assumption. reflexivity.
  - cbn [app idx nth_error bind N.to_nat Pos.to_nat Pos.iter_op Nat.add skipn].
    change (Pos.to_nat 3) with 3%nat. cbn [skipn].
    rewrite <- Hnf, parse_fields_enc by assumption. cbn [bind].
    unfold decode_custom_fields. rewrite custom_fields_enc by assumption.
    replace (sa_minutes a) with 0 by lia. reflexivity.
Qed.

(* ---- multi records ---- *)
Lemma enc_rec_shape last r : exists h1 h2 h3 h4,
  enc_rec last r = sr_type r :: h1 :: h2 :: h3 :: h4 :: sr_payload r.
Proof. unfold enc_rec. cbn [app]. eauto. Qed.

Lemma enc_rec_length last r : length (enc_rec last r) = (5 + length (sr_payload r))%nat.
Proof. destruct (enc_rec_shape last r) as (? & ? & ? & ? & ->). reflexivity. Qed.

Lemma mr_base_enc last r rest :
  mr_base (enc_rec last r ++ rest) =
  Ok (mkRec (sr_type r) 2 last (N.of_nat (length (sr_payload r))) (sr_payload r) KUnknown).
Proof.
  unfold enc_rec. cbn [app mr_base].
  set (h := [sr_type r; (if last then 128 else 0) + 2; N.of_nat (length (sr_payload r));
             zero_sum_byte (sr_payload r)]).
  change [sr_type r; (if last then 128 else 0) + 2; N.of_nat (length (sr_payload r));
          zero_sum_byte (sr_payload r); zero_sum_byte h] with (h ++ [zero_sum_byte h]).
  rewrite sum256_zero_sum. cbn [N.eqb negb].
  rewrite Nat2N.id, firstn_app_len.
  assert (E : (sum (sr_payload r) + zero_sum_byte (sr_payload r)) mod 256 = 0)
    by (unfold zero_sum_byte; lia).
  rewrite E. cbn [N.eqb negb]. destruct last; reflexivity.
Qed.

Lemma view_rec_eol_len last r :
  r_eol (view_rec last r) = last /\ r_len (view_rec last r) = N.of_nat (length (sr_payload r)).
Proof. unfold view_rec. destruct (sr_type r =? 192); cbn; auto. Qed.

Lemma parse_record_enc last r rest : wf_rec r = true ->
  parse_record (enc_rec last r ++ rest) = Ok (view_rec last r).
Proof.
  unfold wf_rec. intros H. apply andb_prop in H as [H Hp]. apply andb_prop in H as [H Hlen].
  apply andb_prop in H as [Ht Hb].
  pose proof (mr_base_enc last r rest) as Hbase.
  destruct (enc_rec_shape last r) as (h1 & h2 & h3 & h4 & Hs). rewrite Hs in *. clear Hs.
  unfold view_rec. cbn [app parse_record] in *.
  destruct (sr_type r =? 192) eqn:E; [|exact Hbase].
  apply N.eqb_eq in E. rewrite E in *.
  apply andb_prop in Hp as [Hl5 Hp].
  destruct (sr_payload r) as [|p0 [|p1 [|p2 [|p3 [|p4 p']]]]] eqn:Epl; try (cbn in Hl5; discriminate).
  cbn [app] in Hbase. cbn [app length Nat.ltb Nat.leb]. rewrite Hbase. cbn [bind nth r_type r_eol r_len r_raw firstn skipn le_val].
  cbn in Hb. repeat (apply andb_prop in Hb as [? Hb]). unfold is_byte in *.
  assert (Emfr : N.lor (N.lor p0 (N.shiftl p1 8)) (N.shiftl p2 16) = p0 + 256 * (p1 + 256 * (p2 + 256 * 0))).
  { rewrite (lor_shift_add p0 p1 8) by (change (2 ^ 8) with 256; lia).
    rewrite lor_shift_add by (change (2 ^ 8) with 256; change (2 ^ 16) with 65536; lia).
    change (2 ^ 8) with 256; change (2 ^ 16) with 65536. lia. }
  rewrite Emfr.
  destruct (p3 =? 39) eqn:E27; [|reflexivity].
  cbn [nth] in Hp. rewrite E27 in Hp.
  destruct p' as [|p5 [|p6 p'']]; try (cbn in Hp; discriminate).
  cbn [app length Nat.ltb Nat.leb nth firstn skipn le_val].
  cbn in Hb. repeat (apply andb_prop in Hb as [? Hb]). unfold is_byte in *.
  rewrite (lor_shift_add p5 p6 8) by (change (2 ^ 8) with 256; lia). do 3 f_equal.
  change (2 ^ 8) with 256. lia.
Qed.

Lemma parse_records_enc rs : forall fuel rest, rs <> [] -> forallb wf_rec rs = true ->
  (length rs <= fuel)%nat -> parse_records fuel (enc_recs rs ++ rest) = Ok (view_recs rs).
Proof.
  induction rs as [|r rs' IH]; intros fuel rest Hne Hwf Hfuel; [congruence|].
  destruct fuel as [|k]; [cbn in Hfuel; lia|].
  cbn in Hwf. apply andb_prop in Hwf as [Hr Hrs].
  destruct (view_rec_eol_len true r) as [Et Lt]. destruct (view_rec_eol_len false r) as [Ef Lf].
  destruct rs' as [|r' rs''].
  - cbn [enc_recs view_recs parse_records]. rewrite parse_record_enc by assumption. cbn [bind].
    now rewrite Et.
  - change (enc_recs (r :: r' :: rs'')) with (enc_rec false r ++ enc_recs (r' :: rs'')).
    change (view_recs (r :: r' :: rs'')) with (view_rec false r :: view_recs (r' :: rs'')).
    rewrite <- app_assoc. cbn [parse_records]. rewrite parse_record_enc by assumption. cbn [bind].
    rewrite Ef, Lf, Nat2N.id.
    assert (EE : length (enc_rec false r) = (length (sr_payload r) + 5)%nat)
      by (rewrite enc_rec_length; lia).
    rewrite <- EE, skipn_app_len. rewrite IH; [reflexivity | discriminate | exact Hrs | cbn in *; lia].
Qed.

Lemma enc_recs_length_ge rs : (length rs <= length (enc_recs rs))%nat.
Proof.
  induction rs as [|r [|r' rs''] IH]; [cbn; lia | cbn [enc_recs]; rewrite enc_rec_length; cbn; lia |].
  change (enc_recs (r :: r' :: rs'')) with (enc_rec false r ++ enc_recs (r' :: rs'')).
  rewrite app_length, enc_rec_length. cbn [length] in *. lia.
Qed.

Lemma enc_recs_nonempty rs : rs <> [] -> enc_recs rs <> [].
Proof.
  intros H E. destruct rs as [|r rs']; [congruence|].
  pose proof (enc_recs_length_ge (r :: rs')) as Hl. rewrite E in Hl. cbn in Hl. lia.
Qed.

Lemma multi_obj_enc rs : rs <> [] -> forallb wf_rec rs = true ->
  multi_obj (enc_recs rs) = Ok (MParsed (view_recs rs)).
Proof.
  intros Hne Hwf. unfold multi_obj. destruct (enc_recs rs) eqn:E; [now apply enc_recs_nonempty in E|].
  rewrite <- E. rewrite <- (app_nil_r (enc_recs rs)) at 2.
  rewrite parse_records_enc; [reflexivity | assumption | assumption |].
  pose proof (enc_recs_length_ge rs). lia.
Qed.

Lemma multi_obj_enc_rest rs rest : rs <> [] -> forallb wf_rec rs = true ->
  multi_obj (enc_recs rs ++ rest) = Ok (MParsed (view_recs rs)).
Proof.
  intros Hne Hwf. unfold multi_obj. destruct (enc_recs rs ++ rest) eqn:E.
  { apply app_eq_nil in E as [E _]. now apply enc_recs_nonempty in E. }
  rewrite <- E. rewrite parse_records_enc; [reflexivity | assumption | assumption |].
  rewrite app_length. pose proof (enc_recs_length_ge rs). lia.
Qed.

(* ---- the whole image ---- *)
Lemma area_obj_enc dated nf a rest : wf_area dated nf a = true ->
  area_obj dated nf (enc_area dated a ++ rest) = Ok (Parsed (view_area dated a)).
Proof.
  intros Hwf. unfold area_obj. destruct (enc_area dated a ++ rest) eqn:E; [unfold enc_area in E; discriminate|].
  rewrite <- E, parse_area_enc by assumption. reflexivity.
Qed.

Lemma off_byte_8 present n : Nat.modulo n 8 = 0%nat ->
  off_byte present n * 8 = if present then N.of_nat n else 0.
Proof. intros H. unfold off_byte. destruct present; lia. Qed.

Lemma enc_opt_area_length dated o : Nat.modulo (length (enc_opt_area dated o)) 8 = 0%nat.
Proof.
  destruct o as [a|]; cbn [enc_opt_area]; [|reflexivity]. rewrite enc_area_length. apply Nat.mod_mul. lia.
Qed.

Lemma area_at_enc dated nf o pre post : wf_opt_area dated nf o = true -> (8 <= length pre)%nat ->
  area_at dated nf (if is_some o then N.of_nat (length pre) else 0)
          (pre ++ enc_opt_area dated o ++ post) = Ok (view_opt_area dated o).
Proof.
  intros Hwf Hpre. unfold area_at. destruct o as [a|]; cbn [is_some enc_opt_area view_opt_area].
  - replace (N.of_nat (length pre) =? 0) with false by lia.
    rewrite Nat2N.id, skipn_app_len. now apply area_obj_enc.
  - reflexivity.
Qed.

Lemma multi_at_enc rs pre post : forallb wf_rec rs = true -> (8 <= length pre)%nat ->
  multi_at (if nonempty rs then N.of_nat (length pre) else 0) (pre ++ enc_recs rs ++ post) =
  Ok (view_multi rs).
Proof.
  intros Hwf Hpre. unfold multi_at. destruct rs as [|r rs']; [reflexivity|]. cbn [nonempty].
  replace (N.of_nat (length pre) =? 0) with false by lia.
  rewrite Nat2N.id, skipn_app_len. apply multi_obj_enc_rest; [discriminate | assumption].
Qed.

Lemma nonempty_enc_recs rs : nonempty (enc_recs rs) = nonempty rs.
Proof.
  destruct rs as [|r rs']; [reflexivity|].
  destruct (enc_recs (r :: rs')) eqn:E; [|reflexivity].
  exfalso. revert E. apply enc_recs_nonempty. discriminate.
Qed.

(* trailing bytes after the image (an EEPROM larger than its content) change nothing *)
Lemma parse_enc_tail s tail : wf_inv s = true ->
  parse_inventory (enc_inventory s ++ tail) = Ok (Some (view_inventory s)).
Proof.
  unfold wf_inv, wf_inv_gen. intros H.
  apply andb_prop in H as [H Hst]. apply andb_prop in H as [H Hmr]. apply andb_prop in H as [H Hpr].
  apply andb_prop in H as [H Hbd]. apply andb_prop in H as [H Hch]. apply andb_prop in H as [_ Hint].
  apply Nat.eqb_eq in Hint. clear Hst.
  unfold enc_inventory, view_inventory.
  set (int := s_internal s) in *. set (ch := enc_opt_area false (s_chassis s)).
  set (bd := enc_opt_area true (s_board s)). set (pr := enc_opt_area false (s_product s)).
  set (mr := enc_recs (s_multi s)).
  pose proof (enc_opt_area_length false (s_chassis s)) as Lch. fold ch in Lch.
  pose proof (enc_opt_area_length true (s_board s)) as Lbd. fold bd in Lbd.
  pose proof (enc_opt_area_length false (s_product s)) as Lpr. fold pr in Lpr.
  set (n1 := (8 + length int)%nat). set (n2 := (n1 + length ch)%nat).
  set (n3 := (n2 + length bd)%nat). set (n4 := (n3 + length pr)%nat).
  assert (M1 : Nat.modulo n1 8 = 0%nat) by (subst n1; lia).
  assert (M2 : Nat.modulo n2 8 = 0%nat) by (subst n2; lia).
  assert (M3 : Nat.modulo n3 8 = 0%nat) by (subst n3; lia).
  assert (M4 : Nat.modulo n4 8 = 0%nat) by (subst n4; lia).
  set (h := [1; off_byte (nonempty int) 8; off_byte (is_some (s_chassis s)) n1;
             off_byte (is_some (s_board s)) n2; off_byte (is_some (s_product s)) n3;
             off_byte (nonempty mr) n4; 0]).
  set (hdr := h ++ [zero_sum_byte h]).
  change (h ++ [zero_sum_byte h] ++ int ++ ch ++ bd ++ pr ++ mr)
    with (hdr ++ int ++ ch ++ bd ++ pr ++ mr).
  replace ((hdr ++ int ++ ch ++ bd ++ pr ++ mr) ++ tail) with (hdr ++ int ++ ch ++ bd ++ pr ++ mr ++ tail)
    by (now rewrite <- !app_assoc).
  assert (Lhdr : length hdr = 8%nat) by reflexivity.
  set (img := hdr ++ int ++ ch ++ bd ++ pr ++ mr ++ tail).
  assert (Hhd : parse_header (firstn 8 img) =
                Ok (mkHeader 1 (off_byte (nonempty int) 8 * 8) (off_byte (is_some (s_chassis s)) n1 * 8)
                             (off_byte (is_some (s_board s)) n2 * 8) (off_byte (is_some (s_product s)) n3 * 8)
                             (off_byte (nonempty mr) n4 * 8))).
  { unfold img. rewrite <- Lhdr, firstn_app_len.
    pose proof (sum256_zero_sum h) as Hs. fold hdr in Hs.
    unfold parse_header. unfold hdr at 1, h at 1. cbn [app]. fold h.
    change [1; off_byte (nonempty int) 8; off_byte (is_some (s_chassis s)) n1;
            off_byte (is_some (s_board s)) n2; off_byte (is_some (s_product s)) n3;
            off_byte (nonempty mr) n4; 0; zero_sum_byte h] with hdr.
    rewrite Hs. reflexivity. }
  assert (Hne : parse_inventory img =
    (do h <- parse_header (firstn 8 img);
     do ch <- area_at false 2 (h_chassis h) img;
     do bd <- area_at true 5 (h_board h) img;
     do pr <- area_at false 7 (h_product h) img;
     do mr <- multi_at (h_multi h) img;
     Ok (Some (mkInv h ch bd pr mr)))).
  { unfold parse_inventory. destruct img eqn:E; [discriminate | reflexivity]. }
  rewrite Hne, Hhd. cbn [bind h_chassis h_board h_product h_multi].
  rewrite !off_byte_8 by (assumption || reflexivity).
  (* chassis *)
  assert (A1 : area_at false 2 (if is_some (s_chassis s) then N.of_nat n1 else 0) img =
               Ok (view_opt_area false (s_chassis s))).
  { unfold img. rewrite (app_assoc hdr int). replace n1 with (length (hdr ++ int)) by (rewrite app_length; subst n1; lia).
    apply area_at_enc; [assumption | rewrite app_length; lia]. }
  assert (A2 : area_at true 5 (if is_some (s_board s) then N.of_nat n2 else 0) img =
               Ok (view_opt_area true (s_board s))).
  { unfold img. rewrite (app_assoc hdr int), (app_assoc _ ch).
    replace n2 with (length ((hdr ++ int) ++ ch)) by (rewrite !app_length; subst n2 n1; lia).
    apply area_at_enc; [assumption | rewrite !app_length; lia]. }
  assert (A3 : area_at false 7 (if is_some (s_product s) then N.of_nat n3 else 0) img =
               Ok (view_opt_area false (s_product s))).
  { unfold img. rewrite (app_assoc hdr int), (app_assoc _ ch), (app_assoc _ bd).
    replace n3 with (length (((hdr ++ int) ++ ch) ++ bd)) by (rewrite !app_length; subst n3 n2 n1; lia).
    apply area_at_enc; [assumption | rewrite !app_length; lia]. }
  assert (A4 : multi_at (if nonempty mr then N.of_nat n4 else 0) img =
               Ok (view_multi (s_multi s))).
  { unfold img, mr. rewrite nonempty_enc_recs.
    rewrite (app_assoc hdr int), (app_assoc _ ch), (app_assoc _ bd), (app_assoc _ pr).
    replace n4 with (length ((((hdr ++ int) ++ ch) ++ bd) ++ pr)) by (rewrite !app_length; subst n4 n3 n2 n1; lia).
    apply multi_at_enc; [assumption | rewrite !app_length; lia]. }
  rewrite A1, A2, A3, A4. cbn [bind]. unfold mr. rewrite nonempty_enc_recs.
  reflexivity.
Qed.

Lemma parse_enc s : wf_inv s = true ->
  parse_inventory (enc_inventory s) = Ok (Some (view_inventory s)).
Proof. intros H. rewrite <- (app_nil_r (enc_inventory s)). now apply parse_enc_tail. Qed.
