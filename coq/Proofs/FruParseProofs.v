(* Proofs about Model/FruParse.v against Model/FruSpec.v (C15). *)
From Coq Require Import String.
From Coq Require Import NArith List Lia ZArith ZifyN ZifyBool ZifyNat Bool.
From PyIpmi Require Import Lib.Res Lib.Bytes Lib.Bits Gen.FruTables Model.FruParse Model.FruSpec.
Import ListNotations.
Open Scope N_scope.
Ltac Zify.zify_post_hook ::= Z.to_euclidean_division_equations.

(* the translator understood both constants (fail-closed: otherwise this breaks) *)
Lemma fru_tables_translated : fru_tables_untranslated = None.
Proof. reflexivity. Qed.
