(* End-to-end wire theorems: C01 (codec over the regenerated registry) o C03 (IPMB frame)
   o C05 (LAN datagram).  Short compositions of roundtrip / wf_in, frame_ok, send_layout,
   unpack_pack, spec_offsets. *)
From Coq Require Import String.
From Coq Require Import NArith List Lia ZArith ZifyN ZifyBool ZifyNat Bool.
From PyIpmi Require Import Lib.Res Lib.Bytes Model.Codec Gen.Layouts Model.Ipmb Model.Rmcp Model.Wire
  Proofs.CodecProofs Proofs.RegistryProofs Proofs.IpmbProofs Proofs.RmcpProofs.
Import ListNotations.
Open Scope N_scope.

Lemma frame_data_payload f : frame_data f = payload f.
Proof. reflexivity. Qed.

Section Wire.
Variable md5 : list N -> list N.
Hypothesis md5_len : forall x, length (md5 x) = 16%nat.

(* what the receiver gets out of the specified datagram around a well-formed frame *)
Lemma recv_of_spec l e h bs f rseq a seq sid pw :
  wf_layout l = true -> in_range l e -> encode l e = Ok bs ->
  hdr_in_range h -> encode_ipmb_msg h bs = Ok f ->
  implemented a -> (length pw <= 16)%nat ->
  wire_recv l (spec_dgram md5 rseq a seq sid pw f) = Ok (h, e).
Proof.
  intros Hwf Hr He Hh Hf Hi Hpl.
  destruct (roundtrip l e Hwf Hr) as (bs' & He' & Hok & Hdec & _).
  rewrite He in He'. injection He' as <-.
  destruct (frame_ok h bs Hh Hok) as (f' & Hf' & Hlen & _ & _ & _ & (c & Hhd) & Hpay).
  rewrite Hf in Hf'. injection Hf' as <-.
  assert (Hne : f <> []) by (intros ->; cbn in Hlen; lia).
  unfold wire_recv. rewrite (unpack_pack md5 md5_len false rseq a seq sid pw f Hi Hpl Hne). cbn [bind].
  rewrite Hhd. cbn [bind]. rewrite frame_data_payload, Hpay, Hdec. reflexivity.
Qed.

Theorem wire_end_to_end m e h s a pw rseq bs :
  In m registry -> in_range (m_layout m) e -> hdr_in_range h ->
  s_auth s = Some a -> implemented a -> s_sid s < 0x100000000 -> s_seq s < 0x100000000 ->
  (a <> 0 -> s_pw s = Some pw /\ (length pw <= 16)%nat) -> (length pw <= 16)%nat -> rseq < 256 ->
  encode (m_layout m) e = Ok bs -> (7 + length bs <= 255)%nat ->
  let s' := after_pack s in
  exists dg,
    wire_send md5 (m_layout m) e h (Some s) rseq = (Some s', rmcp_seq_next rseq, Ok dg)
    /\ wire_recv (m_layout m) dg = Ok (h, e)
    /\ nth 4 dg 0 = a
    /\ le_val (firstn 4 (skipn 5 dg)) = s_seq s'
    /\ le_val (firstn 4 (skipn 9 dg)) = s_sid s
    /\ s_seq s' = (if s_act s then (if s_seq s =? 0xffffffff then 1 else s_seq s + 1) else s_seq s).
Proof.
  intros Hin Hr Hh Ha Hi Hsid Hseq Hpw Hpl Hrs He Hlen s'.
  pose proof (wf_in m Hin) as Hwf.
  destruct (roundtrip _ e Hwf Hr) as (bs' & He' & Hok & _).
  rewrite He in He'. injection He' as <-.
  destruct (frame_ok h bs Hh Hok) as (f & Hf & Hfl & _).
  assert (Hf255 : (length f <= 255)%nat) by lia.
  destruct (send_layout md5 s a pw f rseq Ha Hi Hsid Hseq Hpw Hf255 Hrs) as (HS & Hs1 & Hs2).
  fold s' in HS, Hs1, Hs2.
  destruct (after_pack_seq s Hseq) as (_ & Hs3 & _). fold s' in Hs3.
  exists (spec_dgram md5 rseq a (s_seq s') (s_sid s') pw f).
  destruct (spec_offsets md5 rseq a (s_seq s') (s_sid s') pw f) as (_ & _ & _ & _ & E4 & _ & _ & E5 & E9 & _).
  split; [|split; [|split; [|split; [|split]]]].
  - unfold wire_send. rewrite He, Hf. exact HS.
  - apply (recv_of_spec _ e h bs f); assumption.
  - exact E4.
  - rewrite E5. apply N.mod_small. exact Hs3.
  - rewrite E9, Hs2. apply N.mod_small. exact Hsid.
  - exact Hs1.
Qed.

(* the same before a session object is attached (type none, id 0, number 0) *)
Theorem wire_end_to_end_nosession m e h rseq bs :
  In m registry -> in_range (m_layout m) e -> hdr_in_range h -> rseq < 256 ->
  encode (m_layout m) e = Ok bs -> (7 + length bs <= 255)%nat ->
  exists dg,
    wire_send md5 (m_layout m) e h None rseq = (None, rmcp_seq_next rseq, Ok dg)
    /\ wire_recv (m_layout m) dg = Ok (h, e)
    /\ nth 4 dg 0 = 0 /\ le_val (firstn 4 (skipn 5 dg)) = 0 /\ le_val (firstn 4 (skipn 9 dg)) = 0.
Proof.
  intros Hin Hr Hh Hrs He Hlen.
  pose proof (wf_in m Hin) as Hwf.
  destruct (roundtrip _ e Hwf Hr) as (bs' & He' & Hok & _).
  rewrite He in He'. injection He' as <-.
  destruct (frame_ok h bs Hh Hok) as (f & Hf & Hfl & _).
  assert (Hf255 : (length f <= 255)%nat) by lia.
  exists (spec_dgram md5 rseq 0 0 0 [] f).
  destruct (spec_offsets md5 rseq 0 0 0 [] f) as (_ & _ & _ & _ & E4 & _ & _ & E5 & E9 & _).
  split; [|split; [|split; [|split]]].
  - unfold wire_send. rewrite He, Hf. apply send_layout_nosession; assumption.
  - apply (recv_of_spec _ e h bs f); try assumption; [left; reflexivity | cbn; lia].
  - exact E4.
  - rewrite E5. reflexivity.
  - rewrite E9. reflexivity.
Qed.

(* response direction: whatever IPMB header bytes and checksum the BMC puts around the
   encoded response values, the client's chain (unwrap with either quirk setting, [6:-1],
   decode by the response layout) yields exactly those values *)
Theorem wire_response r e bs hd c q rseq a seq sid pw :
  In r registry -> in_range (m_layout r) e -> encode (m_layout r) e = Ok bs ->
  length hd = 6%nat -> (7 + length bs <= 255)%nat ->
  implemented a -> (length pw <= 16)%nat ->
  wire_recv_rsp q (m_layout r) (spec_dgram md5 rseq a seq sid pw (hd ++ bs ++ [c])%list) = Ok e.
Proof.
  intros Hin Hr He Hhd Hlen Hi Hpl.
  pose proof (wf_in r Hin) as Hwf.
  destruct (roundtrip _ e Hwf Hr) as (bs' & He' & Hok & Hdec & _).
  rewrite He in He'. injection He' as <-.
  set (f := (hd ++ bs ++ [c])%list).
  assert (Hne : f <> []) by (subst f; destruct hd; [discriminate Hhd | discriminate]).
  unfold wire_recv_rsp. rewrite (unpack_pack md5 md5_len q rseq a seq sid pw f Hi Hpl Hne). cbn [bind].
  assert (Hfd : frame_data f = bs).
  { unfold frame_data, f. rewrite (skipn_app_exact 6) by exact Hhd.
    rewrite !app_length, Hhd. cbn [length].
    replace (6 + (length bs + 1) - 7)%nat with (length bs) by lia.
    apply firstn_app_exact. reflexivity. }
  rewrite Hfd, Hdec. reflexivity.
Qed.
End Wire.
