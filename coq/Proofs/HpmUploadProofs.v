(* Lemmas for C18, upload part: Model/HpmUpload.v run against the reference device of
   Model/HpmDevice.v. *)
From Coq Require Import NArith ZArith List Lia ZifyN ZifyBool ZifyNat Bool.
From PyIpmi Require Import Lib.Res Lib.Bytes Lib.Prog Model.HpmUpload Model.HpmDevice.
Import ListNotations.
Open Scope N_scope.
Ltac Zify.zify_post_hook ::= Z.to_euclidean_division_equations.

(* ---------------------------------------------------------------- generic facts on [run] *)
Lemma run_app {A S} (p : prog A) (dev : device S) : forall s tr,
  run p dev s tr = let '(r, s', ext) := run p dev s [] in (r, s', tr ++ ext).
Proof.
  induction p as [a|e|r k IH|ms k IH]; intros s tr; cbn.
  - now rewrite app_nil_r.
  - now rewrite app_nil_r.
  - destruct (dev s r) as [s' rp].
    rewrite (IH rp s' (tr ++ [(r, rp)])), (IH rp s' [(r, rp)]).
    destruct (run (k rp) dev s' []) as [[r0 s''] ext]. now rewrite <- app_assoc.
  - apply IH.
Qed.

Lemma run_send {A S} (r : request) (k : reply -> prog A) (dev : device S) s :
  run (Send r k) dev s [] =
  let '(s', rp) := dev s r in
  let '(res, s'', ext) := run (k rp) dev s' [] in (res, s'', (r, rp) :: ext).
Proof.
  cbn. destruct (dev s r) as [s' rp]. rewrite run_app.
  destruct (run (k rp) dev s' []) as [[r0 s''] ext]. reflexivity.
Qed.

Lemma run_pbind_gen {A B S} (p : prog A) (f : A -> prog B) (dev : device S) : forall s tr,
  run (pbind p f) dev s tr =
  let '(r, s', tr') := run p dev s tr in
  match r with Ok a => run (f a) dev s' tr' | Err e => (Err e, s', tr') end.
Proof.
  induction p as [a|e|r k IH|ms k IH]; intros s tr; cbn.
  - reflexivity.
  - reflexivity.
  - destruct (dev s r) as [s' rp]. apply IH.
  - apply IH.
Qed.

Lemma run_pbind {A B S} (p : prog A) (f : A -> prog B) (dev : device S) s :
  run (pbind p f) dev s [] =
  let '(r, s', ext) := run p dev s [] in
  match r with
  | Ok a => let '(r2, s'', ext2) := run (f a) dev s' [] in (r2, s'', ext ++ ext2)
  | Err e => (Err e, s', ext)
  end.
Proof.
  rewrite run_pbind_gen. destruct (run p dev s []) as [[r s'] ext]. destruct r; [|reflexivity].
  apply run_app.
Qed.

(* ---------------------------------------------------------------- chunks *)
Lemma chunks_f_concat count : (1 <= count)%nat -> forall fuel l, (length l <= fuel)%nat ->
  concat (chunks_f fuel count l) = l.
Proof.
  intros Hc. induction fuel as [|f IH]; intros l Hl.
  - destruct l; [reflexivity | cbn in Hl; lia].
  - destruct l as [|x l]; [reflexivity|].
    cbn [chunks_f concat]. rewrite IH.
    + apply firstn_skipn.
    + rewrite skipn_length. cbn [length] in *. lia.
Qed.

Lemma chunks_f_sizes count : (1 <= count)%nat -> forall fuel l,
  Forall (fun c => (1 <= length c <= count)%nat) (chunks_f fuel count l).
Proof.
  intros Hc. induction fuel as [|f IH]; intros l; [constructor|].
  destruct l as [|x l]; [constructor|]. cbn [chunks_f]. constructor; [|apply IH].
  rewrite firstn_length. cbn [length]. lia.
Qed.

Lemma chunks_f_length count : (1 <= count)%nat -> forall fuel l, (length l <= fuel)%nat ->
  length (chunks_f fuel count l) = ((length l + count - 1) / count)%nat.
Proof.
  intros Hc. induction fuel as [|f IH]; intros l Hl.
  - destruct l; [|cbn in Hl; lia]. cbn. symmetry. apply Nat.div_small. lia.
  - destruct l as [|x l]; [cbn; symmetry; apply Nat.div_small; lia|].
    cbn [chunks_f length]. rewrite IH by (rewrite skipn_length; cbn [length] in *; lia).
    rewrite skipn_length. cbn [length].
    destruct (Nat.le_gt_cases count (S (length l))) as [Hge|Hlt].
    + replace (S (length l) + count - 1)%nat with ((S (length l) - count + count - 1) + 1 * count)%nat by lia.
      rewrite Nat.div_add by lia. lia.
    + replace (S (length l) - count)%nat with 0%nat by lia.
      replace ((0 + count - 1) / count)%nat with 0%nat by (symmetry; apply Nat.div_small; lia).
      replace (S (length l) + count - 1)%nat with ((S (length l) - 1) + 1 * count)%nat by lia.
      rewrite Nat.div_add by lia. rewrite Nat.div_small by lia. reflexivity.
Qed.

Lemma chunks_f_bytes_ok count : forall fuel l, bytes_ok l = true ->
  Forall (fun c => bytes_ok c = true) (chunks_f fuel count l).
Proof.
  induction fuel as [|f IH]; intros l Hl; [constructor|].
  destruct l as [|x l]; [constructor|]. cbn [chunks_f]. constructor.
  - now apply bytes_ok_firstn.
  - apply IH. now apply bytes_ok_skipn.
Qed.

(* the first m chunks are the first m * count bytes *)
Lemma chunks_f_prefix count : (1 <= count)%nat -> forall m fuel l, (length l <= fuel)%nat ->
  concat (firstn m (chunks_f fuel count l)) = firstn (m * count) l.
Proof.
  intros Hc. induction m as [|m IH]; intros fuel l Hl; [reflexivity|].
  destruct fuel as [|f].
  - destruct l; [|cbn in Hl; lia]. cbn. now rewrite firstn_nil.
  - destruct l as [|x l]; [cbn; now rewrite firstn_nil|].
    cbn [chunks_f firstn concat]. rewrite IH by (rewrite skipn_length; cbn [length] in *; lia).
    replace (S m * count)%nat with (count + m * count)%nat by lia.
    set (L := x :: l).
    rewrite <- (firstn_skipn count L) at 3.
    destruct (Nat.le_gt_cases count (length L)) as [Hge|Hlt].
    + rewrite firstn_app, firstn_length, Nat.min_l by lia.
      replace (count + m * count - count)%nat with (m * count)%nat by lia.
      rewrite (firstn_all2 (n := count + m * count)); [reflexivity|].
      rewrite firstn_length. lia.
    + rewrite (skipn_all2 L) by lia. rewrite firstn_nil, !app_nil_r.
      rewrite (firstn_all2 (n := count + m * count)); [reflexivity|]. rewrite firstn_length. lia.
Qed.

(* ---------------------------------------------------------------- the device on the client's requests *)
Definition d_block_state (s : dstate) (bn : N) (c : list N) (k : nat) : dstate :=
  mkD (d_plan s) (S (d_count s)) k (d_received s ++ [(bn mod 256, c)]).

Lemma dev_block s bn c :
  hpm_device s (block_req bn c) =
  match nth (d_count s) (d_plan s) Accept with
  | Accept => (d_block_state s bn c 0, RBytes [0x00; 0x00])
  | InProgress k => (d_block_state s bn c k, RBytes [0x80; 0x00])
  | Fail cc => (d_block_state s bn c 0, RBytes [cc; 0x00])
  end.
Proof. reflexivity. Qed.

Lemma dev_status s :
  hpm_device s status_req =
  match d_pending s with
  | O => (s, RBytes [0x00; 0x00; 0x32; 0x00])
  | S k => (mkD (d_plan s) (d_count s) k (d_received s), RBytes [0x00; 0x00; 0x32; 0x80])
  end.
Proof. reflexivity. Qed.

Definition same_core (s s' : dstate) : Prop :=
  d_plan s' = d_plan s /\ d_count s' = d_count s /\ d_received s' = d_received s.

Definition status_only (ext : list exch) : Prop :=
  Forall (fun x : exch => is_status (fst x) = true /\ is_block (fst x) = false) ext.

Lemma status_only_blocks ext : status_only ext -> blocks_of ext = [].
Proof.
  induction 1 as [|[q rp] r [_ H] _ IH]; [reflexivity|]. cbn in *. now rewrite H.
Qed.

Lemma status_only_polls ext : status_only ext -> polls_ok ext = true.
Proof.
  induction 1 as [|[q rp] r [_ H] _ IH]; [reflexivity|]. cbn in *. now rewrite H, IH.
Qed.

(* ---------------------------------------------------------------- wait_for_long_duration_command *)
Lemma wait_loop_spec interval timeout : 1 <= interval -> forall fuel elapsed s,
  (1 <= fuel)%nat -> timeout + interval <= N.of_nat fuel * interval + elapsed ->
  exists s' ext, run (wait_loop fuel elapsed timeout interval) hpm_device s [] = (Ok tt, s', ext)
    /\ same_core s s' /\ status_only ext /\ (elapsed < timeout -> ext <> []).
Proof.
  intros Hi. induction fuel as [|f IH]; intros elapsed s Hf Hfuel; [lia|].
  cbn [wait_loop]. destruct (elapsed <? timeout) eqn:Hlt.
  - rewrite run_send, dev_status. destruct (d_pending s) as [|k] eqn:Hp.
    + cbn. exists s, [(status_req, RBytes [0; 0; 50; 0])]. repeat split; try reflexivity.
      * repeat constructor.
      * discriminate.
    + set (s1 := mkD (d_plan s) (d_count s) k (d_received s)).
      change (dec_status_rsp (RBytes [0; 0; 50; 128])) with (@Ok (N * N) (50, 128)).
      cbv iota beta. change (128 =? CC_LONG_DURATION_CMD_IN_PROGRESS) with true. cbv iota.
      change (run (Sleep interval (wait_loop f (elapsed + interval) timeout interval)) hpm_device s1 [])
        with (run (wait_loop f (elapsed + interval) timeout interval) hpm_device s1 []).
      assert (Hf1 : (1 <= f)%nat) by (destruct f; [apply N.ltb_lt in Hlt; lia | lia]).
      destruct (IH (elapsed + interval) s1) as (s' & ext & Hr & Hc & Hs & _); [exact Hf1 | lia |].
      rewrite Hr. exists s', ((status_req, RBytes [0; 0; 50; 128]) :: ext). repeat split.
      * apply Hc. * apply Hc. * apply Hc.
      * constructor; [split; reflexivity | exact Hs].
      * discriminate.
  - cbn. exists s, []. repeat split; try reflexivity; [constructor | lia].
Qed.

Lemma wait_spec timeout interval s : 1 <= interval ->
  exists s' ext, run (wait_for_long_duration_command timeout interval) hpm_device s [] = (Ok tt, s', ext)
    /\ same_core s s' /\ status_only ext /\ (1 <= timeout -> ext <> []).
Proof.
  intros Hi. unfold wait_for_long_duration_command.
  destruct (wait_loop_spec interval timeout Hi (N.to_nat (timeout / interval) + 2) 0 s) as (s' & ext & H1 & H2 & H3 & H4).
  - generalize (N.to_nat (timeout / interval)). intros; lia.
  - assert (H := N.mul_succ_div_gt timeout interval ltac:(lia)).
    revert H. generalize (timeout / interval). intros q H. lia.
  - exists s', ext. repeat split; try assumption; try apply H2. intros Ht. apply H4. lia.
Qed.

(* never OutOfFuel, against ANY device: the fuel bound alone *)
Definition outcome {A S} (x : res A * S * list (request * reply)) : res A := fst (fst x).

(* OutOfFuel is a model-only value: no transport raises it *)
Definition sane_device {S} (dev : device S) : Prop := forall s q, snd (dev s q) <> RRaise OutOfFuel.

Lemma dec_status_oof rp : dec_status_rsp rp = Err OutOfFuel -> rp = RRaise OutOfFuel.
Proof.
  destruct rp as [d|e]; cbn; [|congruence]. destruct d as [|cc d]; [discriminate|].
  destruct (cc =? 0); [|discriminate]. destruct d as [|a [|b [|c [|x [|y d]]]]]; discriminate.
Qed.
Lemma dec_block_oof rp : dec_block_rsp rp = Err OutOfFuel -> rp = RRaise OutOfFuel.
Proof.
  destruct rp as [d|e]; cbn; [|congruence]. destruct d as [|cc d]; [discriminate|].
  destruct (cc =? 0); [|discriminate].
  destruct d as [|a1 [|a2 [|a3 [|a4 [|a5 [|a6 [|a7 [|a8 [|a9 [|a10 d]]]]]]]]]]; discriminate.
Qed.

Lemma wait_loop_fuel interval timeout : 1 <= interval -> forall fuel elapsed S (dev : device S) s tr,
  sane_device dev -> (1 <= fuel)%nat -> timeout + interval <= N.of_nat fuel * interval + elapsed ->
  outcome (run (wait_loop fuel elapsed timeout interval) dev s tr) <> Err OutOfFuel.
Proof.
  intros Hi. induction fuel as [|f IH]; intros elapsed S dev s tr Hd Hf Hfuel; [lia|].
  cbn [wait_loop]. destruct (elapsed <? timeout) eqn:Hlt; [|cbn; discriminate].
  assert (Hf1 : (1 <= f)%nat) by (destruct f; [apply N.ltb_lt in Hlt; lia | lia]).
  cbn [run]. pose proof (Hd s status_req) as Hsane. destruct (dev s status_req) as [s' rp]. cbn [snd] in Hsane.
  destruct (dec_status_rsp rp) as [[cip lcc]|e] eqn:Hdec.
  - destruct (lcc =? CC_LONG_DURATION_CMD_IN_PROGRESS); [|cbn; discriminate].
    cbn [run]. apply IH; [exact Hd | exact Hf1 | lia].
  - destruct e; try (cbn; discriminate).
    + cbn [run]. apply IH; [exact Hd | exact Hf1 | lia].
    + apply dec_status_oof in Hdec. contradiction.
Qed.

Lemma wait_fuel_ok timeout interval S (dev : device S) s tr : 1 <= interval -> sane_device dev ->
  outcome (run (wait_for_long_duration_command timeout interval) dev s tr) <> Err OutOfFuel.
Proof.
  intros Hi Hd. apply wait_loop_fuel; [exact Hi | exact Hd | |].
  - generalize (N.to_nat (timeout / interval)). intros; lia.
  - assert (H := N.mul_succ_div_gt timeout interval ltac:(lia)).
    revert H. generalize (timeout / interval). intros q H. lia.
Qed.

Lemma upload_loop_fuel timeout interval S (dev : device S) : 1 <= interval -> sane_device dev ->
  forall cs bn retry s tr,
  outcome (run (upload_loop cs bn retry timeout interval) dev s tr) <> Err OutOfFuel.
Proof.
  intros Hi Hd. induction cs as [|c cs IH]; intros bn retry s tr; [cbn; discriminate|].
  cbn [upload_loop]. destruct (negb (bytes_ok c)); [cbn; discriminate|].
  cbn [run]. pose proof (Hd s (block_req bn c)) as Hsane. destruct (dev s (block_req bn c)) as [s' rp]. cbn [snd] in Hsane.
  destruct (dec_block_rsp rp) as [u|e] eqn:Hdec; [apply IH|].
  destruct e; try (cbn; discriminate); [| |apply dec_block_oof in Hdec; contradiction].
  - destruct (cc =? CC_LONG_DURATION_CMD_IN_PROGRESS); [|cbn; discriminate].
    rewrite run_pbind_gen.
    pose proof (wait_fuel_ok timeout interval S dev s' (tr ++ [(block_req bn c, rp)]) Hi Hd) as Hw.
    destruct (run (wait_for_long_duration_command timeout interval) dev s' (tr ++ [(block_req bn c, rp)])) as [[r s''] tr'].
    destruct r as [u|e]; [apply IH | exact Hw].
  - destruct (retry - 1 =? 0)%Z; [cbn; discriminate | apply IH].
Qed.

(* ---------------------------------------------------------------- upload_loop, no refusal *)
Definition numbers_from (c n : nat) : list N := map (fun i => N.of_nat i mod 256) (seq c n).

Lemma blocks_of_app a b : blocks_of (a ++ b) = blocks_of a ++ blocks_of b.
Proof.
  induction a as [|[q rp] a IH]; [reflexivity|]. cbn. destruct (is_block q); cbn; now rewrite IH.
Qed.

Lemma polls_ok_status_app a b : status_only a -> polls_ok b = true -> polls_ok (a ++ b) = true.
Proof.
  induction 1 as [|[q rp] r [_ H] _ IH]; intros Hb; [exact Hb|]. cbn in *. rewrite H. cbn. now apply IH.
Qed.

Lemma block_req_is_block bn c : is_block (block_req bn c) = true.
Proof. reflexivity. Qed.

Lemma upload_loop_ok timeout interval : 1 <= interval -> 1 <= timeout ->
  forall cs s bn retry,
  Forall (fun c => bytes_ok c = true) cs ->
  bn = N.of_nat (d_count s) mod 256 ->
  (forall i, (i < length cs)%nat -> is_fail (nth (d_count s + i) (d_plan s) Accept) = false) ->
  exists s' ext,
    run (upload_loop cs bn retry timeout interval) hpm_device s [] = (Ok tt, s', ext)
    /\ blocks_of ext = combine (numbers_from (d_count s) (length cs)) cs
    /\ polls_ok ext = true
    /\ d_received s' = d_received s ++ blocks_of ext
    /\ d_count s' = (d_count s + length cs)%nat /\ d_plan s' = d_plan s.
Proof.
  intros Hi Ht. induction cs as [|c cs IH]; intros s bn retry Hok Hbn Hplan.
  - cbn. exists s, []. repeat split; try reflexivity. now rewrite app_nil_r. lia.
  - apply Forall_cons_iff in Hok as [Hc Hcs].
    cbn [upload_loop]. rewrite Hc. cbn [negb]. cbv iota.
    rewrite run_send, dev_block.
    assert (H0 := Hplan 0%nat ltac:(cbn; lia)). rewrite Nat.add_0_r in H0.
    assert (Hbn' : (bn + 1) mod 256 = N.of_nat (S (d_count s)) mod 256) by (subst bn; lia).
    assert (Hbnm : bn mod 256 = bn) by (subst bn; lia).
    assert (Hplan' : forall k i, (i < length cs)%nat ->
              is_fail (nth (d_count (d_block_state s bn c k) + i) (d_plan (d_block_state s bn c k)) Accept) = false).
    { intros k i Hi'. cbn. replace (S (d_count s + i)) with (d_count s + S i)%nat by lia. apply Hplan. cbn. lia. }
    destruct (nth (d_count s) (d_plan s) Accept) as [|k|cc] eqn:Hans; [| |discriminate].
    + (* accepted at once *)
      change (dec_block_rsp (RBytes [0; 0])) with (@Ok unit tt). cbv iota beta.
      destruct (IH (d_block_state s bn c 0) ((bn + 1) mod 256) retry Hcs Hbn' (Hplan' 0%nat))
        as (s' & ext & Hr & Hb & Hp & Hrecv & Hcnt & Hpl).
      rewrite Hr. exists s', ((block_req bn c, RBytes [0; 0]) :: ext). repeat split.
      * cbn [blocks_of]. rewrite block_req_is_block. cbn [block_req q_data app nth skipn].
        rewrite Hb. cbn [length seq map combine numbers_from d_block_state d_count]. unfold numbers_from.
        now rewrite Hbnm, Hbn.
      * cbn [polls_ok]. rewrite block_req_is_block. cbn. exact Hp.
      * rewrite Hrecv. cbn [blocks_of]. rewrite block_req_is_block. cbn [block_req q_data app nth skipn d_block_state d_received].
        now rewrite <- app_assoc.
      * rewrite Hcnt. cbn. lia.
      * rewrite Hpl. reflexivity.
    + (* long duration command in progress: wait, then continue *)
      change (dec_block_rsp (RBytes [128; 0])) with (@Err unit (CCError 128)). cbv iota beta.
      change (128 =? CC_LONG_DURATION_CMD_IN_PROGRESS) with true. cbv iota.
      rewrite run_pbind.
      destruct (wait_spec timeout interval (d_block_state s bn c k) Hi) as (s1 & polls & Hw & (Hc1 & Hc2 & Hc3) & Hso & Hne).
      rewrite Hw.
      destruct (IH s1 ((bn + 1) mod 256) retry Hcs) as (s' & ext & Hr & Hb & Hp & Hrecv & Hcnt & Hpl).
      { rewrite Hc2. exact Hbn'. }
      { intros i Hi'. rewrite Hc1, Hc2. now apply (Hplan' k). }
      rewrite Hr. exists s', ((block_req bn c, RBytes [128; 0]) :: polls ++ ext). repeat split.
      * cbn [blocks_of]. rewrite block_req_is_block. cbn [block_req q_data app nth skipn].
        rewrite blocks_of_app, (status_only_blocks _ Hso), Hb, Hc2. cbn [app].
        cbn [length seq map combine numbers_from d_block_state d_count]. unfold numbers_from.
        now rewrite Hbnm, Hbn.
      * cbn [polls_ok]. rewrite block_req_is_block. cbn [reply_is_cc N.eqb Pos.eqb andb].
        specialize (Hne Ht). destruct polls as [|[q2 rp2] polls']; [congruence|].
        cbn [app]. inversion Hso as [|? ? [Hs1 _] _]; subst. cbn [fst] in Hs1. rewrite Hs1. cbn [andb].
        now apply (polls_ok_status_app ((q2, rp2) :: polls')).
      * rewrite Hrecv, Hc3. cbn [blocks_of]. rewrite block_req_is_block. cbn [block_req q_data app nth skipn d_block_state d_received].
        rewrite blocks_of_app, (status_only_blocks _ Hso). cbn [app]. now rewrite <- app_assoc.
      * rewrite Hcnt, Hc2. cbn. lia.
      * rewrite Hpl, Hc1. reflexivity.
Qed.

(* ---------------------------------------------------------------- upload_loop, refusal at position j *)
Lemma upload_loop_fail timeout interval : 1 <= interval -> 1 <= timeout ->
  forall j cs s bn retry cc,
  Forall (fun c => bytes_ok c = true) cs ->
  bn = N.of_nat (d_count s) mod 256 ->
  (j < length cs)%nat ->
  (forall i, (i < j)%nat -> is_fail (nth (d_count s + i) (d_plan s) Accept) = false) ->
  nth (d_count s + j) (d_plan s) Accept = Fail cc -> answer_ok (Fail cc) = true ->
  exists s' pre q,
    run (upload_loop cs bn retry timeout interval) hpm_device s [] = (Err HpmError, s', pre ++ [(q, RBytes [cc; 0])])
    /\ is_block q = true
    /\ blocks_of (pre ++ [(q, RBytes [cc; 0])]) = combine (numbers_from (d_count s) (S j)) (firstn (S j) cs)
    /\ polls_ok (pre ++ [(q, RBytes [cc; 0])]) = true.
Proof.
  intros Hi Ht. induction j as [|j IH]; intros cs s bn retry cc Hok Hbn Hj Hbefore Hat Hcc.
  - destruct cs as [|c cs]; [cbn in Hj; lia|].
    apply Forall_cons_iff in Hok as [Hc Hcs].
    cbn [upload_loop]. rewrite Hc. cbn [negb]. cbv iota.
    rewrite run_send, dev_block. rewrite Nat.add_0_r in Hat. rewrite Hat.
    assert (Hbnm : bn mod 256 = bn) by (subst bn; lia).
    unfold answer_ok in Hcc.
    assert (Hd : dec_block_rsp (RBytes [cc; 0]) = Err (CCError cc)).
    { cbn [dec_block_rsp]. destruct (cc =? 0) eqn:E; [lia|reflexivity]. }
    rewrite Hd. cbv iota beta.
    assert (H80 : (cc =? CC_LONG_DURATION_CMD_IN_PROGRESS) = false).
    { unfold CC_LONG_DURATION_CMD_IN_PROGRESS. lia. }
    rewrite H80. cbn [run].
    exists (d_block_state s bn c 0), [], (block_req bn c). repeat split.
    + cbn [app blocks_of]. rewrite block_req_is_block. cbn. unfold numbers_from. cbn. now rewrite Hbnm, Hbn.
    + cbn [app polls_ok]. rewrite block_req_is_block. cbn [reply_is_cc].
      unfold CC_LONG_DURATION_CMD_IN_PROGRESS in H80. rewrite H80. reflexivity.
  - destruct cs as [|c cs]; [cbn in Hj; lia|].
    apply Forall_cons_iff in Hok as [Hc Hcs].
    cbn [upload_loop]. rewrite Hc. cbn [negb]. cbv iota.
    rewrite run_send, dev_block.
    assert (H0 := Hbefore 0%nat ltac:(lia)). rewrite Nat.add_0_r in H0.
    assert (Hbn' : (bn + 1) mod 256 = N.of_nat (S (d_count s)) mod 256) by (subst bn; lia).
    assert (Hbnm : bn mod 256 = bn) by (subst bn; lia).
    assert (Hj' : (j < length cs)%nat) by (cbn in Hj; lia).
    destruct (nth (d_count s) (d_plan s) Accept) as [|k|cc0] eqn:Hans; [| |discriminate].
    + change (dec_block_rsp (RBytes [0; 0])) with (@Ok unit tt). cbv iota beta.
      destruct (IH cs (d_block_state s bn c 0) ((bn + 1) mod 256) retry cc Hcs Hbn' Hj')
        as (s' & pre & q & Hr & Hq & Hb & Hp).
      { intros i Hi'. cbn. replace (S (d_count s + i)) with (d_count s + S i)%nat by lia. apply Hbefore. lia. }
      { cbn. replace (S (d_count s + j)) with (d_count s + S j)%nat by lia. exact Hat. }
      { exact Hcc. }
      rewrite Hr. exists s', ((block_req bn c, RBytes [0; 0]) :: pre), q. repeat split; try assumption.
      cbn [app blocks_of]. rewrite block_req_is_block. cbn [block_req q_data app nth skipn].
      rewrite Hb. cbn [d_block_state d_count]. unfold numbers_from. cbn [seq map firstn combine].
      now rewrite Hbnm, Hbn.
    + change (dec_block_rsp (RBytes [128; 0])) with (@Err unit (CCError 128)). cbv iota beta.
      change (128 =? CC_LONG_DURATION_CMD_IN_PROGRESS) with true. cbv iota.
      rewrite run_pbind.
      destruct (wait_spec timeout interval (d_block_state s bn c k) Hi) as (s1 & polls & Hw & (Hc1 & Hc2 & Hc3) & Hso & Hne).
      rewrite Hw.
      destruct (IH cs s1 ((bn + 1) mod 256) retry cc Hcs) as (s' & pre & q & Hr & Hq & Hb & Hp); try assumption.
      { rewrite Hc2. exact Hbn'. }
      { intros i Hi'. rewrite Hc1, Hc2. cbn. replace (S (d_count s + i)) with (d_count s + S i)%nat by lia. apply Hbefore. lia. }
      { rewrite Hc1, Hc2. cbn. replace (S (d_count s + j)) with (d_count s + S j)%nat by lia. exact Hat. }
      rewrite Hr. exists s', ((block_req bn c, RBytes [128; 0]) :: polls ++ pre), q.
      repeat split; try assumption.
      * cbn [app]. now rewrite <- app_assoc.
      * cbn [app blocks_of]. rewrite block_req_is_block. cbn [block_req q_data app nth skipn].
        rewrite <- app_assoc, blocks_of_app, (status_only_blocks _ Hso), Hb, Hc2. cbn [app].
        cbn [d_block_state d_count]. unfold numbers_from. cbn [seq map firstn combine].
        now rewrite Hbnm, Hbn.
      * cbn [app polls_ok]. rewrite block_req_is_block. cbn [reply_is_cc N.eqb Pos.eqb andb].
        specialize (Hne Ht). destruct polls as [|[q2 rp2] polls']; [congruence|].
        cbn [app]. inversion Hso as [|? ? [Hs1 _] _]; subst. cbn [fst] in Hs1. rewrite Hs1. cbn [andb].
        rewrite <- app_assoc.
        now apply (polls_ok_status_app ((q2, rp2) :: polls')).
Qed.

(* ---------------------------------------------------------------- upload_binary *)
Lemma map_fst_combine' {A B} (a : list A) : forall (b : list B), length a = length b -> map fst (combine a b) = a.
Proof. induction a as [|x a IH]; intros [|y b] H; cbn in *; try discriminate; [reflexivity|]. f_equal. apply IH. lia. Qed.
Lemma map_snd_combine' {A B} (a : list A) : forall (b : list B), length a = length b -> map snd (combine a b) = b.
Proof. induction a as [|x a IH]; intros [|y b] H; cbn in *; try discriminate; [reflexivity|]. f_equal. apply IH. lia. Qed.

Lemma numbers_from_length c n : length (numbers_from c n) = n.
Proof. unfold numbers_from. now rewrite map_length, seq_length. Qed.

Lemma chunks_length l bs : (1 <= bs)%nat -> length (chunks l bs) = ((length l + bs - 1) / bs)%nat.
Proof. intros. unfold chunks. now apply chunks_f_length. Qed.

Definition blocks_total (binary : list N) (bs : nat) : nat := ((length binary + bs - 1) / bs)%nat.

Lemma upload_complete binary bs plan timeout interval retry :
  bytes_ok binary = true -> (1 <= bs)%nat -> 1 <= timeout -> 1 <= interval ->
  (forall i, (i < blocks_total binary bs)%nat -> is_fail (nth i plan Accept) = false) ->
  exists s tr,
    run (upload_binary bs binary timeout interval retry) hpm_device (d_init plan) [] = (Ok tt, s, tr)
    /\ concat (map snd (blocks_of tr)) = binary
    /\ map fst (blocks_of tr) = numbering (blocks_total binary bs)
    /\ Forall (fun b => (length (snd b) <= bs)%nat) (blocks_of tr)
    /\ polls_ok tr = true
    /\ d_received s = blocks_of tr.
Proof.
  intros Hb Hbs Ht Hi Hplan. unfold upload_binary. destruct bs as [|b]; [lia|]. set (bs := S b) in *.
  destruct (upload_loop_ok timeout interval Hi Ht (chunks binary bs) (d_init plan) 0 retry)
    as (s & tr & Hr & Hblocks & Hpolls & Hrecv & _ & _).
  - unfold chunks. now apply chunks_f_bytes_ok.
  - reflexivity.
  - intros i Hlt. cbn [d_init d_count d_plan Nat.add]. apply Hplan. unfold blocks_total. now rewrite <- chunks_length.
  - exists s, tr. cbn [d_init d_count] in Hblocks.
    assert (Hlen : length (numbers_from 0 (length (chunks binary bs))) = length (chunks binary bs))
      by apply numbers_from_length.
    repeat split.
    + exact Hr.
    + rewrite Hblocks, map_snd_combine' by exact Hlen. unfold chunks. now apply chunks_f_concat.
    + rewrite Hblocks, map_fst_combine' by exact Hlen. unfold blocks_total. now rewrite <- chunks_length.
    + rewrite Hblocks. apply Forall_forall. intros [n c] Hin. apply in_combine_r in Hin. cbn [snd].
      pose proof (chunks_f_sizes bs Hbs (length binary) binary) as Hs.
      rewrite Forall_forall in Hs. apply (Hs c Hin).
    + exact Hpolls.
    + rewrite Hrecv. reflexivity.
Qed.

Lemma firstn_combine {A B} n : forall (a : list A) (b : list B),
  firstn n (combine a b) = combine (firstn n a) (firstn n b).
Proof. induction n as [|n IH]; intros [|x a] [|y b]; cbn; try reflexivity. now rewrite IH. Qed.

Lemma upload_error_aborts binary bs plan timeout interval retry j cc :
  bytes_ok binary = true -> (1 <= bs)%nat -> 1 <= timeout -> 1 <= interval ->
  (j < blocks_total binary bs)%nat ->
  (forall i, (i < j)%nat -> is_fail (nth i plan Accept) = false) ->
  nth j plan Accept = Fail cc -> answer_ok (Fail cc) = true ->
  exists s pre q,
    run (upload_binary bs binary timeout interval retry) hpm_device (d_init plan) []
      = (Err HpmError, s, pre ++ [(q, RBytes [cc; 0])])
    /\ is_block q = true
    /\ length (blocks_of (pre ++ [(q, RBytes [cc; 0])])) = S j
    /\ concat (map snd (blocks_of (pre ++ [(q, RBytes [cc; 0])]))) = firstn (S j * bs) binary
    /\ map fst (blocks_of (pre ++ [(q, RBytes [cc; 0])])) = numbering (S j)
    /\ polls_ok (pre ++ [(q, RBytes [cc; 0])]) = true.
Proof.
  intros Hb Hbs Ht Hi Hj Hbefore Hat Hcc. unfold upload_binary. destruct bs as [|b]; [lia|]. set (bs := S b) in *.
  assert (Hjl : (j < length (chunks binary bs))%nat) by (rewrite chunks_length by exact Hbs; exact Hj).
  destruct (upload_loop_fail timeout interval Hi Ht j (chunks binary bs) (d_init plan) 0 retry cc)
    as (s & pre & q & Hr & Hq & Hblocks & Hpolls); try assumption.
  - unfold chunks. now apply chunks_f_bytes_ok.
  - reflexivity.
  - exists s, pre, q. cbn [d_init d_count] in Hblocks.
    assert (Hlen : length (numbers_from 0 (S j)) = length (firstn (S j) (chunks binary bs))).
    { rewrite numbers_from_length, firstn_length. lia. }
    repeat split; try assumption.
    + rewrite Hblocks, combine_length, Hlen, Nat.min_id, firstn_length. lia.
    + rewrite Hblocks, map_snd_combine' by exact Hlen. unfold chunks. now apply chunks_f_prefix.
    + rewrite Hblocks, map_fst_combine' by exact Hlen. reflexivity.
Qed.

(* the fuel inside wait_for_long_duration_command always suffices *)
Lemma upload_no_out_of_fuel S (dev : device S) s bs binary timeout interval retry :
  1 <= interval -> sane_device dev ->
  outcome (run (upload_binary bs binary timeout interval retry) dev s []) <> Err OutOfFuel.
Proof.
  intros Hi Hd. unfold upload_binary. destruct bs; [cbn; discriminate|]. now apply upload_loop_fuel.
Qed.

Lemma hpm_device_sane : sane_device hpm_device.
Proof.
  intros s q. unfold hpm_device.
  destruct ((q_netfn q =? 44) && (q_lun q =? 0)); [|discriminate].
  destruct (q_cmd q =? 50).
  - destruct (q_data q) as [|[|a] [|b d]]; try discriminate.
    destruct (nth (d_count s) (d_plan s) Accept); discriminate.
  - destruct (q_cmd q =? 52); [|discriminate].
    destruct (q_data q) as [|[|a] [|b d]]; try discriminate.
    destruct (d_pending s); discriminate.
Qed.
