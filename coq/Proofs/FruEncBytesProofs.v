(* C15: the image of a well-formed inventory is a byte string (this is where every
   numeric bound of wf_inv is used).  About Model/FruSpec.v only. *)
From Coq Require Import String.
From Coq Require Import NArith List Lia ZArith ZifyN ZifyBool ZifyNat Bool.
From PyIpmi Require Import Lib.Res Lib.Bytes Model.FruParse Model.FruSpec Proofs.FruParseProofs Proofs.FruChecksumProofs.
Import ListNotations.
Open Scope N_scope.
Ltac Zify.zify_post_hook ::= Z.to_euclidean_division_equations.

Lemma bytes_ok_cons b l : bytes_ok (b :: l) = true <-> b < 256 /\ bytes_ok l = true.
Proof. cbn. unfold is_byte. rewrite andb_true_iff. intuition lia. Qed.

Lemma bcd_code_lt c : bcd_char_ok c = true -> bcd_code c < 13.
Proof. unfold bcd_char_ok. lia. Qed.

Lemma enc_bcd_bytes s : forallb bcd_char_ok s = true -> bytes_ok (enc_bcd s) = true.
Proof.
  induction s as [|a|a b r IH] using pair_ind; intros H; try reflexivity.
  cbn in H. apply andb_prop in H as [Ha H]. apply andb_prop in H as [Hb H].
  apply bcd_code_lt in Ha. apply bcd_code_lt in Hb.
  cbn [enc_bcd]. apply bytes_ok_cons. split; [lia | auto].
Qed.

Lemma enc_6bit_bytes s : forallb six_char_ok s = true -> bytes_ok (enc_6bit s) = true.
Proof.
  induction s as [|a|a b|a b c|a b c d r IH] using quad_ind; intros H; try reflexivity;
    cbn [forallb] in H; repeat (apply andb_prop in H as [?H H]);
    repeat match goal with X : six_char_ok _ = true |- _ => apply six_ok in X end;
    cbn [enc_6bit app]; repeat (apply bytes_ok_cons; split; [lia|]); auto.
Qed.

Lemma enc_field_bytes f : wf_field f = true -> bytes_ok (enc_field f) = true.
Proof.
  intros Hwf. pose proof (wf_field_len f Hwf) as Hl. pose proof (field_type_lt f) as Ht.
  unfold enc_field. apply bytes_ok_cons. split; [lia|].
  unfold wf_field in Hwf. apply andb_prop in Hwf as [_ Hwf].
  destruct f as [r|s|s|s]; cbn [field_payload]; try assumption.
  - apply andb_prop in Hwf as [Hc _]. now apply enc_bcd_bytes.
  - apply andb_prop in Hwf as [Hc _]. now apply enc_6bit_bytes.
Qed.

Lemma enc_fields_bytes (P : sfield -> bool) fs :
  (forall f, P f = true -> wf_field f = true) -> forallb P fs = true -> bytes_ok (enc_fields fs) = true.
Proof.
  intros HP. induction fs as [|f r IH]; intros H; [reflexivity|].
  cbn in H. apply andb_prop in H as [Hf Hr]. unfold enc_fields. cbn [map concat].
  rewrite bytes_ok_app. fold (enc_fields r). rewrite enc_field_bytes, IH by auto. reflexivity.
Qed.

Lemma bytes_ok_repeat0 n : bytes_ok (repeat 0 n) = true.
Proof. induction n; cbn; auto. Qed.

Lemma enc_area_bytes dated nf a : wf_area dated nf a = true -> bytes_ok (enc_area dated a) = true.
Proof.
  unfold wf_area. intros H.
  apply andb_prop in H as [H Hblocks]. apply andb_prop in H as [H Hcust].
  apply andb_prop in H as [H Hflds]. apply andb_prop in H as [H Hnf].
  apply andb_prop in H as [Hb2 Hmin]. apply Nat.leb_le in Hblocks.
  unfold enc_area. rewrite !bytes_ok_app.
  assert (H1 : bytes_ok [1; N.of_nat (area_blocks dated a)] = true).
  { apply bytes_ok_cons; split; [lia|]. apply bytes_ok_cons; split; [lia | reflexivity]. }
  assert (H2 : bytes_ok (area_body dated a) = true).
  { unfold area_body. rewrite !bytes_ok_app.
    rewrite (enc_fields_bytes wf_field) by auto.
    rewrite (enc_fields_bytes wf_custom) by (try assumption; unfold wf_custom; intros f Hf; now apply andb_prop in Hf as [? _]).
    replace (bytes_ok [sa_b2 a]) with true by (symmetry; apply bytes_ok_cons; split; [lia | reflexivity]).
    destruct dated; [rewrite le_bytes_ok|]; reflexivity. }
  rewrite H1, H2, bytes_ok_repeat0. cbn [andb]. apply bytes_ok_cons. split; [apply zero_sum_byte_lt | reflexivity].
Qed.

Lemma enc_opt_area_bytes dated nf o : wf_opt_area dated nf o = true -> bytes_ok (enc_opt_area dated o) = true.
Proof. destruct o as [a|]; cbn [wf_opt_area enc_opt_area]; [apply enc_area_bytes | reflexivity]. Qed.

Lemma enc_rec_bytes last r : wf_rec r = true -> bytes_ok (enc_rec last r) = true.
Proof.
  unfold wf_rec. intros H. apply andb_prop in H as [H _]. apply andb_prop in H as [H Hlen].
  apply andb_prop in H as [Ht Hb]. apply Nat.leb_le in Hlen.
  unfold enc_rec. rewrite !bytes_ok_app, Hb.
  repeat (rewrite andb_true_iff; split); try reflexivity;
    repeat (apply bytes_ok_cons; split; [try apply zero_sum_byte_lt; try (destruct last; lia); lia|]); reflexivity.
Qed.

Lemma enc_recs_bytes rs : forallb wf_rec rs = true -> bytes_ok (enc_recs rs) = true.
Proof.
  induction rs as [|r [|r' rs''] IH]; intros H; [reflexivity | |].
  - cbn in H. apply andb_prop in H as [H _]. now apply enc_rec_bytes.
  - change (enc_recs (r :: r' :: rs'')) with (enc_rec false r ++ enc_recs (r' :: rs'')).
    cbn [forallb] in H. apply andb_prop in H as [Hr H]. rewrite bytes_ok_app, enc_rec_bytes by assumption.
    apply IH. exact H.
Qed.

Lemma off_byte_lt present n : start_ok present n = true -> off_byte present n < 256.
Proof. unfold start_ok, off_byte. destruct present; intros H; [|lia]. apply Nat.ltb_lt in H. lia. Qed.

Lemma enc_inventory_bytes s : wf_inv s = true -> bytes_ok (enc_inventory s) = true.
Proof.
  unfold wf_inv, wf_inv_gen. intros H.
  apply andb_prop in H as [H Hst]. apply andb_prop in H as [H Hmr]. apply andb_prop in H as [H Hpr].
  apply andb_prop in H as [H Hbd]. apply andb_prop in H as [H Hch]. apply andb_prop in H as [Hint _].
  cbv zeta in Hst. apply andb_prop in Hst as [Hst S4]. apply andb_prop in Hst as [Hst S3].
  apply andb_prop in Hst as [S1 S2].
  rewrite <- nonempty_enc_recs in S4.
  apply off_byte_lt in S1, S2, S3, S4.
  unfold enc_inventory. cbv zeta. rewrite !bytes_ok_app.
  rewrite Hint, (enc_opt_area_bytes _ _ _ Hch), (enc_opt_area_bytes _ _ _ Hbd), (enc_opt_area_bytes _ _ _ Hpr),
    (enc_recs_bytes _ Hmr).
  repeat (rewrite andb_true_iff; split); try reflexivity.
  - repeat (apply bytes_ok_cons; split; [try assumption; try lia|]); try reflexivity.
    unfold off_byte. destruct (nonempty (s_internal s)); cbn; lia.
  - apply bytes_ok_cons. split; [apply zero_sum_byte_lt | reflexivity].
Qed.

(* non-vacuity witness used by Props/C15.v *)
Definition example_inv : sinv :=
  mkSInv (hx "0102030405060708")
      (Some (mkSArea 23 0 [SText (bytes_of_string "CH-1"); SBcd (bytes_of_string "12-34.")] []))
      (Some (mkSArea 25 6451200 [SText (bytes_of_string "Kontron"); S6 (bytes_of_string "AM401");
                                 SBcd (bytes_of_string "0023"); SBin [1; 2; 3]; SText []]
                                [S6 (bytes_of_string "X1")]))
      (Some (mkSArea 0 0 [SText []; SText []; SText []; SText []; SText []; SText []; SText []] []))
      [mkSRec 2 [1; 2; 3]; mkSRec 0xc0 (hx "5a3100270000a401")].

Lemma example_nonvacuous :
  let s := example_inv in
  wf_inv s = true /\
  parse_inventory (enc_inventory s) = Ok (Some (view_inventory s)) /\
  covered (view_inventory s) 3 /\ covered (view_inventory s) 18 /\ covered (view_inventory s) 95.
Proof.
  cbv zeta. split; [vm_compute; reflexivity|]. split; [vm_compute; reflexivity|].
  split; [apply cov_header; lia|].
  split.
  - eapply (cov_area _ _ false 2%nat (h_chassis (i_header (view_inventory example_inv))));
      [left; reflexivity | vm_compute; lia | vm_compute; lia].
  - eapply cov_rec; [reflexivity | vm_compute; lia |]. vm_compute. right. split; [lia|]. left. lia.
Qed.

(* F15c: over the full domain of the storage definition the inverse property is false of
   the code: an OEM record of type 0xC0 whose payload is only a manufacturer id, as the
   last record of the image, is rejected ('data too short') *)
Definition f15c_witness : sinv := mkSInv [] None None None [mkSRec 2 [1]; mkSRec 0xc0 [0x11; 0x22; 0x33]].
Lemma parse_enc_full_refuted :
  exists s, wf_inv_full s = true /\ bytes_ok (enc_inventory s) = true /\
            parse_inventory (enc_inventory s) = Err DecodingError.
Proof. exists f15c_witness. vm_compute. auto. Qed.
