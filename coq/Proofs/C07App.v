(* C07 - IPM device commands: watchdog timer, user names. *)
From Coq Require Import String Ascii.
From Coq Require Import NArith ZArith List Bool Lia.
From PyIpmi Require Import Lib.Res Lib.Bytes Lib.Prog Model.ApiSem Model.Bmc Model.ApiRun Proofs.ApiRunProofs.
Import ListNotations.
Open Scope string_scope.
Open Scope list_scope.
Open Scope N_scope.

(* ---- user name ---- *)
Definition pad16 (s : string) : list N := bytes_of_string s ++ repeat 0 (16 - String.length s)%nat.
Definition names : list string :=
  [""; "a"; "admin"; "root"; "ADMIN"; "operator-7"; "user.name_01"; "xxxxxxxxxxxxxxxx"].
Definition uids : list N := [0; 1; 2; 10; 62; 63].
Definition chk_uname (uid : N) (nm : string) : bool :=
  Nat.eqb (length (pad16 nm)) 16 &&
  exch_ok "set_username" [arg "userid" uid; ("username", PStr nm)] (RBytes [0])
           (mkReq 6 69 0 (uid :: pad16 nm)) (Ok PNone)
  && exch_ok "get_username" [arg "userid" uid] (RBytes (0 :: pad16 nm))
              (mkReq 6 70 0 [uid]) (Ok (PBytes (pad16 nm))).
Lemma uname_table : forallb (fun uid => forallb (chk_uname uid) names) uids = true.
Proof. vm_cast_no_check (eq_refl true). Qed.

Lemma bmc_set_uname s uid nm : length nm = 16%nat -> uid < 64 ->
  bmc_handle s (mkReq 6 69 0 (uid :: nm)) = (put s (K_UNAME, uid, 0) nm, RBytes [0]).
Proof.
  intros H Hu. unfold bmc_handle, h_app. cbn [q_netfn q_cmd q_lun q_data N.eqb Pos.eqb].
  cbn [length]. rewrite H. cbn. rewrite (N.mod_small uid 64 Hu). reflexivity.
Qed.
Lemma bmc_get_uname s uid : uid < 64 ->
  bmc_handle s (mkReq 6 70 0 [uid]) = (s, RBytes (0 :: get s (K_UNAME, uid, 0))).
Proof. intros Hu. unfold bmc_handle, h_app. cbn. rewrite (N.mod_small uid 64 Hu). reflexivity. Qed.

(* ---- watchdog ---- *)
Record wd := mkWd { w_use : N; w_stop : bool; w_log : bool; w_pre : N; w_act : N; w_int : N; w_flags : N;
                    w_lo : N; w_hi : N }.
Definition b2n (b : bool) : N := if b then 1 else 0.
Definition wd_config (w : wd) : pv :=
  PObj "Watchdog" [("timer_use", PInt (Z.of_N (w_use w))); ("dont_stop", PBool (w_stop w)); ("dont_log", PBool (w_log w));
                   ("pre_timeout_interrupt", PInt (Z.of_N (w_pre w))); ("timeout_action", PInt (Z.of_N (w_act w)));
                   ("pre_timeout_interval", PInt (Z.of_N (w_int w)));
                   ("timer_use_expiration_flags", PInt (Z.of_N (w_flags w)));
                   ("initial_countdown", PInt (Z.of_N (w_lo w + 256 * w_hi w)))].
Definition wd_request (w : wd) : list N :=
  [w_use w + 64 * b2n (w_stop w) + 128 * b2n (w_log w); w_act w + 16 * w_pre w; w_int w; w_flags w; w_lo w; w_hi w].
(* configuration held by a BMC whose watchdog was never used before (no expiration flags set, stopped) *)
Definition wd_cfg (w : wd) : list N :=
  [w_use w + 128 * b2n (w_log w); w_act w + 16 * w_pre w; w_int w; 0; w_lo w; w_hi w].
Definition wd_reply (w : wd) : list N := wd_cfg w ++ [w_lo w; w_hi w].
Definition wd_result (w : wd) : pv :=
  PObj "Watchdog" [("timer_use", PInt (Z.of_N (w_use w))); ("dont_stop", PNone); ("is_running", PBool false);
                   ("dont_log", PBool (w_log w)); ("pre_timeout_interrupt", PInt (Z.of_N (w_pre w)));
                   ("timeout_action", PInt (Z.of_N (w_act w))); ("pre_timeout_interval", PInt (Z.of_N (w_int w)));
                   ("timer_use_expiration_flags", PInt 0);
                   ("initial_countdown", PInt (Z.of_N (w_lo w + 256 * w_hi w)));
                   ("present_countdown", PInt (Z.of_N (w_lo w + 256 * w_hi w)))].
Definition wd_state (w : wd) (s : store) : store :=
  let s1 := put s (K_WD, 0, 0) (wd_cfg w) in
  put (if w_stop w then s1 else put s1 (K_WDRUN, 0, 0) [0]) (K_WDINIT, 0, 0) [1].

Definition chk_wd (w : wd) : bool :=
  exch_ok "set_watchdog_timer" [("config", wd_config w)] (RBytes [0])
           (mkReq 6 36 0 (wd_request w)) (Ok PNone)
  && exch_ok "get_watchdog_timer" [] (RBytes (0 :: wd_reply w)) (mkReq 6 37 0 []) (Ok (wd_result w)).

Definition base : wd := mkWd 4 false true 1 2 3 16 88 2.
Definition bsel : list N := [0; 1; 2; 127; 128; 254; 255].
(* every value of each parameter, the others at a base value; all flag combinations *)
Definition wd_cases : list wd :=
  map (fun x => mkWd x false true 1 2 3 16 88 2) (nrange 8) ++
  map (fun x => mkWd 4 false true x 2 3 16 88 2) (nrange 8) ++
  map (fun x => mkWd 4 true false 1 x 3 16 88 2) (nrange 8) ++
  map (fun x => mkWd 4 false true 1 2 x 16 88 2) (nrange 256) ++
  map (fun x => mkWd 4 true true 1 2 3 x 88 2) (nrange 256) ++
  map (fun x => mkWd 4 false false 1 2 3 16 x 0) (nrange 256) ++
  map (fun x => mkWd 5 false true 7 3 255 255 255 x) (nrange 256) ++
  flat_map (fun a => map (fun b => mkWd 1 a b 0 0 0 0 0 0) [false; true]) [false; true].
Lemma wd_table : forallb chk_wd wd_cases = true.
Proof. vm_cast_no_check (eq_refl true). Qed.

(* the reference BMC on these requests, for every state whose watchdog is unused *)
Definition wd_bmc_ok (w : wd) : Prop := forall s,
  get s (K_WD, 0, 0) = [0; 0; 0; 0; 0; 0] -> get s (K_WDRUN, 0, 0) = [0] ->
  bmc_handle s (mkReq 6 36 0 (wd_request w)) = (wd_state w s, RBytes [0]) /\
  bmc_handle (wd_state w s) (mkReq 6 37 0 []) = (wd_state w s, RBytes (0 :: wd_reply w)).

Lemma wd_bmc_one w : w_use w < 8 -> w_pre w < 8 -> w_act w < 8 -> w_flags w < 256 -> wd_bmc_ok w.
Proof.
  intros Hu Hp Ha Hf s H1 H2. destruct w as [u st lg p a i f lo hi]. cbn in Hu, Hp, Ha, Hf.
  unfold wd_state, wd_cfg, wd_request, wd_reply, wd_cfg. cbn [w_use w_stop w_log w_pre w_act w_int w_flags w_lo w_hi].
  assert (E0 : (u + 64 * b2n st + 128 * b2n lg) mod 8 = u).
  { destruct st, lg; cbn [b2n]; rewrite ?N.mul_0_r, ?N.add_0_r;
      Zify.zify; Z.to_euclidean_division_equations; lia. }
  assert (E7 : bit (u + 64 * b2n st + 128 * b2n lg) 7 = b2n lg).
  { unfold bit. destruct st, lg; cbn [b2n]; rewrite ?N.mul_0_r, ?N.add_0_r; change (2 ^ 7) with 128;
      Zify.zify; Z.to_euclidean_division_equations; lia. }
  assert (E6 : bit (u + 64 * b2n st + 128 * b2n lg) 6 = b2n st).
  { unfold bit. destruct st, lg; cbn [b2n]; rewrite ?N.mul_0_r, ?N.add_0_r; change (2 ^ 6) with 64;
      Zify.zify; Z.to_euclidean_division_equations; lia. }
  assert (A0 : (a + 16 * p) mod 8 = a) by (Zify.zify; Z.to_euclidean_division_equations; lia).
  assert (A1 : ((a + 16 * p) / 16) mod 8 = p) by (Zify.zify; Z.to_euclidean_division_equations; lia).
  assert (F : merge_bits 8 0 f 0 = 0).
  { clear. cbn [merge_bits]. repeat match goal with |- context [if ?c then _ else _] => destruct c end; cbn; reflexivity. }
  split.
  - unfold bmc_handle, h_app. cbn [q_netfn q_cmd q_lun q_data N.eqb Pos.eqb length Nat.eqb negb at_ nth].
    rewrite H1. cbn [at_ nth]. rewrite E0, E7, E6, A0, A1, F.
    destruct st; cbn [b2n N.eqb]; reflexivity.
  - unfold bmc_handle, h_app. cbn [q_netfn q_cmd q_lun q_data N.eqb Pos.eqb].
    rewrite get_put_other by discriminate.
    assert (R : get (if st then put s (K_WD, 0, 0) [u + 128 * b2n lg; a + 16 * p; i; 0; lo; hi]
                     else put (put s (K_WD, 0, 0) [u + 128 * b2n lg; a + 16 * p; i; 0; lo; hi]) (K_WDRUN, 0, 0) [0])
                    (K_WDRUN, 0, 0) = [0]).
    { destruct st; [rewrite get_put_other by discriminate; exact H2 | apply get_put_same]. }
    assert (G : get (if st then put s (K_WD, 0, 0) [u + 128 * b2n lg; a + 16 * p; i; 0; lo; hi]
                     else put (put s (K_WD, 0, 0) [u + 128 * b2n lg; a + 16 * p; i; 0; lo; hi]) (K_WDRUN, 0, 0) [0])
                    (K_WD, 0, 0) = [u + 128 * b2n lg; a + 16 * p; i; 0; lo; hi]).
    { destruct st; [apply get_put_same | rewrite get_put_other by discriminate; apply get_put_same]. }
    rewrite (get_put_other _ _ _ (K_WDRUN, 0, 0)) by discriminate. rewrite R, G. cbn [at_ nth N.eqb].
    rewrite N.mul_0_r, N.add_0_r. reflexivity.
Qed.

Definition wd_small (w : wd) : bool := (w_use w <? 8) && (w_pre w <? 8) && (w_act w <? 8) && (w_flags w <? 256).
Lemma wd_cases_small : forallb wd_small wd_cases = true.
Proof. vm_compute. reflexivity. Qed.

Opaque one_exchange call bmc_handle.

Lemma write_read_watchdog s w : is_supported "set_watchdog_timer" = true -> is_supported "get_watchdog_timer" = true -> List.In w wd_cases ->
  get s (K_WD, 0, 0) = [0; 0; 0; 0; 0; 0] -> get s (K_WDRUN, 0, 0) = [0] ->
  exists r1 r2,
    call "set_watchdog_timer" [("config", wd_config w)] s = (r1, wd_state w s) /\ same r1 (Ok PNone) /\
    call "get_watchdog_timer" [] (wd_state w s) = (r2, wd_state w s) /\ same r2 (Ok (wd_result w)).
Proof.
  intros Sw Sr Hw H1 H2.
  pose proof (table1 chk_wd wd_cases wd_table w Hw) as C. unfold chk_wd in C. apply andb_true_iff in C as [W R].
  pose proof (table1 wd_small wd_cases wd_cases_small w Hw) as S. unfold wd_small in S.
  apply andb_true_iff in S as [S S4]. apply andb_true_iff in S as [S S3]. apply andb_true_iff in S as [S1 S2].
  apply N.ltb_lt in S1, S2, S3, S4.
  destruct (wd_bmc_one w S1 S2 S3 S4 s H1 H2) as [BW BR].
  exact (write_then_read "set_watchdog_timer" "get_watchdog_timer" _ _ s _ _ _ _ _ _ _ Sw Sr W BW R BR).
Qed.

Lemma write_read_username s uid nm : is_supported "set_username" = true -> is_supported "get_username" = true -> List.In uid uids -> List.In nm names ->
  let s1 := put s (K_UNAME, uid, 0) (pad16 nm) in
  exists r1 r2,
    call "set_username" [arg "userid" uid; ("username", PStr nm)] s = (r1, s1) /\ same r1 (Ok PNone) /\
    call "get_username" [arg "userid" uid] s1 = (r2, s1) /\ same r2 (Ok (PBytes (pad16 nm))).
Proof.
  intros Sw Sr Hu Hn s1.
  pose proof (table2 (fun nm uid => chk_uname uid nm) uids names uname_table uid nm Hu Hn) as C.
  cbv beta in C. unfold chk_uname in C. apply andb_true_iff in C as [C R]. apply andb_true_iff in C as [L W].
  apply Nat.eqb_eq in L.
  assert (Hlt : uid < 64) by (destruct Hu as [<- | [<- | [<- | [<- | [<- | [<- | []]]]]]]; lia).
  assert (BR : bmc_handle s1 (mkReq 6 70 0 [uid]) = (s1, RBytes (0 :: pad16 nm))).
  { rewrite (bmc_get_uname _ uid Hlt). unfold s1. rewrite get_put_same. reflexivity. }
  exact (write_then_read "set_username" "get_username" _ _ s s1 _ _ _ _ _ _ Sw Sr W (bmc_set_uname s uid _ L Hlt) R BR).
Qed.
