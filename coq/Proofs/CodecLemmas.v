(* Per-field lemmas about Model/Codec.v. *)
From Coq Require Import String.
From Coq Require Import NArith List Lia ZArith ZifyN ZifyBool ZifyNat Bool.
From PyIpmi Require Import Lib.Res Lib.Bytes Lib.Bits Model.Codec.
Import ListNotations.
Open Scope N_scope.
Ltac Zify.zify_post_hook ::= Z.to_euclidean_division_equations.

(* ---- typing of already decoded / assigned values: what references rely on ---- *)
Definition typed (f : fld) (v : val) : Prop :=
  match f_kind f, f_base f with
  | KPlain, BUInt _ => exists x, v = VInt x
  | KPlain, BBits _ ws => exists vs, v = VBits vs /\ length vs = length ws
  | _, _ => True
  end.

Lemma Forall2_nth_error {A B} (R : A -> B -> Prop) l1 l2 :
  Forall2 R l1 l2 -> forall i a, nth_error l1 i = Some a ->
  exists b, nth_error l2 i = Some b /\ R a b.
Proof.
  induction 1 as [|x y l1 l2 Hxy H IH]; intros [|i] a Hn; cbn in *; try discriminate.
  - injection Hn as <-. eauto.
  - eauto.
Qed.

Lemma Forall2_snoc {A B} (R : A -> B -> Prop) l1 l2 a b :
  Forall2 R l1 l2 -> R a b -> Forall2 R (l1 ++ [a]) (l2 ++ [b]).
Proof. intros H Hab. apply Forall2_app; [assumption | constructor; [assumption | constructor]]. Qed.

Lemma nth_error_app_lt {A} (l x : list A) i : (i < length l)%nat -> nth_error (l ++ x) i = nth_error l i.
Proof. intros H. now apply nth_error_app1. Qed.

Lemma ref_uint_spec pre done r : ref_uint pre r = true -> Forall2 typed pre done ->
  (r < length done)%nat /\ exists k, nth_error done r = Some (VInt k).
Proof.
  unfold ref_uint. intros H HT.
  destruct (nth_error pre r) as [f|] eqn:Hn; [|discriminate].
  destruct (Forall2_nth_error _ _ _ HT _ _ Hn) as [v [Hv Ht]].
  split; [apply nth_error_Some; congruence|].
  unfold typed in Ht. destruct (f_kind f); try discriminate. destruct (f_base f); try discriminate.
  destruct Ht as [x ->]. eauto.
Qed.

Lemma ref_bit_spec pre done fi bi : ref_bit pre fi bi = true -> Forall2 typed pre done ->
  (fi < length done)%nat /\ exists vs v, nth_error done fi = Some (VBits vs) /\ nth_error vs bi = Some v.
Proof.
  unfold ref_bit. intros H HT.
  destruct (nth_error pre fi) as [f|] eqn:Hn; [|discriminate].
  destruct (Forall2_nth_error _ _ _ HT _ _ Hn) as [v [Hv Ht]].
  split; [apply nth_error_Some; congruence|].
  unfold typed in Ht. destruct (f_kind f); try discriminate. destruct (f_base f) as [| |n ws| | | |]; try discriminate.
  destruct Ht as [vs [-> Hl]]. apply Nat.ltb_lt in H.
  destruct (nth_error vs bi) as [x|] eqn:Hb; [eauto|].
  apply nth_error_None in Hb. lia.
Qed.

(* predicates only read already fixed fields: same value whatever follows *)
Lemma eval_cond_app pre done c : cond_ok pre c = true -> Forall2 typed pre done ->
  exists b, forall x, eval_cond (done ++ x) c = Ok b.
Proof.
  intros Hc HT. induction c as [fi bi k|a IHa b IHb|a IHa b IHb]; cbn [cond_ok eval_cond] in *.
  - destruct (ref_bit_spec _ _ _ _ Hc HT) as [Hlt [vs [v [H1 H2]]]].
    exists (v =? k). intros x. rewrite nth_error_app_lt, H1, H2 by assumption. reflexivity.
  - apply andb_prop in Hc as [Ha Hb]. destruct (IHa Ha) as [ba Ea]. destruct (IHb Hb) as [bb Eb].
    exists (if ba then true else bb). intros x. rewrite Ea. cbn. destruct ba; [reflexivity | apply Eb].
  - apply andb_prop in Hc as [Ha Hb]. destruct (IHa Ha) as [ba Ea]. destruct (IHb Hb) as [bb Eb].
    exists (if ba then bb else false). intros x. rewrite Ea. cbn. destruct ba; [apply Eb | reflexivity].
Qed.

(* ---- small arithmetic facts ---- *)
Lemma pow256 n : 256 ^ N.of_nat n = 2 ^ (8 * N.of_nat n).
Proof. change 256 with (2 ^ 8). now rewrite <- N.pow_mul_r. Qed.

Lemma mask_bytes_ok l : bytes_ok l = true -> mask_bytes l = l.
Proof.
  unfold mask_bytes. induction l as [|b r IH]; cbn [map bytes_ok forallb]; intros H; [reflexivity|].
  apply andb_prop in H as [H1 H2]. unfold is_byte in H1. rewrite (IH H2).
  f_equal. lia.
Qed.

Lemma unpack_at_length ws : forall off x, length (unpack_at off ws x) = length ws.
Proof. induction ws as [|w r IH]; intros off x; cbn; [reflexivity | now rewrite IH]. Qed.

Lemma combine_fst {A B} (a : list A) : forall (b : list B), length b = length a -> map fst (combine a b) = a.
Proof. induction a as [|x a IH]; intros [|y b] H; cbn in *; try discriminate; [reflexivity|]. f_equal. apply IH. lia. Qed.
Lemma combine_snd {A B} (a : list A) : forall (b : list B), length b = length a -> map snd (combine a b) = b.
Proof. induction a as [|x a IH]; intros [|y b] H; cbn in *; try discriminate; [reflexivity|]. f_equal. apply IH. lia. Qed.

Lemma take_ok n d h t : take n d = Ok (h, t) -> d = h ++ t /\ length h = n.
Proof.
  unfold take. destruct (Nat.leb_spec n (length d)); [|discriminate]. intros [= <- <-].
  split; [symmetry; apply firstn_skipn | rewrite firstn_length; lia].
Qed.
Lemma take_total n d : (exists h t, take n d = Ok (h, t)) \/ take n d = Err DecodingError.
Proof. unfold take. destruct (Nat.leb n (length d)); eauto. Qed.
Lemma take_app n h t : length h = n -> take n (h ++ t) = Ok (h, t).
Proof.
  intros Hl. unfold take. rewrite app_length.
  replace (Nat.leb n (length h + length t)) with true by (symmetry; apply Nat.leb_le; lia).
  now rewrite firstn_app_exact, skipn_app_exact.
Qed.

Lemma bytes_ok_split h t : bytes_ok (h ++ t) = true -> bytes_ok h = true /\ bytes_ok t = true.
Proof. rewrite bytes_ok_app. apply andb_prop. Qed.

(* a Bitfield of n bytes whose member widths sum to 8n: decode then re-encode *)
Lemma bits_reencode n ws h : total_width ws = 8 * N.of_nat n -> bytes_ok h = true -> length h = n ->
  le_bytes n (bits_value ws (unpack_at 0 ws (le_val h))) = h.
Proof.
  intros Hw Hb Hl. unfold bits_value.
  rewrite (pack_unpack ws 0 0 (le_val h)) by (cbn; now rewrite N.mod_1_r).
  rewrite N.add_0_l, Hw, <- pow256.
  pose proof (le_val_bound h Hb) as Hlt. rewrite Hl in Hlt.
  rewrite N.mod_small by assumption. now apply le_bytes_val.
Qed.

(* encode then decode *)
Lemma bits_redecode n ws vs : total_width ws = 8 * N.of_nat n -> length vs = length ws ->
  vals_ok (combine ws vs) ->
  unpack_at 0 ws (le_val (le_bytes n (bits_value ws vs))) = vs.
Proof.
  intros Hw Hl Hv. unfold bits_value.
  assert (Hb : pack_at 0 (combine ws vs) 0 < 256 ^ N.of_nat n).
  { pose proof (pack_at_bound (combine ws vs) 0 0 ltac:(cbn; lia)) as H.
    rewrite combine_fst, N.add_0_l, Hw, <- pow256 in H by assumption. exact H. }
  rewrite le_val_bytes by assumption.
  pose proof (unpack_pack (combine ws vs) 0 0 ltac:(cbn; lia) Hv) as H.
  now rewrite combine_fst, combine_snd in H by assumption.
Qed.
