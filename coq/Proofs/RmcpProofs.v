(* Proofs about Model/Rmcp.v (C05; reused by C06). *)
From Coq Require Import NArith List Lia ZArith ZifyN ZifyBool ZifyNat Bool.
From PyIpmi Require Import Lib.Res Lib.Bytes Model.Rmcp.
Import ListNotations.
Open Scope N_scope.
Ltac Zify.zify_post_hook ::= Z.to_euclidean_division_equations.

(* ---------- the specification side: the datagram an IPMI v1.5 LAN message must be ---------- *)
Definition pad16 (p : list N) : list N := p ++ repeat 0 (16 - length p).

Section Spec.
Variable md5 : list N -> list N.

(* authentication code for type [a] over exactly these session id / sequence number bytes *)
Definition spec_code (a : N) (pw sidb seqb payload : list N) : list N :=
  if a =? 0 then []
  else if a =? 4 then pad16 pw
  else md5 (pad16 pw ++ sidb ++ payload ++ seqb ++ pad16 pw).

Definition spec_dgram (rseq a seq sid : N) (pw payload : list N) : list N :=
  [6; 0; rseq; 7] ++ [a] ++ le_bytes 4 seq ++ le_bytes 4 sid
  ++ spec_code a pw (le_bytes 4 sid) (le_bytes 4 seq) payload
  ++ [N.of_nat (length payload)] ++ payload.

Definition implemented (a : N) : Prop := a = 0 \/ a = 2 \/ a = 4.

(* ---------- small facts ---------- *)
Lemma nth_skipn_shift (l : list N) : forall n i, nth i (skipn n l) 0 = nth (n + i) l 0.
Proof. induction l as [|x l IH]; intros [|n] i; cbn; auto; destruct i; auto. Qed.

Lemma bytes_ok_rev l : bytes_ok (rev l) = bytes_ok l.
Proof.
  apply eq_true_iff_eq. rewrite !bytes_ok_In. split; intros H b Hb; apply H.
  - apply (proj1 (in_rev l b)). exact Hb.
  - apply (proj2 (in_rev l b)). exact Hb.
Qed.

Lemma pack_I_ok v : v < 0x100000000 -> pack_I v = Ok (be_bytes 4 v).
Proof. intros H. unfold pack_I. destruct (N.ltb_spec v 0x100000000); [reflexivity | lia]. Qed.

Lemma be_bytes_ok v : bytes_ok (be_bytes 4 v) = true.
Proof. unfold be_bytes. rewrite bytes_ok_rev. apply le_bytes_ok. Qed.
Lemma be_bytes_len v : length (be_bytes 4 v) = 4%nat.
Proof. unfold be_bytes. rewrite rev_length. apply le_bytes_length. Qed.

Lemma swapped_lt v : le_val (be_bytes 4 v) < 0x100000000.
Proof.
  pose proof (le_val_bound (be_bytes 4 v) (be_bytes_ok v)) as H.
  rewrite be_bytes_len in H. exact H.
Qed.

Lemma swap32_ok v : v < 0x100000000 -> swap32 v = Ok (le_val (be_bytes 4 v)).
Proof. intros H. unfold swap32. rewrite pack_I_ok by assumption. reflexivity. Qed.

(* '!I' of the byte-swapped value = the little-endian bytes of the value *)
Lemma be_swap v : be_bytes 4 (le_val (be_bytes 4 v)) = le_bytes 4 v.
Proof.
  unfold be_bytes at 1. rewrite le_bytes_val.
  - unfold be_bytes. apply rev_involutive.
  - apply be_bytes_ok.
  - apply be_bytes_len.
Qed.

Lemma incr_seq_lt n : incr_seq n < 0x100000000.
Proof. unfold incr_seq. destruct (N.ltb_spec 0xffffffff (n + 1)); lia. Qed.

Lemma incr_seq_spec n : n < 0x100000000 ->
  incr_seq n = (if n =? 0xffffffff then 1 else n + 1) /\ incr_seq n <> 0.
Proof.
  intros H. unfold incr_seq.
  destruct (N.ltb_spec 0xffffffff (n + 1)), (N.eqb_spec n 0xffffffff); lia.
Qed.

Lemma ljust16_pad p : ljust16 p = pad16 p.
Proof. reflexivity. Qed.
Lemma pad16_len p : (length p <= 16)%nat -> length (pad16 p) = 16%nat.
Proof. intros H. unfold pad16. rewrite app_length, repeat_length. lia. Qed.
Lemma s16_pad p : (length p <= 16)%nat -> s16 p = pad16 p.
Proof. intros H. unfold s16. rewrite ljust16_pad. apply firstn_all2. rewrite pad16_len; auto. Qed.

(* the session state after IpmiMsg.pack *)
Definition after_pack (s : sess) : sess := if s_act s then sess_incr s else s.

Lemma after_pack_seq s : s_seq s < 0x100000000 ->
  s_seq (after_pack s) = (if s_act s then (if s_seq s =? 0xffffffff then 1 else s_seq s + 1) else s_seq s)
  /\ s_seq (after_pack s) < 0x100000000
  /\ s_sid (after_pack s) = s_sid s /\ s_auth (after_pack s) = s_auth s /\ s_pw (after_pack s) = s_pw s
  /\ s_act (after_pack s) = s_act s.
Proof.
  intros H. unfold after_pack. destruct (s_act s) eqn:E; cbn.
  - destruct (incr_seq_spec _ H) as [-> _]. repeat split; auto.
    destruct (N.eqb_spec (s_seq s) 0xffffffff); lia.
  - repeat split; auto.
Qed.

(* ---------- IpmiMsg.pack: the PDU is the specified one ---------- *)
Lemma ipmi_pack_spec s a pw d :
  s_auth s = Some a -> implemented a -> s_sid s < 0x100000000 -> s_seq s < 0x100000000 ->
  (a <> 0 -> s_pw s = Some pw /\ (length pw <= 16)%nat) ->
  (length d <= 255)%nat ->
  let s' := after_pack s in
  ipmi_pack md5 (Some s) (Some d) =
    (Some s', Ok ([a] ++ le_bytes 4 (s_seq s') ++ le_bytes 4 (s_sid s')
                  ++ spec_code a pw (le_bytes 4 (s_sid s')) (le_bytes 4 (s_seq s')) d
                  ++ [N.of_nat (length d)] ++ d)).
Proof.
  intros Ha Himp Hsid Hseq Hpw Hd s'.
  destruct (after_pack_seq s Hseq) as (_ & Hseq' & Hsid' & Hauth' & Hpw' & _). fold s' in Hseq', Hsid', Hauth', Hpw'.
  unfold ipmi_pack.
  replace (if s_act s then Some (sess_incr s) else Some s) with (Some s')
    by (subst s'; unfold after_pack; destruct (s_act s); reflexivity).
  rewrite Ha. f_equal.
  assert (Ha256 : a < 256) by (destruct Himp as [-> | [-> | ->]]; lia).
  unfold pack_B. destruct (N.ltb_spec a 256); [|lia]. cbn [bind].
  unfold pack_sequence_number, pack_session_id.
  rewrite Hsid'.
  rewrite (swap32_ok _ Hseq'), (swap32_ok _ Hsid). cbn [bind].
  rewrite (pack_I_ok _ (swapped_lt _)), (pack_I_ok _ (swapped_lt _)). cbn [bind].
  rewrite !be_swap.
  assert (Hlen : N.of_nat (length d) <? 256 = true) by lia.
  unfold spec_code.
  destruct Himp as [-> | [-> | ->]]; cbn [N.eqb Pos.eqb AUTH_NONE AUTH_PASSWORD AUTH_MD5].
  - cbn [bind]. rewrite Hlen. cbn [bind]. reflexivity.
  - destruct (Hpw ltac:(lia)) as [Hp Hl].
    unfold pack_auth_code_md5, md5_preimage, padd_password, pack_session_id, pack_sequence_number.
    rewrite Hpw', Hp, Hsid'. cbn [bind].
    rewrite (swap32_ok _ Hseq'), (swap32_ok _ Hsid). cbn [bind].
    rewrite (pack_I_ok _ (swapped_lt _)), (pack_I_ok _ (swapped_lt _)). cbn [bind].
    rewrite !be_swap, ljust16_pad. rewrite Hlen. cbn [bind].
    assert (Hpp : pad16 (pad16 pw) = pad16 pw).
    { unfold pad16 at 1. rewrite pad16_len by assumption. cbn. apply app_nil_r. }
    rewrite (s16_pad (pad16 pw)) by (rewrite pad16_len; lia).
    rewrite Hpp. rewrite <- !app_assoc. reflexivity.
  - destruct (Hpw ltac:(lia)) as [Hp Hl].
    unfold padd_password. rewrite Hpw', Hp. cbn [bind]. rewrite Hlen. cbn [bind]. reflexivity.
Qed.

(* no session object (the interface before the challenge): type none, zeros *)
Lemma ipmi_pack_nosession d : (length d <= 255)%nat ->
  ipmi_pack md5 None (Some d) = (None, Ok ([0; 0; 0; 0; 0; 0; 0; 0; 0] ++ [N.of_nat (length d)] ++ d)).
Proof.
  intros Hd. unfold ipmi_pack. f_equal.
  assert (Hlen : N.of_nat (length d) <? 256 = true) by lia.
  cbn -[N.of_nat N.ltb app]. rewrite Hlen. reflexivity.
Qed.

(* ---------- C05_layout ---------- *)
Lemma send_layout s a pw d rseq :
  s_auth s = Some a -> implemented a -> s_sid s < 0x100000000 -> s_seq s < 0x100000000 ->
  (a <> 0 -> s_pw s = Some pw /\ (length pw <= 16)%nat) ->
  (length d <= 255)%nat -> rseq < 256 ->
  let s' := after_pack s in
  send_ipmi_msg md5 (Some s) rseq d =
    (Some s', rmcp_seq_next rseq, Ok (spec_dgram rseq a (s_seq s') (s_sid s') pw d))
  /\ s_seq s' = (if s_act s then (if s_seq s =? 0xffffffff then 1 else s_seq s + 1) else s_seq s)
  /\ s_sid s' = s_sid s.
Proof.
  intros Ha Himp Hsid Hseq Hpw Hd Hr s'.
  destruct (after_pack_seq s Hseq) as (E1 & _ & E2 & _).
  split; [|split; assumption].
  unfold send_ipmi_msg. rewrite (ipmi_pack_spec s a pw d Ha Himp Hsid Hseq Hpw Hd). fold s'.
  unfold rmcp_pack, pack_B, CLASS_IPMI. destruct (N.ltb_spec rseq 256); [|lia]. cbn [bind N.ltb N.compare Pos.compare Pos.compare_cont].
  reflexivity.
Qed.

Lemma send_layout_nosession d rseq : (length d <= 255)%nat -> rseq < 256 ->
  send_ipmi_msg md5 None rseq d = (None, rmcp_seq_next rseq, Ok (spec_dgram rseq 0 0 0 [] d)).
Proof.
  intros Hd Hr. unfold send_ipmi_msg. rewrite (ipmi_pack_nosession d Hd).
  unfold rmcp_pack, pack_B, CLASS_IPMI. destruct (N.ltb_spec rseq 256); [|lia]. reflexivity.
Qed.

(* the fields at their offsets *)
Lemma spec_code_len a pw sidb seqb d : implemented a -> (length pw <= 16)%nat ->
  (forall x, length (md5 x) = 16%nat) ->
  length (spec_code a pw sidb seqb d) = if a =? 0 then 0%nat else 16%nat.
Proof.
  intros [-> | [-> | ->]] Hl Hm; unfold spec_code; cbn [N.eqb Pos.eqb]; auto using pad16_len.
Qed.

Lemma spec_offsets rseq a seq sid pw d :
  let g := spec_dgram rseq a seq sid pw d in
  nth 0 g 0 = 6 /\ nth 1 g 0 = 0 /\ nth 2 g 0 = rseq /\ nth 3 g 0 = 7 /\ nth 4 g 0 = a /\
  firstn 4 (skipn 5 g) = le_bytes 4 seq /\ firstn 4 (skipn 9 g) = le_bytes 4 sid /\
  le_val (firstn 4 (skipn 5 g)) = seq mod 0x100000000 /\ le_val (firstn 4 (skipn 9 g)) = sid mod 0x100000000 /\
  skipn 13 g = spec_code a pw (le_bytes 4 sid) (le_bytes 4 seq) d ++ [N.of_nat (length d)] ++ d.
Proof.
  intros g. subst g. unfold spec_dgram.
  assert (E : forall v, le_val (le_bytes 4 v) = v mod 0x100000000).
  { intros v. rewrite <- (le_bytes_mod 4 v). apply (le_val_bytes 4). change (256 ^ N.of_nat 4) with 0x100000000.
    apply N.mod_lt. lia. }
  set (rest := spec_code a pw (le_bytes 4 sid) (le_bytes 4 seq) d ++ [N.of_nat (length d)] ++ d).
  set (tl := le_bytes 4 seq ++ le_bytes 4 sid ++ rest).
  set (g := [6; 0; rseq; 7] ++ [a] ++ tl).
  assert (S5 : skipn 5 g = tl) by reflexivity.
  assert (S9 : skipn 9 g = skipn 4 tl) by reflexivity.
  assert (S13 : skipn 13 g = skipn 4 (skipn 4 tl)) by (rewrite skipn_skipn; reflexivity).
  assert (F5 : firstn 4 (skipn 5 g) = le_bytes 4 seq).
  { rewrite S5. apply firstn_app_exact, le_bytes_length. }
  assert (F9 : firstn 4 (skipn 9 g) = le_bytes 4 sid).
  { rewrite S9. unfold tl. rewrite (skipn_app_exact 4) by apply le_bytes_length.
    apply firstn_app_exact, le_bytes_length. }
  assert (F13 : skipn 13 g = rest).
  { rewrite S13. unfold tl.
    rewrite (skipn_app_exact 4) by apply le_bytes_length.
    rewrite (skipn_app_exact 4) by apply le_bytes_length. reflexivity. }
  rewrite F5, F9, F13, !E. repeat split; reflexivity.
Qed.

(* the MD5 code is the digest over the very bytes at offsets 5..12 of this datagram *)
Lemma md5_over_own_bytes rseq seq sid pw d :
  (forall x, length (md5 x) = 16%nat) ->
  let g := spec_dgram rseq 2 seq sid pw d in
  firstn 16 (skipn 13 g) =
    md5 (pad16 pw ++ firstn 4 (skipn 9 g) ++ d ++ firstn 4 (skipn 5 g) ++ pad16 pw).
Proof.
  intros Hm g. destruct (spec_offsets rseq 2 seq sid pw d) as (_ & _ & _ & _ & _ & E5 & E9 & _ & _ & E13).
  fold g in E5, E9, E13. rewrite E5, E9, E13. unfold spec_code. cbn [N.eqb Pos.eqb].
  apply firstn_app_exact, Hm.
Qed.

Lemma password_code rseq seq sid pw d : (length pw <= 16)%nat ->
  firstn 16 (skipn 13 (spec_dgram rseq 4 seq sid pw d)) = pad16 pw.
Proof.
  intros Hl. destruct (spec_offsets rseq 4 seq sid pw d) as (_ & _ & _ & _ & _ & _ & _ & _ & _ & E13).
  rewrite E13. unfold spec_code. cbn [N.eqb Pos.eqb]. apply firstn_app_exact, pad16_len, Hl.
Qed.

Lemma length_and_payload rseq a seq sid pw d : implemented a -> (length pw <= 16)%nat ->
  (forall x, length (md5 x) = 16%nat) ->
  let g := spec_dgram rseq a seq sid pw d in
  let o := if a =? 0 then 13%nat else 29%nat in
  nth o g 0 = N.of_nat (length d) /\ skipn (S o) g = d /\ length g = (S o + length d)%nat.
Proof.
  intros Hi Hl Hm g o.
  destruct (spec_offsets rseq a seq sid pw d) as (_ & _ & _ & _ & _ & _ & _ & _ & _ & E13). fold g in E13.
  pose proof (spec_code_len a pw (le_bytes 4 sid) (le_bytes 4 seq) d Hi Hl Hm) as Hc.
  assert (Hg : length g = (13 + length (skipn 13 g))%nat).
  { rewrite skipn_length. subst g. unfold spec_dgram. rewrite !app_length, !le_bytes_length. cbn. lia. }
  set (c := spec_code _ _ _ _ _) in *.
  assert (Eo : o = (13 + length c)%nat) by (subst o; rewrite Hc; destruct (a =? 0); reflexivity).
  repeat split.
  - rewrite Eo. rewrite <- (nth_skipn_shift g 13 (length c)). rewrite E13. rewrite app_nth2 by lia.
    rewrite Nat.sub_diag. reflexivity.
  - rewrite Eo. replace (S (13 + length c)) with (13 + S (length c))%nat by lia.
    rewrite <- skipn_skipn. rewrite E13.
    replace (S (length c)) with (length (c ++ [N.of_nat (length d)])) by (rewrite app_length; cbn; lia).
    rewrite app_assoc. apply skipn_app_exact. reflexivity.
  - rewrite Hg, E13, Eo, !app_length. cbn. lia.
Qed.
End Spec.

(* ---------- received side ---------- *)
Definition hdr_len (a : N) : nat := if a =? 0 then 10%nat else 26%nat.

Lemma ipmi_unpack_ok q pdu o : ipmi_unpack q pdu = Ok o ->
  let hl := hdr_len (nth 0 pdu 0) in
  (hl <= length pdu)%nat /\
  o = (match skipn hl pdu with [] => None | x => Some x end) /\
  (q = false -> nth (hl - 1) pdu 0 = N.of_nat (length pdu - hl)).
Proof.
  unfold ipmi_unpack. destruct pdu as [|a r]; [discriminate|].
  change (nth 0 (a :: r) 0) with a. fold (hdr_len a). set (hl := hdr_len a). set (pdu := a :: r).
  destruct (Nat.ltb_spec (length pdu) hl); [discriminate|].
  destruct q.
  - intros [= <-]. split; [assumption|]. split; [destruct (skipn hl pdu); reflexivity | discriminate].
  - set (dl := nth (hl - 1) pdu 0). clearbody dl.
    destruct (N.ltb_spec (N.of_nat (length pdu)) (N.of_nat hl + dl)); [discriminate|].
    destruct (N.ltb_spec (N.of_nat hl + dl) (N.of_nat (length pdu))); [discriminate|].
    assert (Hdl : dl = N.of_nat (length pdu - hl)) by lia.
    assert (Hsl : length (skipn hl pdu) = (length pdu - hl)%nat) by apply skipn_length.
    destruct (N.eqb_spec dl 0) as [E0|E0]; intros [= <-]; (split; [assumption|]); (split; [|auto]).
    + rewrite (proj1 (length_zero_iff_nil (skipn hl pdu))) by lia. reflexivity.
    + rewrite firstn_all2 by lia. revert Hsl. destruct (skipn hl pdu); intros Hsl; [change (length (@nil N)) with 0%nat in Hsl; lia | reflexivity].
Qed.

Lemma ipmi_unpack_complete q pdu :
  let hl := hdr_len (nth 0 pdu 0) in
  (hl <= length pdu)%nat ->
  (q = false -> nth (hl - 1) pdu 0 = N.of_nat (length pdu - hl)) ->
  ipmi_unpack q pdu = Ok (match skipn hl pdu with [] => None | x => Some x end).
Proof.
  intros hl Hl Hq. unfold ipmi_unpack. destruct pdu as [|a r].
  { subst hl. cbn in Hl. unfold hdr_len in Hl. cbn in Hl. lia. }
  change (nth 0 (a :: r) 0) with a in hl. fold (hdr_len a). fold hl. set (pdu := a :: r) in *.
  destruct (Nat.ltb_spec (length pdu) hl); [lia|].
  destruct q; [destruct (skipn hl pdu); reflexivity|]. specialize (Hq eq_refl).
  assert (Hsl : length (skipn hl pdu) = (length pdu - hl)%nat) by apply skipn_length.
  set (dl := nth (hl - 1) pdu 0) in *. clearbody dl.
  destruct (N.ltb_spec (N.of_nat (length pdu)) (N.of_nat hl + dl)); [lia|].
  destruct (N.ltb_spec (N.of_nat hl + dl) (N.of_nat (length pdu))); [lia|].
  destruct (N.eqb_spec dl 0) as [E0|E0].
  - rewrite (proj1 (length_zero_iff_nil (skipn hl pdu))) by lia. reflexivity.
  - rewrite firstn_all2 by lia. revert Hsl. destruct (skipn hl pdu); intros Hsl; [change (length (@nil N)) with 0%nat in Hsl; lia | reflexivity].
Qed.

(* what a datagram must look like to be unwrapped, and to what *)
Definition recv_spec (q : bool) (dg d : list N) : Prop :=
  let hl := hdr_len (nth 4 dg 0) in
  nth 0 dg 0 = 6 /\ nth 3 dg 0 = 7 /\ (4 + hl <= length dg)%nat /\
  d = skipn (4 + hl) dg /\ d <> [] /\
  (q = false -> nth (4 + hl - 1) dg 0 = N.of_nat (length d)).

Lemma receive_iff q dg d : receive_ipmi_msg q dg = Ok d <-> recv_spec q dg d.
Proof.
  unfold receive_ipmi_msg, recv_spec, rmcp_unpack.
  destruct dg as [|v [|r [|s [|c pdu]]]];
    try (split; [discriminate | intros (_ & _ & H & _); cbn in H; lia]).
  change (nth 4 (v :: r :: s :: c :: pdu) 0) with (nth 0 pdu 0).
  change (nth 0 (v :: r :: s :: c :: pdu) 0) with v.
  change (nth 3 (v :: r :: s :: c :: pdu) 0) with c.
  change (length (v :: r :: s :: c :: pdu)) with (S (S (S (S (length pdu))))).
  set (hl := hdr_len (nth 0 pdu 0)).
  assert (Sk : skipn (4 + hl) (v :: r :: s :: c :: pdu) = skipn hl pdu) by reflexivity.
  assert (Nt : nth (4 + hl - 1) (v :: r :: s :: c :: pdu) 0 = nth (hl - 1) pdu 0).
  { assert (0 < hl)%nat by (subst hl; unfold hdr_len; destruct (_ =? 0); lia).
    replace (4 + hl - 1)%nat with (S (S (S (S (hl - 1))))) by lia. reflexivity. }
  rewrite Sk, Nt.
  destruct (N.eqb_spec v 6) as [->|Hv]; cbn [bind].
  2:{ split; [discriminate | intros (H & _); contradiction]. }
  unfold CLASS_IPMI. destruct (N.eqb_spec c 7) as [->|Hc]; cbn [negb].
  2:{ split; [discriminate | intros (_ & H & _); contradiction]. }
  split.
  - destruct (ipmi_unpack q pdu) as [o|e] eqn:E; cbn [bind]; [|discriminate].
    apply ipmi_unpack_ok in E. fold hl in E. destruct E as (H1 & H2 & H3).
    destruct o as [x|]; [|discriminate]. intros [= <-].
    assert (Hx : x = skipn hl pdu) by (destruct (skipn hl pdu); congruence).
    repeat split; auto; try lia.
    + rewrite Hx. destruct (skipn hl pdu); [discriminate | discriminate].
    + intros Hq. rewrite (H3 Hq), Hx, skipn_length. reflexivity.
  - intros (_ & _ & H1 & H2 & H3 & H4).
    rewrite (ipmi_unpack_complete q pdu); fold hl; [| lia |].
    + cbn [bind]. rewrite <- H2. destruct d; [contradiction | reflexivity].
    + intros Hq. rewrite (H4 Hq), H2, skipn_length. reflexivity.
Qed.

(* rejection conditions named by the property *)
Lemma receive_rejects q dg :
  nth 0 dg 0 <> 6 \/ nth 3 dg 0 <> 7 \/
  (q = false /\ nth (4 + hdr_len (nth 4 dg 0) - 1) dg 0 <> N.of_nat (length dg - (4 + hdr_len (nth 4 dg 0)))) ->
  exists e, receive_ipmi_msg q dg = Err e.
Proof.
  intros H. destruct (receive_ipmi_msg q dg) as [d|e] eqn:E; [|eauto]. exfalso.
  apply receive_iff in E. destruct E as (H0 & H3 & Hl & Hd & _ & Hq).
  destruct H as [H | [H | [Hq' H]]]; try contradiction.
  apply H. rewrite (Hq Hq'), Hd, skipn_length. reflexivity.
Qed.

Section RoundTrip.
Variable md5 : list N -> list N.
Hypothesis md5_len : forall x, length (md5 x) = 16%nat.

(* receiving what was sent gives back exactly the payload, whatever the quirk *)
Lemma unpack_pack q rseq a seq sid pw d :
  implemented a -> (length pw <= 16)%nat -> d <> [] ->
  receive_ipmi_msg q (spec_dgram md5 rseq a seq sid pw d) = Ok d.
Proof.
  intros Hi Hl Hd. apply receive_iff. unfold recv_spec.
  destruct (spec_offsets md5 rseq a seq sid pw d) as (E0 & _ & _ & E3 & E4 & _).
  destruct (length_and_payload md5 rseq a seq sid pw d Hi Hl md5_len) as (L1 & L2 & L3).
  rewrite E0, E3, E4.
  set (o := if a =? 0 then 13%nat else 29%nat) in *.
  assert (Ho : (4 + hdr_len a = S o)%nat) by (unfold hdr_len; subst o; destruct (a =? 0); lia).
  rewrite Ho, L2, L3. repeat split; auto; try lia.
  intros _. replace (S o - 1)%nat with o by lia.
  exact L1.
Qed.

Lemma ipmi_unpack_pack q rseq a seq sid pw d :
  implemented a -> (length pw <= 16)%nat ->
  ipmi_unpack q (skipn 4 (spec_dgram md5 rseq a seq sid pw d)) = Ok (match d with [] => None | _ => Some d end).
Proof.
  intros Hi Hl.
  destruct (length_and_payload md5 rseq a seq sid pw d Hi Hl md5_len) as (L1 & L2 & L3).
  set (g := spec_dgram md5 rseq a seq sid pw d) in *.
  assert (E4 : nth 0 (skipn 4 g) 0 = a) by reflexivity.
  set (o := if a =? 0 then 13%nat else 29%nat) in *.
  assert (Ho : (4 + hdr_len a = S o)%nat) by (unfold hdr_len; subst o; destruct (a =? 0); lia).
  assert (Sk : skipn (hdr_len a) (skipn 4 g) = d) by (rewrite skipn_skipn, Ho; exact L2).
  rewrite ipmi_unpack_complete; rewrite E4.
  - rewrite Sk. destruct d; reflexivity.
  - rewrite skipn_length. lia.
  - intros _. rewrite skipn_length.
    assert (Hhl : (10 <= hdr_len a)%nat) by (unfold hdr_len; destruct (a =? 0); lia).
    rewrite nth_skipn_shift. replace (4 + (hdr_len a - 1))%nat with o by lia.
    rewrite L1. f_equal. lia.
Qed.
End RoundTrip.

(* ---------- ASF ---------- *)
Lemma ping_bytes : asf_ping = Ok [0; 0; 0x11; 0xbe; 0x80; 0; 0; 0]
  /\ rmcp_pack (Some [0; 0; 0x11; 0xbe; 0x80; 0; 0; 0]) 0xff CLASS_ASF
     = Ok [6; 0; 0xff; 6; 0; 0; 0x11; 0xbe; 0x80; 0; 0; 0].
Proof. split; vm_compute; reflexivity. Qed.

Definition pong_spec (sdu : list N) (i o e x : N) : Prop :=
  length sdu = 24%nat /\ nth 4 sdu 0 = 0x40 /\ nth 7 sdu 0 = 16 /\
  i = be_val (firstn 4 (skipn 8 sdu)) /\ o = be_val (firstn 4 (skipn 12 sdu)) /\
  e = nth 16 sdu 0 /\ x = nth 17 sdu 0 /\ x = 0 /\ (i = 4542 -> o = 0).

Lemma pong_accept_iff sdu i o e x : asf_pong_unpack sdu = Ok (i, o, e, x) <-> pong_spec sdu i o e x.
Proof.
  unfold pong_spec.
  destruct sdu as [|b0 [|b1 [|b2 [|b3 [|ty [|b5 [|b6 [|dl rest]]]]]]]];
    try (split; [discriminate | intros (H & _); cbn in H; lia]).
  unfold asf_pong_unpack. cbn [nth].
  change (skipn 8 (b0 :: b1 :: b2 :: b3 :: ty :: b5 :: b6 :: dl :: rest)) with rest.
  change (skipn 12 (b0 :: b1 :: b2 :: b3 :: ty :: b5 :: b6 :: dl :: rest)) with (skipn 4 rest).
  set (n := N.of_nat (length (b0 :: b1 :: b2 :: b3 :: ty :: b5 :: b6 :: dl :: rest))).
  assert (Hn : n = 8 + N.of_nat (length rest)) by (subst n; cbn [length]; lia).
  assert (Hlen : length (b0 :: b1 :: b2 :: b3 :: ty :: b5 :: b6 :: dl :: rest) = 24%nat <-> length rest = 16%nat)
    by (cbn [length]; lia).
  rewrite Hlen. clearbody n.
  destruct (N.ltb_spec n (8 + dl)); [split; [discriminate | intros (? & _ & ? & _); lia]|].
  destruct (N.ltb_spec (8 + dl) n); [split; [discriminate | intros (? & _ & ? & _); lia]|].
  destruct (N.eqb_spec ty 0x40) as [->|]; cbn [negb]; [|split; [discriminate | intros (_ & ? & _); contradiction]].
  destruct (N.eqb_spec dl 0) as [->|]; [split; [discriminate | intros (_ & _ & ? & _); discriminate]|].
  destruct (N.eqb_spec dl 16) as [->|]; cbn [negb]; [|split; [discriminate | intros (_ & _ & ? & _); contradiction]].
  assert (Hr : length rest = 16%nat) by lia.
  rewrite (firstn_all2 (n := 16) rest) by lia.
  set (I := be_val (firstn 4 rest)). set (O := be_val (firstn 4 (skipn 4 rest))).
  destruct (N.eqb_spec (nth 9 rest 0) 0) as [EX|EX].
  2:{ split.
      - destruct ((I =? 4542) && negb (O =? 0)); cbn [negb]; discriminate.
      - intros (_ & _ & _ & _ & _ & _ & Hx & Hx0 & _). exfalso. apply EX. congruence. }
  cbn [negb].
  destruct (N.eqb_spec I 4542) as [EI|EI], (N.eqb_spec O 0) as [EO|EO]; cbn [andb negb]; split;
    try (intros H'; try discriminate H'; injection H' as <- <- <- <-; repeat split; auto; intros; congruence);
    try (intros (_ & _ & _ & Hi & Ho & He & Hx & Hx0 & Hio); subst i o e x; try reflexivity;
         exfalso; apply EO; apply Hio; exact EI).
Qed.
