(* Proofs about Model/Bridge.v (C09). *)
From Coq Require Import NArith List Lia ZArith ZifyN ZifyBool ZifyNat Bool.
From PyIpmi Require Import Lib.Res Lib.Bytes Lib.Bits Model.Ipmb Model.Bridge Proofs.IpmbProofs.
Import ListNotations.
Open Scope N_scope.
Ltac Zify.zify_post_hook ::= Z.to_euclidean_division_equations.

(* ---- the Send Message request byte ---- *)
Lemma send_message_req_bytes_spec ch : ch < 16 -> send_message_req_bytes ch 1 = [64 + ch].
Proof.
  intros H.
  assert (A : forallb (fun c => bytes_eqb (send_message_req_bytes c 1) [64 + c])
                      (map N.of_nat (seq 0 16)) = true) by (vm_compute; reflexivity).
  rewrite forallb_forall in A. apply list_eqb_N_eq. apply A.
  rewrite <- (N2Nat.id ch). apply in_map. apply in_seq. lia.
Qed.

Definition route_in_range (r : route) : Prop := r_rq_sa r < 256 /\ r_rs_sa r < 256 /\ r_chan r < 16.

Definition hop_of (seq : N) (r : route) : hop := mkHop (r_rq_sa r) (r_rs_sa r) (r_chan r) 1 seq.

Lemma bridge_hop_explicit rs b1 c1 rq b4 cb x cs :
  (rs + b1 + c1) mod 256 = 0 -> sum (rq :: b4 :: 52 :: cb :: x ++ [cs]) mod 256 = 0 ->
  b1 = 24 -> b4 mod 4 = 0 -> (cb / 16) mod 4 = 0 ->
  bridge_hop (rs :: b1 :: c1 :: rq :: b4 :: 52 :: cb :: x ++ [cs]) =
  Some (mkHop rq rs (cb mod 16) (cb / 64) (b4 / 4), x).
Proof.
  intros H1 H2 H3 H4 H5. unfold bridge_hop.
  rewrite H1, H2, H3, H4, H5. change (6 * 4) with 24.
  rewrite !N.eqb_refl. cbn [andb].
  replace (Nat.leb 1 (length (x ++ [cs]))) with true
    by (symmetry; apply Nat.leb_le; rewrite app_length; cbn; lia).
  do 2 f_equal. apply firstn_app_exact. rewrite app_length. cbn. lia.
Qed.

(* one wrapping layer: the frame exists, is made of bytes, and a conforming bridge
   addressed r_rs_sa sees exactly: from r_rq_sa, channel, tracking 1, seq, and the
   embedded frame x (this includes both checksums of the layer being zero-sum) *)
Lemma encode_send_message_hop x r seq :
  route_in_range r -> seq < 64 -> bytes_ok x = true ->
  exists f, encode_send_message x (r_rq_sa r) (r_rs_sa r) (r_chan r) seq 1 = Ok f /\
    bytes_ok f = true /\ length f = (8 + length x)%nat /\
    sum256 (firstn 3 f) = 0 /\ sum256 (skipn 3 f) = 0 /\
    bridge_hop f = Some (hop_of seq r, x).
Proof.
  intros (Hq & Hs & Hc) Hseq Hx.
  unfold encode_send_message. rewrite send_message_req_bytes_spec by assumption.
  remember (64 + r_chan r) as cb eqn:Ecb.
  set (h := mkHdr _ _ _ _ _ _ _).
  assert (Hr : hdr_in_range h).
  { unfold hdr_in_range, h, NETFN_APP, CMDID_SEND_MESSAGE.
    cbn [rs_sa rs_lun rq_sa rq_lun rq_seq netfn cmdid]. lia. }
  assert (Hd : bytes_ok ([cb] ++ x) = true).
  { rewrite bytes_ok_app, Hx. cbn [bytes_ok forallb andb]. unfold is_byte. lia. }
  destruct (frame_ok h _ Hr Hd) as (f & Ef & Hl & Hok & S1 & S2 & _ & _).
  exists f. rewrite Ef.
  split; [reflexivity|]. split; [assumption|].
  split; [rewrite Hl, app_length; cbn [length]; lia|].
  split; [assumption|]. split; [assumption|].
  (* the explicit shape of the frame *)
  revert Ef. unfold encode_ipmb_msg, hdr_req_encode, arr_bytes.
  subst h. cbn [rs_sa rs_lun rq_sa rq_lun rq_seq netfn cmdid].
  rewrite !byte62_enc by lia.
  unfold NETFN_APP, CMDID_SEND_MESSAGE.
  set (c := checksum [r_rs_sa r; 6 * 4 + 0]).
  assert (Hcb : c < 256) by apply checksum_is_byte.
  assert (Hok6 : bytes_ok [r_rs_sa r; 6 * 4 + 0; c; r_rq_sa r; seq * 4 + 0; 52] = true).
  { cbn. unfold is_byte. lia. }
  rewrite Hok6. cbn [bind]. rewrite Hd. cbn [bind]. intros E. injection E as <-.
  cbn [app].
  set (cs := checksum _).
  rewrite bridge_hop_explicit.
  - unfold hop_of. do 2 f_equal. f_equal; lia.
  - pose proof (checksum_zero [r_rs_sa r; 6 * 4 + 0]) as Z. fold c in Z. cbn [sum] in Z. lia.
  - exact (sum256_with_checksum (r_rq_sa r :: seq * 4 + 0 :: 52 :: cb :: x)).
  - lia.
  - lia.
  - lia.
Qed.

(* ---- nesting, any depth ---- *)
(* the inside-out loop of encode_bridged_message as a right fold (outermost hop first) *)
Fixpoint wrap_hops (hops : list route) (inner : res (list N)) (seq : N) : res (list N) :=
  match hops with
  | [] => inner
  | b :: r =>
    do x <- wrap_hops r inner seq;
    encode_send_message x (r_rq_sa b) (r_rs_sa b) (r_chan b) seq 1
  end.

Lemma fold_left_rev_wrap hops inner seq :
  fold_left (fun (tx : res (list N)) (bridge : route) =>
               do tx_data <- tx;
               encode_send_message tx_data (r_rq_sa bridge) (r_rs_sa bridge) (r_chan bridge) seq 1)
            (rev hops) inner
  = wrap_hops hops inner seq.
Proof.
  induction hops as [|b r IH]; [reflexivity|].
  cbn [rev]. rewrite fold_left_app. cbn [fold_left]. rewrite IH. reflexivity.
Qed.

Lemma encode_bridged_unfold hops last h p seq :
  encode_bridged (hops ++ [last]) h p seq =
  wrap_hops hops
    (encode_ipmb_msg (mkHdr (r_rs_sa last) (rs_lun h) (r_rq_sa last) (rq_lun h) (rq_seq h) (netfn h) (cmdid h)) p)
    seq.
Proof.
  unfold encode_bridged, bridged_header.
  rewrite rev_app_distr. cbn [rev app bind].
  rewrite removelast_last. apply fold_left_rev_wrap.
Qed.

Lemma wrap_hops_peel hops seq : forall inner,
  Forall route_in_range hops -> seq < 64 -> bytes_ok inner = true ->
  exists f, wrap_hops hops (Ok inner) seq = Ok f /\ bytes_ok f = true /\
    length f = (8 * length hops + length inner)%nat /\
    peel (length hops) f = Some (map (hop_of seq) hops, inner).
Proof.
  induction hops as [|b r IH]; intros inner HF Hseq Hin.
  - exists inner. cbn. repeat split; try assumption.
  - inversion HF as [|? ? Hb Hr]; subst.
    destruct (IH inner Hr Hseq Hin) as (x & Ex & Hx & Lx & Px).
    destruct (encode_send_message_hop x b seq Hb Hseq Hx) as (f & Ef & Hf & Lf & _ & _ & Bf).
    exists f. cbn [wrap_hops]. rewrite Ex. cbn [bind]. rewrite Ef.
    repeat split; try assumption.
    + rewrite Lf, Lx. cbn [length]. lia.
    + cbn [length peel map]. rewrite Bf, Px. reflexivity.
Qed.

(* The nesting theorem.  routing = hops ++ [last], any number of hops. *)
Lemma bridged_nest hops last h p seq :
  Forall route_in_range hops -> r_rq_sa last < 256 -> r_rs_sa last < 256 ->
  hdr_in_range h -> seq < 64 -> bytes_ok p = true ->
  let h' := mkHdr (r_rs_sa last) (rs_lun h) (r_rq_sa last) (rq_lun h) (rq_seq h) (netfn h) (cmdid h) in
  exists f inner,
    encode_bridged (hops ++ [last]) h p seq = Ok f /\
    bridged_header (hops ++ [last]) h = Ok h' /\
    bytes_ok f = true /\
    (* one Send Message per intermediate hop, outermost first, and what is left *)
    peel (length hops) f = Some (map (hop_of seq) hops, inner) /\
    (* the innermost frame is the original request, last hop's source -> final target *)
    encode_ipmb_msg h' p = Ok inner /\
    sum256 (firstn 3 inner) = 0 /\ sum256 (skipn 3 inner) = 0 /\
    (exists c, hdr_req_decode inner = Ok (h', c)) /\ payload inner = p.
Proof.
  intros HF Hq Hs Hh Hseq Hp h'.
  assert (Hh' : hdr_in_range h').
  { unfold hdr_in_range in *. subst h'. cbn. lia. }
  destruct (frame_ok h' p Hh' Hp) as (inner & Ei & _ & Hi & S1 & S2 & D & P).
  destruct (wrap_hops_peel hops seq inner HF Hseq Hi) as (f & Ef & Hf & _ & Pf).
  exists f, inner. rewrite encode_bridged_unfold. fold h'. rewrite Ei.
  repeat split; try assumption.
  unfold bridged_header. rewrite rev_app_distr. reflexivity.
Qed.

(* ---- decode_bridged: fuel ---- *)
Lemma slice_7_m1_length d : (length (slice_7_m1 d) = length d - 8)%nat.
Proof. unfold slice_7_m1. rewrite firstn_length, skipn_length. lia. Qed.

Lemma dbf_fuel_irrelevant : forall n m rx, (length rx <= n)%nat -> (length rx <= m)%nat ->
  decode_bridged_fuel n rx = decode_bridged_fuel m rx.
Proof.
  induction n as [|n IH]; intros m rx Hn Hm.
  - destruct rx; [|cbn in Hn; lia]. destruct m; reflexivity.
  - destruct m as [|m].
    + destruct rx; [reflexivity | cbn in Hm; lia].
    + cbn [decode_bridged_fuel]. destruct (nth_error rx 5) as [c|] eqn:E5; [|reflexivity].
      destruct (c =? CMDID_SEND_MESSAGE); [|reflexivity].
      destruct (skipn 6 rx) as [|cc t] eqn:E6; [reflexivity|].
      destruct (cc =? 0); [|reflexivity].
      destruct (Nat.ltb _ 6); [reflexivity|].
      assert (length rx <> 0)%nat by (destruct rx; [discriminate | cbn; lia]).
      apply IH; rewrite slice_7_m1_length; lia.
Qed.

Lemma decode_bridged_fuel_ge n rx : (length rx <= n)%nat -> decode_bridged_fuel n rx = decode_bridged rx.
Proof. intros H. unfold decode_bridged. apply dbf_fuel_irrelevant; lia. Qed.

Lemma decode_bridged_never_out_of_fuel rx : decode_bridged rx <> Err OutOfFuel.
Proof.
  unfold decode_bridged. remember (length rx) as n eqn:En.
  assert (Hle : (length rx <= n)%nat) by lia. clear En. revert rx Hle.
  induction n as [|n IH]; intros rx Hle.
  - destruct rx; [cbn; discriminate | cbn in Hle; lia].
  - cbn [decode_bridged_fuel]. destruct (nth_error rx 5) as [c|] eqn:E5; [|discriminate].
    destruct (c =? CMDID_SEND_MESSAGE); [|discriminate].
    destruct (skipn 6 rx) as [|cc t] eqn:E6; [discriminate|].
    destruct (cc =? 0); [|discriminate].
    destruct (Nat.ltb _ 6); [discriminate|].
    assert (length rx <> 0)%nat by (destruct rx; [discriminate | cbn; lia]).
    apply IH. rewrite slice_7_m1_length. lia.
Qed.

(* one round of the loop, as an equation on [decode_bridged] itself *)
Lemma decode_bridged_step rx :
  decode_bridged rx =
  match nth_error rx 5 with
  | None => Err (OtherError IndexError)
  | Some c =>
    if c =? CMDID_SEND_MESSAGE then
      match skipn 6 rx with
      | [] => Err DecodingError
      | cc :: _ =>
        if cc =? 0 then
          let rx' := slice_7_m1 rx in
          if Nat.ltb (length rx') 6 then Ok rx' else decode_bridged rx'
        else Err (CCError cc)
      end
    else Ok rx
  end.
Proof.
  unfold decode_bridged at 1.
  destruct rx as [|b0 rx0] eqn:Erx; [reflexivity|]. rewrite <- Erx.
  assert (length rx = S (length rx0)) by (subst rx; reflexivity).
  rewrite H. cbn [decode_bridged_fuel].
  destruct (nth_error rx 5); [|reflexivity].
  destruct (_ =? CMDID_SEND_MESSAGE); [|reflexivity].
  destruct (skipn 6 rx); [reflexivity|].
  destruct (_ =? 0); [|reflexivity]. cbn zeta.
  destruct (Nat.ltb _ 6); [reflexivity|].
  apply decode_bridged_fuel_ge. rewrite slice_7_m1_length. lia.
Qed.

(* what comes out is never a Send Message frame any more: it is either too short to be
   a frame at all or carries another command *)
Lemma decode_bridged_result rx x : decode_bridged rx = Ok x ->
  (length x < 6)%nat \/ (exists c, nth_error x 5 = Some c /\ c <> CMDID_SEND_MESSAGE).
Proof.
  remember (length rx) as n eqn:En.
  assert (Hle : (length rx <= n)%nat) by lia. clear En. revert rx Hle x.
  induction n as [|n IH]; intros rx Hle x.
  - destruct rx; [|cbn in Hle; lia]. rewrite decode_bridged_step. discriminate.
  - rewrite decode_bridged_step.
    destruct (nth_error rx 5) as [c|] eqn:E5; [|discriminate].
    destruct (c =? CMDID_SEND_MESSAGE) eqn:Ec.
    + destruct (skipn 6 rx) as [|cc t] eqn:E6; [discriminate|].
      destruct (cc =? 0); [|discriminate]. cbn zeta.
      destruct (Nat.ltb _ 6) eqn:El.
      * intros E. injection E as <-. left. apply Nat.ltb_lt in El. exact El.
      * apply IH. rewrite slice_7_m1_length.
        assert (length rx <> 0)%nat by (destruct rx; [discriminate | cbn; lia]). lia.
    + intros E. injection E as <-. right. exists c. split; [assumption | lia].
Qed.

(* errors decode_bridged can raise: IndexError (shorter than 6 bytes), DecodingError
   (no completion code) or the completion code of a failing layer *)
Lemma decode_bridged_errors rx e : decode_bridged rx = Err e ->
  e = OtherError IndexError \/ e = DecodingError \/ exists cc, cc <> 0 /\ e = CCError cc.
Proof.
  remember (length rx) as n eqn:En.
  assert (Hle : (length rx <= n)%nat) by lia. clear En. revert rx Hle.
  induction n as [|n IH]; intros rx Hle.
  - destruct rx; [|cbn in Hle; lia]. rewrite decode_bridged_step. cbn. intros E. injection E as <-. auto.
  - rewrite decode_bridged_step.
    destruct (nth_error rx 5) as [c|] eqn:E5; [|intros E; injection E as <-; auto].
    destruct (c =? CMDID_SEND_MESSAGE) eqn:Ec; [|discriminate].
    destruct (skipn 6 rx) as [|cc t] eqn:E6; [intros E; injection E as <-; auto|].
    destruct (cc =? 0) eqn:Ecc; [|intros E; injection E as <-; right; right; exists cc; split; [lia|reflexivity]].
    cbn zeta. destruct (Nat.ltb _ 6) eqn:El; [discriminate|].
    apply IH. rewrite slice_7_m1_length.
    assert (length rx <> 0)%nat by (destruct rx; [discriminate | cbn; lia]). lia.
Qed.

(* ---- replies: wrap, then unwrap ---- *)
Lemma wrap_reply_shape w cc emb :
  exists a b c d e cs, wrap_reply w cc emb = a :: b :: c :: d :: e :: 0x34 :: cc :: emb ++ [cs].
Proof. unfold wrap_reply. cbn [app]. repeat eexists. Qed.

Lemma slice_7_m1_wrapped a b c d e f g emb cs :
  slice_7_m1 (a :: b :: c :: d :: e :: f :: g :: emb ++ [cs]) = emb.
Proof.
  unfold slice_7_m1. cbn [length skipn]. rewrite app_length. cbn [length].
  replace (S (S (S (S (S (S (S (length emb + 1))))))) - 8)%nat with (length emb) by lia.
  now apply firstn_app_exact.
Qed.

Lemma decode_bridged_wrap_ok w emb :
  decode_bridged (wrap_reply w 0 emb) =
  if Nat.ltb (length emb) 6 then Ok emb else decode_bridged emb.
Proof.
  destruct (wrap_reply_shape w 0 emb) as (a & b & c & d & e & cs & ->).
  rewrite decode_bridged_step. cbn [nth_error skipn].
  unfold CMDID_SEND_MESSAGE. cbn [N.eqb Pos.eqb]. cbn zeta.
  rewrite slice_7_m1_wrapped. reflexivity.
Qed.

Lemma decode_bridged_wrap_cc w cc x : cc <> 0 -> decode_bridged (wrap_reply w cc x) = Err (CCError cc).
Proof.
  intros Hcc. destruct (wrap_reply_shape w cc x) as (a & b & c & d & e & cs & ->).
  rewrite decode_bridged_step. cbn [nth_error skipn].
  unfold CMDID_SEND_MESSAGE. cbn [N.eqb Pos.eqb].
  destruct (cc =? 0) eqn:E; [lia | reflexivity].
Qed.

Lemma wrap_reply_length w cc emb : length (wrap_reply w cc emb) = (8 + length emb)%nat.
Proof. unfold wrap_reply. cbn [app length]. rewrite app_length. cbn. lia. Qed.

Lemma wrap_all_length ws r : (length r <= length (wrap_all ws r))%nat.
Proof.
  induction ws as [|w ws IH]; cbn [wrap_all fold_right]; [lia|].
  fold (wrap_all ws r). rewrite wrap_reply_length. lia.
Qed.

(* a frame that is not itself a Send Message frame is returned unchanged *)
Lemma decode_bridged_plain r c : nth_error r 5 = Some c -> c <> CMDID_SEND_MESSAGE -> decode_bridged r = Ok r.
Proof.
  intros E Hc. rewrite decode_bridged_step, E.
  destruct (c =? CMDID_SEND_MESSAGE) eqn:Ec; [lia | reflexivity].
Qed.

(* unwrap theorem: k Send Message responses with completion code 0 around the
   target's reply r (a frame: at least 6 bytes, command other than Send Message) *)
Lemma bridged_unwrap ws r c :
  nth_error r 5 = Some c -> c <> CMDID_SEND_MESSAGE -> decode_bridged (wrap_all ws r) = Ok r.
Proof.
  intros E Hc. induction ws as [|w ws IH]; cbn [wrap_all fold_right].
  - eapply decode_bridged_plain; eassumption.
  - fold (wrap_all ws r). rewrite decode_bridged_wrap_ok.
    assert (6 <= length r)%nat.
    { assert (5 < length r)%nat by (apply nth_error_Some; congruence). lia. }
    pose proof (wrap_all_length ws r).
    replace (Nat.ltb (length (wrap_all ws r)) 6) with false
      by (symmetry; apply Nat.ltb_ge; lia).
    exact IH.
Qed.

(* a failing hop: outer layers succeeded, layer [w] answered cc <> 0 *)
Lemma bridged_hop_error ws w cc x : cc <> 0 ->
  decode_bridged (wrap_all ws (wrap_reply w cc x)) = Err (CCError cc).
Proof.
  intros Hcc. induction ws as [|w' ws IH]; cbn [wrap_all fold_right].
  - now apply decode_bridged_wrap_cc.
  - fold (wrap_all ws (wrap_reply w cc x)). rewrite decode_bridged_wrap_ok.
    pose proof (wrap_all_length ws (wrap_reply w cc x)) as L. rewrite wrap_reply_length in L.
    replace (Nat.ltb _ 6) with false by (symmetry; apply Nat.ltb_ge; lia).
    exact IH.
Qed.

(* a bare acknowledgement (Send Message response without embedded reply), possibly
   passed on by outer bridges, unwraps to the empty string - "nothing yet" *)
Lemma bridged_ack ws w : decode_bridged (wrap_all ws (wrap_reply w 0 [])) = Ok [].
Proof.
  induction ws as [|w' ws IH]; cbn [wrap_all fold_right].
  - rewrite decode_bridged_wrap_ok. reflexivity.
  - fold (wrap_all ws (wrap_reply w 0 [])). rewrite decode_bridged_wrap_ok.
    pose proof (wrap_all_length ws (wrap_reply w 0 [])) as L. rewrite wrap_reply_length in L.
    replace (Nat.ltb _ 6) with false by (symmetry; apply Nat.ltb_ge; lia).
    exact IH.
Qed.

(* the wrapped replies are frames with valid checksums (so the spec-side [wrap_reply]
   is not vacuous: a requester applying the C03 filter to a layer accepts it) *)
Lemma wrap_reply_checksums w cc emb :
  sum256 (firstn 3 (wrap_reply w cc emb)) = 0 /\ sum256 (skipn 3 (wrap_reply w cc emb)) = 0.
Proof.
  unfold wrap_reply. split.
  - cbn [app firstn].
    change [w_rq_sa w; 7 * 4 + w_rq_lun w; checksum [w_rq_sa w; 7 * 4 + w_rq_lun w]]
      with ([w_rq_sa w; 7 * 4 + w_rq_lun w] ++ [checksum [w_rq_sa w; 7 * 4 + w_rq_lun w]]).
    apply sum256_with_checksum.
  - cbn [app skipn]. apply (sum256_with_checksum (w_rs_sa w :: w_seq w * 4 + w_rs_lun w :: 52 :: cc :: emb)).
Qed.
