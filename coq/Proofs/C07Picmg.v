(* C07 - PICMG: fan level, FRU activation policy, FRU LED state. *)
From Coq Require Import String Ascii.
From Coq Require Import NArith ZArith List Bool Lia.
From PyIpmi Require Import Lib.Res Lib.Bytes Lib.Prog Model.ApiSem Model.Bmc Model.ApiRun Proofs.ApiRunProofs.
Import ListNotations.
Open Scope string_scope.
Open Scope list_scope.
Open Scope N_scope.

Definition frus : list N := [0; 255].
Definition bytes_b : list N := [0; 255].

(* ---- fan level ---- *)
(* reference BMC, for every state, FRU and level *)
Lemma bmc_set_fan s fru level x :
  bmc_handle s (mkReq 44 21 0 [0; fru; level; x]) =
  (put s (K_FAN, fru, 0) [level; at_ (get s (K_FAN, fru, 0)) 1], RBytes [0; 0]).
Proof. reflexivity. Qed.
Lemma bmc_get_fan s fru :
  bmc_handle s (mkReq 44 22 0 [0; fru]) = (s, RBytes (0 :: 0 :: get s (K_FAN, fru, 0))).
Proof. reflexivity. Qed.

Definition chk_fan (fru : N) (x : N * N) : bool :=
  let '(level, loc) := x in
  exch_ok "set_fan_level" [arg "fru_id" fru; arg "fan_level" level] (RBytes [0; 0])
           (mkReq 44 21 0 [0; fru; level; 0]) (Ok PNone)
  && exch_ok "get_fan_level" [arg "fru_id" fru] (RBytes [0; 0; level; loc])
              (mkReq 44 22 0 [0; fru]) (Ok (PList [PInt (Z.of_N level); PInt (Z.of_N loc)])).
(* every level with the local level from a boundary set, and every local level with boundary levels *)
Definition fan_dom : list (N * N) :=
  flat_map (fun l => map (fun b => (l, b)) bytes_b) (nrange 256) ++
  flat_map (fun l => map (fun b => (b, l)) bytes_b) (nrange 256).
Lemma fan_table : forallb (fun fru => forallb (chk_fan fru) fan_dom) frus = true.
Proof. vm_cast_no_check (eq_refl true). Qed.

Opaque one_exchange call bmc_handle.

Lemma write_read_fan s fru level loc : is_supported "set_fan_level" = true -> is_supported "get_fan_level" = true -> List.In fru frus -> List.In (level, loc) fan_dom ->
  at_ (get s (K_FAN, fru, 0)) 1 = loc ->
  let s1 := put s (K_FAN, fru, 0) [level; loc] in
  exists r1 r2,
    call "set_fan_level" [arg "fru_id" fru; arg "fan_level" level] s = (r1, s1) /\ same r1 (Ok PNone) /\
    call "get_fan_level" [arg "fru_id" fru] s1 = (r2, s1) /\
    same r2 (Ok (PList [PInt (Z.of_N level); PInt (Z.of_N loc)])).
Proof.
  intros Sw Sr Hf Hx Hl s1.
  pose proof (table2 (fun x fru => chk_fan fru x) frus fan_dom fan_table fru (level, loc) Hf Hx) as C.
  cbv beta in C. unfold chk_fan in C. apply andb_true_iff in C as [W R].
  assert (BW : bmc_handle s (mkReq 44 21 0 [0; fru; level; 0]) = (s1, RBytes [0; 0])).
  { rewrite bmc_set_fan, Hl. reflexivity. }
  assert (BR : bmc_handle s1 (mkReq 44 22 0 [0; fru]) = (s1, RBytes [0; 0; level; loc])).
  { rewrite bmc_get_fan. unfold s1. rewrite get_put_same. reflexivity. }
  exact (write_then_read "set_fan_level" "get_fan_level" _ _ s s1 _ _ _ _ _ _ Sw Sr W BW R BR).
Qed.

(* ---- FRU activation policy (no read operation in the API): the state the BMC is left in ---- *)
Definition policy_bytes (ctrl : N) : N * N :=       (* mask, set *)
  if ctrl =? 0 then (1, 1) else if ctrl =? 1 then (1, 0) else if ctrl =? 2 then (2, 2) else (2, 0).
Definition chk_policy (fru ctrl : N) : bool :=
  exch_ok "set_fru_activation_policy" [arg "fru_id" fru; arg "ctrl" ctrl] (RBytes [0; 0])
           (mkReq 44 10 0 [0; fru; fst (policy_bytes ctrl); snd (policy_bytes ctrl)]) (Ok PNone).
Definition chk_policy_wrapper (fru : N) (w : string * N) : bool :=
  exch_ok (fst w) [arg "fru_id" fru] (RBytes [0; 0])
           (mkReq 44 10 0 [0; fru; fst (policy_bytes (snd w)); snd (policy_bytes (snd w))]) (Ok PNone).
Definition policy_wrappers : list (string * N) :=
  [("set_fru_activation_lock", 0); ("clear_fru_activation_lock", 1); ("set_fru_deactivation_lock", 2);
   ("clear_fru_deactivation_lock", 3)].
Lemma policy_table : forallb (fun fru => forallb (chk_policy fru) (nrange 4)) (nrange 256) = true.
Proof. vm_cast_no_check (eq_refl true). Qed.
Lemma policy_wrapper_table : forallb (fun fru => forallb (chk_policy_wrapper fru) policy_wrappers) frus = true.
Proof. vm_cast_no_check (eq_refl true). Qed.

Transparent bmc_handle.
Lemma bmc_set_policy s fru m v :
  bmc_handle s (mkReq 44 10 0 [0; fru; m; v]) =
  (put s (K_POLICY, fru, 0) [merge_bits 2 (at_ (get s (K_POLICY, fru, 0)) 0) m v], RBytes [0; 0]).
Proof. reflexivity. Qed.
Opaque bmc_handle.

(* lock bit (0) / deactivation-lock bit (1) set or cleared, the other bit kept *)
Lemma write_policy s fru ctrl : is_supported "set_fru_activation_policy" = true -> fru < 256 -> ctrl < 4 ->
  let '(m, v) := policy_bytes ctrl in
  exists r, call "set_fru_activation_policy" [arg "fru_id" fru; arg "ctrl" ctrl] s =
              (r, put s (K_POLICY, fru, 0) [merge_bits 2 (at_ (get s (K_POLICY, fru, 0)) 0) m v]) /\
            same r (Ok PNone).
Proof.
  intros Sw Hf Hc. destruct (policy_bytes ctrl) as [m v] eqn:E.
  pose proof (table2 (fun c f => chk_policy f c) (nrange 256) (nrange 4) policy_table fru ctrl
                (nrange_in 256 fru Hf) (nrange_in 4 ctrl Hc)) as C.
  cbv beta in C. unfold chk_policy in C. rewrite E in C. cbn [fst snd] in C.
  exact (write_only "set_fru_activation_policy" _ s _ _ _ _ Sw C (bmc_set_policy s fru m v)).
Qed.

(* ---- FRU LED state: override blinking, on, off, on a LED whose local state is the default ---- *)
Definition led_obj (fru led color fn : N) (off on_ : option N) : pv :=
  let o := fun x => match x with Some n => PInt (Z.of_N n) | None => PNone end in
  PObj "LedState" [("fru_id", PInt (Z.of_N fru)); ("led_id", PInt (Z.of_N led));
                   ("override_color", PInt (Z.of_N color)); ("override_function", PInt (Z.of_N fn));
                   ("override_off_duration", o off); ("override_on_duration", o on_);
                   ("lamp_test_duration", PNone)].
(* what get_led_state reports (durations in ms = 10 x the wire value) *)
Definition led_result (color fn : N) (off on_ : option N) : pv :=
  let o := fun x => match x with Some n => PInt (Z.of_N (10 * n)) | None => PNone end in
  PObj "LedState" [("fru_id", PNone); ("led_id", PNone); ("local_state_available", PBool true);
                   ("override_enabled", PBool true); ("lamp_test_enabled", PBool false);
                   ("local_function", PInt 1); ("local_off_duration", PNone); ("local_on_duration", PNone);
                   ("local_color", PInt 1); ("override_function", PInt (Z.of_N fn));
                   ("override_off_duration", o off); ("override_on_duration", o on_);
                   ("override_color", PInt (Z.of_N color)); ("lamp_test_duration", PNone)].

(* API function codes: 1 off, 2 blinking, 3 on; wire: 0x00 off, 0xff on, 1..0xf9 = off duration *)
Inductive ledcase := LOff | LOn | LBlink (off on_ : N).
Definition led_wire (c : ledcase) : N * N :=
  match c with LOff => (0, 0) | LOn => (255, 0) | LBlink off on_ => (off, on_) end.
Definition led_fn (c : ledcase) : N := match c with LOff => 1 | LOn => 3 | LBlink _ _ => 2 end.
Definition led_durs (c : ledcase) : option N * option N :=
  match c with LBlink off on_ => (Some off, Some on_) | _ => (None, None) end.

Definition chk_led (x : N * N * N) (c : ledcase) : bool :=
  let '(fru, led, color) := x in
  let '(wf, wo) := led_wire c in
  let '(off, on_) := led_durs c in
  exch_ok "set_led_state" [("led", led_obj fru led color (led_fn c) off on_)] (RBytes [0; 0])
           (mkReq 44 7 0 [0; fru; led; wf; wo; color]) (Ok PNone)
  && exch_ok "get_led_state" [arg "fru_id" fru; arg "led_id" led]
                            (RBytes [0; 0; 3; 0; 0; 1; wf; wo; color])
              (mkReq 44 8 0 [0; fru; led]) (Ok (led_result color (led_fn c) off on_)).

Definition led_targets : list (N * N * N) := [(254, 255, 15)].
Definition led_cases : list ledcase :=
  [LOff; LOn] ++
  flat_map (fun off => map (fun on_ => LBlink off on_) [0; 255]) (map (fun i => i + 1) (nrange 249)) ++
  flat_map (fun on_ => map (fun off => LBlink off on_) [1; 249]) (nrange 256).
Lemma led_table : forallb (fun x => forallb (chk_led x) led_cases) led_targets = true.
Proof. vm_cast_no_check (eq_refl true). Qed.

Transparent bmc_handle.
Lemma bmc_set_led s fru led wf wo color : wf <> 252 -> wf <> 251 ->
  bmc_handle s (mkReq 44 7 0 [0; fru; led; wf; wo; color]) =
  (let l := get s (K_LED, fru, led) in
   put s (K_LED, fru, led) [at_ l 0 mod 2 + 2; at_ l 1; at_ l 2; at_ l 3; wf; wo; color; at_ l 7], RBytes [0; 0]).
Proof.
  intros H1 H2. unfold bmc_handle, h_picmg. cbn.
  apply N.eqb_neq in H1, H2. rewrite H1, H2. reflexivity.
Qed.
Lemma bmc_get_led_override s fru led l1 l2 l3 wf wo color l7 :
  get s (K_LED, fru, led) = [3; l1; l2; l3; wf; wo; color; l7] ->
  bmc_handle s (mkReq 44 8 0 [0; fru; led]) = (s, RBytes [0; 0; 3; l1; l2; l3; wf; wo; color]).
Proof. intros H. unfold bmc_handle, h_picmg. cbn. rewrite H. reflexivity. Qed.
Opaque bmc_handle.

Lemma led_wire_ok c : List.In c led_cases -> fst (led_wire c) <> 252 /\ fst (led_wire c) <> 251.
Proof.
  intros H. unfold led_cases in H. apply in_app_or in H as [H | H].
  - destruct H as [<- | [<- | []]]; cbn; split; discriminate.
  - apply in_app_or in H as [H | H]; apply in_flat_map in H as (a & Ha & H); apply in_map_iff in H as (b & <- & Hb); cbn.
    + apply in_map_iff in Ha as (i & <- & Hi). unfold nrange in Hi. apply in_map_iff in Hi as (n & <- & Hn).
      apply in_seq in Hn. split; lia.
    + destruct Hb as [<- | [<- | []]]; split; discriminate.
Qed.

Lemma write_read_led s fru led color c : is_supported "set_led_state" = true -> is_supported "get_led_state" = true -> List.In (fru, led, color) led_targets -> List.In c led_cases ->
  get s (K_LED, fru, led) = [1; 0; 0; 1; 0; 0; 0; 0] ->        (* the LED is under local control, off, blue *)
  let s1 := put s (K_LED, fru, led) [3; 0; 0; 1; fst (led_wire c); snd (led_wire c); color; 0] in
  exists r1 r2,
    call "set_led_state" [("led", led_obj fru led color (led_fn c) (fst (led_durs c)) (snd (led_durs c)))] s = (r1, s1) /\
    same r1 (Ok PNone) /\
    call "get_led_state" [arg "fru_id" fru; arg "led_id" led] s1 = (r2, s1) /\
    same r2 (Ok (led_result color (led_fn c) (fst (led_durs c)) (snd (led_durs c)))).
Proof.
  intros Sw Sr Hx Hc Hs s1.
  pose proof (table2 (fun c x => chk_led x c) led_targets led_cases led_table (fru, led, color) c Hx Hc) as C.
  cbv beta in C. unfold chk_led in C. unfold s1.
  destruct (led_wire_ok c Hc) as [N1 N2].
  destruct (led_wire c) as [wf wo] eqn:Ew. destruct (led_durs c) as [off on_] eqn:Ed.
  apply andb_true_iff in C as [W R]. cbn [fst snd] in *.
  assert (BW : bmc_handle s (mkReq 44 7 0 [0; fru; led; wf; wo; color]) =
               (put s (K_LED, fru, led) [3; 0; 0; 1; wf; wo; color; 0], RBytes [0; 0])).
  { rewrite (bmc_set_led s fru led wf wo color N1 N2), Hs. reflexivity. }
  assert (BR : bmc_handle (put s (K_LED, fru, led) [3; 0; 0; 1; wf; wo; color; 0]) (mkReq 44 8 0 [0; fru; led]) =
               (put s (K_LED, fru, led) [3; 0; 0; 1; wf; wo; color; 0], RBytes [0; 0; 3; 0; 0; 1; wf; wo; color])).
  { apply (bmc_get_led_override _ fru led 0 0 1 wf wo color 0). apply get_put_same. }
  exact (write_then_read "set_led_state" "get_led_state" _ _ s _ _ _ _ _ _ _ Sw Sr W BW R BR).
Qed.
