(* Cross-layer lemmas: SDR retrieval (Model/SdrIO.v, C11) composed with SDR record parsing
   (Model/SdrParse.v, C16) through the wrappers of Model/SdrE2E.v. *)
From Coq Require Import NArith ZArith List Bool Lia.
From PyIpmi Require Import Lib.Res Lib.Bytes Lib.Prog Model.SdrIO Proofs.SdrIOProofs Model.SdrE2E.
From PyIpmi Require Model.SdrParse Model.SdrEnc Proofs.SdrProofs.
Import ListNotations.
Open Scope N_scope.

Notation parse := SdrParse.sdr_from_data.

(* ---- one record ---- *)
Lemma e2e_get st s rid resv obj s' tr :
  Forall wf_rec (recs_of st s) -> plan_ok s -> rid < 65536 ->
  run (get_sdr_obj st rid resv) sdr_dev s [] = (Ok obj, s', tr) ->
  exists data nx, lookup (recs_of st s) rid = Some (data, nx) /\
                  parse data = Ok (fst obj) /\ snd obj = attach nx.
Proof.
  intros W P Hr H. unfold get_sdr_obj in H. rewrite run_bind in H.
  destruct (run (get_sdr st rid resv) sdr_dev s []) as [[x1 s1] tr1] eqn:R.
  destruct x1 as [[nx data]|e]; [|discriminate].
  apply exact_or_error in R; auto. cbn [fst snd] in H.
  destruct (parse data) as [rec|e] eqn:Pd; cbn in H; [|discriminate].
  inversion H; subst. exists data, nx. auto.
Qed.

(* the outcome is the parse of the device's bytes - also when that parse is an error *)
Lemma e2e_get_outcome st s rid resv x s' tr :
  Forall wf_rec (recs_of st s) -> plan_ok s -> rid < 65536 ->
  run (get_sdr_obj st rid resv) sdr_dev s [] = (x, s', tr) ->
  (exists data nx, lookup (recs_of st s) rid = Some (data, nx) /\
                   x = match parse data with Ok rec => Ok (rec, attach nx) | Err e => Err e end) \/
  (exists e, x = Err e /\ fst (fst (run (get_sdr st rid resv) sdr_dev s [])) = Err e).
Proof.
  intros W P Hr H. unfold get_sdr_obj in H. rewrite run_bind in H.
  destruct (run (get_sdr st rid resv) sdr_dev s []) as [[x1 s1] tr1] eqn:R.
  destruct x1 as [[nx data]|e].
  - left. apply exact_or_error in R; auto. exists data, nx. split; [exact R|]. cbn [fst snd] in H.
    destruct (parse data); cbn in H; inversion H; reflexivity.
  - right. inversion H; subst. exists e. auto.
Qed.

(* ---- listing: the object generator simulates the byte generator, for ANY device ---- *)
Definition rel (b : N * list N) (o : sdr_obj) : Prop := parse (snd b) = Ok (fst o) /\ snd o = attach (fst b).

Lemma obj_loop_sim {S} (dev : device S) fuel st resv : forall rid acc0 accO s tr l s' tr',
  Forall2 rel acc0 accO ->
  run (entries_obj_loop fuel st resv rid accO) dev s tr = (Ok l, s', tr') ->
  exists l0, run (entries_loop fuel st resv rid acc0) dev s tr = (Ok l0, s', tr') /\ Forall2 rel l0 l.
Proof.
  induction fuel as [|fuel IH]; intros rid acc0 accO s tr l s' tr' Hrel H; cbn [entries_obj_loop] in H; [discriminate|].
  cbn [entries_loop]. unfold get_sdr_obj in H. rewrite !run_bind in H. rewrite run_bind.
  destruct (run (get_sdr st rid (Some resv)) dev s tr) as [[x1 s1] tr1].
  destruct x1 as [[nx data]|e]; [|discriminate]. cbn [fst snd] in *.
  destruct (parse data) as [rec|e] eqn:Pd; cbn [run] in H; [|discriminate].
  cbn [snd fst] in H.
  assert (Forall2 rel (acc0 ++ [(nx, data)]) (accO ++ [(rec, attach nx)])) as Hrel'.
  { apply Forall2_app; [exact Hrel|]. constructor; [|constructor]. split; [exact Pd | reflexivity]. }
  unfold attach in H at 1. destruct (nx =? 0) eqn:Z; [discriminate|].
  destruct (nx =? 0xFFFF) eqn:F.
  - cbn in H. inversion H; subst. eexists. split; [reflexivity|]. unfold attach in Hrel'. rewrite Z in Hrel'.
    unfold attach. rewrite Z. exact Hrel'.
  - eapply IH in H; [exact H|]. exact Hrel'.
Qed.

Lemma list_obj_sim {S} (dev : device S) fuel st s l s' tr :
  run (sdr_list_obj fuel st) dev s [] = (Ok l, s', tr) ->
  exists l0, run (sdr_entries fuel st) dev s [] = (Ok l0, s', tr) /\ Forall2 rel l0 l.
Proof.
  unfold sdr_list_obj, sdr_entries. rewrite !run_bind.
  destruct (run (reserve st) dev s []) as [[x0 s0] tr0]. destruct x0 as [r|e]; [|discriminate].
  intros H. eapply obj_loop_sim in H; [exact H | constructor].
Qed.

Lemma Forall2_rel_annot recs l :
  Forall2 rel (annot recs) l ->
  Forall2 (fun r o => parse r = Ok (fst o)) recs l /\ map snd l = map (fun b => attach (fst b)) (annot recs).
Proof.
  revert l. induction recs as [|r rest IH]; intros l H; cbn [annot] in H; inversion H; subst.
  - split; [constructor | reflexivity].
  - destruct H2 as (A & B). destruct (IH _ H4) as (C & D). split; [constructor; assumption|].
    cbn [map annot fst]. rewrite B, D. reflexivity.
Qed.

Lemma e2e_list fuel st s l s' tr :
  wf_store (recs_of st s) -> plan_ok s -> recs_of st s <> [] -> (length (recs_of st s) <= fuel)%nat ->
  run (sdr_list_obj fuel st) sdr_dev s [] = (Ok l, s', tr) ->
  Forall2 (fun r o => parse r = Ok (fst o)) (recs_of st s) l /\
  map snd l = map (fun b => attach (fst b)) (annot (recs_of st s)).
Proof.
  intros W P Hne Hf H. apply list_obj_sim in H. destruct H as (l0 & R & Hrel).
  apply list_complete in R; auto. destruct R as (-> & _). apply Forall2_rel_annot. exact Hrel.
Qed.

(* ---- with the parser theorem of C16: a device holding encodings lists their contents ---- *)
Lemma parsed_specs specs : forall l : list sdr_obj,
  Forall SdrEnc.in_range specs ->
  Forall2 (fun r o => parse r = Ok (fst o)) (map SdrEnc.enc_sdr specs) l ->
  map fst l = map SdrEnc.expected specs.
Proof.
  induction specs as [|sp specs IH]; intros l Hin H; cbn [map] in H; inversion H; subst; [reflexivity|].
  inversion Hin; subst. cbn [map]. rewrite (IH _ H5 H4). f_equal.
  rewrite (SdrProofs.parse_enc _ H3) in H2. inversion H2. reflexivity.
Qed.

Lemma e2e_list_specs fuel st s specs l s' tr :
  recs_of st s = map SdrEnc.enc_sdr specs -> Forall SdrEnc.in_range specs ->
  wf_store (recs_of st s) -> plan_ok s -> specs <> [] -> (length specs <= fuel)%nat ->
  run (sdr_list_obj fuel st) sdr_dev s [] = (Ok l, s', tr) ->
  map fst l = map SdrEnc.expected specs.
Proof.
  intros E Hin W P Hne Hf H. apply e2e_list in H; auto.
  - destruct H as (A & _). rewrite E in A. apply parsed_specs; assumption.
  - rewrite E. destruct specs; [congruence | discriminate].
  - rewrite E, map_length. exact Hf.
Qed.

Lemma e2e_get_spec st s rid resv sp nx obj s' tr :
  Forall wf_rec (recs_of st s) -> plan_ok s -> rid < 65536 ->
  lookup (recs_of st s) rid = Some (SdrEnc.enc_sdr sp, nx) -> SdrEnc.in_range sp ->
  run (get_sdr_obj st rid resv) sdr_dev s [] = (Ok obj, s', tr) ->
  obj = (SdrEnc.expected sp, attach nx).
Proof.
  intros W P Hr L Hin H. apply e2e_get in H; auto. destruct H as (data & nx' & L' & Pd & Hn).
  rewrite L in L'. inversion L'; subst. rewrite (SdrProofs.parse_enc _ Hin) in Pd. inversion Pd.
  destruct obj as [r n]. cbn in *. subst. reflexivity.
Qed.

(* non-vacuity: the in-range full sensor record of Props/C16.v, held by a device with limit 16
   whose reservation is cancelled before the fifth request, is listed as its [expected] view *)
Definition e2e_spec : SdrEnc.srec :=
  SdrEnc.SFull (SdrEnc.mkSHdr 0x1234 0x51)
    (SdrEnc.mkSFull 0x20 15 3 2 7 3 0x61 1 0x55 1 0 2 1 3 2 1 0x7fff 0x8001 0x0f0f 2 5 1 1 6 0 1 7
             (-300)%Z 63 (-512)%Z 1000 3 2 (-8)%Z (-1)%Z 31 5 1 2 3 4 5 6 7 8 9 10 11 12 13 0xbeef 0xaa
             (SdrEnc.mkSId 2 [65; 66; 67; 32; 49])).
Definition e2e_state : sdr_state :=
  mkSdr [SdrEnc.enc_sdr e2e_spec] [] 16 0x10 false 0x20 false [FNone; FNone; FNone; FNone; FCancel].
Lemma e2e_example :
  SdrEnc.in_range e2e_spec /\ wf_store (recs_of Repo e2e_state) /\ plan_ok e2e_state /\
  fst (fst (run (sdr_list_obj 1 Repo) sdr_dev e2e_state [])) = Ok [(SdrEnc.expected e2e_spec, Some 0xFFFF)].
Proof.
  split; [vm_compute; reflexivity|]. split; [|split].
  - unfold wf_store, wf_rec. split; [|split].
    + constructor; [|constructor]. split; [vm_compute; reflexivity|]. split; [vm_compute; lia | vm_compute; reflexivity].
    + vm_compute. constructor; [intros []|constructor].
    + constructor; [|constructor]. vm_compute. split; discriminate.
  - unfold plan_ok. cbn. repeat constructor.
  - vm_compute. reflexivity.
Qed.
