(* Lemmas for C16: sdr_from_data inverts the independent encoder enc_sdr. *)
From Coq Require Import String Ascii.
From Coq Require Import NArith ZArith List Lia ZifyN ZifyBool ZifyNat Bool.
From PyIpmi Require Import Lib.Res Lib.Bytes Lib.Bits Model.SdrParse Model.SdrEnc.
Import ListNotations.
Open Scope string_scope.
Open Scope list_scope.
Open Scope N_scope.
Ltac Zify.zify_post_hook ::= Z.to_euclidean_division_equations.

(* ---------------------------------------------------------------- finite sweeps *)
Definition nrange (n : nat) : list N := map N.of_nat (seq 0 n).
Lemma nrange_in n x : x < N.of_nat n -> In x (nrange n).
Proof.
  intros H. unfold nrange. apply in_map_iff. exists (N.to_nat x). split; [lia|].
  apply in_seq. lia.
Qed.
Lemma sweep1 (P : N -> bool) n :
  forallb P (nrange n) = true -> forall x, x < N.of_nat n -> P x = true.
Proof. intros H x Hx. rewrite forallb_forall in H. apply H, nrange_in, Hx. Qed.
Lemma sweep2 (P : N -> N -> bool) n m :
  forallb (fun x => forallb (P x) (nrange m)) (nrange n) = true ->
  forall x y, x < N.of_nat n -> y < N.of_nat m -> P x y = true.
Proof.
  intros H x y Hx Hy. pose proof (sweep1 _ _ H x Hx) as H1. cbv beta in H1.
  exact (sweep1 _ _ H1 y Hy).
Qed.

(* ---------------------------------------------------------------- masks as arithmetic *)
Lemma land_1 x : N.land x 1 = x mod 2.       Proof. change 1 with (2^1-1). apply land_ones. Qed.
Lemma land_3 x : N.land x 3 = x mod 4.       Proof. change 3 with (2^2-1). apply land_ones. Qed.
Lemma land_7 x : N.land x 7 = x mod 8.       Proof. change 7 with (2^3-1). apply land_ones. Qed.
Lemma land_15 x : N.land x 15 = x mod 16.    Proof. change 15 with (2^4-1). apply land_ones. Qed.
Lemma land_63 x : N.land x 63 = x mod 64.    Proof. change 63 with (2^6-1). apply land_ones. Qed.
Lemma land_127 x : N.land x 127 = x mod 128. Proof. change 127 with (2^7-1). apply land_ones. Qed.
Lemma land_255 x : N.land x 255 = x mod 256. Proof. change 255 with (2^8-1). apply land_ones. Qed.
Lemma land_fffff x : N.land x 1048575 = x mod 1048576.
Proof. change 1048575 with (2^20-1). apply land_ones. Qed.
Lemma shiftr_1 x : N.shiftr x 1 = x / 2.  Proof. now rewrite N.shiftr_div_pow2. Qed.
Lemma shiftr_3 x : N.shiftr x 3 = x / 8.  Proof. now rewrite N.shiftr_div_pow2. Qed.
Lemma shiftr_6 x : N.shiftr x 6 = x / 64. Proof. now rewrite N.shiftr_div_pow2. Qed.
Ltac masks := rewrite ?land_1, ?land_3, ?land_7, ?land_15, ?land_63, ?land_127, ?land_255, ?land_fffff,
                      ?shiftr_1, ?shiftr_3, ?shiftr_6.

Ltac sweep_tac := vm_compute; reflexivity.

(* masks that are not of the form 2^k - 1, on a byte (256 cases each) *)
Lemma byte_masks x : x < 256 ->
  N.shiftr (N.land x 0xc0) 6 = x / 64 /\ N.shiftr (N.land x 0xf0) 4 = x / 16 /\
  N.shiftr (N.land x 0x0c) 2 = (x / 4) mod 4 /\ N.shiftr (N.land x 0xfc) 2 = x / 4.
Proof.
  intros H.
  pose proof (sweep1 (fun x => (N.shiftr (N.land x 0xc0) 6 =? x / 64) && (N.shiftr (N.land x 0xf0) 4 =? x / 16) &&
                               (N.shiftr (N.land x 0x0c) 2 =? (x / 4) mod 4) && (N.shiftr (N.land x 0xfc) 2 =? x / 4))
                     256 ltac:(sweep_tac) x H) as E.
  cbv beta in E. repeat (apply andb_prop in E; destruct E as [E ?]).
  repeat split; apply N.eqb_eq; assumption.
Qed.

(* ---------------------------------------------------------------- split fields *)
(* 10-bit value u in (low byte, 2 high bits in [7:6] of the next byte beside a 6-bit field t) *)
Lemma split10 u t : u < 1024 -> t < 64 ->
  N.lor (N.land (u mod 256) 0xff) (N.shiftl (N.land (u / 256 * 64 + t) 0xc0) 2) = u /\
  N.land (u / 256 * 64 + t) 0x3f = t.
Proof.
  intros Hu Ht.
  pose proof (sweep2 (fun u t => (N.lor (N.land (u mod 256) 0xff) (N.shiftl (N.land (u / 256 * 64 + t) 0xc0) 2) =? u)
                                 && (N.land (u / 256 * 64 + t) 0x3f =? t)) 1024 64 ltac:(sweep_tac) u t Hu Ht) as E.
  cbv beta in E. apply andb_prop in E. destruct E. split; apply N.eqb_eq; assumption.
Qed.

(* accuracy: low 6 bits beside B's high bits (bytes 28), high 4 bits in [7:4] of byte 29
   beside exponent and direction; w = the three 2-bit neighbours packed *)
Lemma split_acc_w a w : a < 1024 -> w < 64 ->
  N.lor (N.land (w / 16 * 64 + a mod 64) 0x3f)
        (N.shiftl (N.land (a / 64 * 16 + (w / 4) mod 4 * 4 + w mod 4) 0xf0) 2) = a /\
  N.shiftr (N.land (a / 64 * 16 + (w / 4) mod 4 * 4 + w mod 4) 0x0c) 2 = (w / 4) mod 4.
Proof.
  intros Ha Hw.
  pose proof (sweep2 (fun a w =>
      (N.lor (N.land (w / 16 * 64 + a mod 64) 0x3f)
             (N.shiftl (N.land (a / 64 * 16 + (w / 4) mod 4 * 4 + w mod 4) 0xf0) 2) =? a) &&
      (N.shiftr (N.land (a / 64 * 16 + (w / 4) mod 4 * 4 + w mod 4) 0x0c) 2 =? (w / 4) mod 4))
      1024 64 ltac:(sweep_tac) a w Ha Hw) as E.
  cbv beta in E. apply andb_prop in E. destruct E. split; apply N.eqb_eq; assumption.
Qed.
Lemma split_acc a bhi e d : a < 1024 -> bhi < 4 -> e < 4 -> d < 4 ->
  N.lor (N.land (bhi * 64 + a mod 64) 0x3f)
        (N.shiftl (N.land (a / 64 * 16 + e * 4 + d) 0xf0) 2) = a /\
  N.shiftr (N.land (a / 64 * 16 + e * 4 + d) 0x0c) 2 = e.
Proof.
  intros Ha Hb He Hd.
  destruct (split_acc_w a (bhi * 16 + e * 4 + d) Ha ltac:(lia)) as [E1 E2].
  replace ((bhi * 16 + e * 4 + d) / 16) with bhi in * by lia.
  replace (((bhi * 16 + e * 4 + d) / 4) mod 4) with e in * by lia.
  replace ((bhi * 16 + e * 4 + d) mod 4) with d in * by lia.
  split; assumption.
Qed.

(* ---------------------------------------------------------------- sign extension *)
Lemma convert_complement_10 u : u < 1024 ->
  convert_complement u 10 = (if (u <? 512)%N then Z.of_N u else Z.of_N u - 1024)%Z.
Proof.
  intros H.
  pose proof (sweep1 (fun u => Z.eqb (convert_complement u 10) (if (u <? 512)%N then Z.of_N u else Z.of_N u - 1024)%Z)
                     1024 ltac:(sweep_tac) u H) as E.
  now apply Z.eqb_eq in E.
Qed.
Lemma convert_complement_4 u : u < 16 ->
  convert_complement u 4 = (if (u <? 8)%N then Z.of_N u else Z.of_N u - 16)%Z.
Proof.
  intros H.
  pose proof (sweep1 (fun u => Z.eqb (convert_complement u 4) (if (u <? 8)%N then Z.of_N u else Z.of_N u - 16)%Z)
                     16 ltac:(sweep_tac) u H) as E.
  now apply Z.eqb_eq in E.
Qed.

Lemma tc10_lt z : tc 10 z < 1024.
Proof. unfold tc. change (Z.of_N (2^10)) with 1024%Z. lia. Qed.
Lemma tc4_lt z : tc 4 z < 16.
Proof. unfold tc. change (Z.of_N (2^4)) with 16%Z. lia. Qed.
Lemma sign10 z : (-512 <= z <= 511)%Z -> convert_complement (tc 10 z) 10 = z.
Proof.
  intros H. rewrite convert_complement_10 by apply tc10_lt.
  unfold tc. change (Z.of_N (2^10)) with 1024%Z.
  destruct (N.ltb_spec (Z.to_N (z mod 1024)) 512); lia.
Qed.
Lemma sign4 z : (-8 <= z <= 7)%Z -> convert_complement (tc 4 z) 4 = z.
Proof.
  intros H. rewrite convert_complement_4 by apply tc4_lt.
  unfold tc. change (Z.of_N (2^4)) with 16%Z.
  destruct (N.ltb_spec (Z.to_N (z mod 16)) 8); lia.
Qed.

(* the full record's M: bytes 25/26 *)
Lemma m_roundtrip z t : (-512 <= z <= 511)%Z -> t < 64 ->
  convert_complement (N.lor (N.land (tc 10 z mod 256) 0xff)
                            (N.shiftl (N.land (tc 10 z / 256 * 64 + t) 0xc0) 2)) 10 = z /\
  N.land (tc 10 z / 256 * 64 + t) 0x3f = t.
Proof.
  intros Hz Ht. destruct (split10 (tc 10 z) t (tc10_lt z) Ht) as [-> ->].
  split; [apply sign10; assumption | reflexivity].
Qed.
(* byte 30 *)
Lemma k_roundtrip k2 k1 : (-8 <= k2 <= 7)%Z -> (-8 <= k1 <= 7)%Z ->
  convert_complement (N.shiftr (N.land (tc 4 k2 * 16 + tc 4 k1) 0xf0) 4) 4 = k2 /\
  convert_complement (N.land (tc 4 k2 * 16 + tc 4 k1) 0x0f) 4 = k1.
Proof.
  intros H2 H1. pose proof (tc4_lt k2). pose proof (tc4_lt k1).
  destruct (byte_masks (tc 4 k2 * 16 + tc 4 k1) ltac:(lia)) as (_ & E & _).
  rewrite E, land_15.
  replace ((tc 4 k2 * 16 + tc 4 k1) / 16) with (tc 4 k2) by lia.
  replace ((tc 4 k2 * 16 + tc 4 k1) mod 16) with (tc 4 k1) by lia.
  split; apply sign4; assumption.
Qed.

(* ---------------------------------------------------------------- flag lists *)
Definition strs_eqb := list_eqb String.eqb.
Lemma strs_eqb_eq a : forall b, strs_eqb a b = true -> a = b.
Proof.
  induction a as [|x a IH]; intros [|y b] H; cbn in H; try discriminate; [reflexivity|].
  apply andb_prop in H as [H1 H2]. apply String.eqb_eq in H1. f_equal; [assumption | now apply IH].
Qed.
Lemma init_flags_ok x : x < 256 -> decode_initialization x = flag_names init_tbl (x mod 128).
Proof.
  intros H. apply strs_eqb_eq.
  exact (sweep1 (fun x => strs_eqb (decode_initialization x) (flag_names init_tbl (x mod 128))) 256 ltac:(sweep_tac) x H).
Qed.
Lemma achar_flags_ok x : x < 256 -> decode_analog_characteristic x = flag_names achar_tbl (x mod 8).
Proof.
  intros H. apply strs_eqb_eq.
  exact (sweep1 (fun x => strs_eqb (decode_analog_characteristic x) (flag_names achar_tbl (x mod 8))) 256 ltac:(sweep_tac) x H).
Qed.
Lemma caps_ok x : x < 256 ->
  decode_capabilities x = expected_caps_of (x / 128) ((x / 64) mod 2) ((x / 16) mod 4) ((x / 4) mod 4).
Proof.
  intros H. apply strs_eqb_eq.
  exact (sweep1 (fun x => strs_eqb (decode_capabilities x)
                   (expected_caps_of (x / 128) ((x / 64) mod 2) ((x / 16) mod 4) ((x / 4) mod 4))) 256 ltac:(sweep_tac) x H).
Qed.

(* ---------------------------------------------------------------- id strings *)
Section ListInd.
  Context {A : Type} (P : list A -> Prop).
  Lemma list_ind2 : P [] -> (forall a, P [a]) -> (forall a b r, P r -> P (a :: b :: r)) -> forall l, P l.
  Proof.
    intros H0 H1 H2. fix IH 1. intros [|a [|b r]]; [exact H0 | apply H1 | apply H2, IH].
  Qed.
  Lemma list_ind4 : P [] -> (forall a, P [a]) -> (forall a b, P [a; b]) -> (forall a b c, P [a; b; c]) ->
    (forall a b c d r, P r -> P (a :: b :: c :: d :: r)) -> forall l, P l.
  Proof.
    intros H0 H1 H2 H3 H4. fix IH 1.
    intros [|a [|b [|c [|d r]]]]; [exact H0 | apply H1 | apply H2 | apply H3 | apply H4, IH].
  Qed.
End ListInd.

(* BCD plus *)
Lemma bcd_byte a b : is_bcd_char a = true -> is_bcd_char b = true ->
  bcd_char (N.land (N.shiftr (bcd_nibble a * 16 + bcd_nibble b) 4) 0xf) = Ok a /\
  bcd_char (N.land (bcd_nibble a * 16 + bcd_nibble b) 0xf) = Ok b.
Proof.
  intros Ha Hb.
  assert (La : a < 64) by (unfold is_bcd_char in Ha; lia).
  assert (Lb : b < 64) by (unfold is_bcd_char in Hb; lia).
  pose proof (sweep2 (fun a b => negb (is_bcd_char a && is_bcd_char b) ||
     (res_eqb N.eqb (bcd_char (N.land (N.shiftr (bcd_nibble a * 16 + bcd_nibble b) 4) 0xf)) (Ok a) &&
      res_eqb N.eqb (bcd_char (N.land (bcd_nibble a * 16 + bcd_nibble b) 0xf)) (Ok b))) 64 64 ltac:(sweep_tac) a b La Lb) as E.
  cbv beta in E. rewrite Ha, Hb in E. cbn [andb negb orb] in E. apply andb_prop in E as [E1 E2].
  split.
  - destruct (bcd_char _) as [x|]; cbn in E1; [apply N.eqb_eq in E1; congruence | discriminate].
  - destruct (bcd_char (N.land (bcd_nibble a * 16 + bcd_nibble b) 15)) as [x|]; cbn in E2;
      [apply N.eqb_eq in E2; congruence | discriminate].
Qed.

Definition vis_bcd (s : list N) : list N :=
  if N.of_nat (length s) mod 2 =? 1 then s ++ [32] else s.
Lemma vis_bcd_step a b r : vis_bcd (a :: b :: r) = a :: b :: vis_bcd r.
Proof.
  unfold vis_bcd. cbn [length].
  replace (N.of_nat (S (S (length r))) mod 2) with (N.of_nat (length r) mod 2) by lia.
  destruct (_ =? 1); reflexivity.
Qed.
Lemma bcd_roundtrip : forall s, forallb is_bcd_char s = true -> bcd_decode (enc_bcd s) = Ok (vis_bcd s).
Proof.
  induction s as [| a | a b r IH] using list_ind2; intros H.
  - reflexivity.
  - cbn in H. apply andb_prop in H as [Ha _].
    destruct (bcd_byte a 32 Ha eq_refl) as [E1 E2]. change (bcd_nibble 32) with 10 in E1, E2.
    cbn [enc_bcd bcd_decode]. rewrite E1, E2. reflexivity.
  - cbn [forallb] in H. apply andb_prop in H as [Ha H]. apply andb_prop in H as [Hb H].
    destruct (bcd_byte a b Ha Hb) as [E1 E2].
    cbn [enc_bcd bcd_decode]. rewrite E1, E2, (IH H), vis_bcd_step. reflexivity.
Qed.
Lemma enc_bcd_length : forall s, (length (enc_bcd s) <= length s)%nat.
Proof. induction s as [| a | a b r IH] using list_ind2; cbn [enc_bcd length]; lia. Qed.

(* 6-bit packed ASCII: the four character extractions as arithmetic on bytes *)
Lemma c6_arith x y z : x < 256 -> y < 256 -> z < 256 ->
  c6_1 x = 32 + x mod 64 /\ c6_2 x y = 32 + (x / 64 + y mod 16 * 4) /\
  c6_3 y z = 32 + (y / 16 + z mod 4 * 16) /\ c6_4 z = 32 + z / 4.
Proof.
  intros Hx Hy Hz. unfold c6_1, c6_2, c6_3, c6_4.
  destruct (byte_masks x Hx) as (Ex & _). destruct (byte_masks y Hy) as (_ & Ey & _).
  destruct (byte_masks z Hz) as (_ & _ & _ & Ez).
  rewrite Ex, Ey, Ez. masks.
  rewrite (lor_shift_add (x / 64) (y mod 16) 2) by (change (2^2) with 4; lia).
  rewrite (lor_shift_add (y / 16) (z mod 4) 4) by (change (2^4) with 16; lia).
  change (2^2) with 4. change (2^4) with 16. repeat split; reflexivity.
Qed.

Definition vis6 (v : list N) : list N :=
  if N.of_nat (length v) mod 4 =? 3 then v ++ [0] else v.
Lemma vis6_step a b c d r : vis6 (a :: b :: c :: d :: r) = a :: b :: c :: d :: vis6 r.
Proof.
  unfold vis6. cbn [length].
  replace (N.of_nat (S (S (S (S (length r))))) mod 4) with (N.of_nat (length r) mod 4) by lia.
  destruct (_ =? 3); reflexivity.
Qed.
Lemma unpack_pack6 : forall v, forallb (fun x => x <? 64) v = true ->
  unpack6bitascii (pack6 v) = map (fun x => 32 + x) (vis6 v).
Proof.
  induction v as [| a | a b | a b c | a b c d r IH] using list_ind4; intros H; cbn [forallb] in H.
  - reflexivity.
  - destruct (c6_arith a 0 0) as (E1 & _); [lia..|].
    change (vis6 [a]) with [a]. cbn [pack6 unpack6bitascii map]. rewrite E1. repeat f_equal; lia.
  - destruct (c6_arith (a + b mod 4 * 64) (b / 4) 0) as (E1 & E2 & _); [lia..|].
    change (vis6 [a; b]) with [a; b]. cbn [pack6 unpack6bitascii map]. rewrite E1, E2. repeat f_equal; lia.
  - destruct (c6_arith (a + b mod 4 * 64) (b / 4 + c mod 16 * 16) (c / 16)) as (E1 & E2 & E3 & E4); [lia..|].
    change (vis6 [a; b; c]) with [a; b; c; 0]. cbn [pack6 unpack6bitascii map].
    rewrite E1, E2, E3, E4. repeat f_equal; lia.
  - apply andb_prop in H as [Ha H]. apply andb_prop in H as [Hb H].
    apply andb_prop in H as [Hc H]. apply andb_prop in H as [Hd H].
    destruct (c6_arith (a + b mod 4 * 64) (b / 4 + c mod 16 * 16) (c / 16 + d * 4)) as (E1 & E2 & E3 & E4); [lia..|].
    cbn [pack6 unpack6bitascii]. rewrite E1, E2, E3, E4, vis6_step. cbn [map].
    rewrite (IH H). repeat f_equal; lia.
Qed.
Lemma pack6_length : forall v, (length (pack6 v) <= length v)%nat.
Proof. induction v as [| a | a b | a b c | a b c d r IH] using list_ind4; cbn [pack6 length]; lia. Qed.

Lemma sixbit_roundtrip s : forallb (char_ok 2) s = true ->
  unpack6bitascii (enc_6bit s) =
  (if N.of_nat (length s) mod 4 =? 3 then s ++ [32] else s).
Proof.
  intros H. unfold enc_6bit. rewrite unpack_pack6.
  - unfold vis6. rewrite map_length.
    assert (E : map (fun x => 32 + x) (map (fun c => c - 32) s) = s).
    { rewrite map_map. rewrite <- (map_id s) at 2. apply map_ext_in. intros c Hc.
      rewrite forallb_forall in H. specialize (H c Hc). unfold char_ok in H. cbn in H. lia. }
    destruct (_ =? 3); [rewrite map_app, E; reflexivity | exact E].
  - rewrite forallb_forall in *. intros x Hx. apply in_map_iff in Hx as (c & <- & Hc).
    specialize (H c Hc). unfold char_ok in H. cbn in H. lia.
Qed.

Lemma id_payload_length i : sid_ok i = true -> (length (id_payload i) <= 16)%nat.
Proof.
  unfold sid_ok, id_payload. intros H. apply andb_prop in H as [H _]. apply andb_prop in H as [_ H].
  apply Nat.leb_le in H.
  destruct (si_type i =? 1); [pose proof (enc_bcd_length (si_chars i)); lia|].
  destruct (si_type i =? 2); [|assumption].
  unfold enc_6bit. pose proof (pack6_length (map (fun c => c - 32) (si_chars i))). rewrite map_length in *. lia.
Qed.

Lemma id_roundtrip i : sid_ok i = true -> device_id_string (enc_id i) = Ok (expected_id i).
Proof.
  intros H. pose proof (id_payload_length i H) as HL.
  unfold sid_ok in H. apply andb_prop in H as [H Hc]. apply andb_prop in H as [Ht _].
  unfold enc_id, device_id_string, expected_id.
  set (p := id_payload i) in *. set (n := N.of_nat (length p)).
  assert (Hn : n <= 16) by (unfold n; lia).
  assert (Hb : si_type i * 64 + n < 256) by lia.
  destruct (byte_masks _ Hb) as (E1 & _). rewrite E1. masks.
  replace ((si_type i * 64 + n) / 64) with (si_type i) by lia.
  replace ((si_type i * 64 + n) mod 64) with n by lia.
  assert (Hf : firstn (1 + N.to_nat n) (si_type i * 64 + n :: p) = si_type i * 64 + n :: p).
  { unfold n. rewrite Nat2N.id. cbn [Nat.add firstn]. now rewrite firstn_all. }
  rewrite Hf. unfold tl_string. cbn [nth skipn]. masks.
  replace ((si_type i * 64 + n) / 64 mod 4) with (si_type i) by lia.
  replace ((si_type i * 64 + n) mod 64) with n by lia.
  assert (Hr : firstn (N.to_nat n) p = p) by (unfold n; rewrite Nat2N.id; apply firstn_all).
  rewrite Hr. unfold p, id_payload, visible_chars.
  destruct (N.eqb_spec (si_type i) 1) as [T1|T1].
  - rewrite T1 in Hc. change (char_ok 1) with is_bcd_char in Hc.
    rewrite (bcd_roundtrip _ Hc). reflexivity.
  - destruct (N.eqb_spec (si_type i) 2) as [T2|T2].
    + rewrite T2 in Hc. rewrite (sixbit_roundtrip _ Hc). reflexivity.
    + reflexivity.
Qed.

(* ---------------------------------------------------------------- records *)
Ltac sdr_cbn := cbn -[N.add N.mul N.land N.lor N.shiftl N.shiftr N.div N.modulo N.of_nat tc device_id_string
   convert_complement decode_capabilities decode_initialization decode_analog_characteristic enc_id
   expected_id flag_names expected_caps le_val].
Ltac sdr_cbn_noeqb := cbn -[N.add N.mul N.land N.lor N.shiftl N.shiftr N.div N.modulo N.of_nat le_val N.eqb].
Ltac split_ok H := repeat (apply andb_prop in H; let H' := fresh "R" in destruct H as [H H']).
Ltac ranges H := cbn [range_ok zrange_ok forallb fst snd app key_ranges] in H; split_ok H.
(* f_equal is very slow on the 37-field record; decompose applications one argument at a time *)
Lemma app_cong {A B} (f g : A -> B) x y : f = g -> x = y -> f x = g y.
Proof. intros -> ->; reflexivity. Qed.
Ltac fin := first [reflexivity | lia | (apply app_cong; fin)].

Lemma pop_uint_all n : forall l, length l = S n -> pop_uint (S n) l = Ok (le_val l, []).
Proof.
  induction n as [|n IH]; intros l Hl.
  - destruct l as [|x [|y r]]; try discriminate. cbn [pop_uint le_val]. repeat f_equal. lia.
  - destruct l as [|x r]; [discriminate|]. injection Hl as Hl.
    change (pop_uint (S (S n)) (x :: r)) with (do '(v, r') <- pop_uint (S n) r; Ok (x + 256 * v, r')).
    rewrite (IH r Hl). reflexivity.
Qed.

Lemma parse_full h f : hdr_ok h = true -> full_ok f = true ->
  sdr_from_data (enc_sdr (SFull h f)) = Ok (expected (SFull h f)).
Proof.
  intros Hh Hf. unfold full_ok in Hf. apply andb_prop in Hf as [Hf Hid]. apply andb_prop in Hf as [Hf Hz].
  unfold hdr_ok in Hh. ranges Hh. ranges Hf. ranges Hz.
  unfold enc_sdr, with_header, expected, expected_hdr.
  cbn [s_hdr s_type s_body]. set (L := N.of_nat (length (full_body f))).
  unfold full_body. cbn [app].
  sdr_cbn. rewrite (id_roundtrip _ Hid). sdr_cbn.
  unfold expected_full, expected_caps.
  pose proof (tc10_lt (sf_b f)) as Hb10.
  destruct (m_roundtrip (sf_m f) (sf_tolerance f)) as [Em Et]; [lia..|].
  destruct (split10 (tc 10 (sf_b f)) (sf_accuracy f mod 64)) as [Eb _]; [lia..|].
  destruct (split_acc (sf_accuracy f) (tc 10 (sf_b f) / 256) (sf_accuracy_exp f) (sf_direction f)) as [Ea Ee]; [lia..|].
  destruct (k_roundtrip (sf_k2 f) (sf_k1 f)) as [Ek2 Ek1]; [lia..|].
  rewrite Em, Et, Eb, Ea, Ee, Ek2, Ek1, (sign10 (sf_b f)) by lia.
  rewrite init_flags_ok, caps_ok, achar_flags_ok by lia. masks.
  fin.
Qed.

Lemma parse_compact h c : hdr_ok h = true -> compact_ok c = true ->
  sdr_from_data (enc_sdr (SCompact h c)) = Ok (expected (SCompact h c)).
Proof.
  intros Hh Hf. unfold compact_ok in Hf. apply andb_prop in Hf as [Hf Hid].
  unfold hdr_ok in Hh. ranges Hh. ranges Hf.
  unfold enc_sdr, with_header, expected, expected_hdr.
  cbn [s_hdr s_type s_body]. set (L := N.of_nat (length (compact_body c))).
  unfold compact_body. cbn [app].
  sdr_cbn. rewrite (id_roundtrip _ Hid). sdr_cbn. masks. fin.
Qed.

Lemma parse_event h e : hdr_ok h = true -> event_ok e = true ->
  sdr_from_data (enc_sdr (SEvent h e)) = Ok (expected (SEvent h e)).
Proof.
  intros Hh Hf. unfold event_ok in Hf. apply andb_prop in Hf as [Hf Hid].
  unfold hdr_ok in Hh. ranges Hh. ranges Hf.
  unfold enc_sdr, with_header, expected, expected_hdr.
  cbn [s_hdr s_type s_body]. set (L := N.of_nat (length (event_body e))).
  unfold event_body. cbn [app].
  sdr_cbn. rewrite (id_roundtrip _ Hid). sdr_cbn. masks. fin.
Qed.

Lemma parse_fruloc h l : hdr_ok h = true -> fruloc_ok l = true ->
  sdr_from_data (enc_sdr (SFruLoc h l)) = Ok (expected (SFruLoc h l)).
Proof.
  intros Hh Hf. unfold fruloc_ok in Hf. apply andb_prop in Hf as [Hf Hid].
  unfold hdr_ok in Hh. ranges Hh. ranges Hf.
  unfold enc_sdr, with_header, expected, expected_hdr.
  cbn [s_hdr s_type s_body]. set (L := N.of_nat (length (fruloc_body l))).
  unfold fruloc_body. cbn [app].
  sdr_cbn. rewrite (id_roundtrip _ Hid). sdr_cbn. masks. fin.
Qed.

Lemma parse_mcloc h m : hdr_ok h = true -> mcloc_ok m = true ->
  sdr_from_data (enc_sdr (SMcLoc h m)) = Ok (expected (SMcLoc h m)).
Proof.
  intros Hh Hf. unfold mcloc_ok in Hf. apply andb_prop in Hf as [Hf Hid].
  unfold hdr_ok in Hh. ranges Hh. ranges Hf.
  unfold enc_sdr, with_header, expected, expected_hdr.
  cbn [s_hdr s_type s_body]. set (L := N.of_nat (length (mcloc_body m))).
  unfold mcloc_body. cbn [app].
  sdr_cbn. rewrite (id_roundtrip _ Hid). sdr_cbn. masks. fin.
Qed.

Lemma parse_mcconf h m : hdr_ok h = true -> mcconf_ok m = true ->
  sdr_from_data (enc_sdr (SMcConf h m)) = Ok (expected (SMcConf h m)).
Proof.
  intros Hh Hf. unfold mcconf_ok in Hf. apply andb_prop in Hf as [Hf Hg]. apply andb_prop in Hf as [Hf Hl].
  apply Nat.eqb_eq in Hl.
  unfold hdr_ok in Hh. ranges Hh. ranges Hf.
  unfold enc_sdr, with_header, expected, expected_hdr.
  cbn [s_hdr s_type s_body]. set (L := N.of_nat (length (mcconf_body m))).
  unfold mcconf_body. clearbody L. remember (sn_guid m) as g eqn:Eg. clear Eg Hg.
  do 16 (destruct g as [|? g]; [discriminate Hl|]). destruct g; [|discriminate Hl].
  cbn [app]. sdr_cbn. cbn [le_val]. masks. fin.
Qed.

Lemma parse_oem h mid d : hdr_ok h = true -> mid < 16777216 ->
  sdr_from_data (enc_sdr (SOem h mid d)) = Ok (expected (SOem h mid d)).
Proof.
  intros Hh Hm. unfold hdr_ok in Hh. ranges Hh.
  unfold enc_sdr, with_header, expected, expected_hdr.
  cbn [s_hdr s_type s_body]. set (L := N.of_nat (length ([mid mod 256; (mid / 256) mod 256; mid / 65536] ++ d))).
  cbn [app]. sdr_cbn. masks. fin.
Qed.

Lemma parse_other h ty b : hdr_ok h = true -> known_type ty = false ->
  sdr_from_data (enc_sdr (SOther h ty b)) = Ok (expected (SOther h ty b)).
Proof.
  intros Hh Hk. unfold hdr_ok in Hh. ranges Hh.
  unfold known_type in Hk. repeat (apply orb_false_elim in Hk; destruct Hk as [Hk ?]).
  unfold enc_sdr, with_header, expected, expected_hdr.
  cbn [s_hdr s_type s_body]. set (L := N.of_nat (length b)).
  sdr_cbn_noeqb.
  repeat match goal with H : (ty =? _) = false |- _ => rewrite H; clear H end.
  sdr_cbn_noeqb. fin.
Qed.

Theorem parse_enc s : in_range s -> sdr_from_data (enc_sdr s) = Ok (expected s).
Proof.
  unfold in_range, in_range_b. intros H. apply andb_prop in H as [Hh H].
  destruct s as [h f|h c|h e|h l|h m|h m|h mid d|h ty b]; cbn [s_hdr] in Hh.
  - apply parse_full; assumption.
  - apply parse_compact; assumption.
  - apply parse_event; assumption.
  - apply parse_fruloc; assumption.
  - apply parse_mcloc; assumption.
  - apply parse_mcconf; assumption.
  - split_ok H. apply parse_oem; [assumption | lia].
  - split_ok H. apply parse_other; [assumption | now apply negb_true_iff].
Qed.

(* ---------------------------------------------------------------- dispatch *)
Theorem dispatch d r : sdr_from_data d = Ok r ->
  exists t, nth_error d 3 = Some t /\ kind_of_record r = kind_of_type t.
Proof.
  unfold sdr_from_data. destruct (nth_error d 3) as [t|]; [|discriminate].
  intros H. exists t. split; [reflexivity|]. unfold kind_of_type.
  destruct (common_header d) as [h|]; [|discriminate]. cbn [bind] in H.
  repeat match goal with
  | H : (if ?c then _ else _) = Ok _ |- _ => destruct c
  | H : bind ?x _ = Ok _ |- _ => destruct x; cbn [bind] in H; [|discriminate]
  | H : Ok _ = Ok _ |- _ => injection H as <-; reflexivity
  end.
Qed.

(* two records with the same type byte are parsed into the same kind, whatever else they contain *)
Corollary dispatch_type_only d d' r r' :
  nth_error d 3 = nth_error d' 3 -> sdr_from_data d = Ok r -> sdr_from_data d' = Ok r' ->
  kind_of_record r = kind_of_record r'.
Proof.
  intros E H H'. apply dispatch in H as (t & Ht & ->). apply dispatch in H' as (t' & Ht' & ->).
  congruence.
Qed.

(* and the kind of an encoded record is the one its constructor names *)
Lemma enc_type_byte s : nth_error (enc_sdr s) 3 = Some (s_type s).
Proof. reflexivity. Qed.

(* ---- arbitrary data: header of whatever record comes back; short data; injectivity ---- *)
Local Opaque N.mul N.add.

Lemma common_header_5 d0 d1 d2 d3 d4 rest :
  common_header (d0 :: d1 :: d2 :: d3 :: d4 :: rest) = Ok (mkHdr (d0 + 256 * d1) d2 d3 d4).
Proof. reflexivity. Qed.

Lemma common_header_short d : (length d < 5)%nat -> common_header d = Err DecodingError.
Proof.
  destruct d as [|d0 [|d1 [|d2 [|d3 [|d4 r]]]]]; cbn [length]; intros H; try reflexivity; lia.
Qed.

Lemma short_rejected d : (length d < 5)%nat -> exists e, sdr_from_data d = Err e.
Proof.
  intros H. unfold sdr_from_data. destruct (nth_error d 3); [|eexists; reflexivity].
  rewrite (common_header_short d H). eexists; reflexivity.
Qed.

Lemma header_any d r : sdr_from_data d = Ok r ->
  exists d0 d1 d2 d3 d4 rest, d = d0 :: d1 :: d2 :: d3 :: d4 :: rest /\
    record_hdr r = mkHdr (d0 + 256 * d1) d2 d3 d4.
Proof.
  intros H.
  destruct (Nat.ltb_spec (length d) 5) as [Hs|Hl].
  { destruct (short_rejected d Hs) as [e He]. congruence. }
  destruct d as [|d0 [|d1 [|d2 [|d3 [|d4 rest]]]]]; cbn [length] in Hl; try lia.
  exists d0, d1, d2, d3, d4, rest. split; [reflexivity|].
  revert H. unfold sdr_from_data. cbn [nth_error]. rewrite common_header_5. cbn [bind].
  repeat match goal with
  | |- context [if ?c then _ else _] => destruct c
  end;
  try (match goal with |- context [bind ?x _] => destruct x end; cbn [bind]);
  intros [= <-]; reflexivity.
Qed.

(* distinct attribute sets never share an encoding *)
Lemma enc_injective s s' : in_range s -> in_range s' -> enc_sdr s = enc_sdr s' -> expected s = expected s'.
Proof.
  intros H H' E. pose proof (parse_enc s H) as P. pose proof (parse_enc s' H') as P'.
  rewrite E in P. congruence.
Qed.
