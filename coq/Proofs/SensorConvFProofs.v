(* C17 level (ii): the finite-sub-domain float theorem, lifted from the sweep. *)
From Coq Require Import NArith ZArith List Lia Bool QArith Qpower Qabs Floats.
From PyIpmi Require Import Lib.Res Model.SensorConv Model.SensorConvF Proofs.SensorConvProofs Proofs.SensorConvFSweep.
Import ListNotations.
Open Scope Z_scope.

Lemma float_ok_pointwise (m b k1 k2 : Z) (fmt raw : N) :
  In (m, b) pairs -> In k1 ks -> In k2 ks -> (fmt < 3)%N -> (raw < 256)%N ->
  float_ok (mkSensor fmt 0 m b k1 k2) raw = true.
Proof. exact (sweep_gen_sound float_ok sweep_all_true m b k1 k2 fmt raw). Qed.

Lemma float_partial (m b k1 k2 : Z) (fmt raw : N) :
  In (m, b) pairs -> In k1 ks -> In k2 ks -> (fmt < 3)%N -> (raw < 256)%N ->
  let s := mkSensor fmt 0 m b k1 k2 in
  exists v, Q_of_float (convert_raw_F s raw) = Some v /\
            close_to_formula s (signed_of fmt raw) v /\
            (~ (fmt = 1%N /\ raw = 255%N) -> convert_value_F s (convert_raw_F s raw) = Ok (Z.of_N raw)).
Proof.
  intros Hp H1 H2 Hf Hr s.
  pose proof (float_ok_pointwise m b k1 k2 fmt raw Hp H1 H2 Hf Hr) as H.
  fold s in H. unfold float_ok in H.
  destruct (Q_of_float (convert_raw_F s raw)) as [v|]; [|discriminate].
  apply andb_prop in H as [Hc Hi]. exists v. split; [reflexivity|]. split.
  - unfold close_to_formula. rewrite <- (raw_signed_spec fmt raw Hf Hr).
    apply Qle_bool_iff. exact Hc.
  - intros Hz. apply orb_prop in Hi as [Hi|Hi].
    + apply andb_prop in Hi as [E1 E2]. cbn [s_fmt s] in E1. apply N.eqb_eq in E1, E2. tauto.
    + destruct (convert_value_F s (convert_raw_F s raw)) as [z|e]; cbn in Hi; [|discriminate].
      apply Z.eqb_eq in Hi. now subst.
Qed.
