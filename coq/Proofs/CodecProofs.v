(* Generic theorems about the codec interpreter (C01, C02): totality, strictness,
   round trip, completion-code stop - for EVERY well-formed layout. *)
From Coq Require Import String.
From Coq Require Import NArith List Lia ZArith ZifyN ZifyBool ZifyNat Bool.
From PyIpmi Require Import Lib.Res Lib.Bytes Lib.Bits Model.Codec Proofs.CodecLemmas.
Import ListNotations.
Open Scope N_scope.
Ltac Zify.zify_post_hook ::= Z.to_euclidean_division_equations.

(* ------------------------------------------------------------------ *)
(* decoding one base field                                             *)
(* ------------------------------------------------------------------ *)

(* totality + typing of the produced value *)
Lemma dec_base_total pre done f rest d :
  base_ok pre (f_base f) rest = true -> Forall2 typed pre done ->
  (exists v d', dec_base done (f_base f) d = Ok (v, d') /\ typed f v /\ v <> VNone)
  \/ dec_base done (f_base f) d = Err DecodingError.
Proof.
  intros Hb HT. unfold typed. destruct (f_base f) as [n| |n ws|n|r|n|]; cbn [dec_base base_ok] in *.
  - destruct (take_total n d) as [[h [t ->]]| ->]; cbn; [left|now right].
    do 2 eexists. split; [reflexivity|]. split; [destruct (f_kind f); eauto | discriminate].
  - destruct (take_total 1 d) as [[h [t ->]]| ->]; cbn; [left|now right].
    do 2 eexists. split; [reflexivity|]. split; [destruct (f_kind f); eauto | discriminate].
  - destruct (take_total n d) as [[h [t ->]]| ->]; cbn; [left|now right].
    do 2 eexists. split; [reflexivity|]. split; [|discriminate].
    destruct (f_kind f); auto. eexists. split; [reflexivity | apply unpack_at_length].
  - destruct (take_total n d) as [[h [t ->]]| ->]; cbn; [left|now right].
    do 2 eexists. split; [reflexivity|]. split; [destruct (f_kind f); auto | discriminate].
  - destruct (ref_uint_spec _ _ _ Hb HT) as [_ [k ->]].
    destruct (take_total (N.to_nat k) d) as [[h [t ->]]| ->]; cbn; [left|now right].
    do 2 eexists. split; [reflexivity|]. split; [destruct (f_kind f); auto | discriminate].
  - left. do 2 eexists. split; [reflexivity|]. split; [destruct (f_kind f); auto | discriminate].
  - left. do 2 eexists. split; [reflexivity|]. split; [destruct (f_kind f); auto | discriminate].
Qed.

(* decode then encode: the consumed bytes are reproduced *)
Lemma dec_enc_base pre done b rest d v d' x :
  base_ok pre b rest = true -> Forall2 typed pre done -> bytes_ok d = true ->
  dec_base done b d = Ok (v, d') ->
  exists bs, enc_base (done ++ x) b v = Ok bs /\ d = bs ++ d' /\ bytes_ok d' = true.
Proof.
  intros Hb HT Hd. destruct b as [n| |n ws|n|r|n|]; cbn [dec_base base_ok enc_base] in *.
  - destruct (take n d) as [[h t]|] eqn:Ht; cbn [bind]; [|discriminate]. intros [= <- <-].
    apply take_ok in Ht as [-> Hl]. apply bytes_ok_split in Hd as [Hh Htl].
    cbn [enc_base]. exists h. rewrite le_bytes_val by assumption. auto.
  - destruct (take 1 d) as [[h t]|] eqn:Ht; cbn [bind]; [|discriminate]. intros [= <- <-].
    apply take_ok in Ht as [-> Hl]. apply bytes_ok_split in Hd as [Hh Htl].
    cbn [enc_base]. exists h. rewrite le_bytes_val by assumption. auto.
  - destruct (take n d) as [[h t]|] eqn:Ht; cbn [bind]; [|discriminate]. intros [= <- <-].
    apply take_ok in Ht as [-> Hl]. apply bytes_ok_split in Hd as [Hh Htl].
    cbn [enc_base]. exists h. rewrite unpack_at_length, Nat.eqb_refl.
    rewrite bits_reencode by (try assumption; lia). auto.
  - destruct (take n d) as [[h t]|] eqn:Ht; cbn [bind]; [|discriminate]. intros [= <- <-].
    apply take_ok in Ht as [-> Hl]. apply bytes_ok_split in Hd as [Hh Htl].
    cbn [enc_base]. exists h. rewrite Hl, Nat.eqb_refl, mask_bytes_ok by assumption. auto.
  - destruct (ref_uint_spec _ _ _ Hb HT) as [Hlt [k Hk]]. rewrite Hk.
    destruct (take (N.to_nat k) d) as [[h t]|] eqn:Ht; cbn [bind]; [|discriminate]. intros [= <- <-].
    apply take_ok in Ht as [-> Hl]. apply bytes_ok_split in Hd as [Hh Htl].
    cbn [enc_base]. exists h. rewrite nth_error_app_lt, Hk by assumption.
    replace (N.of_nat (length h) =? k) with true by lia.
    rewrite mask_bytes_ok by assumption. auto.
  - intros [= <- <-]. cbn [enc_base]. exists (firstn n d). split; [reflexivity|].
    split; [symmetry; apply firstn_skipn | now apply bytes_ok_skipn].
  - intros [= <- <-]. cbn [enc_base]. exists d. rewrite app_nil_r. auto.
Qed.

(* ------------------------------------------------------------------ *)
(* C02 totality                                                        *)
(* ------------------------------------------------------------------ *)
Definition ok_or_decerr {A} (r : res A) : Prop := (exists a, r = Ok a) \/ r = Err DecodingError.

Lemma ok_or_decerr_bind {A B} (r : res A) (k : A -> res B) :
  ok_or_decerr r -> (forall a, r = Ok a -> ok_or_decerr (k a)) -> ok_or_decerr (bind r k).
Proof. intros [[a ->]| ->] Hk; cbn; [now apply Hk | now right]. Qed.

Lemma dec_fields_total fs : forall pre done d,
  wf_from pre fs = true -> Forall2 typed pre done -> ok_or_decerr (dec_fields fs done d).
Proof.
  induction fs as [|f fs IH]; intros pre done d Hwf HT; cbn [dec_fields].
  - destruct d; [left; eauto | now right].
  - cbn [wf_from] in Hwf. apply andb_prop in Hwf as [Hf Hwf]. unfold fld_ok in Hf.
    apply andb_prop in Hf as [Hb Hk].
    assert (Hrec : forall v d', typed f v -> ok_or_decerr
              (do '(r, st) <- dec_fields fs (done ++ [v]) d'; Ok (v :: r, st))).
    { intros v d' Hv. apply ok_or_decerr_bind; [apply (IH (pre ++ [f])); [assumption | now apply Forall2_snoc]|].
      intros [r st] _. left; eauto. }
    assert (Hstep : ok_or_decerr
              (do '(v, d') <- dec_base done (f_base f) d;
               match f_base f, v with
               | BCC, VInt (Npos _) => Ok (v :: map f_dflt fs, true)
               | _, _ => do '(r, st) <- dec_fields fs (done ++ [v]) d'; Ok (v :: r, st)
               end)).
    { destruct (dec_base_total pre done f fs d Hb HT) as [[v [d' [-> [Hv _]]]]| ->]; cbn [bind]; [|now right].
      destruct (f_base f); try apply Hrec; try assumption.
      destruct v as [[|p]| | |]; try (apply Hrec; assumption). left; eauto. }
    destruct (f_kind f) as [| |c] eqn:Hkind.
    + exact Hstep.
    + destruct d; [|exact Hstep]. apply Hrec. unfold typed. now rewrite Hkind.
    + apply andb_prop in Hk as [Hc _].
      destruct (eval_cond_app pre done c Hc HT) as [b Eb]. rewrite Eb. cbn [bind].
      destruct b; [exact Hstep|]. apply Hrec. unfold typed. now rewrite Hkind.
Qed.

(* ------------------------------------------------------------------ *)
(* C02 strictness: what decodes (without a completion-code stop)       *)
(* re-encodes to exactly the input                                     *)
(* ------------------------------------------------------------------ *)
Lemma dec_fields_strict fs : forall pre done d vs,
  wf_from pre fs = true -> Forall2 typed pre done -> bytes_ok d = true ->
  dec_fields fs done d = Ok (vs, false) ->
  enc_fields (done ++ vs) fs vs = Ok d.
Proof.
  induction fs as [|f fs IH]; intros pre done d vs Hwf HT Hd; cbn [dec_fields].
  - destruct d; [|discriminate]. intros [= <-]. reflexivity.
  - cbn [wf_from] in Hwf. apply andb_prop in Hwf as [Hf Hwf]. unfold fld_ok in Hf.
    apply andb_prop in Hf as [Hb Hk].
    (* the common step: decode the base, continue *)
    assert (Hstep : forall (Hnn : f_kind f = KOpt -> d <> []) (Hc : forall c, f_kind f = KCond c ->
                       forall x, eval_cond (done ++ x) c = Ok true),
      (do '(v, d') <- dec_base done (f_base f) d;
       match f_base f, v with
       | BCC, VInt (Npos _) => Ok (v :: map f_dflt fs, true)
       | _, _ => do '(r, st) <- dec_fields fs (done ++ [v]) d'; Ok (v :: r, st)
       end) = Ok (vs, false) -> enc_fields (done ++ vs) (f :: fs) vs = Ok d).
    { intros Hnn Hc.
      destruct (dec_base done (f_base f) d) as [[v d']|] eqn:Hdec; cbn [bind]; [|discriminate].
      destruct (dec_base_total pre done f fs d Hb HT) as [[v0 [d0 [Hdec0 [Hv Hnone]]]]|Hbad]; [|congruence].
      rewrite Hdec in Hdec0. injection Hdec0 as <- <-.
      assert (Hcont : (do '(r, st) <- dec_fields fs (done ++ [v]) d'; Ok (v :: r, st)) = Ok (vs, false) ->
                      enc_fields (done ++ vs) (f :: fs) vs = Ok d).
      { destruct (dec_fields fs (done ++ [v]) d') as [[r st]|] eqn:Hr; cbn [bind]; [|discriminate].
        intros [= <- ->].
        destruct (dec_enc_base pre done (f_base f) fs d v d' (v :: r) Hb HT Hd Hdec) as [bs [Henc [-> Hd']]].
        pose proof (IH (pre ++ [f]) (done ++ [v]) d' r Hwf (Forall2_snoc _ _ _ _ _ HT Hv) Hd' Hr) as Hrest.
        rewrite <- app_assoc in Hrest. cbn [app] in Hrest.
        cbn [enc_fields]. unfold enc_fld.
        destruct (f_kind f) as [| |c] eqn:Hkind.
        - rewrite Henc. cbn [bind]. rewrite Hrest. reflexivity.
        - destruct v; try (rewrite Henc; cbn [bind]; rewrite Hrest; reflexivity). congruence.
        - rewrite (Hc c eq_refl). cbn [bind]. rewrite Henc. cbn [bind]. rewrite Hrest. reflexivity. }
      destruct (f_base f); try exact Hcont.
      destruct v as [[|p]| | |]; try exact Hcont. discriminate. }
    destruct (f_kind f) as [| |c] eqn:Hkind.
    + apply Hstep; [discriminate | discriminate].
    + destruct d as [|b0 d0].
      * destruct (dec_fields fs (done ++ [VNone]) []) as [[r st]|] eqn:Hr; cbn [bind]; [|discriminate].
        intros [= <- ->].
        pose proof (IH (pre ++ [f]) (done ++ [VNone]) [] r Hwf) as Hrest.
        rewrite <- app_assoc in Hrest. cbn [app] in Hrest.
        cbn [enc_fields]. unfold enc_fld. rewrite Hkind. cbn [bind].
        rewrite Hrest; [reflexivity | | reflexivity | assumption].
        apply Forall2_snoc; [assumption|]. unfold typed. now rewrite Hkind.
      * apply Hstep; [discriminate | discriminate].
    + apply andb_prop in Hk as [Hc _].
      destruct (eval_cond_app pre done c Hc HT) as [b Eb]. rewrite Eb. cbn [bind].
      destruct b.
      * apply Hstep; [discriminate|]. intros c' [= <-]. exact Eb.
      * destruct (dec_fields fs (done ++ [f_dflt f]) d) as [[r st]|] eqn:Hr; cbn [bind]; [|discriminate].
        intros [= <- ->].
        pose proof (IH (pre ++ [f]) (done ++ [f_dflt f]) d r Hwf) as Hrest.
        rewrite <- app_assoc in Hrest. cbn [app] in Hrest.
        cbn [enc_fields]. unfold enc_fld. rewrite Hkind, Eb. cbn [bind].
        rewrite Hrest; [reflexivity | | assumption | assumption].
        apply Forall2_snoc; [assumption|]. unfold typed. now rewrite Hkind.
Qed.

(* ------------------------------------------------------------------ *)
(* C01 round trip                                                      *)
(* ------------------------------------------------------------------ *)
Definition base_in_range (e : env) (b : base) (v : val) : Prop :=
  match b, v with
  | BUInt n, VInt x => x < 256 ^ N.of_nat n
  | BCC, VInt x => x = 0
  | BBits n ws, VBits vs => length vs = length ws /\ vals_ok (combine ws vs)
  | BBytes n, VBytes l => length l = n /\ bytes_ok l = true
  | BVar r, VBytes l => bytes_ok l = true /\ nth_error e r = Some (VInt (N.of_nat (length l)))
  | BStr n, VBytes l => length l = n /\ bytes_ok l = true
  | BRem, VBytes l => bytes_ok l = true
  | _, _ => False
  end.

Fixpoint in_range_fields (e : env) (fs : list fld) (vs : list val) : Prop :=
  match fs, vs with
  | [], [] => True
  | f :: fs', v :: vs' =>
      match f_kind f with
      | KPlain => base_in_range e (f_base f) v /\ in_range_fields e fs' vs'
      | KOpt => (v = VNone /\ Forall (eq VNone) vs' /\ length vs' = length fs')
                \/ (base_in_range e (f_base f) v /\ (f_base f = BRem -> v <> VBytes []) /\
                    in_range_fields e fs' vs')
      | KCond c => ((eval_cond e c = Ok true /\ base_in_range e (f_base f) v)
                    \/ (eval_cond e c = Ok false /\ v = f_dflt f)) /\ in_range_fields e fs' vs'
      end
  | _, _ => False
  end.

Definition in_range (m : layout) (e : env) : Prop :=
  match m with
  | Fields l => in_range_fields e l e
  | NoFields => e = []
  | _ => False
  end.

Lemma in_range_typed e f v : base_in_range e (f_base f) v -> typed f v.
Proof.
  unfold typed. destruct (f_kind f); auto. destruct (f_base f), v; cbn; try contradiction; eauto.
  intros [Hl _]. eauto.
Qed.

(* encode then decode one base field, followed by [tl] *)
Lemma enc_dec_base pre done b rest v x tl :
  base_ok pre b rest = true -> Forall2 typed pre done ->
  base_in_range (done ++ x) b v -> (b = BRem -> tl = []) ->
  exists hd, enc_base (done ++ x) b v = Ok hd /\ dec_base done b (hd ++ tl) = Ok (v, tl) /\
             bytes_ok hd = true /\
             match b with BUInt n | BBytes n => length hd = n | BRem => v = VBytes hd | _ => True end.
Proof.
  intros Hb HT Hr Htl. destruct b as [n| |n ws|n|r|n|], v as [y|vs|l|]; cbn [base_in_range] in Hr; try contradiction;
    cbn [enc_base dec_base base_ok] in *.
  - exists (le_bytes n y). rewrite take_app by apply le_bytes_length. cbn [bind].
    rewrite le_val_bytes by assumption. repeat split; [apply le_bytes_ok | apply le_bytes_length].
  - subst y. exists [0]. cbn. auto.
  - destruct Hr as [Hl Hv]. rewrite Hl, Nat.eqb_refl. eexists. split; [reflexivity|].
    rewrite take_app by apply le_bytes_length. cbn [bind].
    rewrite bits_redecode by (try assumption; lia). repeat split. apply le_bytes_ok.
  - destruct Hr as [Hl Hok]. rewrite Hl, Nat.eqb_refl, mask_bytes_ok by assumption.
    exists l. rewrite take_app by assumption. cbn [bind]. auto.
  - destruct Hr as [Hok Hn]. destruct (ref_uint_spec _ _ _ Hb HT) as [Hlt [k Hk]].
    rewrite nth_error_app_lt, Hk in Hn by assumption. injection Hn as ->.
    rewrite nth_error_app_lt, Hk by assumption. rewrite N.eqb_refl, mask_bytes_ok by assumption.
    exists l. rewrite take_app by lia. cbn [bind]. auto.
  - destruct Hr as [Hl Hok]. exists l. rewrite firstn_app_exact, skipn_app_exact by assumption. auto.
  - rewrite (Htl eq_refl). exists l. rewrite app_nil_r. auto.
Qed.

(* absent optional tail *)
Lemma enc_dec_all_none fs : forall e done vs, forallb is_opt fs = true ->
  Forall (eq VNone) vs -> length vs = length fs ->
  enc_fields e fs vs = Ok [] /\ dec_fields fs done [] = Ok (vs, false).
Proof.
  induction fs as [|f fs IH]; intros e done [|v vs] Ho Hn Hl; try discriminate; cbn in Hl; [now split|].
  cbn [forallb] in Ho. apply andb_prop in Ho as [Hf Ho]. inversion Hn as [|? ? Hv Hn']; subst.
  unfold is_opt in Hf. destruct (f_kind f) eqn:Hk; try discriminate.
  destruct (IH e (done ++ [VNone]) vs Ho Hn' ltac:(lia)) as [He Hd].
  cbn [enc_fields dec_fields]. unfold enc_fld. rewrite Hk. cbn [bind]. rewrite He, Hd. now split.
Qed.

Lemma enc_fields_nil_rest e fs vs bs : fs = [] -> enc_fields e fs vs = Ok bs -> bs = [].
Proof. intros ->. destruct vs; cbn; [now intros [= <-] | discriminate]. Qed.

Lemma enc_dec_fields fs : forall pre done vs,
  wf_from pre fs = true -> Forall2 typed pre done ->
  in_range_fields (done ++ vs) fs vs ->
  exists bs, enc_fields (done ++ vs) fs vs = Ok bs /\ dec_fields fs done bs = Ok (vs, false)
             /\ bytes_ok bs = true.
Proof.
  induction fs as [|f fs IH]; intros pre done [|v vs] Hwf HT Hr; cbn [in_range_fields] in Hr; try contradiction.
  - exists []. auto.
  - cbn [wf_from] in Hwf. apply andb_prop in Hwf as [Hf Hwf]. unfold fld_ok in Hf.
    apply andb_prop in Hf as [Hb Hk].
    (* the generic "present" step *)
    assert (Hpresent : base_in_range (done ++ v :: vs) (f_base f) v ->
                       in_range_fields (done ++ v :: vs) fs vs ->
                       (f_kind f = KOpt -> (match f_base f with BUInt n | BBytes n => (0 < n)%nat | BRem => v <> VBytes [] | _ => False end)) ->
                       (forall c, f_kind f = KCond c -> forall x, eval_cond (done ++ x) c = Ok true) ->
                       exists bs, enc_fields (done ++ v :: vs) (f :: fs) (v :: vs) = Ok bs /\
                                  dec_fields (f :: fs) done bs = Ok (v :: vs, false) /\ bytes_ok bs = true).
    { intros Hbr Hrest Hoptnz Hcond.
      assert (HT' : Forall2 typed (pre ++ [f]) (done ++ [v])) by (apply Forall2_snoc; [assumption | eapply in_range_typed; eassumption]).
      replace (done ++ v :: vs) with ((done ++ [v]) ++ vs) in Hrest by (rewrite <- app_assoc; reflexivity).
      destruct (IH (pre ++ [f]) (done ++ [v]) vs Hwf HT' Hrest) as [tl [Het [Hdt Hokt]]].
      rewrite <- app_assoc in Het. cbn [app] in Het.
      assert (Hrem : f_base f = BRem -> tl = []).
      { intros E. rewrite E in Hb. cbn in Hb. destruct fs; [|discriminate]. eapply enc_fields_nil_rest; [reflexivity | exact Het]. }
      destruct (enc_dec_base pre done (f_base f) fs v (v :: vs) tl Hb HT Hbr Hrem) as [hd [Hehd [Hdhd [Hokhd Hshape]]]].
      exists (hd ++ tl). split; [|split].
      - cbn [enc_fields]. unfold enc_fld.
        destruct (f_kind f) as [| |c] eqn:Hkind.
        + rewrite Hehd. cbn [bind]. rewrite Het. reflexivity.
        + destruct v; try (rewrite Hehd; cbn [bind]; rewrite Het; reflexivity).
          destruct (f_base f); cbn in Hbr; contradiction.
        + rewrite (Hcond c eq_refl). cbn [bind]. rewrite Hehd. cbn [bind]. rewrite Het. reflexivity.
      - assert (Hstep : (do '(v0, d') <- dec_base done (f_base f) (hd ++ tl);
                         match f_base f, v0 with
                         | BCC, VInt (Npos _) => Ok (v0 :: map f_dflt fs, true)
                         | _, _ => do '(r, st) <- dec_fields fs (done ++ [v0]) d'; Ok (v0 :: r, st)
                         end) = Ok (v :: vs, false)).
        { rewrite Hdhd. cbn [bind].
          destruct (f_base f) eqn:Hbase; try (rewrite Hdt; reflexivity).
          destruct v as [y| | |]; cbn in Hbr; try contradiction. subst y. rewrite Hdt. reflexivity. }
        cbn [dec_fields]. destruct (f_kind f) as [| |c] eqn:Hkind.
        + exact Hstep.
        + specialize (Hoptnz eq_refl).
          assert (Hnz : hd ++ tl <> []).
          { destruct (f_base f); try contradiction.
            - destruct hd; [cbn in Hshape; lia | discriminate].
            - destruct hd; [cbn in Hshape; lia | discriminate].
            - subst v. destruct hd; [congruence | discriminate]. }
          destruct (hd ++ tl) eqn:E; [congruence|]. exact Hstep.
        + rewrite (Hcond c eq_refl). cbn [bind]. exact Hstep.
      - rewrite bytes_ok_app, Hokhd, Hokt. reflexivity. }
    destruct (f_kind f) as [| |c] eqn:Hkind.
    + destruct Hr as [Hbr Hrest]. apply Hpresent; try assumption; discriminate.
    + apply andb_prop in Hk as [Hopts Hnz].
      destruct Hr as [[-> [Hn Hl]]|[Hbr [Hne Hrest]]].
      * destruct (enc_dec_all_none fs (done ++ VNone :: vs) (done ++ [VNone]) vs Hopts Hn Hl) as [He Hd].
        exists []. cbn [enc_fields dec_fields]. unfold enc_fld. rewrite Hkind. cbn [bind]. rewrite He, Hd. auto.
      * apply Hpresent; try assumption; [|discriminate]. intros _.
        destruct (f_base f); try discriminate; try (now apply Nat.ltb_lt in Hnz). now apply Hne.
    + apply andb_prop in Hk as [Hc _]. destruct Hr as [Hcase Hrest].
      destruct (eval_cond_app pre done c Hc HT) as [b Eb].
      destruct Hcase as [[Hev Hbr]|[Hev ->]]; rewrite Eb in Hev; injection Hev as ->.
      * apply Hpresent; try assumption; [discriminate|]. intros c' [= <-]. exact Eb.
      * assert (HT' : Forall2 typed (pre ++ [f]) (done ++ [f_dflt f])).
        { apply Forall2_snoc; [assumption|]. unfold typed. now rewrite Hkind. }
        replace (done ++ f_dflt f :: vs) with ((done ++ [f_dflt f]) ++ vs) in Hrest by (rewrite <- app_assoc; reflexivity).
        destruct (IH (pre ++ [f]) (done ++ [f_dflt f]) vs Hwf HT' Hrest) as [tl [Het [Hdt Hokt]]].
        rewrite <- app_assoc in Het. cbn [app] in Het.
        exists tl. cbn [enc_fields dec_fields]. unfold enc_fld. rewrite Hkind, !Eb. cbn [bind].
        rewrite Het, Hdt. auto.
Qed.

(* ------------------------------------------------------------------ *)
(* layout-level statements                                             *)
(* ------------------------------------------------------------------ *)
Theorem decode_total m d : wf_layout m = true ->
  (exists r, decode m d = Ok r) \/ decode m d = Err DecodingError.
Proof.
  destruct m as [l| | |]; cbn [wf_layout decode]; try discriminate.
  - intros H. apply andb_prop in H as [H _]. apply (dec_fields_total l [] [] d H). constructor.
  - eauto.
Qed.

Theorem decode_strict m d e : wf_layout m = true -> has_fields m = true -> bytes_ok d = true ->
  decode m d = Ok (e, false) -> encode m e = Ok d.
Proof.
  destruct m as [l| | |]; cbn [wf_layout decode encode has_fields]; try discriminate.
  intros H _ Hd Hdec. apply andb_prop in H as [H _].
  apply (dec_fields_strict l [] [] d e H ltac:(constructor) Hd Hdec).
Qed.

Theorem roundtrip m e : wf_layout m = true -> in_range m e ->
  exists bs, encode m e = Ok bs /\ bytes_ok bs = true /\ decode m bs = Ok (e, false) /\
             (forall e', decode m bs = Ok (e', false) -> encode m e' = Ok bs).
Proof.
  destruct m as [l| | |]; cbn [wf_layout in_range decode encode]; try discriminate; try contradiction.
  - intros H Hr. apply andb_prop in H as [H _].
    destruct (enc_dec_fields l [] [] e H ltac:(constructor) Hr) as [bs [He [Hd Hok]]].
    exists bs. repeat split; try assumption.
    intros e' Hd'. apply (dec_fields_strict l [] [] bs e' H ltac:(constructor) Hok Hd').
  - intros _ ->. exists []. repeat split.
Qed.

(* a non-OK completion code in the first byte: decoding succeeds, reports exactly that
   code, interprets none of the remaining bytes (all other fields stay at their defaults) *)
Theorem cc_stops f fs c rest : f_kind f = KPlain -> f_base f = BCC -> c <> 0 ->
  decode (Fields (f :: fs)) (c :: rest) = Ok (VInt c :: map f_dflt fs, true).
Proof.
  intros Hk Hb Hc. cbn [decode dec_fields]. rewrite Hk, Hb. cbn.
  rewrite N.add_0_r. destruct c; [congruence | reflexivity].
Qed.

Theorem constructible m : wf_layout m = true -> exists e, create m = Ok e.
Proof.
  destruct m as [l| | |]; cbn [wf_layout create]; try discriminate; [|eauto].
  intros H. apply andb_prop in H as [_ H]. unfold names_ok in H.
  apply andb_prop in H as [H H3]. apply andb_prop in H as [H1 H2].
  unfold create_fields. apply negb_true_iff in H1. rewrite H1, H2, H3. cbn. eauto.
Qed.

(* wire order: the encoding is the concatenation, in declaration order, of the field encodings *)
Fixpoint field_encodings (e : env) (fs : list fld) (vs : list val) : list (res (list N)) :=
  match fs, vs with
  | f :: fs', v :: vs' => enc_fld e f v :: field_encodings e fs' vs'
  | _, _ => []
  end.
Fixpoint concat_ok (l : list (res (list N))) : res (list N) :=
  match l with
  | [] => Ok []
  | r :: l' => do a <- r; do b <- concat_ok l'; Ok (a ++ b)
  end.
Theorem wire_order e fs : forall vs, length vs = length fs ->
  enc_fields e fs vs = concat_ok (field_encodings e fs vs).
Proof.
  induction fs as [|f fs IH]; intros [|v vs] Hl; try discriminate; [reflexivity|].
  cbn [enc_fields field_encodings concat_ok]. rewrite IH by (cbn in Hl; lia). reflexivity.
Qed.

(* integers are little-endian: byte i of an n-byte integer is (x / 256^i) mod 256 *)
Theorem uint_little_endian n : forall x i, (i < n)%nat ->
  nth i (le_bytes n x) 0 = (x / 256 ^ N.of_nat i) mod 256.
Proof.
  induction n as [|n IH]; intros x i Hi; [lia|].
  destruct i as [|i]; cbn [le_bytes nth].
  - cbn. now rewrite N.div_1_r.
  - rewrite IH by lia. rewrite Nat2N.inj_succ, N.pow_succ_r', N.div_div by (try apply N.pow_nonzero; lia).
    reflexivity.
Qed.

(* bit members are packed least-significant first in declaration order and do not
   disturb each other: every member is read back whatever its neighbours hold *)
Theorem bits_independent ws vs : length vs = length ws -> vals_ok (combine ws vs) ->
  unpack_at 0 ws (bits_value ws vs) = vs.
Proof.
  intros Hl Hv. unfold bits_value.
  pose proof (unpack_pack (combine ws vs) 0 0 ltac:(cbn; lia) Hv) as H.
  now rewrite combine_fst, combine_snd in H by assumption.
Qed.

Fixpoint weighted (off : N) (ws vs : list N) : N :=
  match ws, vs with
  | w :: ws', v :: vs' => v * 2 ^ off + weighted (off + w) ws' vs'
  | _, _ => 0
  end.
Lemma pack_at_weighted ws : forall vs off acc, acc < 2 ^ off -> vals_ok (combine ws vs) ->
  pack_at off (combine ws vs) acc = acc + weighted off ws vs.
Proof.
  induction ws as [|w ws IH]; intros [|v vs] off acc Ha Hv; cbn [combine pack_at weighted]; try lia.
  destruct Hv as [Hv Hvs]. rewrite land_ones, N.mod_small, lor_shift_add by assumption.
  rewrite IH; [lia | | assumption]. rewrite N.pow_add_r. nia.
Qed.
Theorem bits_lsb_first ws vs : vals_ok (combine ws vs) -> bits_value ws vs = weighted 0 ws vs.
Proof. intros Hv. unfold bits_value. rewrite pack_at_weighted by (try assumption; cbn; lia). lia. Qed.

(* strictness makes decoding injective: two byte strings that decode (completely) to the
   same field values are the same byte string *)
Lemma decode_injective m d d' e : wf_layout m = true -> has_fields m = true ->
  bytes_ok d = true -> bytes_ok d' = true ->
  decode m d = Ok (e, false) -> decode m d' = Ok (e, false) -> d = d'.
Proof.
  intros W F B B' H H'.
  pose proof (decode_strict m d e W F B H) as E.
  pose proof (decode_strict m d' e W F B' H') as E'.
  congruence.
Qed.

(* in particular no accepted input stays accepted with the same meaning when bytes are
   appended to it or dropped from its end *)
Lemma decode_no_slack m d x e : wf_layout m = true -> has_fields m = true ->
  bytes_ok d = true -> bytes_ok x = true -> x <> [] ->
  decode m d = Ok (e, false) -> decode m (d ++ x) <> Ok (e, false).
Proof.
  intros W F B Bx Hx H H'.
  assert (Bdx : bytes_ok (d ++ x) = true) by (rewrite bytes_ok_app, B, Bx; reflexivity).
  pose proof (decode_injective m d (d ++ x) e W F B Bdx H H') as E.
  apply (f_equal (@length N)) in E. rewrite app_length in E.
  destruct x; [congruence | cbn in E; apply (f_equal (fun n => n - length d)%nat) in E].
  rewrite PeanoNat.Nat.sub_diag in E.
  replace (length d + S (length x) - length d)%nat with (S (length x)) in E; [discriminate|].
  rewrite PeanoNat.Nat.add_comm. symmetry. apply PeanoNat.Nat.add_sub.
Qed.
