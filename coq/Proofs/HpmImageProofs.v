(* Lemmas for C18, image part: the parser model of Model/HpmImage.v inverts the
   independent HPM.1 encoder of Model/HpmImageSpec.v. *)
From Coq Require Import String Ascii.
From Coq Require Import NArith ZArith List Lia ZifyN ZifyBool ZifyNat Bool.
From PyIpmi Require Import Lib.Res Lib.Bytes Model.HpmImage Model.HpmImageSpec.
Import ListNotations.
Open Scope N_scope.
Ltac Zify.zify_post_hook ::= Z.to_euclidean_division_equations.

(* ---------------------------------------------------------------- take / drop *)
Lemma take_firstn n l : take n l = firstn (N.to_nat n) l.
Proof.
  unfold take. destruct (N.le_gt_cases n (N.of_nat (length l))) as [H|H].
  - now rewrite N.min_l.
  - rewrite N.min_r by lia. rewrite Nat2N.id, firstn_all. symmetry. apply firstn_all2. lia.
Qed.
Lemma drop_skipn n l : drop n l = skipn (N.to_nat n) l.
Proof.
  unfold drop. destruct (N.le_gt_cases n (N.of_nat (length l))) as [H|H].
  - now rewrite N.min_l.
  - rewrite N.min_r by lia. rewrite Nat2N.id, skipn_all. symmetry. apply skipn_all2. lia.
Qed.
Lemma take_app_exact a b : take (N.of_nat (length a)) (a ++ b) = a.
Proof. rewrite take_firstn, Nat2N.id. now apply firstn_app_exact. Qed.
Lemma drop_app_exact a b : drop (N.of_nat (length a)) (a ++ b) = b.
Proof. rewrite drop_skipn, Nat2N.id. now apply skipn_app_exact. Qed.

(* ---------------------------------------------------------------- small value lemmas *)
Lemma forall_below (P : N -> Prop) (n : nat) :
  (forall i, In i (map N.of_nat (seq 0 n)) -> P i) -> forall x, x < N.of_nat n -> P x.
Proof.
  intros H x Hx. apply H. apply in_map_iff. exists (N.to_nat x). split; [lia|].
  apply in_seq. lia.
Qed.

Definition minor_rt (m : N) : bool := res_eqb N.eqb (dec_minor (bcd m)) (Ok m).
Lemma dec_minor_bcd m : minor_ok m -> dec_minor (bcd m) = Ok m.
Proof.
  intros [H| ->]; [|reflexivity].
  assert (Hall : forallb minor_rt (map N.of_nat (seq 0 100)) = true) by (vm_compute; reflexivity).
  rewrite forallb_forall in Hall.
  assert (Hm : minor_rt m = true).
  { apply (forall_below (fun x => minor_rt x = true) 100); [exact Hall | lia]. }
  unfold minor_rt in Hm. destruct (dec_minor (bcd m)) as [x|e]; cbn in Hm; [|discriminate].
  apply N.eqb_eq in Hm. now subst.
Qed.

Definition comps_rt (b : N) : bool := bytes_eqb (bits_set b) (comps_of b).
Lemma bits_set_comps b : b < 256 -> bits_set b = comps_of b.
Proof.
  intros H.
  assert (Hall : forallb comps_rt (map N.of_nat (seq 0 256)) = true) by (vm_compute; reflexivity).
  rewrite forallb_forall in Hall.
  assert (Hb : comps_rt b = true).
  { apply (forall_below (fun x => comps_rt x = true) 256); [exact Hall | lia]. }
  now apply list_eqb_N_eq in Hb.
Qed.

Lemma le2 x : x < 2 ^ 16 -> le_val [x mod 256; x / 256 mod 256] = x.
Proof. intros H. exact (le_val_bytes 2 x H). Qed.
Lemma le3 x : x < 2 ^ 24 -> le_val [x mod 256; x / 256 mod 256; x / 256 / 256 mod 256] = x.
Proof. intros H. exact (le_val_bytes 3 x H). Qed.
Lemma le4 x : x < 2 ^ 32 ->
  le_val [x mod 256; x / 256 mod 256; x / 256 / 256 mod 256; x / 256 / 256 / 256 mod 256] = x.
Proof. intros H. exact (le_val_bytes 4 x H). Qed.

(* ---------------------------------------------------------------- header *)
Ltac explode l H :=
  repeat (first [ solve [exfalso; cbn [length] in H; lia] | destruct l as [|? l] ]).

Lemma parse_header_enc h rest : s_header_ok h ->
  parse_header (enc_header h ++ rest) = Ok (exp_header h).
Proof.
  intros (Hdev & Hman & Hprod & Htime & Hcap & Hcomp & Hst & Hrb & Hia & Hemaj & Hemin &
          (Hfmaj & Hfmin & Hauxl & Hauxb) & Hoeml & Hoemb).
  unfold exp_header, enc_header.
  generalize (zero_cksum (enc_header_body h)). intros ck.
  destruct h as [dev man prod time cap comps st rb ia emaj emin [fmaj fmin aux] oem].
  cbn [sh_device_id sh_manufacturer_id sh_product_id sh_time sh_capabilities sh_components
       sh_selftest_timeout sh_rollback_timeout sh_inaccessibility_timeout sh_earliest_major
       sh_earliest_minor sh_firmware_revision sh_oem_data sv_major sv_minor sv_aux] in *.
  explode aux Hauxl.
  unfold enc_header_body, enc_version, parse_header.
  cbn [sh_device_id sh_manufacturer_id sh_product_id sh_time sh_capabilities sh_components
       sh_selftest_timeout sh_rollback_timeout sh_inaccessibility_timeout sh_earliest_major
       sh_earliest_minor sh_firmware_revision sh_oem_data sv_major sv_minor sv_aux].
  set (olen := N.of_nat (length oem)) in *.
  change signature with [80; 73; 67; 77; 71; 70; 87; 85].
  cbn -[le_val dec_minor bcd take drop bits_set N.modulo N.div N.eqb N.add N.mul olen].
  rewrite !dec_minor_bcd by assumption. cbn [bind].
  rewrite (le2 olen Hoeml), (le2 prod Hprod), (le3 man Hman), (le4 time Htime).
  rewrite bits_set_comps by assumption.
  rewrite <- app_assoc. subst olen.
  rewrite take_app_exact, drop_app_exact. cbn [app].
  replace (34 + N.of_nat (length oem) + 1) with (35 + N.of_nat (length oem)) by lia.
  destruct oem as [|o oem]; [reflexivity|].
  replace (N.of_nat (length (o :: oem)) =? 0) with false by (cbn [length]; lia).
  reflexivity.
Qed.

Lemma enc_header_length h : length (sv_aux (sh_firmware_revision h)) = 4%nat ->
  length (enc_header h) = (35 + length (sh_oem_data h))%nat.
Proof.
  intros H. unfold enc_header, enc_header_body, enc_version.
  repeat (rewrite app_length; cbn [length]). rewrite H, !le_bytes_length.
  change (length signature) with 8%nat. lia.
Qed.

(* ---------------------------------------------------------------- action records *)
Lemma parse_action_enc a rest : s_action_ok a ->
  parse_action (enc_action a ++ rest) = Ok (exp_action a).
Proof.
  destruct a as [c|c|c [maj min aux] d fw]; intros H; cbn in H.
  - reflexivity.
  - reflexivity.
  - destruct H as (Hc & (Hmaj & Hmin & Hauxl & Hauxb) & Hdl & Hdb & Hfl & Hfb).
    cbn [sv_major sv_minor sv_aux] in *.
    explode aux Hauxl. explode d Hdl.
    unfold enc_action, enc_action_head, enc_version, exp_action, exp_version, parse_action.
    cbn [sv_major sv_minor sv_aux].
    set (flen := N.of_nat (length fw)) in *.
    generalize (zero_cksum [2; c]). intros ck.
    cbn -[le_val dec_minor bcd take drop N.modulo N.div N.eqb N.add N.mul flen].
    rewrite dec_minor_bcd by assumption. cbn [bind].
    rewrite (le4 flen Hfl). subst flen. rewrite take_app_exact.
    replace (3 + 31 + N.of_nat (length fw)) with (34 + N.of_nat (length fw)) by lia.
    reflexivity.
Qed.

Lemma enc_action_length a : s_action_ok a ->
  a_length (exp_action a) = N.of_nat (length (enc_action a)) /\ (3 <= length (enc_action a))%nat.
Proof.
  destruct a as [c|c|c [maj min aux] d fw]; intros H; cbn in H.
  - split; [reflexivity | cbn; lia].
  - split; [reflexivity | cbn; lia].
  - destruct H as (Hc & (Hmaj & Hmin & Hauxl & Hauxb) & Hdl & Hdb & Hfl & Hfb).
    cbn [sv_aux] in *.
    unfold enc_action, enc_action_head, enc_version, exp_action. cbn [a_length sv_major sv_minor sv_aux].
    repeat (rewrite app_length; cbn [length]). rewrite Hauxl, Hdl, le_bytes_length. split; lia.
Qed.

Lemma parse_actions_enc acts : Forall s_action_ok acts -> forall fuel tail,
  (length acts < fuel)%nat -> length tail = 16%nat ->
  parse_actions fuel (concat (map enc_action acts) ++ tail) = Ok (map exp_action acts, tail).
Proof.
  induction 1 as [|a acts Ha Hacts IH]; intros fuel tail Hfuel Htail.
  - destruct fuel; [cbn in Hfuel; lia|]. cbn [map concat app parse_actions]. rewrite Htail. reflexivity.
  - destruct fuel; [cbn in Hfuel; lia|]. cbn [map concat parse_actions]. rewrite <- app_assoc.
    destruct (enc_action_length a Ha) as [Hlen H3].
    replace (Nat.ltb 16 (length (enc_action a ++ concat (map enc_action acts) ++ tail))) with true.
    2:{ symmetry. apply Nat.ltb_lt. rewrite !app_length. lia. }
    rewrite parse_action_enc by exact Ha. cbn [bind]. rewrite Hlen, drop_app_exact.
    rewrite IH by (cbn [length] in Hfuel; lia || exact Htail). reflexivity.
Qed.

(* ---------------------------------------------------------------- whole image *)
Lemma concat_enc_length acts : Forall s_action_ok acts ->
  (length acts <= length (concat (map enc_action acts)))%nat.
Proof.
  induction 1 as [|a acts Ha _ IH]; [cbn; lia|]. cbn [map concat length]. rewrite app_length.
  destruct (enc_action_length a Ha) as [_ H3]. lia.
Qed.

Section WithMd5.
  Variable md5 : list N -> list N.
  Hypothesis md5_length : forall x, length (md5 x) = 16%nat.

  Lemma parse_image_enc i : s_image_ok i -> parse_image (enc_image md5 i) = Ok (exp_image md5 i).
  Proof.
    intros [Hh Ha]. unfold enc_image, exp_image, parse_image. unfold enc_body.
    set (H := enc_header (si_header i)). set (A := concat (map enc_action (si_actions i))).
    set (T := md5 (H ++ A)).
    assert (HT : length T = 16%nat) by apply md5_length.
    assert (Haux : length (sv_aux (sh_firmware_revision (si_header i))) = 4%nat) by apply Hh.
    rewrite <- app_assoc. unfold H at 1. rewrite parse_header_enc by exact Hh. cbn [bind].
    replace (h_length (exp_header (si_header i))) with (N.of_nat (length H)).
    2:{ unfold H. rewrite enc_header_length by exact Haux. cbn [exp_header h_length]. lia. }
    rewrite drop_app_exact.
    rewrite (parse_actions_enc (si_actions i) Ha _ T); [| | exact HT].
    2:{ rewrite !app_length. pose proof (concat_enc_length _ Ha) as Hl. unfold A. lia. }
    cbn [bind]. clearbody T. f_equal. f_equal.
    - destruct T as [|t T']; [discriminate HT|]. f_equal. apply firstn_all2. rewrite HT. lia.
    - rewrite app_assoc. apply skipn_app_exact. rewrite (app_length (H ++ A)), HT. lia.
  Qed.
End WithMd5.

(* ---------------------------------------------------------------- fuel of the action loop always suffices *)
Local Opaque N.add.
Lemma parse_action_length d a : parse_action d = Ok a -> 3 <= a_length a.
Proof.
  unfold parse_action. destruct d as [|t [|c [|k d]]]; try discriminate.
  - destruct (3 <? t); discriminate.
  - destruct (3 <? t); discriminate.
  - destruct (3 <? t); [discriminate|]. destruct (t =? 2).
    + destruct (version_field _); [|discriminate]. cbn [bind].
      destruct (Nat.ltb _ _); [discriminate|]. intros Heq. injection Heq as <-. cbn [a_length]. lia.
    + intros Heq. injection Heq as <-. cbn [a_length]. lia.
Qed.

Local Transparent N.add.

Lemma version_field_oof d : version_field d <> Err OutOfFuel.
Proof.
  unfold version_field. destruct d as [|a [|b r]]; try discriminate.
  unfold dec_minor.
  destruct (b =? 255); [discriminate|]. destruct (b <=? 153); [|discriminate].
  destruct (b mod 16 <=? 9); [discriminate|]. destruct (b mod 16 =? 10); discriminate.
Qed.

Lemma parse_action_oof d : parse_action d <> Err OutOfFuel.
Proof.
  unfold parse_action. destruct d as [|t [|c [|k d]]]; try discriminate;
    try (destruct (3 <? t); discriminate).
  destruct (3 <? t); [discriminate|]. destruct (t =? 2); [|discriminate].
  pose proof (version_field_oof (sl 3 6 (t :: c :: k :: d))) as Hv.
  destruct (version_field _) as [v|e]; cbn [bind].
  - destruct (Nat.ltb _ _); discriminate.
  - intros Heq. injection Heq as ->. now apply Hv.
Qed.

Lemma parse_header_oof d : parse_header d <> Err OutOfFuel.
Proof.
  unfold parse_header. destruct (Nat.ltb _ _); [discriminate|].
  pose proof (version_field_oof (sl 24 2 d)) as H1. destruct (version_field (sl 24 2 d)) as [v1|e]; [|intros Heq; injection Heq as ->; now apply H1].
  cbn [bind].
  pose proof (version_field_oof (sl 26 6 d)) as H2. destruct (version_field (sl 26 6 d)) as [v2|e]; [|intros Heq; injection Heq as ->; now apply H2].
  cbn [bind]. destruct (drop _ _); discriminate.
Qed.

Lemma parse_actions_fuel : forall fuel rest, (length rest < fuel)%nat ->
  parse_actions fuel rest <> Err OutOfFuel.
Proof.
  induction fuel as [|f IH]; intros rest Hf; [lia|].
  cbn [parse_actions]. destruct (Nat.ltb 16 (length rest)) eqn:Hlt; [|discriminate].
  apply Nat.ltb_lt in Hlt.
  pose proof (parse_action_oof rest) as Hoof.
  destruct (parse_action rest) as [a|e] eqn:Hpa; [|intros Heq; injection Heq as ->; now apply Hoof].
  cbn [bind]. apply parse_action_length in Hpa.
  assert (Hd : (length (drop (a_length a) rest) < f)%nat).
  { rewrite drop_skipn, skipn_length. lia. }
  specialize (IH _ Hd). destruct (parse_actions f (drop (a_length a) rest)) as [[acts tail]|e]; cbn; congruence.
Qed.

(* the action loop of UpgradeImage._from_file terminates on every file: the model's fuel
   is never exhausted *)
Lemma parse_image_fuel data : parse_image data <> Err OutOfFuel.
Proof.
  unfold parse_image. pose proof (parse_header_oof data) as Hh.
  destruct (parse_header data) as [h|e]; [|intros Heq; injection Heq as ->; now apply Hh]. cbn [bind].
  pose proof (parse_actions_fuel (S (length data)) (drop (h_length h) data)) as Hf.
  destruct (parse_actions (S (length data)) (drop (h_length h) data)) as [[acts tail]|e]; cbn; [discriminate|].
  intros Heq. injection Heq as ->. apply Hf; [|reflexivity]. rewrite drop_skipn, skipn_length. lia.
Qed.
