(* C07 - sensors and events: event receiver, sensor thresholds, sensor reading. *)
From Coq Require Import String Ascii.
From Coq Require Import NArith ZArith List Bool Lia.
From PyIpmi Require Import Lib.Res Lib.Bytes Lib.Prog Model.ApiSem Model.Bmc Model.ApiRun Proofs.ApiRunProofs.
Import ListNotations.
Open Scope string_scope.
Open Scope list_scope.
Open Scope N_scope.

(* ---- event receiver: 7-bit slave address (bits 7:1 of the first byte), LUN ---- *)
Lemma bmc_set_evrcv s b lun :
  bmc_handle s (mkReq 4 0 0 [b; lun]) = (put s (K_EVRCV, 0, 0) [b; lun mod 4], RBytes [0]).
Proof. reflexivity. Qed.
Lemma bmc_get_evrcv s : bmc_handle s (mkReq 4 1 0 []) = (s, RBytes (0 :: get s (K_EVRCV, 0, 0))).
Proof. reflexivity. Qed.

Definition chk_evrcv (lun a : N) : bool :=
  exch_ok "set_event_receiver" [arg "ipmb_address" a; arg "lun" lun] (RBytes [0])
           (mkReq 4 0 0 [2 * a; lun]) (Ok PNone)
  && exch_ok "get_event_receiver" [] (RBytes [0; 2 * a; lun])
              (mkReq 4 1 0 []) (Ok (PList [PInt (Z.of_N a); PInt (Z.of_N lun)])).
Lemma evrcv_table : forallb (fun a => forallb (fun lun => chk_evrcv lun a) (nrange 4)) (nrange 128) = true.
Proof. vm_cast_no_check (eq_refl true). Qed.

(* ---- thresholds ---- *)
Definition thr_names : list string := ["lnc"; "lcr"; "lnr"; "unc"; "ucr"; "unr"].
Definition thr_new (m : N) (vals old : list N) : list N :=
  map (fun i => if bit m (N.of_nat i) =? 1 then nth i vals 0 else nth i old 0) [0; 1; 2; 3; 4; 5]%nat.
Definition thr_args (num lun m : N) (vals : list N) : list (string * pv) :=
  [arg "sensor_number" num; arg "lun" lun] ++
  flat_map (fun i => if bit m (N.of_nat i) =? 1 then [arg (nth i thr_names "") (nth i vals 0)] else [])
           [0; 1; 2; 3; 4; 5]%nat.
Definition thr_request (num m : N) (vals : list N) : list N :=
  num :: m :: map (fun i => if bit m (N.of_nat i) =? 1 then nth i vals 0 else 0) [0; 1; 2; 3; 4; 5]%nat.
Definition thr_dict (t : list N) : pv :=
  PObj "dict" (map (fun i => (nth i thr_names "", PInt (Z.of_N (nth i t 0)))) [5; 4; 3; 0; 1; 2]%nat).

Definition chk_thr (x : N * N) (y : N * list N) : bool :=
  let '(num, lun) := x in let '(m, vals) := y in
  exch_ok "set_sensor_thresholds" (thr_args num lun m vals) (RBytes [0])
           (mkReq 4 38 lun (thr_request num m vals)) (Ok PNone)
  && exch_ok "get_sensor_thresholds" [arg "sensor_number" num; arg "lun" lun]
                            (RBytes (0 :: 63 :: thr_new m vals [0; 0; 0; 0; 0; 0]))
              (mkReq 4 39 lun [num]) (Ok (thr_dict (thr_new m vals [0; 0; 0; 0; 0; 0]))).

Definition thr_sensors : list (N * N) := [(3, 1); (255, 3)].
(* every subset of the six thresholds with fixed distinct values; each threshold alone with every single-bit value,
   0, 127, 255; unr alone over its full range *)
Definition thr_cases : list (N * list N) :=
  map (fun m => (m, [10; 20; 30; 140; 150; 160])) (nrange 64) ++
  flat_map (fun i => map (fun v => (2 ^ N.of_nat i, repeat v 6)) [0; 1; 2; 4; 8; 16; 32; 64; 127; 128; 255]) [0; 1; 2; 3; 4; 5]%nat ++
  map (fun v => (32, repeat v 6)) (nrange 256).
Lemma thr_table : forallb (fun x => forallb (chk_thr x) thr_cases) thr_sensors = true.
Proof. vm_cast_no_check (eq_refl true). Qed.

Transparent bmc_handle.
Lemma bmc_set_thr s lun num m v0 v1 v2 v3 v4 v5 :
  bmc_handle s (mkReq 4 38 lun [num; m; v0; v1; v2; v3; v4; v5]) =
  (put s (K_THR, lun, num) (thr_new m [v0; v1; v2; v3; v4; v5] (get s (K_THR, lun, num))), RBytes [0]).
Proof. reflexivity. Qed.
Lemma bmc_get_thr s lun num :
  bmc_handle s (mkReq 4 39 lun [num]) = (s, RBytes (0 :: get s (K_THRMASK, lun, num) ++ get s (K_THR, lun, num))).
Proof. reflexivity. Qed.
Lemma bmc_get_reading s lun num :
  bmc_handle s (mkReq 4 45 lun [num]) = (s, RBytes (0 :: get s (K_SENS, lun, num))).
Proof. reflexivity. Qed.

Opaque one_exchange call bmc_handle.

Lemma write_read_event_receiver s a lun : is_supported "set_event_receiver" = true -> is_supported "get_event_receiver" = true -> a < 128 -> lun < 4 ->
  let s1 := put s (K_EVRCV, 0, 0) [2 * a; lun] in
  exists r1 r2,
    call "set_event_receiver" [arg "ipmb_address" a; arg "lun" lun] s = (r1, s1) /\ same r1 (Ok PNone) /\
    call "get_event_receiver" [] s1 = (r2, s1) /\ same r2 (Ok (PList [PInt (Z.of_N a); PInt (Z.of_N lun)])).
Proof.
  intros Sw Sr Ha Hl s1.
  pose proof (table2 chk_evrcv (nrange 128) (nrange 4) evrcv_table a lun (nrange_in 128 a Ha) (nrange_in 4 lun Hl)) as C.
  unfold chk_evrcv in C. apply andb_true_iff in C as [W R].
  assert (BW : bmc_handle s (mkReq 4 0 0 [2 * a; lun]) = (s1, RBytes [0])).
  { rewrite bmc_set_evrcv, (N.mod_small lun 4 Hl). reflexivity. }
  assert (BR : bmc_handle s1 (mkReq 4 1 0 []) = (s1, RBytes [0; 2 * a; lun])).
  { rewrite bmc_get_evrcv. unfold s1. rewrite get_put_same. reflexivity. }
  exact (write_then_read "set_event_receiver" "get_event_receiver" _ _ s s1 _ _ _ _ _ _ Sw Sr W BW R BR).
Qed.

Lemma thr_request_shape num m vals : exists v0 v1 v2 v3 v4 v5,
  thr_request num m vals = [num; m; v0; v1; v2; v3; v4; v5] /\
  thr_new m [v0; v1; v2; v3; v4; v5] [0; 0; 0; 0; 0; 0] = thr_new m vals [0; 0; 0; 0; 0; 0].
Proof.
  unfold thr_request, thr_new. cbn [map]. do 6 eexists. split; [reflexivity |].
  cbn [nth]. repeat (destruct (bit m _ =? 1); cbn [nth]); reflexivity.
Qed.

Lemma write_read_thresholds s num lun m vals : is_supported "set_sensor_thresholds" = true -> is_supported "get_sensor_thresholds" = true -> 
  List.In (num, lun) thr_sensors -> List.In (m, vals) thr_cases ->
  get s (K_THR, lun, num) = [0; 0; 0; 0; 0; 0] -> get s (K_THRMASK, lun, num) = [63] ->
  let t := thr_new m vals [0; 0; 0; 0; 0; 0] in
  let s1 := put s (K_THR, lun, num) t in
  exists r1 r2,
    call "set_sensor_thresholds" (thr_args num lun m vals) s = (r1, s1) /\ same r1 (Ok PNone) /\
    call "get_sensor_thresholds" [arg "sensor_number" num; arg "lun" lun] s1 = (r2, s1) /\
    same r2 (Ok (thr_dict t)).
Proof.
  intros Sw Sr Hx Hy H1 H2 t s1.
  pose proof (table2 (fun y x => chk_thr x y) thr_sensors thr_cases thr_table (num, lun) (m, vals) Hx Hy) as C.
  cbv beta in C. unfold chk_thr in C. apply andb_true_iff in C as [W R].
  destruct (thr_request_shape num m vals) as (v0 & v1 & v2 & v3 & v4 & v5 & E1 & E2).
  assert (BW : bmc_handle s (mkReq 4 38 lun (thr_request num m vals)) = (s1, RBytes [0])).
  { rewrite E1, bmc_set_thr, H1, E2. reflexivity. }
  assert (BR : bmc_handle s1 (mkReq 4 39 lun [num]) = (s1, RBytes (0 :: 63 :: t))).
  { rewrite bmc_get_thr. unfold s1. rewrite get_put_same.
    rewrite get_put_other by discriminate. rewrite H2. reflexivity. }
  exact (write_then_read "set_sensor_thresholds" "get_sensor_thresholds" _ _ s s1 _ _ _ _ _ _ Sw Sr W BW R BR).
Qed.
