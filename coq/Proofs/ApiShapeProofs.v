(* Lemmas for C08: a completion code other than OK at any consumed position of a
   straight-line checked operation is the operation's outcome, nothing is sent after it;
   busy answers raised by the transport are re-sent (same request) and do not change the
   outcome unless the retry budget runs out; Hpm.get_component_properties. *)
From Coq Require Import String.
From Coq Require Import NArith List Bool Lia.
From PyIpmi Require Import Lib.Res Lib.Bytes Lib.Prog Model.ApiShape.
Import ListNotations.
Open Scope N_scope.

(* the reply carries the completion code cc: as the first byte of a decoded response, or
   as a CompletionCodeError raised by the transport (node busy, when raised, is the
   documented retry and is treated separately) *)
Definition carries (rp : reply) (cc : N) : Prop :=
  (exists d, rp = RBytes (cc :: d)) \/ (rp = RRaise (CCError cc) /\ cc <> CC_NODE_BUSY).

(* programs in which every exchange is checked: a reply carrying a code in P ends the
   program with exactly that code *)
Inductive good {A} (P : N -> Prop) : prog A -> Prop :=
| good_ret a : good P (Ret a)
| good_raise e : good P (Raise e)
| good_send r f :
    (forall rp, good P (f rp)) ->
    (forall rp cc, carries rp cc -> cc <> 0 -> P cc -> f rp = Raise (CCError cc)) ->
    good P (Send r f)
| good_sleep ms p : good P p -> good P (Sleep ms p).

Lemma good_fault {A} P (p : prog A) : good P p ->
  forall rs reqs0 sl0 out reqs sl rest k rp cc,
  replay p rs reqs0 sl0 = (out, reqs, sl, rest) ->
  nth_error rs k = Some rp -> carries rp cc -> cc <> 0 -> P cc ->
  (length reqs0 + k < length reqs)%nat ->
  out = Err (CCError cc) /\ length reqs = (length reqs0 + S k)%nat /\ rest = skipn (S k) rs.
Proof.
  induction 1 as [a | e | r f Hg IH Hf | ms p Hg IH]; intros rs reqs0 sl0 out reqs sl rest k rp cc Hr Hn Hc Hcc HP Hlen.
  - cbn in Hr. inversion Hr; subst. lia.
  - cbn in Hr. inversion Hr; subst. lia.
  - destruct rs as [| rp0 rs'].
    + destruct k; discriminate.
    + cbn in Hr. destruct k as [| k'].
      * cbn in Hn. inversion Hn; subst rp0.
        rewrite (Hf rp cc Hc Hcc HP) in Hr. cbn in Hr. inversion Hr; subst.
        rewrite app_length. cbn. repeat split; try lia.
      * cbn in Hn.
        destruct (IH rp0 rs' (reqs0 ++ [r]) sl0 out reqs sl rest k' rp cc Hr Hn Hc Hcc HP) as (H1 & H2 & H3).
        { rewrite app_length. cbn. lia. }
        rewrite app_length in H2. cbn in H2. repeat split; [assumption | lia | assumption].
  - cbn in Hr. eapply IH; eassumption.
Qed.

Lemma carries_bytes_check cc d : cc <> 0 -> check_cc (cc :: d) = Err (CCError cc).
Proof. intros H. unfold check_cc, checked. cbn. destruct cc; [congruence | reflexivity]. Qed.

Lemma good_send_message {A} P n r (k : list N -> prog A) :
  (forall d, good P (k d)) ->
  (forall cc d, cc <> 0 -> P cc -> k (cc :: d) = Raise (CCError cc)) ->
  good P (send_message n r k).
Proof.
  intros Hk Hf. induction n as [| n IH]; cbn; [constructor |].
  constructor.
  - intros [d | e]; [apply Hk |]. destruct e; try constructor.
    destruct (cc =? CC_NODE_BUSY); [apply IH | constructor].
  - intros rp cc [[d ->] | [-> Hnb]] Hcc HP.
    + apply Hf; assumption.
    + apply N.eqb_neq in Hnb. rewrite Hnb. reflexivity.
Qed.

Lemma good_sem I l : forall pos acc, good (fun _ => True) (sem I l pos acc).
Proof.
  induction l as [| [nm cond] r IH]; intros pos acc; cbn [sem].
  - destruct (i_glue I pos acc); constructor.
  - destruct (i_glue I pos acc); [constructor |].
    destruct (cond && negb (i_taken I pos)); [apply IH |].
    apply good_send_message.
    + intros d. destruct (check_cc d); [apply IH | constructor].
    + intros cc d Hcc _. rewrite carries_bytes_check by assumption. reflexivity.
Qed.

Lemma op_propagates ops o I rs k rp cc out reqs sl rest :
  simple_checked ops o = true -> cc <> 0 ->
  replay (op_prog ops o I) rs [] [] = (out, reqs, sl, rest) ->
  nth_error rs k = Some rp -> carries rp cc -> (k < length reqs)%nat ->
  out = Err (CCError cc) /\ length reqs = S k /\ rest = skipn (S k) rs.
Proof.
  unfold simple_checked, op_prog. destruct (flat ops o) as [l |]; [| discriminate].
  intros _ Hcc Hr Hn Hc Hlen.
  exact (good_fault _ _ (good_sem I l 0%nat []) rs [] [] out reqs sl rest k rp cc Hr Hn Hc Hcc Logic.I Hlen).
Qed.

Lemma classified_in_gen ops : forallb (classified_or_downgraded ops) ops = true ->
  forall o, In o ops -> simple_checked ops o = true \/ handled o = true \/ tainted ops o = true.
Proof.
  intros A o H. pose proof (proj1 (forallb_forall (classified_or_downgraded ops) ops) A o H) as C.
  unfold classified_or_downgraded, classified in C.
  apply orb_true_iff in C as [C | C]; [apply orb_true_iff in C as [C | C] |]; auto.
Qed.

(* ---- busy answers raised by the transport: the same request is sent again ---- *)
Lemma replay_acc {A} (p : prog A) : forall rs reqs0 sl0,
  replay p rs reqs0 sl0 =
  let '(out, reqs, sl, rest) := replay p rs [] [] in (out, reqs0 ++ reqs, sl0 ++ sl, rest).
Proof.
  induction p as [a | e | r f IH | ms p IH]; intros rs reqs0 sl0; cbn.
  - rewrite !app_nil_r. reflexivity.
  - rewrite !app_nil_r. reflexivity.
  - destruct rs as [| rp rs']; [rewrite app_nil_r; reflexivity |].
    rewrite (IH rp rs' (reqs0 ++ [r]) sl0). rewrite (IH rp rs' [r] []).
    destruct (replay (f rp) rs' [] []) as [[[out reqs] sl] rest]. cbn. rewrite <- app_assoc. reflexivity.
  - rewrite (IH rs reqs0 (sl0 ++ [ms])). rewrite (IH rs [] [ms]).
    destruct (replay p rs [] []) as [[[out reqs] sl] rest]. cbn. rewrite <- app_assoc. reflexivity.
Qed.

Definition outcome {A} (x : res A * list request * list N * list reply) : res A * list reply :=
  let '(out, _, _, rest) := x in (out, rest).

Lemma outcome_acc {A} (p : prog A) rs reqs0 sl0 :
  outcome (replay p rs reqs0 sl0) = outcome (replay p rs [] []).
Proof.
  rewrite replay_acc. destruct (replay p rs [] []) as [[[out reqs] sl] rest]. reflexivity.
Qed.

(* p has no more retry budget than q, and is q otherwise *)
Inductive sim {A} : prog A -> prog A -> Prop :=
| sim_refl p : sim p p
| sim_retry q : sim (Raise RetryError) q
| sim_send r f g : (forall rp, sim (f rp) (g rp)) -> sim (Send r f) (Send r g).

Lemma sim_outcome {A} (p q : prog A) : sim p q -> forall rs,
  fst (outcome (replay p rs [] [])) = Err RetryError \/
  outcome (replay q rs [] []) = outcome (replay p rs [] []).
Proof.
  induction 1 as [p | q | r f g Hs IH]; intros rs.
  - right; reflexivity.
  - left; reflexivity.
  - destruct rs as [| rp rs']; cbn; [right; reflexivity |].
    rewrite (outcome_acc (f rp)), (outcome_acc (g rp)). apply IH.
Qed.

Lemma sim_send_message {A} n r (k : list N -> prog A) :
  sim (send_message n r k) (send_message (S n) r k).
Proof.
  induction n as [| n IH]; [apply sim_retry |].
  change (send_message (S (S n)) r k) with
    (Send r (fun rp => match rp with
                       | RBytes d => k d
                       | RRaise (CCError cc) => if cc =? CC_NODE_BUSY then send_message (S n) r k else Raise (CCError cc)
                       | RRaise e => Raise e
                       end)).
  cbn. apply sim_send. intros [d | e]; [apply sim_refl |].
  destruct e; try apply sim_refl. destruct (cc =? CC_NODE_BUSY); [exact IH | apply sim_refl].
Qed.

(* after a raised busy answer the continuation is the program itself with less budget *)
Inductive retrying {A} : prog A -> Prop :=
| rt_ret a : retrying (Ret a)
| rt_raise e : retrying (Raise e)
| rt_send r f : (forall rp, retrying (f rp)) ->
                sim (f (RRaise (CCError CC_NODE_BUSY))) (Send r f) -> retrying (Send r f)
| rt_sleep ms p : retrying p -> retrying (Sleep ms p).

Definition del {X} (k : nat) (l : list X) : list X := firstn k l ++ skipn (S k) l.

Lemma retrying_busy {A} (p : prog A) : retrying p ->
  forall rs k, nth_error rs k = Some (RRaise (CCError CC_NODE_BUSY)) ->
  (k < length (snd (fst (fst (replay p rs [] [])))))%nat ->
  fst (outcome (replay p rs [] [])) = Err RetryError \/
  outcome (replay p (del k rs) [] []) = outcome (replay p rs [] []).
Proof.
  induction 1 as [a | e | r f Hrt IH Hs | ms p Hrt IH]; intros rs k Hn Hlen.
  - cbn in Hlen. lia.
  - cbn in Hlen. lia.
  - destruct rs as [| rp0 rs']; [destruct k; discriminate |].
    destruct k as [| k'].
    + cbn in Hn. inversion Hn; subst rp0. unfold del. cbn [firstn skipn app].
      cbn [replay]. rewrite (outcome_acc (f _)).
      destruct (sim_outcome _ _ Hs rs') as [E | E]; [left; exact E | right; exact E].
    + cbn in Hn. unfold del. cbn [firstn skipn app replay].
      rewrite (outcome_acc (f rp0)), (outcome_acc (f rp0) (firstn k' rs' ++ _)).
      apply IH; [assumption |].
      cbn [replay] in Hlen. rewrite replay_acc in Hlen.
      destruct (replay (f rp0) rs' [] []) as [[[out reqs] sl] rest]. cbn in *. lia.
  - cbn [replay]. rewrite (outcome_acc p rs), (outcome_acc p (del k rs)).
    apply IH; [assumption |].
    cbn [replay] in Hlen. rewrite replay_acc in Hlen.
    destruct (replay p rs [] []) as [[[out reqs] sl] rest]. cbn in *. lia.
Qed.

Lemma retrying_send_message {A} n r (k : list N -> prog A) :
  (forall d, retrying (k d)) -> retrying (send_message n r k).
Proof.
  intros Hk. induction n as [| n IH]; cbn; [constructor |].
  constructor.
  - intros [d | e]; [apply Hk |]. destruct e; try constructor.
    destruct (cc =? CC_NODE_BUSY); [apply IH | constructor].
  - cbn. exact (sim_send_message n r k).
Qed.

Lemma retrying_sem I l : forall pos acc, retrying (sem I l pos acc).
Proof.
  induction l as [| [nm cond] r IH]; intros pos acc; cbn [sem].
  - destruct (i_glue I pos acc); constructor.
  - destruct (i_glue I pos acc); [constructor |].
    destruct (cond && negb (i_taken I pos)); [apply IH |].
    apply retrying_send_message. intros d. destruct (check_cc d); [apply IH | constructor].
Qed.

Lemma op_busy_retry ops o I rs k :
  simple_checked ops o = true ->
  nth_error rs k = Some (RRaise (CCError CC_NODE_BUSY)) ->
  (k < length (snd (fst (fst (replay (op_prog ops o I) rs [] [])))))%nat ->
  fst (outcome (replay (op_prog ops o I) rs [] [])) = Err RetryError \/
  outcome (replay (op_prog ops o I) (del k rs) [] []) = outcome (replay (op_prog ops o I) rs [] []).
Proof.
  unfold simple_checked, op_prog. destruct (flat ops o) as [l |]; [| discriminate].
  intros _. apply retrying_busy, retrying_sem.
Qed.

(* the retry is a re-send of the same request: send_message issues only [r] *)
Lemma send_message_same_request {A} n r (k : list N -> prog A) : forall rs reqs0,
  (forall d rs' reqs', exists more, snd (fst (fst (replay (k d) rs' reqs' []))) = reqs' ++ more) ->
  exists j more, snd (fst (fst (replay (send_message n r k) rs reqs0 []))) = reqs0 ++ repeat r j ++ more /\
                 (j <= n)%nat.
Proof.
  induction n as [| n IH]; intros rs reqs0 Hk; cbn.
  - exists 0%nat, []. cbn. rewrite app_nil_r. split; [reflexivity | lia].
  - destruct rs as [| rp rs']; cbn.
    + exists 1%nat, []. cbn. split; [reflexivity | lia].
    + destruct rp as [d | e].
      * destruct (Hk d rs' (reqs0 ++ [r])) as [more E]. exists 1%nat, more. cbn.
        rewrite E, <- app_assoc. split; [reflexivity | lia].
      * assert (D : forall e', snd (fst (fst (replay (@Raise A e') rs' (reqs0 ++ [r]) []))) = reqs0 ++ repeat r 1 ++ [])
          by (intros; cbn; reflexivity).
        destruct e; try (exists 1%nat, []; split; [apply D | lia]).
        destruct (cc =? CC_NODE_BUSY); [| exists 1%nat, []; split; [apply D | lia]].
        destruct (IH rs' (reqs0 ++ [r]) Hk) as (j & more & E & Hj).
        exists (S j), more. rewrite E, <- app_assoc. cbn. split; [reflexivity | lia].
Qed.

(* ---- Hpm.get_component_properties ---- *)
Lemma good_send_message_e {A} P n r (k : list N -> prog A) (h : err -> prog A) :
  (forall d, good P (k d)) -> (forall e, good P (h e)) ->
  (forall cc d, cc <> 0 -> P cc -> k (cc :: d) = Raise (CCError cc)) ->
  (forall cc, cc <> 0 -> P cc -> h (CCError cc) = Raise (CCError cc)) ->
  good P (send_message_e n r k h).
Proof.
  intros Hk Hh Hf Hg. induction n as [| n IH]; cbn; [apply Hh |].
  constructor.
  - intros [d | e]; [apply Hk |]. destruct e; try apply Hh.
    destruct (cc =? CC_NODE_BUSY); [apply IH | apply Hh].
  - intros rp cc [[d ->] | [-> Hnb]] Hcc HP.
    + apply Hf; assumption.
    + apply N.eqb_neq in Hnb. rewrite Hnb. apply Hg; assumption.
Qed.

Lemma good_gcp mk parse ps : forall acc, good (fun cc => cc <> CC_INVALID_SELECTOR) (gcp_loop mk parse ps acc).
Proof.
  induction ps as [| p r IH]; intros acc; cbn [gcp_loop]; [constructor |].
  assert (Hh : forall e, good (fun cc => cc <> CC_INVALID_SELECTOR)
                 match e with
                 | CCError cc => if cc =? CC_INVALID_SELECTOR then gcp_loop mk parse r acc else Raise (CCError cc)
                 | _ => Raise e
                 end).
  { intros e. destruct e; try constructor. destruct (cc =? CC_INVALID_SELECTOR); [apply IH | constructor]. }
  apply good_send_message_e.
  - intros d. destruct (check_cc d) as [body | e].
    + destruct (parse p body); [constructor | apply IH].
    + apply Hh.
  - exact Hh.
  - intros cc d Hcc HP. rewrite carries_bytes_check by assumption.
    apply N.eqb_neq in HP. rewrite HP. reflexivity.
  - intros cc Hcc HP. apply N.eqb_neq in HP. rewrite HP. reflexivity.
Qed.

Lemma gcp_fault mk parse rs k rp cc out reqs sl rest :
  cc <> 0 -> cc <> CC_INVALID_SELECTOR ->
  replay (get_component_properties mk parse) rs [] [] = (out, reqs, sl, rest) ->
  nth_error rs k = Some rp -> carries rp cc -> (k < length reqs)%nat ->
  out = Err (CCError cc) /\ length reqs = S k /\ rest = skipn (S k) rs.
Proof.
  intros Hcc Hx Hr Hn Hc Hlen.
  exact (good_fault _ _ (good_gcp mk parse PROPS []) rs [] [] out reqs sl rest k rp cc Hr Hn Hc Hcc Hx Hlen).
Qed.

(* the answers of a BMC to the five selectors: data (code 0) or "invalid selector" *)
Definition answer_ok (d : list N) : Prop := exists body, d = 0 :: body \/ d = CC_INVALID_SELECTOR :: body.

Fixpoint delivered (ps : list N) (ds : list (list N)) : list (N * list N) :=
  match ps, ds with
  | p :: ps', (0 :: body) :: ds' => (p, body) :: delivered ps' ds'
  | _ :: ps', _ :: ds' => delivered ps' ds'
  | _, _ => []
  end.

Lemma gcp_step_ok mk parse p r acc body rs reqs0 :
  replay (gcp_loop mk parse (p :: r) acc) (RBytes (0 :: body) :: rs) reqs0 [] =
  replay (match parse p body with Some e => Raise e | None => gcp_loop mk parse r (acc ++ [(p, body)]) end)
         rs (reqs0 ++ [mk p]) [].
Proof. reflexivity. Qed.
Lemma gcp_step_skip mk parse p r acc body rs reqs0 :
  replay (gcp_loop mk parse (p :: r) acc) (RBytes (CC_INVALID_SELECTOR :: body) :: rs) reqs0 [] =
  replay (gcp_loop mk parse r acc) rs (reqs0 ++ [mk p]) [].
Proof. reflexivity. Qed.

Lemma gcp_spec_gen mk parse : (forall p b, parse p b = None) ->
  forall ps ds acc reqs0, length ds = length ps -> Forall answer_ok ds ->
  outcome (replay (gcp_loop mk parse ps acc) (map RBytes ds) reqs0 []) = (Ok (acc ++ delivered ps ds), []) /\
  length (snd (fst (fst (replay (gcp_loop mk parse ps acc) (map RBytes ds) reqs0 [])))) = (length reqs0 + length ps)%nat.
Proof.
  intros Hp. induction ps as [| p r IH]; intros ds acc reqs0 Hl Hok.
  - destruct ds; [| discriminate]. cbn. rewrite app_nil_r. split; [reflexivity | lia].
  - destruct ds as [| d ds']; [discriminate |]. cbn in Hl. injection Hl as Hl.
    inversion Hok as [| ? ? [body [-> | ->]] Hok']; subst.
    + cbn [map]. rewrite gcp_step_ok, Hp.
      destruct (IH ds' (acc ++ [(p, body)]) (reqs0 ++ [mk p]) Hl Hok') as [E1 E2].
      rewrite E1, E2. cbn [delivered]. rewrite <- app_assoc, app_length. cbn. split; [reflexivity | lia].
    + cbn [map]. rewrite gcp_step_skip.
      destruct (IH ds' acc (reqs0 ++ [mk p]) Hl Hok') as [E1 E2].
      rewrite E1, E2. unfold CC_INVALID_SELECTOR. cbn [delivered]. rewrite app_length. cbn. split; [reflexivity | lia].
Qed.

Lemma gcp_spec mk parse ds : (forall p b, parse p b = None) ->
  length ds = 5%nat -> Forall answer_ok ds ->
  outcome (replay (get_component_properties mk parse) (map RBytes ds) [] []) = (Ok (delivered PROPS ds), []).
Proof.
  intros Hp Hl Hok. exact (proj1 (gcp_spec_gen mk parse Hp PROPS ds [] [] Hl Hok)).
Qed.
