(* C07 - PICMG E-Keying port state (link descriptor with all four lanes), channel signaling class,
   MicroTCA power channel control / status. *)
From Coq Require Import String Ascii.
From Coq Require Import NArith ZArith List Bool Lia.
From PyIpmi Require Import Lib.Res Lib.Bytes Lib.Prog Model.ApiSem Model.Bmc Model.ApiRun Proofs.ApiRunProofs.
Import ListNotations.
Open Scope string_scope.
Open Scope list_scope.
Open Scope N_scope.

(* ---- port state ---- *)
Record link := mkLink { l_ch : N; l_if : N; l_flags : N; l_type : N; l_class : N; l_ext : N; l_grp : N }.
Definition link_obj (l : link) : pv :=
  PObj "LinkDescriptor" [("channel", PInt (Z.of_N (l_ch l))); ("interface", PInt (Z.of_N (l_if l)));
                         ("link_flags", PInt (Z.of_N (l_flags l))); ("type", PInt (Z.of_N (l_type l)));
                         ("sig_class", PInt (Z.of_N (l_class l))); ("extension", PInt (Z.of_N (l_ext l)));
                         ("grouping_id", PInt (Z.of_N (l_grp l)))].
(* link info as the BMC holds it: channel | interface<<6 ; lanes 3:0 | type<<4 ; class | extension<<4 ; grouping id *)
Definition link_info (l : link) : list N :=
  [l_ch l + 64 * l_if l; l_flags l + 16 * l_type l; l_class l + 16 * l_ext l; l_grp l].

Definition chk_port (x : link * N) : bool :=
  let '(l, st) := x in
  exch_ok "set_port_state" [("link_descr", link_obj l); arg "state" st] (RBytes [0; 0])
           (mkReq 44 14 0 (0 :: link_info l ++ [st])) (Ok PNone)
  && exch_ok "get_port_state" [arg "channel_number" (l_ch l); arg "channel_interface" (l_if l)]
                            (RBytes (0 :: 0 :: link_info l ++ [st]))
              (mkReq 44 15 0 [0; l_ch l + 64 * l_if l]) (Ok (PList [link_obj l; PInt (Z.of_N st)])).

(* every value of each component of the descriptor (all 16 lane sets, 64 channels, 4 interfaces, 16 types,
   16 classes, 16 extensions, 256 grouping ids), the others at a base value; both states *)
Definition port_cases : list (link * N) :=
  map (fun x => (mkLink 15 1 x 2 3 1 255, 1)) (nrange 16) ++
  map (fun x => (mkLink x 1 15 2 3 1 255, 0)) (nrange 64) ++
  map (fun x => (mkLink 15 x 15 2 3 1 255, 1)) (nrange 4) ++
  map (fun x => (mkLink 5 0 1 x 0 0 0, 1)) (nrange 16) ++
  map (fun x => (mkLink 5 2 3 1 x 0 7, 0)) (nrange 16) ++
  map (fun x => (mkLink 63 3 15 15 15 x 1, 1)) (nrange 16) ++
  map (fun x => (mkLink 0 0 15 2 3 1 x, 1)) (nrange 256).
Lemma port_table : forallb chk_port port_cases = true.
Proof. vm_cast_no_check (eq_refl true). Qed.

Definition port_small (x : link * N) : bool := (l_ch (fst x) <? 64) && (l_if (fst x) <? 4).
Lemma port_cases_small : forallb port_small port_cases = true.
Proof. vm_compute. reflexivity. Qed.

Lemma bmc_set_port s b0 b1 b2 b3 st :
  bmc_handle s (mkReq 44 14 0 [0; b0; b1; b2; b3; st]) =
  (put s (K_PORT, b0 / 64, b0 mod 64) [b0; b1; b2; b3; st], RBytes [0; 0]).
Proof. reflexivity. Qed.
Lemma bmc_get_port s b0 :
  bmc_handle s (mkReq 44 15 0 [0; b0]) = (s, RBytes (0 :: 0 :: get s (K_PORT, b0 / 64, b0 mod 64))).
Proof. reflexivity. Qed.

(* ---- signaling class ---- *)
Definition chk_sig (x : N * N * N) : bool :=
  let '(itf, ch, cl) := x in
  exch_ok "set_signaling_class" [arg "interface" itf; arg "channel" ch; arg "signaling_class" cl]
                         (RBytes [0; 0])
           (mkReq 44 59 0 [0; ch + 64 * itf; cl]) (Ok PNone)
  && exch_ok "get_signaling_class" [arg "interface" itf; arg "channel" ch]
                            (RBytes [0; 0; ch + 64 * itf; cl])
              (mkReq 44 60 0 [0; ch + 64 * itf]) (Ok (PInt (Z.of_N cl))).
Definition sig_cases : list (N * N * N) :=
  flat_map (fun itf => map (fun ch => (itf, ch, 5)) (nrange 64)) (nrange 4) ++
  flat_map (fun cl => [(0, 0, cl); (3, 63, cl); (1, 15, cl)]) (nrange 16).
Lemma sig_table : forallb chk_sig sig_cases = true.
Proof. vm_cast_no_check (eq_refl true). Qed.
Definition sig_small (x : N * N * N) : bool := let '(itf, ch, cl) := x in (itf <? 4) && (ch <? 64) && (cl <? 16).
Lemma sig_cases_small : forallb sig_small sig_cases = true.
Proof. vm_compute. reflexivity. Qed.

Lemma bmc_set_sig s b cl :
  bmc_handle s (mkReq 44 59 0 [0; b; cl]) = (put s (K_SIGCLASS, b / 64, b mod 64) [cl mod 16], RBytes [0; 0]).
Proof. reflexivity. Qed.
Lemma bmc_get_sig s b :
  bmc_handle s (mkReq 44 60 0 [0; b]) = (s, RBytes [0; 0; b; at_ (get s (K_SIGCLASS, b / 64, b mod 64)) 0]).
Proof. reflexivity. Qed.

(* ---- power channel control -> status ---- *)
Definition pwr_status (st : N) : pv :=
  PObj "PowerChannelStatus" [("present", PInt (Z.of_N (bit st 0))); ("management_power", PInt (Z.of_N (bit st 1)));
                             ("management_power_overcurrent", PInt (Z.of_N (bit st 2))); ("enable", PInt (Z.of_N (bit st 3)));
                             ("payload_power", PInt (Z.of_N (bit st 4))); ("payload_power_overcurrent", PInt (Z.of_N (bit st 5)));
                             ("pwr_on", PInt (Z.of_N (bit st 6)))].
(* (channel, enable, current limit in A, primary PM, redundant PM) on a channel whose status byte is st0 *)
Definition chk_pwr (x : N * bool * N * N * N * N) : bool :=
  let '(ch, en, lim, pri, bak, st0) := x in
  let st1 := setbit st0 4 (if en then 1 else 0) in
  exch_ok "send_channel_power" [arg "channel" ch; ("enable", PBool en); arg "current_limit" lim;
                                                arg "primary_pm" pri; arg "backup_pm" bak] (RBytes [0; 0])
           (mkReq 44 36 0 [0; ch; if en then 5 else 4; 10 * lim; pri; bak])
           (Ok (PObj "SendPowerChannelControl" [("completion_code", PInt 0); ("picmg_identifier", PInt 0)]))
  && exch_ok "get_power_channel_status" [arg "start" ch] (RBytes [0; 0; 16; 6; st1])
              (mkReq 44 37 0 [0; ch; 1]) (Ok (pwr_status st1)).
Definition pwr_cases : list (N * bool * N * N * N * N) :=
  flat_map (fun lim => [(3, true, lim, 1, 0, 1); (3, false, lim, 1, 2, 1)]) (nrange 26) ++
  flat_map (fun ch => [(ch, true, 7, 1, 0, 1); (ch, false, 7, 2, 1, 0x11)]) [1; 2; 16; 255] ++
  flat_map (fun st0 => [(2, true, 1, 1, 0, st0); (2, false, 1, 1, 0, st0)]) (nrange 128).
Lemma pwr_table : forallb chk_pwr pwr_cases = true.
Proof. vm_cast_no_check (eq_refl true). Qed.

Lemma bmc_pwr_control s ch c lim pri bak : List.In c [4; 5] ->
  bmc_handle s (mkReq 44 36 0 [0; ch; c; lim; pri; bak]) =
  (put (put s (K_PWRCHST, ch, 0) [setbit (at_ (get s (K_PWRCHST, ch, 0)) 0) 4 (c - 4)]) (K_PWRCHCTL, ch, 0) [lim; pri; bak],
   RBytes [0; 0]).
Proof. intros [<- | [<- | []]]; reflexivity. Qed.
Lemma bmc_pwr_status s ch :
  bmc_handle s (mkReq 44 37 0 [0; ch; 1]) =
  (s, RBytes (0 :: 0 :: get s (K_PMGLOBAL, 0, 0) ++ [at_ (get s (K_PWRCHST, ch + 0, 0)) 0])).
Proof. reflexivity. Qed.

Opaque one_exchange call bmc_handle.

Lemma key_of_link l : l_ch l < 64 -> l_if l < 4 ->
  ((l_ch l + 64 * l_if l) / 64 = l_if l) /\ ((l_ch l + 64 * l_if l) mod 64 = l_ch l).
Proof. intros H1 H2. split; Zify.zify; Z.to_euclidean_division_equations; lia. Qed.

Lemma write_read_port s l st : is_supported "set_port_state" = true -> is_supported "get_port_state" = true -> List.In (l, st) port_cases ->
  let s1 := put s (K_PORT, l_if l, l_ch l) (link_info l ++ [st]) in
  exists r1 r2,
    call "set_port_state" [("link_descr", link_obj l); arg "state" st] s = (r1, s1) /\ same r1 (Ok PNone) /\
    call "get_port_state" [arg "channel_number" (l_ch l); arg "channel_interface" (l_if l)] s1 = (r2, s1) /\
    same r2 (Ok (PList [link_obj l; PInt (Z.of_N st)])).
Proof.
  intros Sw Sr Hx s1.
  pose proof (table1 chk_port port_cases port_table (l, st) Hx) as C. unfold chk_port in C.
  apply andb_true_iff in C as [W R].
  pose proof (table1 port_small port_cases port_cases_small (l, st) Hx) as S. unfold port_small in S. cbn [fst] in S.
  apply andb_true_iff in S as [S1 S2]. apply N.ltb_lt in S1, S2.
  destruct (key_of_link l S1 S2) as [K1 K2].
  assert (BW : bmc_handle s (mkReq 44 14 0 (0 :: link_info l ++ [st])) = (s1, RBytes [0; 0])).
  { unfold link_info. cbn [app]. rewrite bmc_set_port, K1, K2. reflexivity. }
  assert (BR : bmc_handle s1 (mkReq 44 15 0 [0; l_ch l + 64 * l_if l]) = (s1, RBytes (0 :: 0 :: link_info l ++ [st]))).
  { rewrite bmc_get_port, K1, K2. unfold s1. rewrite get_put_same. reflexivity. }
  exact (write_then_read "set_port_state" "get_port_state" _ _ s s1 _ _ _ _ _ _ Sw Sr W BW R BR).
Qed.

Lemma write_read_sig s itf ch cl : is_supported "set_signaling_class" = true -> is_supported "get_signaling_class" = true -> List.In (itf, ch, cl) sig_cases ->
  let s1 := put s (K_SIGCLASS, itf, ch) [cl] in
  exists r1 r2,
    call "set_signaling_class" [arg "interface" itf; arg "channel" ch; arg "signaling_class" cl] s = (r1, s1) /\
    same r1 (Ok PNone) /\
    call "get_signaling_class" [arg "interface" itf; arg "channel" ch] s1 = (r2, s1) /\ same r2 (Ok (PInt (Z.of_N cl))).
Proof.
  intros Sw Sr Hx s1.
  pose proof (table1 chk_sig sig_cases sig_table (itf, ch, cl) Hx) as C. unfold chk_sig in C.
  apply andb_true_iff in C as [W R].
  pose proof (table1 sig_small sig_cases sig_cases_small (itf, ch, cl) Hx) as S. unfold sig_small in S.
  apply andb_true_iff in S as [S S3]. apply andb_true_iff in S as [S1 S2]. apply N.ltb_lt in S1, S2, S3.
  assert (K1 : (ch + 64 * itf) / 64 = itf) by (Zify.zify; Z.to_euclidean_division_equations; lia).
  assert (K2 : (ch + 64 * itf) mod 64 = ch) by (Zify.zify; Z.to_euclidean_division_equations; lia).
  assert (BW : bmc_handle s (mkReq 44 59 0 [0; ch + 64 * itf; cl]) = (s1, RBytes [0; 0])).
  { rewrite bmc_set_sig, K1, K2, (N.mod_small cl 16 S3). reflexivity. }
  assert (BR : bmc_handle s1 (mkReq 44 60 0 [0; ch + 64 * itf]) = (s1, RBytes [0; 0; ch + 64 * itf; cl])).
  { rewrite bmc_get_sig, K1, K2. unfold s1. rewrite get_put_same. reflexivity. }
  exact (write_then_read "set_signaling_class" "get_signaling_class" _ _ s s1 _ _ _ _ _ _ Sw Sr W BW R BR).
Qed.

Lemma write_read_power s ch en lim pri bak st0 : is_supported "send_channel_power" = true -> is_supported "get_power_channel_status" = true -> List.In (ch, en, lim, pri, bak, st0) pwr_cases ->
  get s (K_PWRCHST, ch, 0) = [st0] -> get s (K_PMGLOBAL, 0, 0) = [16; 6] ->
  let st1 := setbit st0 4 (if en then 1 else 0) in
  let s1 := put (put s (K_PWRCHST, ch, 0) [st1]) (K_PWRCHCTL, ch, 0) [10 * lim; pri; bak] in
  exists r1 r2,
    call "send_channel_power" [arg "channel" ch; ("enable", PBool en); arg "current_limit" lim;
                               arg "primary_pm" pri; arg "backup_pm" bak] s = (r1, s1) /\
    same r1 (Ok (PObj "SendPowerChannelControl" [("completion_code", PInt 0); ("picmg_identifier", PInt 0)])) /\
    call "get_power_channel_status" [arg "start" ch] s1 = (r2, s1) /\ same r2 (Ok (pwr_status st1)).
Proof.
  intros Sw Sr Hx H1 H2 st1 s1.
  pose proof (table1 chk_pwr pwr_cases pwr_table _ Hx) as C. unfold chk_pwr in C. fold st1 in C.
  apply andb_true_iff in C as [W R].
  assert (BW : bmc_handle s (mkReq 44 36 0 [0; ch; if en then 5 else 4; 10 * lim; pri; bak]) = (s1, RBytes [0; 0])).
  { rewrite bmc_pwr_control by (destruct en; cbn; auto). rewrite H1. unfold s1, st1. destruct en; reflexivity. }
  assert (BR : bmc_handle s1 (mkReq 44 37 0 [0; ch; 1]) = (s1, RBytes [0; 0; 16; 6; st1])).
  { rewrite bmc_pwr_status, N.add_0_r. unfold s1.
    rewrite (get_put_other _ _ _ (K_PMGLOBAL, 0, 0)) by discriminate.
    rewrite (get_put_other _ _ _ (K_PMGLOBAL, 0, 0)) by discriminate. rewrite H2.
    rewrite (get_put_other _ _ _ (K_PWRCHST, ch, 0)) by discriminate. rewrite get_put_same. reflexivity. }
  exact (write_then_read "send_channel_power" "get_power_channel_status" _ _ s s1 _ _ _ _ _ _ Sw Sr W BW R BR).
Qed.
