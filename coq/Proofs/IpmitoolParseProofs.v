(* Lemmas for C19, part 2: _parse_output / send_and_receive_raw on what ipmitool prints. *)
From Coq Require Import String Ascii.
From Coq Require Import NArith List Bool Lia ZArith ZifyN ZifyBool ZifyNat.
From PyIpmi Require Import Lib.Res Lib.Bytes Model.Shell Model.IpmitoolIf Model.IpmitoolSpec.
Import ListNotations.
Open Scope N_scope.

(* ---- finite sweep over the 256 byte values ---- *)
Definition all_bytes : list N := map N.of_nat (seq 0 256).
Lemma byte_sweep (P : N -> bool) : forallb P all_bytes = true -> forall b, b < 256 -> P b = true.
Proof.
  intros H b Hb. rewrite forallb_forall in H. apply H. unfold all_bytes.
  rewrite <- (N2Nat.id b). apply in_map. apply in_seq. lia.
Qed.

Definition hex2_fact (b : N) : bool :=
  forallb hexlow (hex2 b) && negb (bytes_eqb (hex2 b) []) &&
  option_eqb N.eqb (py_byte16 (hex2 b)) (Some b) &&
  forallb hexlow (hexl b) && negb (bytes_eqb (hexl b) []) && (hexval_acc 0 (hexl b) =? b).
Lemma hex2_facts_all : forallb hex2_fact all_bytes = true.
Proof. vm_compute. reflexivity. Qed.
Lemma hex2_facts b : b < 256 ->
  forallb hexlow (hex2 b) = true /\ hex2 b <> [] /\ py_byte16 (hex2 b) = Some b /\
  forallb hexlow (hexl b) = true /\ hexl b <> [] /\ hexval_acc 0 (hexl b) = b.
Proof.
  intros Hb. pose proof (byte_sweep _ hex2_facts_all b Hb) as H. unfold hex2_fact in H.
  repeat (apply andb_prop in H; destruct H as [H ?]).
  repeat split; try assumption.
  - destruct (hex2 b); [discriminate | congruence].
  - destruct (py_byte16 (hex2 b)) as [v|]; [|discriminate]. cbn in *. f_equal. now apply N.eqb_eq.
  - destruct (hexl b); [discriminate | congruence].
  - now apply N.eqb_eq.
Qed.

Lemma hexlow_props c : hexlow c = true ->
  py_space c = false /\ (c =? 32) = false /\ (c =? 10) = false /\ (c =? 13) = false.
Proof. unfold hexlow, digit, py_space. intros H. repeat split; lia. Qed.

(* ---- substring tests ---- *)
Lemma starts_in pat : forall s, starts pat s = true -> forall c, In c pat -> In c s.
Proof.
  induction pat as [|p pr IH]; intros s H c Hc; [destruct Hc|].
  destruct s as [|x sr]; [discriminate|]. cbn in H. apply andb_prop in H as [H1 H2].
  apply N.eqb_eq in H1. subst x. destruct Hc as [<-|Hc]; [now left | right; eauto].
Qed.
Lemma contains_in pat : forall s, contains pat s = true -> forall c, In c pat -> In c s.
Proof.
  induction s as [|x sr IH]; intros H c Hc.
  - cbn in H. rewrite orb_false_r in H. eapply starts_in; eauto.
  - cbn [contains] in H. apply orb_prop in H as [H|H].
    + eapply starts_in; eauto.
    + right. eauto.
Qed.
Lemma contains_absent pat s c : In c pat -> ~ In c s -> contains pat s = false.
Proof.
  intros Hc Hn. destruct (contains pat s) eqn:E; [|reflexivity].
  exfalso. apply Hn. eapply contains_in; eauto.
Qed.
Lemma strip_prefix_head p pr c s : (p =? c) = false -> strip_prefix (p :: pr) (c :: s) = None.
Proof. intros H. cbn. now rewrite H. Qed.

(* ---- split / strip ---- *)
Lemma split_line sep a : forallb (fun c => negb (c =? sep)) a = true ->
  forall b, split_on sep (a ++ sep :: b) = a :: split_on sep b.
Proof.
  induction a as [|x a IH]; intros H b.
  - cbn. now rewrite N.eqb_refl.
  - cbn in H. apply andb_prop in H as [Hx Ha]. apply negb_true_iff in Hx.
    cbn [app split_on]. rewrite Hx, IH by assumption. reflexivity.
Qed.
Lemma split_none sep a : forallb (fun c => negb (c =? sep)) a = true -> split_on sep a = [a].
Proof.
  induction a as [|x a IH]; intros H; [reflexivity|].
  cbn in H. apply andb_prop in H as [Hx Ha]. apply negb_true_iff in Hx.
  cbn [split_on]. rewrite Hx, IH by assumption. reflexivity.
Qed.

Lemma lstrip_spaces pre Y : forallb py_space pre = true -> lstrip (pre ++ Y) = lstrip Y.
Proof.
  induction pre as [|x pre IH]; intros H; [reflexivity|].
  cbn in H. apply andb_prop in H as [Hx Hp]. cbn. now rewrite Hx, IH.
Qed.
Lemma lstrip_hex w Z : w <> [] -> forallb hexlow w = true -> lstrip (w ++ Z) = w ++ Z.
Proof.
  destruct w as [|x w]; [congruence|]. intros _ H. cbn in H. apply andb_prop in H as [Hx _].
  destruct (hexlow_props x Hx) as (Hs & _). cbn. now rewrite Hs.
Qed.
Lemma forallb_rev {A} (f : A -> bool) l : forallb f l = true -> forallb f (rev l) = true.
Proof. rewrite !forallb_forall. intros H x Hx. apply H. now apply in_rev. Qed.

(* X begins with a hex word and ends with a hex word; blanks around it are stripped *)
Lemma strip_gen pre suf X w1 M1 M2 w2 :
  X = w1 ++ M1 -> X = M2 ++ w2 -> w1 <> [] -> w2 <> [] ->
  forallb hexlow w1 = true -> forallb hexlow w2 = true ->
  forallb py_space pre = true -> forallb py_space suf = true ->
  strip (pre ++ X ++ suf) = X.
Proof.
  intros E1 E2 N1 N2 H1 H2 Hp Hs. unfold strip.
  rewrite lstrip_spaces by assumption. rewrite E1 at 1. rewrite <- app_assoc, lstrip_hex by assumption.
  rewrite app_assoc, <- E1. rewrite rev_app_distr. rewrite lstrip_spaces by now apply forallb_rev.
  rewrite E2 at 1. rewrite rev_app_distr. rewrite lstrip_hex.
  - rewrite <- rev_app_distr, <- E2. apply rev_involutive.
  - intros E. apply N2. apply (f_equal (@rev N)) in E. now rewrite rev_involutive in E.
  - now apply forallb_rev.
Qed.

(* ---- a line made of blanks and lower-case hex digits takes no special branch ---- *)
Definition hexsp (c : N) : bool := (c =? 32) || hexlow c.
Lemma hexsp_not c x : hexsp x = false -> forall s, forallb hexsp s = true -> In c [x] -> ~ In c s.
Proof.
  intros Hx s Hs [<-|[]] Hin. rewrite forallb_forall in Hs. specialize (Hs _ Hin). congruence.
Qed.
Lemma clean_no pat s x : In x pat -> hexsp x = false -> forallb hexsp s = true -> contains pat s = false.
Proof.
  intros Hp Hx Hs. apply (contains_absent pat s x Hp).
  intros Hin. rewrite forallb_forall in Hs. specialize (Hs _ Hin). congruence.
Qed.
Lemma clean_prefix s : forallb hexsp s = true -> strip_prefix unable_prefix s = None.
Proof.
  destruct s as [|c s]; [reflexivity|]. intros H. cbn in H. apply andb_prop in H as [Hc _].
  destruct (85 =? c) eqn:E.
  - apply N.eqb_eq in E. subst c. discriminate.
  - change unable_prefix with (85 :: tl unable_prefix). now apply strip_prefix_head.
Qed.
Lemma clean_nocr s : forallb hexsp s = true -> remove_cr s = s.
Proof.
  unfold remove_cr. induction s as [|c s IH]; intros H; [reflexivity|].
  cbn in H. apply andb_prop in H as [Hc Hs].
  cbn [filter]. destruct (c =? 13) eqn:E; [apply N.eqb_eq in E; subst c; discriminate|].
  cbn [negb]. now rewrite IH.
Qed.
Lemma clean_line line rest hexstr : forallb hexsp line = true ->
  parse_lines (line :: rest) hexstr = parse_lines rest (hexstr ++ strip line ++ [32]).
Proof.
  intros H. cbn [parse_lines].
  rewrite (clean_no (B "failed") line 105) by (cbn; auto 10 || assumption).
  unfold timeout_match, cc_match. rewrite clean_prefix by assumption.
  rewrite (clean_no (B "Unable to establish") line 85) by (cbn; auto 10 || assumption).
  rewrite (clean_no (B "Could not open device") line 67) by (cbn; auto 10 || assumption).
  rewrite (clean_no (B "password is longer than") line 112) by (cbn; auto 10 || assumption).
  now rewrite clean_nocr.
Qed.

(* ---- the reply lines ---- *)
Definition line0 (chunk : list N) : list N := flat_map (fun b => 32 :: hex2 b) chunk.
Definition toks (bs : list N) : list N := flat_map (fun b => hex2 b ++ [32]) bs.

Lemma hex2_hexsp b : b < 256 -> forallb hexsp (hex2 b) = true.
Proof.
  intros Hb. destruct (hex2_facts b Hb) as (H & _). rewrite forallb_forall in *.
  intros x Hx. unfold hexsp. now rewrite (H x Hx), orb_true_r.
Qed.
Lemma hex2_no c b : b < 256 -> hexlow c = false -> forallb (fun x => negb (x =? c)) (hex2 b) = true.
Proof.
  intros Hb Hc. destruct (hex2_facts b Hb) as (H & _). rewrite forallb_forall in *.
  intros x Hx. apply negb_true_iff. destruct (x =? c) eqn:E; [|reflexivity].
  apply N.eqb_eq in E. subst x. rewrite (H c Hx) in Hc. discriminate.
Qed.
Lemma bytes_ok_lt l : bytes_ok l = true -> forall b, In b l -> b < 256.
Proof. apply bytes_ok_In. Qed.

Lemma line0_hexsp ch : bytes_ok ch = true -> forallb hexsp (line0 ch) = true.
Proof.
  induction ch as [|b r IH]; intros H; [reflexivity|]. cbn in H. apply andb_prop in H as [Hb Hr].
  unfold is_byte in Hb. unfold line0. cbn [flat_map]. fold (line0 r). cbn [app forallb].
  rewrite forallb_app, hex2_hexsp, IH by (assumption || lia). reflexivity.
Qed.
Lemma line0_no10 ch : bytes_ok ch = true -> forallb (fun c => negb (c =? 10)) (line0 ch) = true.
Proof.
  intros H. pose proof (line0_hexsp ch H) as Hs. rewrite forallb_forall in *. intros x Hx.
  specialize (Hs x Hx). apply negb_true_iff. destruct (x =? 10) eqn:E; [|reflexivity].
  apply N.eqb_eq in E. subst x. discriminate.
Qed.

Lemma split_reply chunks : forallb bytes_ok chunks = true ->
  split_on 10 (flat_map reply_line chunks) = map line0 chunks ++ [[]].
Proof.
  induction chunks as [|ch r IH]; intros H; [reflexivity|].
  cbn in H. apply andb_prop in H as [Hc Hr]. cbn [flat_map map app]. unfold reply_line at 1.
  fold (line0 ch). rewrite <- app_assoc. cbn [app]. rewrite split_line by now apply line0_no10.
  now rewrite IH.
Qed.

Lemma line0_snoc r b : line0 (r ++ [b]) = 32 :: toks r ++ hex2 b.
Proof.
  induction r as [|x r IH].
  - cbn. now rewrite app_nil_r.
  - change (line0 ((x :: r) ++ [b])) with ((32 :: hex2 x) ++ line0 (r ++ [b])). rewrite IH.
    unfold toks. cbn [flat_map app]. now rewrite <- !app_assoc.
Qed.
Lemma toks_snoc r b : toks (r ++ [b]) = toks r ++ hex2 b ++ [32].
Proof. unfold toks. rewrite flat_map_app. cbn. now rewrite app_nil_r. Qed.
Lemma toks_app a b : toks (a ++ b) = toks a ++ toks b.
Proof. apply flat_map_app. Qed.

(* X = toks r ++ hex2 b begins and ends with a hex word *)
Lemma word_seq_shape r b : bytes_ok (r ++ [b]) = true ->
  exists w1 M1, toks r ++ hex2 b = w1 ++ M1 /\ w1 <> [] /\ forallb hexlow w1 = true.
Proof.
  intros H. rewrite bytes_ok_app in H. apply andb_prop in H as [Hr Hb].
  cbn in Hb. rewrite andb_true_r in Hb. unfold is_byte in Hb.
  destruct r as [|x r].
  - exists (hex2 b), []. destruct (hex2_facts b ltac:(lia)) as (A & B0 & _). rewrite app_nil_r. auto.
  - cbn in Hr. apply andb_prop in Hr as [Hx _]. unfold is_byte in Hx.
    destruct (hex2_facts x ltac:(lia)) as (A & B0 & _).
    exists (hex2 x), ([32] ++ toks r ++ hex2 b). unfold toks. cbn [flat_map]. rewrite <- !app_assoc. auto.
Qed.

Lemma strip_line0 ch : ch <> [] -> bytes_ok ch = true ->
  exists r b, ch = r ++ [b] /\ strip (line0 ch) = toks r ++ hex2 b.
Proof.
  intros Hne H. destruct (exists_last Hne) as (r & b & ->). exists r, b. split; [reflexivity|].
  rewrite line0_snoc. destruct (word_seq_shape r b H) as (w1 & M1 & E1 & N1 & H1).
  rewrite bytes_ok_app in H. apply andb_prop in H as [_ Hb]. cbn in Hb. rewrite andb_true_r in Hb.
  unfold is_byte in Hb. destruct (hex2_facts b ltac:(lia)) as (A & B0 & _).
  change (32 :: toks r ++ hex2 b) with ([32] ++ toks r ++ hex2 b).
  rewrite <- (app_nil_r (toks r ++ hex2 b)) at 1. rewrite <- app_assoc.
  rewrite <- (app_nil_r (hex2 b)) at 1.
  replace ([32] ++ toks r ++ (hex2 b ++ []) ++ []) with ([32] ++ (toks r ++ hex2 b) ++ [])
    by now rewrite !app_nil_r.
  apply (strip_gen [32] [] (toks r ++ hex2 b) w1 M1 (toks r) (hex2 b));
    [exact E1 | reflexivity | exact N1 | exact B0 | exact H1 | exact A | reflexivity | reflexivity].
Qed.

(* accumulating the lines of a reply *)
Lemma parse_reply_lines chunks : forall hexstr,
  forallb bytes_ok chunks = true -> forallb (fun ch => negb (bytes_eqb ch [])) chunks = true ->
  parse_lines (map line0 chunks ++ [[]]) hexstr = Ok (None, hexstr ++ toks (concat chunks) ++ [32]).
Proof.
  induction chunks as [|ch rest IH]; intros hexstr Hb Hn.
  - cbn [map app]. rewrite clean_line by reflexivity. reflexivity.
  - cbn in Hb, Hn. apply andb_prop in Hb as [Hb1 Hb2]. apply andb_prop in Hn as [Hn1 Hn2].
    cbn [map app]. rewrite clean_line by now apply line0_hexsp.
    assert (Hne : ch <> []) by (destruct ch; [discriminate | congruence]).
    destruct (strip_line0 ch Hne Hb1) as (r & b & -> & ->).
    rewrite IH by assumption. cbn [concat]. rewrite toks_app, toks_snoc.
    now rewrite <- !app_assoc.
Qed.

Lemma split_toks l : bytes_ok l = true -> forall w,
  split_on 32 (toks l ++ w) = map hex2 l ++ split_on 32 w.
Proof.
  induction l as [|b l IH]; intros H w; [reflexivity|].
  cbn in H. apply andb_prop in H as [Hb Hl]. unfold is_byte in Hb.
  unfold toks. cbn [flat_map]. fold (toks l). rewrite <- !app_assoc. cbn [app].
  rewrite split_line by (apply hex2_no; [lia | reflexivity]). now rewrite IH.
Qed.

Lemma all_bytes_back l : bytes_ok l = true -> all_some (map py_byte16 (map hex2 l)) = Some l.
Proof.
  induction l as [|b l IH]; intros H; [reflexivity|].
  cbn in H. apply andb_prop in H as [Hb Hl]. unfold is_byte in Hb.
  destruct (hex2_facts b ltac:(lia)) as (_ & _ & P & _). cbn [map all_some]. now rewrite P, IH.
Qed.

(* C19_parse_format *)
Theorem parse_format chunks :
  forallb bytes_ok chunks = true -> forallb (fun ch => negb (bytes_eqb ch [])) chunks = true ->
  parse_output (format_lines chunks) =
    Ok (None, match concat chunks with [] => None | bs => Some bs end).
Proof.
  intros Hb Hn. destruct chunks as [|c0 cs]; [vm_compute; reflexivity|].
  unfold format_lines, parse_output. rewrite split_reply by assumption.
  rewrite parse_reply_lines by assumption. cbn [bind app].
  set (bs := concat (c0 :: cs)).
  assert (Hbs : bytes_ok bs = true).
  { subst bs. clear Hn. induction (c0 :: cs) as [|x l IH]; [reflexivity|].
    cbn in Hb. apply andb_prop in Hb as [H1 H2]. cbn [concat]. now rewrite bytes_ok_app, H1, IH. }
  assert (Hne : bs <> []).
  { subst bs. cbn in Hn. apply andb_prop in Hn as [H1 _]. destruct c0; [discriminate|]. cbn. discriminate. }
  destruct (exists_last Hne) as (r & b & E). rewrite E. rewrite toks_snoc.
  pose proof Hbs as Hbs'. rewrite E in Hbs'.
  destruct (word_seq_shape r b Hbs') as (w1 & M1 & E1 & N1 & H1).
  rewrite bytes_ok_app in Hbs'. apply andb_prop in Hbs' as [Hr Hb1]. cbn in Hb1. rewrite andb_true_r in Hb1.
  unfold is_byte in Hb1. destruct (hex2_facts b ltac:(lia)) as (A & B0 & _).
  assert (S : strip ((toks r ++ hex2 b ++ [32]) ++ [32]) = toks r ++ hex2 b).
  { replace ((toks r ++ hex2 b ++ [32]) ++ [32]) with ([] ++ (toks r ++ hex2 b) ++ [32; 32])
      by (cbn [app]; now rewrite <- !app_assoc).
    apply (strip_gen [] [32; 32] (toks r ++ hex2 b) w1 M1 (toks r) (hex2 b));
      [exact E1 | reflexivity | exact N1 | exact B0 | exact H1 | exact A | reflexivity | reflexivity]. }
  rewrite S.
  destruct (toks r ++ hex2 b) eqn:EX.
  { exfalso. destruct (toks r); cbn in EX; [now apply B0 | discriminate]. }
  rewrite <- EX. rewrite split_toks by assumption.
  rewrite split_none by (apply hex2_no; [lia | reflexivity]).
  replace (map hex2 r ++ [hex2 b]) with (map hex2 (r ++ [b])) by now rewrite map_app.
  rewrite all_bytes_back by (rewrite bytes_ok_app, Hr; cbn; unfold is_byte; now rewrite andb_true_r; lia).
  destruct (r ++ [b]) eqn:E2; [destruct r; discriminate | reflexivity].
Qed.

(* ipmitool's own wrapping: 16 bytes per line *)
Lemma chunks_aux_ok w : (0 < w)%nat -> forall fuel bs, (length bs <= fuel)%nat -> bytes_ok bs = true ->
  concat (chunks_aux fuel w bs) = bs /\
  forallb bytes_ok (chunks_aux fuel w bs) = true /\
  forallb (fun ch => negb (bytes_eqb ch [])) (chunks_aux fuel w bs) = true.
Proof.
  intros Hw. induction fuel as [|f IH]; intros bs Hl Hb.
  - destruct bs; [cbn; auto | cbn in Hl; lia].
  - destruct bs as [|b r]; [cbn; auto|].
    change (chunks_aux (S f) w (b :: r)) with (firstn w (b :: r) :: chunks_aux f w (skipn w (b :: r))).
    destruct (IH (skipn w (b :: r))) as (I1 & I2 & I3).
    + rewrite skipn_length. cbn [length] in *. lia.
    + now apply bytes_ok_skipn.
    + cbn [concat forallb]. rewrite I1, I2, I3, firstn_skipn, bytes_ok_firstn by assumption.
      repeat split. destruct w; [lia | reflexivity].
Qed.
Theorem parse_format16 bs : bytes_ok bs = true ->
  parse_output (format16 bs) = Ok (None, match bs with [] => None | _ => Some bs end).
Proof.
  intros H. unfold format16, chunks.
  destruct (chunks_aux_ok 16 (Nat.lt_0_succ 15) (length bs) bs (le_n _) H) as (C1 & C2 & C3).
  rewrite parse_format by assumption. rewrite C1. now destruct bs.
Qed.
Theorem receive_format16 bs : bytes_ok bs = true -> receive (format16 bs) 0 = Ok (0 :: bs).
Proof.
  intros H. unfold receive. change (0 =? 127) with false. cbn iota.
  rewrite parse_format16 by assumption. cbn. now destruct bs.
Qed.
