(* Lemmas for C19, part 2: _parse_output / send_and_receive_raw on what ipmitool prints. *)
From Coq Require Import String Ascii.
From Coq Require Import NArith List Bool Lia ZArith ZifyN ZifyBool ZifyNat.
From PyIpmi Require Import Lib.Res Lib.Bytes Model.Shell Model.IpmitoolIf Model.IpmitoolSpec.
Import ListNotations.
Open Scope N_scope.

(* ---- finite sweep over the 256 byte values ---- *)
Definition all_bytes : list N := map N.of_nat (seq 0 256).
Lemma byte_sweep (P : N -> bool) : forallb P all_bytes = true -> forall b, b < 256 -> P b = true.
Proof.
  intros H b Hb. rewrite forallb_forall in H. apply H. unfold all_bytes.
  rewrite <- (N2Nat.id b). apply in_map. apply in_seq. lia.
Qed.

Definition hex2_fact (b : N) : bool :=
  forallb hexlow (hex2 b) && negb (bytes_eqb (hex2 b) []) &&
  option_eqb N.eqb (py_byte16 (hex2 b)) (Some b) &&
  forallb hexlow (hexl b) && negb (bytes_eqb (hexl b) []) && (hexval_acc 0 (hexl b) =? b).
Lemma hex2_facts_all : forallb hex2_fact all_bytes = true.
Proof. vm_compute. reflexivity. Qed.
Lemma hex2_facts b : b < 256 ->
  forallb hexlow (hex2 b) = true /\ hex2 b <> [] /\ py_byte16 (hex2 b) = Some b /\
  forallb hexlow (hexl b) = true /\ hexl b <> [] /\ hexval_acc 0 (hexl b) = b.
Proof.
  intros Hb. pose proof (byte_sweep _ hex2_facts_all b Hb) as H. unfold hex2_fact in H.
  repeat (apply andb_prop in H; destruct H as [H ?]).
  repeat split; try assumption.
  - destruct (hex2 b); [discriminate | congruence].
  - destruct (py_byte16 (hex2 b)) as [v|]; [|discriminate]. cbn in *. f_equal. now apply N.eqb_eq.
  - destruct (hexl b); [discriminate | congruence].
  - now apply N.eqb_eq.
Qed.

Lemma hexlow_props c : hexlow c = true ->
  py_space c = false /\ (c =? 32) = false /\ (c =? 10) = false /\ (c =? 13) = false.
Proof. unfold hexlow, digit, py_space. intros H. repeat split; lia. Qed.

(* ---- substring tests ---- *)
Lemma starts_in pat : forall s, starts pat s = true -> forall c, In c pat -> In c s.
Proof.
  induction pat as [|p pr IH]; intros s H c Hc; [destruct Hc|].
  destruct s as [|x sr]; [discriminate|]. cbn in H. apply andb_prop in H as [H1 H2].
  apply N.eqb_eq in H1. subst x. destruct Hc as [<-|Hc]; [now left | right; eauto].
Qed.
Lemma contains_in pat : forall s, contains pat s = true -> forall c, In c pat -> In c s.
Proof.
  induction s as [|x sr IH]; intros H c Hc.
  - cbn in H. rewrite orb_false_r in H. eapply starts_in; eauto.
  - cbn [contains] in H. apply orb_prop in H as [H|H].
    + eapply starts_in; eauto.
    + right. eauto.
Qed.
Lemma contains_absent pat s c : In c pat -> ~ In c s -> contains pat s = false.
Proof.
  intros Hc Hn. destruct (contains pat s) eqn:E; [|reflexivity].
  exfalso. apply Hn. eapply contains_in; eauto.
Qed.
Lemma strip_prefix_head p pr c s : (p =? c) = false -> strip_prefix (p :: pr) (c :: s) = None.
Proof. intros H. cbn. now rewrite H. Qed.

(* ---- split / strip ---- *)
Lemma split_line sep a : forallb (fun c => negb (c =? sep)) a = true ->
  forall b, split_on sep (a ++ sep :: b) = a :: split_on sep b.
Proof.
  induction a as [|x a IH]; intros H b.
  - cbn. now rewrite N.eqb_refl.
  - cbn in H. apply andb_prop in H as [Hx Ha]. apply negb_true_iff in Hx.
    cbn [app split_on]. rewrite Hx, IH by assumption. reflexivity.
Qed.
Lemma split_none sep a : forallb (fun c => negb (c =? sep)) a = true -> split_on sep a = [a].
Proof.
  induction a as [|x a IH]; intros H; [reflexivity|].
  cbn in H. apply andb_prop in H as [Hx Ha]. apply negb_true_iff in Hx.
  cbn [split_on]. rewrite Hx, IH by assumption. reflexivity.
Qed.

Lemma lstrip_spaces pre Y : forallb py_space pre = true -> lstrip (pre ++ Y) = lstrip Y.
Proof.
  induction pre as [|x pre IH]; intros H; [reflexivity|].
  cbn in H. apply andb_prop in H as [Hx Hp]. cbn. now rewrite Hx, IH.
Qed.
Lemma lstrip_hex w Z : w <> [] -> forallb hexlow w = true -> lstrip (w ++ Z) = w ++ Z.
Proof.
  destruct w as [|x w]; [congruence|]. intros _ H. cbn in H. apply andb_prop in H as [Hx _].
  destruct (hexlow_props x Hx) as (Hs & _). cbn. now rewrite Hs.
Qed.
Lemma forallb_rev {A} (f : A -> bool) l : forallb f l = true -> forallb f (rev l) = true.
Proof. rewrite !forallb_forall. intros H x Hx. apply H. now apply in_rev. Qed.

(* X begins with a hex word and ends with a hex word; blanks around it are stripped *)
Lemma strip_gen pre suf X w1 M1 M2 w2 :
  X = w1 ++ M1 -> X = M2 ++ w2 -> w1 <> [] -> w2 <> [] ->
  forallb hexlow w1 = true -> forallb hexlow w2 = true ->
  forallb py_space pre = true -> forallb py_space suf = true ->
  strip (pre ++ X ++ suf) = X.
Proof.
  intros E1 E2 N1 N2 H1 H2 Hp Hs. unfold strip.
  rewrite lstrip_spaces by assumption. rewrite E1 at 1. rewrite <- app_assoc, lstrip_hex by assumption.
  rewrite app_assoc, <- E1. rewrite rev_app_distr. rewrite lstrip_spaces by now apply forallb_rev.
  rewrite E2 at 1. rewrite rev_app_distr. rewrite lstrip_hex.
  - rewrite <- rev_app_distr, <- E2. apply rev_involutive.
  - intros E. apply N2. apply (f_equal (@rev N)) in E. now rewrite rev_involutive in E.
  - now apply forallb_rev.
Qed.

(* ---- a line made of blanks and lower-case hex digits takes no special branch ---- *)
Definition hexsp (c : N) : bool := (c =? 32) || hexlow c.
Lemma hexsp_not c x : hexsp x = false -> forall s, forallb hexsp s = true -> In c [x] -> ~ In c s.
Proof.
  intros Hx s Hs [<-|[]] Hin. rewrite forallb_forall in Hs. specialize (Hs _ Hin). congruence.
Qed.
Lemma clean_no pat s x : In x pat -> hexsp x = false -> forallb hexsp s = true -> contains pat s = false.
Proof.
  intros Hp Hx Hs. apply (contains_absent pat s x Hp).
  intros Hin. rewrite forallb_forall in Hs. specialize (Hs _ Hin). congruence.
Qed.
Lemma clean_prefix s : forallb hexsp s = true -> strip_prefix unable_prefix s = None.
Proof.
  destruct s as [|c s]; [reflexivity|]. intros H. cbn in H. apply andb_prop in H as [Hc _].
  destruct (85 =? c) eqn:E.
  - apply N.eqb_eq in E. subst c. discriminate.
  - change unable_prefix with (85 :: tl unable_prefix). now apply strip_prefix_head.
Qed.
Lemma clean_nocr s : forallb hexsp s = true -> remove_cr s = s.
Proof.
  unfold remove_cr. induction s as [|c s IH]; intros H; [reflexivity|].
  cbn in H. apply andb_prop in H as [Hc Hs].
  cbn [filter]. destruct (c =? 13) eqn:E; [apply N.eqb_eq in E; subst c; discriminate|].
  cbn [negb]. now rewrite IH.
Qed.
Lemma clean_line line rest hexstr : forallb hexsp line = true ->
  parse_lines (line :: rest) hexstr = parse_lines rest (hexstr ++ strip line ++ [32]).
Proof.
  intros H. cbn [parse_lines].
  rewrite (clean_no (B "failed") line 105) by (cbn; auto 10 || assumption).
  unfold timeout_match, cc_match. rewrite clean_prefix by assumption.
  rewrite (clean_no (B "Unable to establish") line 85) by (cbn; auto 10 || assumption).
  rewrite (clean_no (B "Could not open device") line 67) by (cbn; auto 10 || assumption).
  rewrite (clean_no (B "password is longer than") line 112) by (cbn; auto 10 || assumption).
  now rewrite clean_nocr.
Qed.

(* ---- the reply lines ---- *)
Definition line0 (chunk : list N) : list N := flat_map (fun b => 32 :: hex2 b) chunk.
Definition toks (bs : list N) : list N := flat_map (fun b => hex2 b ++ [32]) bs.

Lemma hex2_hexsp b : b < 256 -> forallb hexsp (hex2 b) = true.
Proof.
  intros Hb. destruct (hex2_facts b Hb) as (H & _). rewrite forallb_forall in *.
  intros x Hx. unfold hexsp. now rewrite (H x Hx), orb_true_r.
Qed.
Lemma hex2_no c b : b < 256 -> hexlow c = false -> forallb (fun x => negb (x =? c)) (hex2 b) = true.
Proof.
  intros Hb Hc. destruct (hex2_facts b Hb) as (H & _). rewrite forallb_forall in *.
  intros x Hx. apply negb_true_iff. destruct (x =? c) eqn:E; [|reflexivity].
  apply N.eqb_eq in E. subst x. rewrite (H c Hx) in Hc. discriminate.
Qed.
Lemma bytes_ok_lt l : bytes_ok l = true -> forall b, In b l -> b < 256.
Proof. apply bytes_ok_In. Qed.

Lemma line0_hexsp ch : bytes_ok ch = true -> forallb hexsp (line0 ch) = true.
Proof.
  induction ch as [|b r IH]; intros H; [reflexivity|]. cbn in H. apply andb_prop in H as [Hb Hr].
  unfold is_byte in Hb. unfold line0. cbn [flat_map]. fold (line0 r). cbn [app forallb].
  rewrite forallb_app, hex2_hexsp, IH by (assumption || lia). reflexivity.
Qed.
Lemma line0_no10 ch : bytes_ok ch = true -> forallb (fun c => negb (c =? 10)) (line0 ch) = true.
Proof.
  intros H. pose proof (line0_hexsp ch H) as Hs. rewrite forallb_forall in *. intros x Hx.
  specialize (Hs x Hx). apply negb_true_iff. destruct (x =? 10) eqn:E; [|reflexivity].
  apply N.eqb_eq in E. subst x. discriminate.
Qed.

Lemma split_reply chunks : forallb bytes_ok chunks = true ->
  split_on 10 (flat_map reply_line chunks) = map line0 chunks ++ [[]].
Proof.
  induction chunks as [|ch r IH]; intros H; [reflexivity|].
  cbn in H. apply andb_prop in H as [Hc Hr]. cbn [flat_map map app]. unfold reply_line at 1.
  fold (line0 ch). rewrite <- app_assoc. cbn [app]. rewrite split_line by now apply line0_no10.
  now rewrite IH.
Qed.

Lemma line0_snoc r b : line0 (r ++ [b]) = 32 :: toks r ++ hex2 b.
Proof.
  induction r as [|x r IH].
  - cbn. now rewrite app_nil_r.
  - change (line0 ((x :: r) ++ [b])) with ((32 :: hex2 x) ++ line0 (r ++ [b])). rewrite IH.
    unfold toks. cbn [flat_map app]. now rewrite <- !app_assoc.
Qed.
Lemma toks_snoc r b : toks (r ++ [b]) = toks r ++ hex2 b ++ [32].
Proof. unfold toks. rewrite flat_map_app. cbn. now rewrite app_nil_r. Qed.
Lemma toks_app a b : toks (a ++ b) = toks a ++ toks b.
Proof. apply flat_map_app. Qed.

(* X = toks r ++ hex2 b begins and ends with a hex word *)
Lemma word_seq_shape r b : bytes_ok (r ++ [b]) = true ->
  exists w1 M1, toks r ++ hex2 b = w1 ++ M1 /\ w1 <> [] /\ forallb hexlow w1 = true.
Proof.
  intros H. rewrite bytes_ok_app in H. apply andb_prop in H as [Hr Hb].
  cbn in Hb. rewrite andb_true_r in Hb. unfold is_byte in Hb.
  destruct r as [|x r].
  - exists (hex2 b), []. destruct (hex2_facts b ltac:(lia)) as (A & B0 & _). rewrite app_nil_r. auto.
  - cbn in Hr. apply andb_prop in Hr as [Hx _]. unfold is_byte in Hx.
    destruct (hex2_facts x ltac:(lia)) as (A & B0 & _).
    exists (hex2 x), ([32] ++ toks r ++ hex2 b). unfold toks. cbn [flat_map]. rewrite <- !app_assoc. auto.
Qed.

Lemma strip_line0 ch : ch <> [] -> bytes_ok ch = true ->
  exists r b, ch = r ++ [b] /\ strip (line0 ch) = toks r ++ hex2 b.
Proof.
  intros Hne H. destruct (exists_last Hne) as (r & b & ->). exists r, b. split; [reflexivity|].
  rewrite line0_snoc. destruct (word_seq_shape r b H) as (w1 & M1 & E1 & N1 & H1).
  rewrite bytes_ok_app in H. apply andb_prop in H as [_ Hb]. cbn in Hb. rewrite andb_true_r in Hb.
  unfold is_byte in Hb. destruct (hex2_facts b ltac:(lia)) as (A & B0 & _).
  change (32 :: toks r ++ hex2 b) with ([32] ++ toks r ++ hex2 b).
  rewrite <- (app_nil_r (toks r ++ hex2 b)) at 1. rewrite <- app_assoc.
  rewrite <- (app_nil_r (hex2 b)) at 1.
  replace ([32] ++ toks r ++ (hex2 b ++ []) ++ []) with ([32] ++ (toks r ++ hex2 b) ++ [])
    by now rewrite !app_nil_r.
  apply (strip_gen [32] [] (toks r ++ hex2 b) w1 M1 (toks r) (hex2 b));
    [exact E1 | reflexivity | exact N1 | exact B0 | exact H1 | exact A | reflexivity | reflexivity].
Qed.

(* accumulating the lines of a reply *)
Lemma parse_reply_lines chunks : forall hexstr,
  forallb bytes_ok chunks = true -> forallb (fun ch => negb (bytes_eqb ch [])) chunks = true ->
  parse_lines (map line0 chunks ++ [[]]) hexstr = Ok (None, hexstr ++ toks (concat chunks) ++ [32]).
Proof.
  induction chunks as [|ch rest IH]; intros hexstr Hb Hn.
  - cbn [map app]. rewrite clean_line by reflexivity. reflexivity.
  - cbn in Hb, Hn. apply andb_prop in Hb as [Hb1 Hb2]. apply andb_prop in Hn as [Hn1 Hn2].
    cbn [map app]. rewrite clean_line by now apply line0_hexsp.
    assert (Hne : ch <> []) by (destruct ch; [discriminate | congruence]).
    destruct (strip_line0 ch Hne Hb1) as (r & b & -> & ->).
    rewrite IH by assumption. cbn [concat]. rewrite toks_app, toks_snoc.
    now rewrite <- !app_assoc.
Qed.

Lemma split_toks l : bytes_ok l = true -> forall w,
  split_on 32 (toks l ++ w) = map hex2 l ++ split_on 32 w.
Proof.
  induction l as [|b l IH]; intros H w; [reflexivity|].
  cbn in H. apply andb_prop in H as [Hb Hl]. unfold is_byte in Hb.
  unfold toks. cbn [flat_map]. fold (toks l). rewrite <- !app_assoc. cbn [app].
  rewrite split_line by (apply hex2_no; [lia | reflexivity]). now rewrite IH.
Qed.

Lemma all_bytes_back l : bytes_ok l = true -> all_some (map py_byte16 (map hex2 l)) = Some l.
Proof.
  induction l as [|b l IH]; intros H; [reflexivity|].
  cbn in H. apply andb_prop in H as [Hb Hl]. unfold is_byte in Hb.
  destruct (hex2_facts b ltac:(lia)) as (_ & _ & P & _). cbn [map all_some]. now rewrite P, IH.
Qed.

(* C19_parse_format *)
Theorem parse_format chunks :
  forallb bytes_ok chunks = true -> forallb (fun ch => negb (bytes_eqb ch [])) chunks = true ->
  parse_output (format_lines chunks) =
    Ok (None, match concat chunks with [] => None | bs => Some bs end).
Proof.
  intros Hb Hn. destruct chunks as [|c0 cs]; [vm_compute; reflexivity|].
  unfold format_lines, parse_output. rewrite split_reply by assumption.
  rewrite parse_reply_lines by assumption. cbn [bind app].
  set (bs := concat (c0 :: cs)).
  assert (Hbs : bytes_ok bs = true).
  { subst bs. clear Hn. induction (c0 :: cs) as [|x l IH]; [reflexivity|].
    cbn in Hb. apply andb_prop in Hb as [H1 H2]. cbn [concat]. now rewrite bytes_ok_app, H1, IH. }
  assert (Hne : bs <> []).
  { subst bs. cbn in Hn. apply andb_prop in Hn as [H1 _]. destruct c0; [discriminate|]. cbn. discriminate. }
  destruct (exists_last Hne) as (r & b & E). rewrite E. rewrite toks_snoc.
  pose proof Hbs as Hbs'. rewrite E in Hbs'.
  destruct (word_seq_shape r b Hbs') as (w1 & M1 & E1 & N1 & H1).
  rewrite bytes_ok_app in Hbs'. apply andb_prop in Hbs' as [Hr Hb1]. cbn in Hb1. rewrite andb_true_r in Hb1.
  unfold is_byte in Hb1. destruct (hex2_facts b ltac:(lia)) as (A & B0 & _).
  assert (S : strip ((toks r ++ hex2 b ++ [32]) ++ [32]) = toks r ++ hex2 b).
  { replace ((toks r ++ hex2 b ++ [32]) ++ [32]) with ([] ++ (toks r ++ hex2 b) ++ [32; 32])
      by (cbn [app]; now rewrite <- !app_assoc).
    apply (strip_gen [] [32; 32] (toks r ++ hex2 b) w1 M1 (toks r) (hex2 b));
      [exact E1 | reflexivity | exact N1 | exact B0 | exact H1 | exact A | reflexivity | reflexivity]. }
  rewrite S.
  destruct (toks r ++ hex2 b) eqn:EX.
  { exfalso. destruct (toks r); cbn in EX; [now apply B0 | discriminate]. }
  rewrite <- EX. rewrite split_toks by assumption.
  rewrite split_none by (apply hex2_no; [lia | reflexivity]).
  replace (map hex2 r ++ [hex2 b]) with (map hex2 (r ++ [b])) by now rewrite map_app.
  rewrite all_bytes_back by (rewrite bytes_ok_app, Hr; cbn; unfold is_byte; now rewrite andb_true_r; lia).
  destruct (r ++ [b]) eqn:E2; [destruct r; discriminate | reflexivity].
Qed.

(* ipmitool's own wrapping: 16 bytes per line *)
Lemma chunks_aux_ok w : (0 < w)%nat -> forall fuel bs, (length bs <= fuel)%nat -> bytes_ok bs = true ->
  concat (chunks_aux fuel w bs) = bs /\
  forallb bytes_ok (chunks_aux fuel w bs) = true /\
  forallb (fun ch => negb (bytes_eqb ch [])) (chunks_aux fuel w bs) = true.
Proof.
  intros Hw. induction fuel as [|f IH]; intros bs Hl Hb.
  - destruct bs; [cbn; auto | cbn in Hl; lia].
  - destruct bs as [|b r]; [cbn; auto|].
    change (chunks_aux (S f) w (b :: r)) with (firstn w (b :: r) :: chunks_aux f w (skipn w (b :: r))).
    destruct (IH (skipn w (b :: r))) as (I1 & I2 & I3).
    + rewrite skipn_length. cbn [length] in *. lia.
    + now apply bytes_ok_skipn.
    + cbn [concat forallb]. rewrite I1, I2, I3, firstn_skipn, bytes_ok_firstn by assumption.
      repeat split. destruct w; [lia | reflexivity].
Qed.
Theorem parse_format16 bs : bytes_ok bs = true ->
  parse_output (format16 bs) = Ok (None, match bs with [] => None | _ => Some bs end).
Proof.
  intros H. unfold format16, chunks.
  destruct (chunks_aux_ok 16 (Nat.lt_0_succ 15) (length bs) bs (le_n _) H) as (C1 & C2 & C3).
  rewrite parse_format by assumption. rewrite C1. now destruct bs.
Qed.
Theorem receive_format16 bs : bytes_ok bs = true -> receive (format16 bs) 0 = Ok (0 :: bs).
Proof.
  intros H. unfold receive. change (0 =? 127) with false. cbn iota.
  rewrite parse_format16 by assumption. cbn. now destruct bs.
Qed.

(* ================================================================== error mapping *)
Definition no_nl (s : list N) : bool := forallb (fun c => negb (c =? 10)) s.

(* which branch of the loop the first output line takes *)
Theorem timeout_rule line more rc : no_nl line = true -> (rc =? 127) = false ->
  contains (B "failed") line = false -> timeout_match line = true ->
  receive (line ++ 10 :: more) rc = Err TimeoutError.
Proof.
  intros Hn Hrc H1 H2. unfold receive, parse_output. rewrite Hrc, split_line by exact Hn.
  cbn [parse_lines]. now rewrite H1, H2.
Qed.
Theorem connection_rule line more rc : no_nl line = true -> (rc =? 127) = false ->
  contains (B "failed") line = false -> timeout_match line = false ->
  contains (B "Unable to establish") line = true ->
  receive (line ++ 10 :: more) rc = Err ConnectionError.
Proof.
  intros Hn Hrc H1 H2 H3. unfold receive, parse_output. rewrite Hrc, split_line by exact Hn.
  cbn [parse_lines]. now rewrite H1, H2, H3.
Qed.
Theorem long_password_rule line more rc : no_nl line = true -> (rc =? 127) = false ->
  contains (B "failed") line = false -> timeout_match line = false ->
  contains (B "Unable to establish") line = false -> cc_match line = None ->
  contains (B "Could not open device") line = false ->
  contains (B "password is longer than") line = true ->
  receive (line ++ 10 :: more) rc = Err LongPasswordError.
Proof.
  intros Hn Hrc H1 H2 H3 H4 H5 H6. unfold receive, parse_output. rewrite Hrc, split_line by exact Hn.
  cbn [parse_lines]. now rewrite H1, H2, H3, H4, H5, H6.
Qed.
Theorem cc_rule line more rc cc : no_nl line = true -> (rc =? 127) = false ->
  contains (B "failed") line = false -> timeout_match line = false ->
  contains (B "Unable to establish") line = false -> cc_match line = Some cc -> cc < 256 ->
  receive (line ++ 10 :: more) rc = Ok [cc].
Proof.
  intros Hn Hrc H1 H2 H3 H4 Hcc. unfold receive, parse_output. rewrite Hrc, split_line by exact Hn.
  cbn [parse_lines]. rewrite H1, H2, H3, H4. cbn. apply N.ltb_lt in Hcc. now rewrite Hcc.
Qed.

(* ---- hexl for every number ---- *)
Lemma digit_char_hexlow d : hexlow (digit_char d) = true.
Proof.
  unfold digit_char. generalize (N.to_nat d) as k. intro k.
  do 16 (destruct k as [|k]; [reflexivity|]). destruct k; reflexivity.
Qed.
Lemma digits_aux_hexlow base fuel : forall n acc,
  forallb hexlow acc = true -> forallb hexlow (digits_aux base fuel n acc) = true.
Proof.
  induction fuel as [|f IH]; intros n acc H; cbn [digits_aux]; [assumption|].
  assert (H' : forallb hexlow (digit_char (n mod base) :: acc) = true)
    by (cbn [forallb]; now rewrite digit_char_hexlow).
  destruct (n / base =? 0); [assumption | now apply IH].
Qed.
Lemma digits_aux_nonempty base fuel : forall n acc, acc <> [] -> digits_aux base fuel n acc <> [].
Proof.
  induction fuel as [|f IH]; intros n acc H; cbn [digits_aux]; [assumption|].
  destruct (n / base =? 0); [discriminate | apply IH; discriminate].
Qed.
Lemma hexl_hexlow n : forallb hexlow (hexl n) = true.
Proof. unfold hexl, digits. now apply digits_aux_hexlow. Qed.
Lemma hexl_ne n : hexl n <> [].
Proof.
  unfold hexl, digits. cbn [digits_aux].
  destruct (n / 16 =? 0); [discriminate | apply digits_aux_nonempty; discriminate].
Qed.

(* ---- membership as a boolean ---- *)
Definition mem (c : N) (s : list N) : bool := existsb (N.eqb c) s.
Lemma mem_app c a b : mem c (a ++ b) = mem c a || mem c b.
Proof. apply existsb_app. Qed.
Lemma mem_hex c h : hexlow c = false -> forallb hexlow h = true -> mem c h = false.
Proof.
  intros Hc H. unfold mem. destruct (existsb (N.eqb c) h) eqn:E; [|reflexivity].
  apply existsb_exists in E as (x & Hx & Ex). apply N.eqb_eq in Ex. subst x.
  rewrite forallb_forall in H. rewrite (H c Hx) in Hc. discriminate.
Qed.
Lemma nomem_in c s : mem c s = false -> ~ In c s.
Proof.
  intros H Hin. unfold mem in H. assert (existsb (N.eqb c) s = true); [|congruence].
  apply existsb_exists. exists c. split; [assumption | apply N.eqb_refl].
Qed.
Lemma nomem_forallb c s : mem c s = false -> forallb (fun x => negb (x =? c)) s = true.
Proof.
  intros H. apply forallb_forall. intros x Hx. apply negb_true_iff.
  destruct (x =? c) eqn:E; [|reflexivity]. apply N.eqb_eq in E. subst x.
  exfalso. now apply (nomem_in c s H).
Qed.

(* ---- the key scanners ---- *)
Lemma strip_prefix_app p X : strip_prefix p (p ++ X) = Some X.
Proof. induction p as [|x p IH]; [reflexivity|]. cbn. now rewrite N.eqb_refl. Qed.
Lemma span_hex_app h c r : forallb hexlow h = true -> hexlow c = false ->
  span_hex (h ++ c :: r) = (h, c :: r).
Proof.
  induction h as [|x h IH]; intros H Hc.
  - cbn. now rewrite Hc.
  - cbn in H. apply andb_prop in H as [Hx Hh]. cbn. now rewrite Hx, IH.
Qed.
Lemma try_key_here key h rest : h <> [] -> forallb hexlow h = true ->
  try_key key (key ++ h ++ 41 :: rest) = Some h.
Proof.
  intros Hne H. unfold try_key. rewrite strip_prefix_app, span_hex_app by (assumption || reflexivity).
  destruct h; [congruence | reflexivity].
Qed.
Lemma last_key_later key b h : last_key key b = Some h -> forall a, last_key key (a ++ b) = Some h.
Proof. intros H a. induction a as [|x a IH]; [assumption|]. cbn [app last_key]. now rewrite IH. Qed.
Lemma last_key_here key s h : try_key key s = Some h -> s <> [] -> exists h', last_key key s = Some h'.
Proof.
  intros H Hne. destruct s as [|x s]; [congruence|]. cbn [last_key].
  destruct (last_key key s); eauto.
Qed.
Lemma starts_strip p : forall s, starts p s = false -> strip_prefix p s = None.
Proof.
  induction p as [|x p IH]; intros s H; [discriminate|]. destruct s as [|c s]; [reflexivity|].
  cbn in *. destruct (x =? c); [now apply IH | reflexivity].
Qed.
Lemma no_key_anywhere key s : contains key s = false -> last_key key s = None.
Proof.
  induction s as [|x s IH]; intros H; [reflexivity|].
  cbn [contains] in H. apply orb_false_iff in H as [H1 H2]. cbn [last_key]. rewrite IH by assumption.
  unfold try_key. now rewrite starts_strip.
Qed.
Lemma last_key_skip k key A T : forallb (fun c => negb (c =? k)) A = true ->
  last_key (k :: key) (A ++ T) = last_key (k :: key) T.
Proof.
  induction A as [|x A IH]; intros H; [reflexivity|].
  cbn in H. apply andb_prop in H as [Hx HA]. apply negb_true_iff in Hx.
  cbn [app last_key]. rewrite IH by assumption. destruct (last_key (k :: key) T); [reflexivity|].
  unfold try_key. rewrite strip_prefix_head; [reflexivity | now rewrite N.eqb_sym].
Qed.

(* ---- ipmitool's time-out line, for every channel / netfn / lun / command number ---- *)
Theorem timeout_line_mapping chn netfn lun cmd rc : (rc =? 127) = false ->
  receive (timeout_line chn netfn lun cmd) rc = Err TimeoutError.
Proof.
  intros Hrc. unfold timeout_line.
  set (A := B "channel=0x" ++ hexl chn ++ B " netfn=0x" ++ hexl netfn ++ B " lun=0x" ++ hexl lun ++ B " ").
  set (line := unable_prefix ++ A ++ B "cmd=0x" ++ hexl cmd ++ [41]).
  replace (B "Unable to send RAW command (channel=0x" ++ hexl chn ++ B " netfn=0x" ++ hexl netfn ++
           B " lun=0x" ++ hexl lun ++ B " cmd=0x" ++ hexl cmd ++ B ")" ++ [10]) with (line ++ 10 :: [])
    by (subst line A; cbn [B bytes_of_string]; repeat (rewrite <- app_assoc; cbn [app]); reflexivity).
  assert (M : forall c, hexlow c = false -> mem c unable_prefix = false -> mem c (B "channel=0x") = false ->
                        mem c (B " netfn=0x") = false -> mem c (B " lun=0x") = false -> mem c (B " ") = false ->
                        mem c (B "cmd=0x") = false -> mem c [41] = false -> mem c line = false).
  { intros c Hc M1 M2 M3 M4 M5 M6 M7. subst line A. rewrite !mem_app.
    rewrite M1, M2, M3, M4, M5, M6, M7, !(mem_hex c) by (assumption || apply hexl_hexlow). reflexivity. }
  apply timeout_rule; try assumption.
  - apply nomem_forallb. apply M; reflexivity.
  - apply (contains_absent _ _ 105); [cbn; auto 10 | apply nomem_in; apply M; reflexivity].
  - unfold timeout_match. subst line. rewrite strip_prefix_app.
    destruct (last_key_here (B "cmd=0x") (B "cmd=0x" ++ hexl cmd ++ [41]) (hexl cmd)) as (h' & Hh).
    + apply try_key_here; [apply hexl_ne | apply hexl_hexlow].
    + discriminate.
    + now rewrite (last_key_later _ _ _ Hh).
Qed.

(* ---- the rsp=0xNN line ---- *)
(* the completion code scanner finds exactly cc, whatever precedes "rsp=" and whatever text
   follows the parenthesis (as long as the text holds no further "rsp=0x") *)
Lemma cc_match_rsp pre cc text : cc < 256 -> contains (B "rsp=0x") text = false ->
  cc_match (unable_prefix ++ pre ++ B "rsp=0x" ++ hexl cc ++ B "): " ++ text) = Some cc.
Proof.
  intros Hcc Ht. unfold cc_match. rewrite strip_prefix_app.
  destruct (hex2_facts cc Hcc) as (_ & _ & _ & Hh & Hne & Hv).
  assert (E : last_key (B "rsp=0x") (B "rsp=0x" ++ hexl cc ++ B "): " ++ text) = Some (hexl cc)).
  { change (B "rsp=0x" ++ hexl cc ++ B "): " ++ text)
      with (114 :: (B "sp=0x" ++ hexl cc ++ B "): " ++ text)).
    cbn [last_key].
    replace (B "sp=0x" ++ hexl cc ++ B "): " ++ text) with ((B "sp=0x" ++ hexl cc ++ B "): ") ++ text)
      by now rewrite <- !app_assoc.
    change (B "rsp=0x") with (114 :: B "sp=0x") at 1.
    rewrite last_key_skip.
    - change (114 :: B "sp=0x") with (B "rsp=0x"). rewrite no_key_anywhere by assumption.
      rewrite <- !app_assoc.
      change (114 :: B "sp=0x" ++ hexl cc ++ B "): " ++ text)
        with (B "rsp=0x" ++ hexl cc ++ 41 :: (B ": " ++ text)).
      now apply try_key_here.
    - apply nomem_forallb. rewrite !mem_app, (mem_hex 114 (hexl cc)) by (reflexivity || assumption). reflexivity. }
  rewrite (last_key_later _ _ _ E). now rewrite Hv.
Qed.

Theorem rsp_line_mapping chn netfn lun cmd cc text rc :
  cc < 256 -> (rc =? 127) = false -> no_nl text = true -> contains (B "rsp=0x") text = false ->
  contains (B "failed") (rsp_body chn netfn lun cmd cc text) = false ->
  timeout_match (rsp_body chn netfn lun cmd cc text) = false ->
  contains (B "Unable to establish") (rsp_body chn netfn lun cmd cc text) = false ->
  receive (rsp_line chn netfn lun cmd cc text) rc = Ok [cc].
Proof.
  intros Hcc Hrc Hn Ht H1 H2 H3. unfold rsp_line.
  set (pre := B "channel=0x" ++ hexl chn ++ B " netfn=0x" ++ hexl netfn ++ B " lun=0x" ++ hexl lun ++
              B " cmd=0x" ++ hexl cmd ++ B " ").
  assert (E : rsp_body chn netfn lun cmd cc text =
              unable_prefix ++ pre ++ B "rsp=0x" ++ hexl cc ++ B "): " ++ text).
  { unfold rsp_body. subst pre. cbn [B bytes_of_string]. repeat (rewrite <- app_assoc; cbn [app]). reflexivity. }
  apply cc_rule; try assumption.
  - rewrite E. subst pre. unfold no_nl in *. rewrite !forallb_app, Hn.
    rewrite !(nomem_forallb 10) by (reflexivity || (apply mem_hex; [reflexivity | apply hexl_hexlow])).
    reflexivity.
  - rewrite E. now apply cc_match_rsp.
Qed.

Definition msg_case (e : err) (noise msg : list N) : bool :=
  res_eqb bytes_eqb (receive (noise ++ msg ++ [10]) 1) (Err e) &&
  res_eqb bytes_eqb (receive (noise ++ msg) 1) (Err e).
Lemma connection_sweep :
  forallb (fun n => forallb (msg_case ConnectionError n) connection_msgs) preceding_noise = true.
Proof. vm_compute. reflexivity. Qed.
Lemma long_password_sweep :
  forallb (fun n => forallb (msg_case LongPasswordError n) long_password_msgs) preceding_noise = true.
Proof. vm_compute. reflexivity. Qed.

Lemma error_mapping :
  (forall chn netfn lun cmd rc, (rc =? 127) = false ->
     receive (timeout_line chn netfn lun cmd) rc = Err TimeoutError) /\
  forallb (fun n => forallb (msg_case ConnectionError n) connection_msgs) preceding_noise = true /\
  forallb (fun n => forallb (msg_case LongPasswordError n) long_password_msgs) preceding_noise = true /\
  (forall rc, rc <> 0 -> rc <> 127 -> ping_result rc = Err TimeoutError) /\ ping_result 0 = Ok tt.
Proof.
  split; [exact timeout_line_mapping|]. split; [exact connection_sweep|].
  split; [exact long_password_sweep|]. split; [|reflexivity].
  intros rc H0 H127. unfold ping_result. apply N.eqb_neq in H0, H127. now rewrite H0, H127.
Qed.

Lemma error_rules : forall line more rc, no_nl line = true -> (rc =? 127) = false ->
  contains (B "failed") line = false ->
  (timeout_match line = true -> receive (line ++ 10 :: more) rc = Err TimeoutError) /\
  (timeout_match line = false -> contains (B "Unable to establish") line = true ->
     receive (line ++ 10 :: more) rc = Err ConnectionError) /\
  (timeout_match line = false -> contains (B "Unable to establish") line = false ->
     cc_match line = None -> contains (B "Could not open device") line = false ->
     contains (B "password is longer than") line = true ->
     receive (line ++ 10 :: more) rc = Err LongPasswordError).
Proof.
  intros line more rc Hn Hrc Hf. repeat split; intros.
  - now apply timeout_rule.
  - now apply connection_rule.
  - now apply long_password_rule.
Qed.

(* ================================================================== the rsp= line, in full *)
(* a pattern cannot straddle a character it does not contain *)
Lemma starts_sep pat c : ~ In c pat -> forall A T, starts pat (A ++ c :: T) = starts pat A.
Proof.
  induction pat as [|p pr IH]; intros Hc A T; [reflexivity|].
  destruct A as [|a A]; cbn [app starts].
  - destruct (p =? c) eqn:E; [|reflexivity].
    apply N.eqb_eq in E. subst. exfalso. apply Hc. now left.
  - rewrite IH; [reflexivity | intros H; apply Hc; now right].
Qed.
Lemma contains_sep pat c : ~ In c pat -> forall A T,
  contains pat (A ++ c :: T) = contains pat A || contains pat T.
Proof.
  intros Hc A T. induction A as [|a A IH].
  - cbn [app contains]. change (c :: T) with ([] ++ c :: T) at 1. rewrite (starts_sep pat c Hc).
    now rewrite orb_false_r.
  - cbn [app contains]. change (a :: A ++ c :: T) with ((a :: A) ++ c :: T).
    rewrite (starts_sep pat c Hc), IH. now rewrite orb_assoc.
Qed.
Lemma contains_cons_ne p pr x s : (p =? x) = false -> contains (p :: pr) (x :: s) = contains (p :: pr) s.
Proof. intros H. cbn [contains starts]. now rewrite H. Qed.

Lemma last_key_step key x s : try_key key (x :: s) = None -> last_key key (x :: s) = last_key key s.
Proof. intros H. cbn [last_key]. rewrite H. now destruct (last_key key s). Qed.
Lemma try_key_head k key x s : (k =? x) = false -> try_key (k :: key) (x :: s) = None.
Proof. intros H. unfold try_key. now rewrite strip_prefix_head. Qed.
Definition kcmd : list N := 99 :: 109 :: B "d=0x".
Lemma try_cmd_next x n s : (n =? 109) = false -> try_key kcmd (x :: n :: s) = None.
Proof.
  intros H. unfold try_key, kcmd. cbn [strip_prefix]. destruct (99 =? x); [|reflexivity].
  now rewrite N.eqb_sym, H.
Qed.
(* no 'm' in A (nor right after it): no "cmd=0x" can start inside A *)
Lemma last_key_skip_nom A : forall y T, mem 109 (A ++ [y]) = false ->
  last_key kcmd (A ++ y :: T) = last_key kcmd (y :: T).
Proof.
  induction A as [|a A IH]; intros y T H; [reflexivity|].
  unfold mem in H. cbn [app existsb] in H. apply orb_false_iff in H as [Ha HA].
  cbn [app]. rewrite last_key_step; [now apply IH|].
  destruct A as [|n A']; cbn [app].
  - apply try_cmd_next. cbn in HA. rewrite orb_false_r in HA. now rewrite N.eqb_sym.
  - apply try_cmd_next. cbn in HA. apply orb_false_iff in HA as [Hn _]. now rewrite N.eqb_sym.
Qed.
Lemma try_key_nomatch key h c r : forallb hexlow h = true -> hexlow c = false -> (41 =? c) = false ->
  try_key key (key ++ h ++ c :: r) = None.
Proof.
  intros H Hc H41. unfold try_key. rewrite strip_prefix_app, span_hex_app by assumption.
  destruct h; [reflexivity|]. cbn [starts]. now rewrite H41.
Qed.

(* side condition on the description text, decidable *)
Definition text_ok (text : list N) : bool :=
  no_nl text && negb (contains (B "failed") text) && negb (contains (B "Unable to establish") text) &&
  negb (contains (B "rsp=0x") text) && negb (contains (B "cmd=0x") text).

Section RspLine.
Variables chn netfn lun cmd cc : N.
Variable text : list N.
Hypothesis Hcc : cc < 256.
Hypothesis Htext : text_ok text = true.

Let pre := B "channel=0x" ++ hexl chn ++ B " netfn=0x" ++ hexl netfn ++ B " lun=0x" ++ hexl lun ++
           B " cmd=0x" ++ hexl cmd ++ B " ".
Let body := rsp_body chn netfn lun cmd cc text.

Lemma text_facts : no_nl text = true /\ contains (B "failed") text = false /\
  contains (B "Unable to establish") text = false /\ contains (B "rsp=0x") text = false /\
  contains (B "cmd=0x") text = false.
Proof.
  pose proof Htext as H. unfold text_ok in H.
  repeat (apply andb_prop in H; destruct H as [H ?]).
  repeat split; try assumption; now apply negb_true_iff.
Qed.

Lemma body_shape : body = unable_prefix ++ pre ++ B "rsp=0x" ++ hexl cc ++ B "): " ++ text.
Proof.
  unfold body, rsp_body, pre. cbn [B bytes_of_string].
  repeat (rewrite <- app_assoc; cbn [app]). reflexivity.
Qed.
(* everything up to the closing parenthesis *)
Let head := unable_prefix ++ pre ++ B "rsp=0x" ++ hexl cc.
Lemma body_split : body = head ++ 41 :: 58 :: 32 :: text.
Proof.
  rewrite body_shape. unfold head. cbn [B bytes_of_string]. repeat (rewrite <- app_assoc; cbn [app]). reflexivity.
Qed.
Lemma head_mem c : hexlow c = false -> mem c unable_prefix = false -> mem c (B "channel=0x") = false ->
  mem c (B " netfn=0x") = false -> mem c (B " lun=0x") = false -> mem c (B " cmd=0x") = false ->
  mem c (B " ") = false -> mem c (B "rsp=0x") = false -> mem c head = false.
Proof.
  intros Hc M1 M2 M3 M4 M5 M6 M7. unfold head, pre. rewrite !mem_app.
  rewrite M1, M2, M3, M4, M5, M6, M7.
  rewrite (mem_hex c (hexl chn)), (mem_hex c (hexl netfn)), (mem_hex c (hexl lun)), (mem_hex c (hexl cmd)),
    (mem_hex c (hexl cc)) by (assumption || apply hexl_hexlow). reflexivity.
Qed.

Lemma body_no_nl : no_nl body = true.
Proof.
  destruct text_facts as (Hn & _). rewrite body_split. unfold no_nl in *. rewrite forallb_app. cbn [forallb].
  rewrite Hn. rewrite (nomem_forallb 10) by (apply head_mem; reflexivity). reflexivity.
Qed.
Lemma body_no_failed : contains (B "failed") body = false.
Proof.
  destruct text_facts as (_ & Hf & _). rewrite body_split.
  rewrite contains_sep by (apply nomem_in; reflexivity).
  rewrite (contains_absent (B "failed") head 105); [| cbn; auto 10 | apply nomem_in; apply head_mem; reflexivity].
  change (B "failed") with (102 :: B "ailed"). rewrite !contains_cons_ne by reflexivity. exact Hf.
Qed.
Lemma body_no_establish : contains (B "Unable to establish") body = false.
Proof.
  destruct text_facts as (_ & _ & Hu & _). rewrite body_split.
  rewrite contains_sep by (apply nomem_in; reflexivity).
  rewrite (contains_absent (B "Unable to establish") head 105);
    [| cbn; auto 30 | apply nomem_in; apply head_mem; reflexivity].
  change (B "Unable to establish") with (85 :: B "nable to establish").
  rewrite !contains_cons_ne by reflexivity. exact Hu.
Qed.
Lemma body_no_timeout : timeout_match body = false.
Proof.
  destruct text_facts as (_ & _ & _ & _ & Hc).
  unfold timeout_match. rewrite body_shape, strip_prefix_app.
  change (B "cmd=0x") with kcmd.
  assert (E : last_key kcmd (pre ++ B "rsp=0x" ++ hexl cc ++ B "): " ++ text) = None); [|now rewrite E].
  set (A1 := B "channel=0x" ++ hexl chn ++ B " netfn=0x" ++ hexl netfn ++ B " lun=0x" ++ hexl lun).
  set (A2 := B "d=0x" ++ hexl cmd ++ B " rsp=0x" ++ hexl cc ++ B "):").
  replace (pre ++ B "rsp=0x" ++ hexl cc ++ B "): " ++ text)
    with (A1 ++ 32 :: (kcmd ++ hexl cmd ++ 32 :: (B "rsp=0x" ++ hexl cc ++ B "): " ++ text)))
    by (unfold pre, A1, kcmd; cbn [B bytes_of_string]; repeat (rewrite <- app_assoc; cbn [app]); reflexivity).
  rewrite last_key_skip_nom.
  2:{ unfold A1. rewrite !mem_app.
      rewrite (mem_hex 109 (hexl chn)), (mem_hex 109 (hexl netfn)), (mem_hex 109 (hexl lun))
        by (reflexivity || apply hexl_hexlow). reflexivity. }
  rewrite last_key_step by (apply try_key_head; reflexivity).
  change (kcmd ++ hexl cmd ++ 32 :: (B "rsp=0x" ++ hexl cc ++ B "): " ++ text))
    with (99 :: (109 :: (B "d=0x" ++ hexl cmd ++ 32 :: (B "rsp=0x" ++ hexl cc ++ B "): " ++ text)))).
  rewrite last_key_step.
  2:{ change (99 :: (109 :: (B "d=0x" ++ hexl cmd ++ 32 :: (B "rsp=0x" ++ hexl cc ++ B "): " ++ text))))
        with (kcmd ++ hexl cmd ++ 32 :: (B "rsp=0x" ++ hexl cc ++ B "): " ++ text)).
      apply try_key_nomatch; [apply hexl_hexlow | reflexivity | reflexivity]. }
  rewrite last_key_step by (apply try_key_head; reflexivity).
  replace (B "d=0x" ++ hexl cmd ++ 32 :: (B "rsp=0x" ++ hexl cc ++ B "): " ++ text)) with (A2 ++ 32 :: text)
    by (unfold A2; cbn [B bytes_of_string]; repeat (rewrite <- app_assoc; cbn [app]); reflexivity).
  rewrite last_key_skip_nom.
  2:{ unfold A2. rewrite !mem_app.
      rewrite (mem_hex 109 (hexl cmd)), (mem_hex 109 (hexl cc)) by (reflexivity || apply hexl_hexlow). reflexivity. }
  rewrite last_key_step by (apply try_key_head; reflexivity).
  now apply no_key_anywhere.
Qed.
Lemma body_cc : cc_match body = Some cc.
Proof. destruct text_facts as (_ & _ & _ & Hr & _). rewrite body_shape. now apply cc_match_rsp. Qed.

Theorem rsp_line_full rc : (rc =? 127) = false ->
  parse_output (rsp_line chn netfn lun cmd cc text) = Ok (Some cc, None) /\
  receive (rsp_line chn netfn lun cmd cc text) rc = Ok [cc].
Proof.
  intros Hrc. split.
  - unfold rsp_line. fold body. unfold parse_output. rewrite split_line by exact body_no_nl.
    cbn [parse_lines split_on]. now rewrite body_no_failed, body_no_timeout, body_no_establish, body_cc.
  - unfold rsp_line. fold body.
    apply cc_rule; auto using body_no_nl, body_no_failed, body_no_timeout, body_no_establish, body_cc.
Qed.
End RspLine.

Lemma cc_texts_ok : forallb text_ok cc_texts = true.
Proof. vm_compute. reflexivity. Qed.

(* exit status of the child (the rule in _run_ipmitool and the tail of send_and_receive_raw) *)
Lemma exit_status_rules :
  (forall out, receive out 127 = Err (OtherError OtherExc)) /\
  (forall out rc cc rsp, (rc =? 127) = false -> cc < 256 -> parse_output out = Ok (Some cc, rsp) ->
     receive out rc = Ok [cc]) /\
  (forall out rc rsp, (rc =? 127) = false -> rc <> 0 -> parse_output out = Ok (None, rsp) ->
     receive out rc = Err (OtherError OtherExc)) /\
  (forall out rsp, parse_output out = Ok (None, rsp) ->
     receive out 0 = Ok (0 :: match rsp with Some bs => bs | None => [] end)).
Proof.
  split; [reflexivity|]. split; [|split].
  - intros out rc cc rsp Hrc Hcc H. unfold receive. rewrite Hrc, H. cbn. apply N.ltb_lt in Hcc. now rewrite Hcc.
  - intros out rc rsp Hrc H0 H. unfold receive. rewrite Hrc, H. cbn. apply N.eqb_neq in H0. now rewrite H0.
  - intros out rsp H. unfold receive. change (0 =? 127) with false. cbn iota. now rewrite H.
Qed.
