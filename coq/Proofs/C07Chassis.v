(* C07 - chassis: boot options (boot flags, parameter 5) and chassis control. *)
From Coq Require Import String Ascii.
From Coq Require Import NArith ZArith List Bool Lia.
From PyIpmi Require Import Lib.Res Lib.Bytes Lib.Prog Model.ApiSem Model.Bmc Model.ApiRun Proofs.ApiRunProofs.
Import ListNotations.
Open Scope string_scope.
Open Scope list_scope.
Open Scope N_scope.

(* boot device selector, IPMI 2.0 table 28-14, boot flags data 2 bits 5:2 (written from the specification) *)
Definition boot_devices : list (string * N) := [
  ("no override", 0); ("pxe", 1); ("default hard drive", 2); ("default hard drive safe mode", 3);
  ("diagnostic partition", 4); ("cd", 5); ("bios setup", 6); ("remote removable media", 7);
  ("remote cd", 8); ("primary remote media", 9); ("remote hard drive", 11);
  ("primary removable media (usb)", 15)].

Definition boot_data (raw : N) (efi pers : bool) : list N :=
  [128 + (if pers then 64 else 0) + (if efi then 32 else 0); raw * 4; 0; 0; 0].
Definition mode_name (efi : bool) : string := if efi then "efi" else "legacy".
Definition boot_args (d : string * N) (efi pers : bool) : list (string * pv) :=
  [("boot_device", PStr (fst d)); ("boot_mode", PStr (mode_name efi)); ("boot_persistency", PBool pers)].
Definition boot_reply (d : string * N) (efi pers : bool) : reply :=
  RBytes (0 :: 1 :: 5 :: boot_data (snd d) efi pers).

Definition chk_boot (x : (string * N) * bool * bool) : bool :=
  let '(d, efi, pers) := x in
  exch_ok "set_boot_options" (boot_args d efi pers) (RBytes [0])
           (mkReq 0 8 0 (5 :: boot_data (snd d) efi pers)) (Ok PNone)
  && exch_ok "get_boot_device" [] (boot_reply d efi pers) (mkReq 0 9 0 [5; 0; 0]) (Ok (PStr (fst d)))
  && exch_ok "get_boot_mode" [] (boot_reply d efi pers) (mkReq 0 9 0 [5; 0; 0]) (Ok (PStr (mode_name efi)))
  && exch_ok "get_boot_persistency" [] (boot_reply d efi pers) (mkReq 0 9 0 [5; 0; 0]) (Ok (PBool pers)).

Definition boot_dom : list ((string * N) * bool * bool) :=
  flat_map (fun d => [(d, false, false); (d, false, true); (d, true, false); (d, true, true)]) boot_devices.
Lemma boot_table : forallb chk_boot boot_dom = true.
Proof. vm_cast_no_check (eq_refl true). Qed.

Lemma boot_dom_in d efi pers : List.In d boot_devices -> List.In (d, efi, pers) boot_dom.
Proof.
  intros H. unfold boot_dom. apply in_flat_map. exists d. split; [assumption |].
  destruct efi, pers; cbn; auto.
Qed.

Lemma bmc_set_boot5 s x d :
  bmc_handle s (mkReq 0 8 0 (5 :: x :: d)) =
  (put (put s (K_BOOTINV, 5, 0) [0]) (K_BOOT, 5, 0) (x :: d), RBytes [0]).
Proof. reflexivity. Qed.

Lemma bmc_get_boot5 s :
  bmc_handle s (mkReq 0 9 0 [5; 0; 0]) =
  (s, RBytes (0 :: 1 :: 5 + 128 * at_ (get s (K_BOOTINV, 5, 0)) 0 :: get s (K_BOOT, 5, 0))).
Proof. reflexivity. Qed.

Opaque one_exchange call bmc_handle.

Definition boot_state (s : store) (d : string * N) (efi pers : bool) : store :=
  put (put s (K_BOOTINV, 5, 0) [0]) (K_BOOT, 5, 0) (boot_data (snd d) efi pers).

Lemma write_read_boot s d efi pers : is_supported "set_boot_options" = true -> is_supported "get_boot_device" = true -> is_supported "get_boot_mode" = true -> is_supported "get_boot_persistency" = true -> List.In d boot_devices ->
  let s1 := boot_state s d efi pers in
  exists r1 r2 r3 r4,
    call "set_boot_options" (boot_args d efi pers) s = (r1, s1) /\ same r1 (Ok PNone) /\
    call "get_boot_device" [] s1 = (r2, s1) /\ same r2 (Ok (PStr (fst d))) /\
    call "get_boot_mode" [] s1 = (r3, s1) /\ same r3 (Ok (PStr (mode_name efi))) /\
    call "get_boot_persistency" [] s1 = (r4, s1) /\ same r4 (Ok (PBool pers)).
Proof.
  intros S1 S2 S3 S4 Hd s1.
  pose proof (table1 chk_boot boot_dom boot_table (d, efi, pers) (boot_dom_in d efi pers Hd)) as C.
  unfold chk_boot in C.
  apply andb_true_iff in C as [C R3]. apply andb_true_iff in C as [C R2]. apply andb_true_iff in C as [W R1].
  assert (BR : bmc_handle s1 (mkReq 0 9 0 [5; 0; 0]) = (s1, boot_reply d efi pers)).
  { rewrite bmc_get_boot5. unfold s1, boot_state. rewrite get_put_same.
    rewrite get_put_other by discriminate. rewrite get_put_same. reflexivity. }
  destruct (write_then_read "set_boot_options" "get_boot_device" _ _ s s1 _ _ _ _ _ _ S1 S2 W
              (bmc_set_boot5 s _ _) R1 BR) as (r1 & r2 & H1 & H2 & H3 & H4).
  destruct (read_only "get_boot_mode" _ s1 _ _ _ S3 R2 BR) as (r3 & H5 & H6).
  destruct (read_only "get_boot_persistency" _ s1 _ _ _ S4 R3 BR) as (r4 & H7 & H8).
  exists r1, r2, r3, r4. auto 10.
Qed.

(* ---- chassis control: the request that reaches the BMC is Chassis Control(option) ---- *)
Definition chk_control (o : N) : bool :=
  exch_ok "chassis_control" [arg "option" o] (RBytes [0]) (mkReq 0 2 0 [o]) (Ok PNone).
Lemma control_table : forallb chk_control (nrange 16) = true.
Proof. vm_cast_no_check (eq_refl true). Qed.

Definition wrappers : list (string * N) := [
  ("chassis_control_power_down", 0); ("chassis_control_power_up", 1); ("chassis_control_power_cycle", 2);
  ("chassis_control_hard_reset", 3); ("chassis_control_diagnostic_interrupt", 4); ("chassis_control_soft_shutdown", 5)].
Definition chk_wrapper (w : string * N) : bool :=
  exch_ok (fst w) [] (RBytes [0]) (mkReq 0 2 0 [snd w]) (Ok PNone).
Lemma wrapper_table : forallb chk_wrapper wrappers = true.
Proof. vm_cast_no_check (eq_refl true). Qed.

(* whenever the reference BMC accepts Chassis Control(o) in state s, the call returns None and
   leaves the BMC in exactly the state of that transition *)
Lemma write_chassis_control s o s' : is_supported "chassis_control" = true -> o < 16 ->
  bmc_handle s (mkReq 0 2 0 [o]) = (s', RBytes [0]) ->
  exists r, call "chassis_control" [arg "option" o] s = (r, s') /\ same r (Ok PNone).
Proof.
  intros Sw Ho B. pose proof (table1 chk_control (nrange 16) control_table o (nrange_in 16 o Ho)) as C.
  exact (write_only "chassis_control" _ s s' _ _ _ Sw C B).
Qed.

Lemma write_chassis_wrapper s w s' : is_supported (fst w) = true -> List.In w wrappers ->
  bmc_handle s (mkReq 0 2 0 [snd w]) = (s', RBytes [0]) ->
  exists r, call (fst w) [] s = (r, s') /\ same r (Ok PNone).
Proof.
  intros Sw Hw B. pose proof (table1 chk_wrapper wrappers wrapper_table w Hw) as C.
  exact (write_only (fst w) _ s s' _ _ _ Sw C B).
Qed.

(* what Chassis Control does to the reference BMC (power up shown; by byte position) *)
Transparent bmc_handle.
Lemma bmc_power_up s : let st := get s (K_CHASSIS, 0, 0) in
  bmc_handle s (mkReq 0 2 0 [1]) =
  (put (put s (K_CHASSIS, 0, 0) [at_ st 0 - at_ st 0 mod 2 + 1; at_ st 1 - 16 * bit (at_ st 1) 4 + 16; at_ st 2; at_ st 3])
       (K_LASTCTL, 0, 0) [1], RBytes [0]).
Proof. reflexivity. Qed.
