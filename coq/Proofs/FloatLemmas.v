(* C17, analytic float level: IEEE-754 binary64 facts about Coq's primitive floats through Flocq
   (Flocq.IEEE754.PrimFloat relates PrimFloat operations to BinarySingleNaN): relative error of one
   multiplication / addition / subtraction, exact int -> float conversion. *)
From Coq Require Import ZArith Reals Lia Lra Floats Uint63 Psatz.
From Flocq Require Import Core BinarySingleNaN Relative Plus_error.
From Flocq Require Import IEEE754.PrimFloat.
From PyIpmi Require Import Lib.Res Model.SensorConv Model.SensorConvF.
Open Scope R_scope.

Definition FR (f : PrimFloat.float) : R := B2R (Prim2B f).
Definition fin (f : PrimFloat.float) : Prop := is_finite (Prim2B f) = true.
Definition u : R := bpow radix2 (-53).
Definition eta : R := bpow radix2 (-1075).

Notation fexp64 := (SpecFloat.fexp FloatOps.prec FloatOps.emax).
Notation rnd64 := (round radix2 fexp64 (round_mode mode_NE)).

Lemma fexp64_FLT : forall e, fexp64 e = FLT_exp (-1074) 53 e.
Proof. intros e. reflexivity. Qed.

Lemma no_overflow x : Rabs x <= bpow radix2 1000 -> Rlt_bool (Rabs (rnd64 x)) (bpow radix2 FloatOps.emax) = true.
Proof.
  intros H. apply Rlt_bool_true. apply Rle_lt_trans with (bpow radix2 1000).
  - apply abs_round_le_generic; [apply fexp_correct; reflexivity | apply valid_rnd_round_mode | | exact H].
    apply generic_format_bpow. cbv. discriminate.
  - apply bpow_lt. reflexivity.
Qed.

Lemma u_ro_le : u_ro radix2 53 / (1 + u_ro radix2 53) <= u.
Proof.
  unfold u, u_ro. change (/ 2 * bpow radix2 (- (53) + 1)) with (/2 * bpow radix2 (-52)).
  replace (/2 * bpow radix2 (-52)) with (bpow radix2 (-53)).
  2:{ change (-52)%Z with (-53 + 1)%Z. rewrite bpow_plus. simpl (bpow radix2 1). lra. }
  assert (0 < bpow radix2 (-53)) by apply bpow_gt_0.
  apply Rle_trans with (bpow radix2 (-53) / 1); [|lra].
  unfold Rdiv. apply Rmult_le_compat_l; [lra|]. apply Rinv_le; lra.
Qed.
Lemma half_emin : / 2 * bpow radix2 (-1074) = eta.
Proof. unfold eta. change (-1074)%Z with (-1075 + 1)%Z. rewrite bpow_plus. simpl (bpow radix2 1). lra. Qed.

Lemma round_err x : exists e h, Rabs e <= u /\ Rabs h <= eta /\ rnd64 x = x * (1 + e) + h.
Proof.
  destruct (relative_error_N_FLT'_ex radix2 (-1074) 53 ltac:(lia) (fun x => negb (Z.even x)) x) as (e & h & He & Hh & _ & E).
  exists e, h. split; [eapply Rle_trans; [exact He | apply u_ro_le]|]. split; [rewrite <- half_emin; exact Hh|].
  exact E.
Qed.

Lemma mulF a b : fin a -> fin b -> Rabs (FR a * FR b) <= bpow radix2 1000 ->
  fin (PrimFloat.mul a b) /\
  exists e h, Rabs e <= u /\ Rabs h <= eta /\ FR (PrimFloat.mul a b) = FR a * FR b * (1 + e) + h.
Proof.
  unfold fin, FR. intros Ha Hb Hx. rewrite mul_equiv.
  pose proof (Bmult_correct _ _ Hprec Hmax mode_NE (Prim2B a) (Prim2B b)) as C.
  rewrite (no_overflow _ Hx) in C. destruct C as (E & F & _).
  split; [rewrite F, Ha, Hb; reflexivity|]. rewrite E. apply round_err.
Qed.

Lemma addF a b : fin a -> fin b -> Rabs (FR a + FR b) <= bpow radix2 1000 ->
  fin (PrimFloat.add a b) /\
  exists e, Rabs e <= u /\ FR (PrimFloat.add a b) = (FR a + FR b) * (1 + e).
Proof.
  unfold fin, FR. intros Ha Hb Hx. rewrite add_equiv.
  pose proof (Bplus_correct _ _ Hprec Hmax mode_NE (Prim2B a) (Prim2B b) Ha Hb) as C.
  rewrite (no_overflow _ Hx) in C. destruct C as (E & F & _).
  split; [exact F|]. rewrite E.
  destruct (@FLT_plus_error_N_ex radix2 (-1074) 53 Hprec (fun x => negb (Z.even x))
              (B2R (Prim2B a)) (B2R (Prim2B b))) as (e & He & Ee).
  1,2: apply generic_format_B2R.
  exists e. split; [eapply Rle_trans; [exact He | apply u_ro_le] | exact Ee].
Qed.

Lemma subF a b : fin a -> fin b -> Rabs (FR a - FR b) <= bpow radix2 1000 ->
  fin (PrimFloat.sub a b) /\
  exists e, Rabs e <= u /\ FR (PrimFloat.sub a b) = (FR a - FR b) * (1 + e).
Proof.
  unfold fin, FR. intros Ha Hb Hx. rewrite sub_equiv.
  pose proof (Bminus_correct _ _ Hprec Hmax mode_NE (Prim2B a) (Prim2B b) Ha Hb) as C.
  rewrite (no_overflow _ Hx) in C. destruct C as (E & F & _).
  split; [exact F|]. rewrite E.
  destruct (@FLT_plus_error_N_ex radix2 (-1074) 53 Hprec (fun x => negb (Z.even x))
              (B2R (Prim2B a)) (- B2R (Prim2B b))) as (e & He & Ee).
  1: apply generic_format_B2R. 1: apply generic_format_opp, generic_format_B2R.
  exists e. split; [eapply Rle_trans; [exact He | apply u_ro_le] | exact Ee].
Qed.

(* float(z) is exact below 2^53 *)
Lemma of_uint63_exact z : (0 <= z < 2^53)%Z ->
  fin (PrimFloat.of_uint63 (Uint63.of_Z z)) /\ FR (PrimFloat.of_uint63 (Uint63.of_Z z)) = IZR z.
Proof.
  intros Hz. unfold fin, FR. rewrite of_int63_equiv.
  assert (Ez : Uint63.to_Z (Uint63.of_Z z) = z).
  { rewrite Uint63.of_Z_spec. apply Z.mod_small. change wB with (2^63)%Z. lia. }
  rewrite Ez.
  pose proof (binary_normalize_correct _ _ Hprec Hmax mode_NE z 0 false) as C. cbv zeta in C.
  assert (EF : F2R (Float radix2 z 0) = IZR z) by (unfold F2R; simpl; ring).
  assert (G : generic_format radix2 fexp64 (IZR z)).
  { apply generic_format_FLT. apply (FLT_spec _ _ _ _ (Float radix2 z 0)); [now rewrite EF | simpl; change (Z.pow_pos 2 53) with (2^53)%Z; lia | cbv; discriminate]. }
  rewrite EF in C. rewrite round_generic in C; [|apply valid_rnd_round_mode | exact G].
  rewrite Rlt_bool_true in C.
  - destruct C as (E & F & _). split; assumption.
  - rewrite <- abs_IZR. apply Rlt_le_trans with (IZR (2^53)); [apply IZR_lt; lia|].
    change (IZR (2^53)) with (bpow radix2 53). apply bpow_le. unfold FloatOps.emax. lia.
Qed.

Lemma of_Z_exact z : (Z.abs z < 2^53)%Z -> fin (of_Z z) /\ FR (of_Z z) = IZR z.
Proof.
  intros Hz. unfold of_Z. destruct (Z.ltb_spec z 0).
  - destruct (of_uint63_exact (- z)) as (F & E); [lia|].
    unfold fin, FR in *. rewrite opp_equiv. rewrite is_finite_Bopp, B2R_Bopp, E, opp_IZR.
    split; [exact F | ring_simplify; f_equal; lia].
  - apply of_uint63_exact. lia.
Qed.
