(* Lemmas for C20, part 2: a single-call command sends the request of the corresponding API call.
   Both sides are computed from tables REGENERATED on every run: Gen/CliTable.v (call_specs) and
   Gen/ApiContent.v + Gen/Layouts.v (through Model/ApiSem.v / ApiRun.v). *)
From Coq Require Import String Ascii.
From Coq Require Import NArith ZArith List Bool Lia.
From PyIpmi Require Import Lib.Res Lib.Bytes Lib.Prog Model.ApiSem Model.ApiRun Model.Cli Model.CliApi Proofs.CliProofs.
Import ListNotations.
Open Scope string_scope.
Open Scope list_scope.
(* Model.ApiSem has a constructor In (comparison operator) *)
Notation In := List.In (only parsing).

(* ------------------------------------------------------------------ same request as the API call *)
(* Specification side: the API call that corresponds to a command (property text), with NAMED
   arguments: a constant, or the k-th number on the command line, which ranges over [0, bound). *)
Inductive argsrc := SConst (z : Z) | SArg (k : nat) (bound : nat).
Record cli_api := mkCA { ca_cmd : string; ca_method : string; ca_args : list (string * argsrc);
                         ca_hex : bool (* the tool reads the numbers with base 0: hex allowed *) }.

Definition cli_api_spec : list cli_api := [
  mkCA "bmc info" "get_device_id" [] false;
  mkCA "bmc reset cold" "cold_reset" [] false;
  mkCA "bmc reset warm" "warm_reset" [] false;
  mkCA "sensor rearm" "rearm_sensor_events" [("sensor_number", SArg 0 256)] true;
  mkCA "picmg frucontrol cr" "fru_control_cold_reset" [("fru_id", SConst 0)] false;
  mkCA "picmg power get" "get_power_level" [("fru_id", SConst 0); ("power_type", SConst 0)] false;
  mkCA "picmg portstate get" "get_port_state" [("channel_number", SArg 0 64); ("channel_interface", SArg 1 4)] false;
  mkCA "picmg channel status" "get_power_channel_status" [("start", SArg 0 256)] false;
  mkCA "picmg send heartbeat" "send_pm_heartbeat" [] false;
  mkCA "chassis status" "get_chassis_status" [] false;
  mkCA "chassis power off" "chassis_control" [("option", SConst 0)] false;
  mkCA "chassis power on" "chassis_control" [("option", SConst 1)] false;
  mkCA "chassis power cycle" "chassis_control" [("option", SConst 2)] false;
  mkCA "chassis power reset" "chassis_control" [("option", SConst 3)] false;
  mkCA "chassis power diag" "chassis_control" [("option", SConst 4)] false;
  mkCA "chassis power soft" "chassis_control" [("option", SConst 5)] false ].

(* commands whose handlers loop, call several operations, convert non-integers, or whose operation is
   outside the translated fragment: "same requests as the API" is decided for them by the oracle of
   the check (harness/c20.py), `raw` by C20_raw *)
Definition oracle_only : list string := [
  "sel list"; "sel clear"; "sdr list"; "sdr raw"; "sdr show"; "sdr showall"; "fru print";
  "picmg portstate getall"; "picmg channel power"; "raw"; "hpm capabilities"; "hpm check"; "hpm install"].

Definition nslots (e : cli_api) : nat :=
  fold_right (fun a m => match snd a with SArg k _ => Nat.max (S k) m | SConst _ => m end) O (ca_args e).
Definition slot_bound (e : cli_api) (k : nat) : nat :=
  fold_right (fun a m => match snd a with SArg k' b => if Nat.eqb k k' then b else m | SConst _ => m end) O (ca_args e).

(* all value vectors for the numeric command-line arguments of e *)
Fixpoint vectors (bounds : list nat) : list (list N) :=
  match bounds with
  | [] => [[]]
  | b :: t => flat_map (fun n => map (cons n) (vectors t)) (map N.of_nat (seq 0 b))
  end.
Definition arg_domain (e : cli_api) : list (list N) := vectors (map (slot_bound e) (seq 0 (nslots e))).

Definition named_args (e : cli_api) (ns : list N) : list (string * pv) :=
  map (fun a => (fst a, PInt (match snd a with SConst z => z | SArg k _ => Z.of_N (nth k ns 0%N) end))) (ca_args e).
Definition render_args (e : cli_api) (hex : bool) (ns : list N) : list string :=
  map (fun n => if ca_hex e then num_str hex n else dec_str n) ns.

Definition same_request_at (specs : list (string * callspec)) (e : cli_api) (ns : list N) (hex : bool) : bool :=
  match cli_request specs (ca_cmd e) (render_args e hex ns), first_request (ca_method e) (named_args e ns) with
  | Some a, Some b => request_eqb a b
  | _, _ => false
  end.

(* DOWNGRADE RULE.  Both sides of the comparison are computed through operations that the API translator
   (gen/gen_api.py, apifrag) regenerates on every run.  When it refuses an operation in this run (after a
   refactoring of the library it does not yet read) the entry cannot be computed: it is then NOT claimed by
   the theorem in this run - [entry_translated] is its hypothesis - and is decided, like the [oracle_only]
   entries, by the oracle of the check (request log of the CLI run = request log of the API call on an
   identical BMC); the check lists it in the evidence as `same_request_downgraded` and fails if the oracle
   did not pass for it.  An entry whose operations do translate keeps the theorem. *)
Definition entry_translated (specs : list (string * callspec)) (e : cli_api) : bool :=
  cli_translated specs (ca_cmd e) && is_supported (ca_method e).

Definition same_request_b (cmds : list command) (specs : list (string * callspec)) : bool :=
  forallb (fun e => if entry_translated specs e
                    then forallb (fun ns => forallb (same_request_at specs e ns) [false; true]) (arg_domain e)
                    else true) cli_api_spec
  && forallb (fun c => str_in (c_name c) (map ca_cmd cli_api_spec) || str_in (c_name c) oracle_only) cmds
  && forallb (fun e => str_in (ca_cmd e) (map c_name cmds)) cli_api_spec.

Lemma same_request_sound cmds specs : same_request_b cmds specs = true ->
  (forall e, In e cli_api_spec -> entry_translated specs e = true ->
     forall ns, In ns (arg_domain e) -> forall hex : bool,
     exists r, cli_request specs (ca_cmd e) (render_args e hex ns) = Some r /\
               first_request (ca_method e) (named_args e ns) = Some r) /\
  (forall c, In c cmds -> In (c_name c) (map ca_cmd cli_api_spec) \/ In (c_name c) oracle_only) /\
  (forall e, In e cli_api_spec -> In (ca_cmd e) (map c_name cmds)).
Proof.
  unfold same_request_b. rewrite !andb_true_iff. intros [[A B] D]. split; [|split].
  - intros e Ie T ns Ins hex. rewrite forallb_forall in A. specialize (A e Ie). rewrite T in A.
    rewrite forallb_forall in A. specialize (A ns Ins). rewrite forallb_forall in A.
    assert (Ih : In hex [false; true]) by (destruct hex; cbn; auto). specialize (A hex Ih).
    unfold same_request_at in A.
    destruct (cli_request specs (ca_cmd e) (render_args e hex ns)) as [a|]; [|discriminate].
    destruct (first_request (ca_method e) (named_args e ns)) as [b|]; [|discriminate].
    exists a. split; [reflexivity|]. f_equal. symmetry. apply request_eqb_eq. exact A.
  - intros c Ic. rewrite forallb_forall in B. specialize (B c Ic). apply orb_true_iff in B.
    unfold str_in in B. destruct B as [B|B]; apply existsb_exists in B; destruct B as (x & Ix & E);
      apply String.eqb_eq in E; subst x; auto.
  - intros e Ie. rewrite forallb_forall in D. specialize (D e Ie). unfold str_in in D.
    apply existsb_exists in D. destruct D as (x & Ix & E). apply String.eqb_eq in E. subst x. exact Ix.
Qed.

(* the chassis power sub-commands: the common request is Chassis Control with the IPMI code *)
Definition power_bytes_b : bool :=
  negb (is_supported "chassis_control") ||
  forallb (fun sc => match first_request "chassis_control" [("option", PInt (Z.of_N (snd sc)))] with
                     | Some r => request_eqb r (mkReq 0 2 0 [snd sc])
                     | None => false
                     end) power_spec.
Lemma power_bytes_sound : power_bytes_b = true -> is_supported "chassis_control" = true ->
  forall sub code, In (sub, code) power_spec ->
  first_request "chassis_control" [("option", PInt (Z.of_N code))] = Some (mkReq 0 2 0 [code]).
Proof.
  unfold power_bytes_b. intros A T sub code I. rewrite T in A. cbn [negb orb] in A. rewrite forallb_forall in A. specialize (A (sub, code) I). cbn [snd] in A.
  destruct (first_request _ _) as [r|]; [|discriminate]. apply request_eqb_eq in A. subst r. reflexivity.
Qed.
