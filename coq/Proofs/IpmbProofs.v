(* Proofs about Model/Ipmb.v (C03). *)
From Coq Require Import NArith List Lia ZArith ZifyN ZifyBool ZifyNat Bool.
From PyIpmi Require Import Lib.Res Lib.Bytes Lib.Bits Model.Ipmb.
Import ListNotations.
Open Scope N_scope.
Ltac Zify.zify_post_hook ::= Z.to_euclidean_division_equations.

Lemma checksum_zero l : (sum l + checksum l) mod 256 = 0.
Proof. unfold checksum. lia. Qed.

Lemma checksum_is_byte l : checksum l < 256.
Proof. unfold checksum. lia. Qed.

Lemma checksum_eq0 l : checksum l = 0 <-> sum256 l = 0.
Proof. unfold checksum, sum256. lia. Qed.

(* appending the checksum of a list makes the byte sum zero *)
Lemma sum256_with_checksum l : sum256 (l ++ [checksum l]) = 0.
Proof. unfold sum256. rewrite sum_app. cbn [sum]. rewrite N.add_0_r. apply checksum_zero. Qed.

Definition hdr_in_range (h : hdr) : Prop :=
  rs_sa h < 256 /\ rs_lun h < 4 /\ rq_sa h < 256 /\ rq_lun h < 4 /\
  rq_seq h < 64 /\ netfn h < 64 /\ cmdid h < 256.

Definition payload (f : list N) : list N := firstn (length f - 7) (skipn 6 f).

Lemma frame_ok h d : hdr_in_range h -> bytes_ok d = true ->
  exists f, encode_ipmb_msg h d = Ok f /\
    length f = (7 + length d)%nat /\ bytes_ok f = true /\
    sum256 (firstn 3 f) = 0 /\ sum256 (skipn 3 f) = 0 /\
    (exists c, hdr_req_decode f = Ok (h, c)) /\ payload f = d.
Proof.
  intros (H1 & H2 & H3 & H4 & H5 & H6 & H7) Hd.
  unfold encode_ipmb_msg, hdr_req_encode, arr_bytes.
  rewrite !byte62_enc by assumption.
  set (b1 := netfn h * 4 + rs_lun h). set (b4 := rq_seq h * 4 + rq_lun h).
  set (c := checksum [rs_sa h; b1]).
  assert (Hc : c < 256) by apply checksum_is_byte.
  assert (Hok : bytes_ok [rs_sa h; b1; c; rq_sa h; b4; cmdid h] = true).
  { cbn. unfold is_byte. subst b1 b4. lia. }
  rewrite Hok. cbn [bind]. rewrite Hd. cbn [bind].
  eexists. split; [reflexivity|].
  set (tail := rq_sa h :: b4 :: cmdid h :: d).
  split; [cbn; rewrite app_length; cbn; lia|].
  split. { rewrite !bytes_ok_app, Hok, Hd. cbn [bytes_ok forallb andb].
           match goal with |- context [is_byte (checksum ?l)] => pose proof (checksum_is_byte l) end.
           unfold is_byte. lia. }
  split. { cbn [app firstn]. change [rs_sa h; b1; c] with ([rs_sa h; b1] ++ [c]). apply sum256_with_checksum. }
  split. { cbn [app skipn]. apply (sum256_with_checksum tail). }
  split. { exists c. cbn [app hdr_req_decode]. rewrite !byte62_hi, !byte62_lo. subst b1 b4.
           destruct h as [a b c0 d0 e f g]; cbn in *. do 2 f_equal. f_equal; lia. }
  unfold payload. rewrite !app_length. cbn [length].
  replace (6 + length d + 1 - 7)%nat with (length d) by lia.
  cbn [app skipn]. now rewrite firstn_app_exact.
Qed.

(* ---- the reply filter ---- *)
Definition nthN (i : nat) (l : list N) : N := nth i l 0.

Definition filter_spec (h : hdr) (f : list N) (o : rxopts) : Prop :=
  (6 <= length f)%nat /\
  sum256 (firstn 3 f) = 0 /\ sum256 (skipn 3 f) = 0 /\
  nthN 1 f / 4 = N.lor (netfn h) 1 /\ nthN 5 f = cmdid h /\
  (o_rq_sa o = true -> nthN 0 f = rq_sa h) /\
  (o_rs_sa o = true -> nthN 3 f = rs_sa h) /\
  (o_rq_lun o = true -> nthN 1 f mod 4 = rq_lun h) /\
  (o_rs_lun o = true -> nthN 4 f mod 4 = rs_lun h) /\
  (o_rq_seq o = true -> nthN 4 f / 4 = rq_seq h).

Lemma rx_filter_iff h f o : rx_filter h f o = Ok true <-> filter_spec h f o.
Proof.
  unfold filter_spec, nthN.
  destruct f as [|d0 [|d1 [|d2 [|d3 [|d4 [|d5 r]]]]]];
    try (cbn; split; [discriminate | intros [Hl _]; cbn in Hl; lia]).
  unfold rx_filter. cbn [hdr_rsp_decode bind]. cbn [netfn cmdid rq_sa rs_sa rq_lun rs_lun rq_seq nth].
  rewrite !byte62_hi, !byte62_lo.
  set (c1 := checksum (firstn 3 _)). set (c2 := checksum (skipn 3 _)).
  pose proof (checksum_eq0 (firstn 3 (d0 :: d1 :: d2 :: d3 :: d4 :: d5 :: r))) as E1.
  pose proof (checksum_eq0 (skipn 3 (d0 :: d1 :: d2 :: d3 :: d4 :: d5 :: r))) as E2.
  fold c1 in E1. fold c2 in E2.
  destruct o as [o1 o2 o3 o4 o5]; cbn [o_rq_sa o_rs_sa o_rq_lun o_rs_lun o_rq_seq].
  split.
  - intros H. injection H as H. repeat rewrite andb_true_iff in H.
    destruct H as [[[[[[[[A1 A2] A3] A4] A5] A6] A7] A8] A9].
    split; [cbn; lia|]. split; [apply E1; lia|]. split; [apply E2; lia|].
    split; [lia|]. split; [lia|].
    repeat split; intros ->; lia.
  - intros (_ & B1 & B2 & B3 & B4 & B5 & B6 & B7 & B8 & B9). f_equal.
    apply E1 in B1. apply E2 in B2.
    repeat rewrite andb_true_iff. repeat split; try lia.
    + destruct o1; [specialize (B5 eq_refl)|]; lia.
    + destruct o2; [specialize (B6 eq_refl)|]; lia.
    + destruct o3; [specialize (B7 eq_refl)|]; lia.
    + destruct o4; [specialize (B8 eq_refl)|]; lia.
    + destruct o5; [specialize (B9 eq_refl)|]; lia.
Qed.

(* ---- single-byte corruption ---- *)
Fixpoint upd (l : list N) (i : nat) (x : N) : list N :=
  match l, i with
  | [], _ => []
  | _ :: r, O => x :: r
  | y :: r, S i' => y :: upd r i' x
  end.

Lemma upd_length l : forall i x, length (upd l i x) = length l.
Proof. induction l as [|y r IH]; intros [|i] x; cbn; auto. Qed.

Lemma sum_upd l : forall i x, (i < length l)%nat -> sum (upd l i x) + nth i l 0 = sum l + x.
Proof.
  induction l as [|y r IH]; intros [|i] x Hi; cbn in *; try lia.
  specialize (IH i x ltac:(lia)). lia.
Qed.

Lemma firstn_upd_lt l : forall n i x, (i < n)%nat -> firstn n (upd l i x) = upd (firstn n l) i x.
Proof.
  induction l as [|y r IH]; intros [|n] [|i] x H; cbn; try reflexivity; try lia.
  f_equal. apply IH. lia.
Qed.
Lemma firstn_upd_ge l : forall n i x, (n <= i)%nat -> firstn n (upd l i x) = firstn n l.
Proof.
  induction l as [|y r IH]; intros [|n] [|i] x H; cbn; try reflexivity; try lia.
  f_equal. apply IH. lia.
Qed.
Lemma skipn_upd_lt l : forall n i x, (i < n)%nat -> skipn n (upd l i x) = skipn n l.
Proof.
  induction l as [|y r IH]; intros [|n] [|i] x H; cbn; try reflexivity; try lia.
  apply IH. lia.
Qed.
Lemma skipn_upd_ge l : forall n i x, (n <= i)%nat -> skipn n (upd l i x) = upd (skipn n l) (i - n) x.
Proof.
  induction l as [|y r IH]; intros n i x H.
  - destruct n; reflexivity.
  - destruct n as [|n]; [now rewrite Nat.sub_0_r|].
    destruct i as [|i]; [lia|]. cbn [upd skipn]. rewrite IH by lia. reflexivity.
Qed.
Lemma nth_firstn_lt (l : list N) : forall n i, (i < n)%nat -> nth i (firstn n l) 0 = nth i l 0.
Proof. induction l as [|y r IH]; intros [|n] [|i] H; cbn; try reflexivity; try lia. apply IH. lia. Qed.
Lemma nth_skipn (l : list N) : forall n i, nth i (skipn n l) 0 = nth (n + i) l 0.
Proof. induction l as [|y r IH]; intros [|n] i; cbn; try reflexivity; [now destruct i | apply IH]. Qed.

Lemma sum256_upd_changes l i x :
  (i < length l)%nat -> x < 256 -> nth i l 0 < 256 -> x <> nth i l 0 ->
  sum256 l = 0 -> sum256 (upd l i x) <> 0.
Proof.
  intros Hi Hx Hy Hne H0. pose proof (sum_upd l i x Hi) as E. unfold sum256 in *. lia.
Qed.

Lemma nth_is_byte l i : bytes_ok l = true -> nth i l 0 < 256.
Proof.
  intros H. destruct (Nat.lt_ge_cases i (length l)) as [Hi|Hi].
  - rewrite bytes_ok_In in H. apply H. now apply nth_In.
  - rewrite nth_overflow by assumption. lia.
Qed.

Lemma single_corruption h f o i b :
  rx_filter h f o = Ok true -> bytes_ok f = true -> (i < length f)%nat ->
  b < 256 -> b <> nth i f 0 -> rx_filter h (upd f i b) o <> Ok true.
Proof.
  intros Hacc Hok Hi Hb Hne Hacc'.
  apply rx_filter_iff in Hacc. apply rx_filter_iff in Hacc'.
  destruct Hacc as (Hl & S1 & S2 & _). destruct Hacc' as (_ & S1' & S2' & _).
  destruct (Nat.lt_ge_cases i 3) as [Hlt|Hge].
  - rewrite firstn_upd_lt in S1' by assumption.
    revert S1'. apply sum256_upd_changes; try assumption.
    + rewrite firstn_length. lia.
    + apply nth_is_byte. now apply bytes_ok_firstn.
    + rewrite nth_firstn_lt by assumption. exact Hne.
  - rewrite skipn_upd_ge in S2' by assumption.
    revert S2'. apply sum256_upd_changes; try assumption.
    + rewrite skipn_length. lia.
    + apply nth_is_byte. now apply bytes_ok_skipn.
    + rewrite nth_skipn. replace (3 + (i - 3))%nat with i by lia. exact Hne.
Qed.

(* short frames are never accepted *)
Lemma short_frame_rejected h f o : (length f < 6)%nat -> rx_filter h f o <> Ok true.
Proof. intros Hl H. apply rx_filter_iff in H. destruct H as [H _]. lia. Qed.
(* ---- completeness: what a conforming responder sends is accepted ---- *)
Lemma lor1_lt64 n : n < 64 -> N.lor n 1 < 64.
Proof.
  intros H. change 64 with (2^6).
  apply N.log2_lt_pow2.
  - assert (N.lor n 1 <> 0) by (rewrite N.lor_eq_0_iff; intros [_ E]; discriminate). lia.
  - rewrite N.log2_lor. change (N.log2 1) with 0. rewrite N.max_0_r.
    destruct (N.eq_dec n 0) as [->|Hn]; [reflexivity|].
    apply N.log2_lt_pow2; [lia|exact H].
Qed.

Lemma conforming_reply_accepted h body o : hdr_in_range h -> bytes_ok body = true ->
  exists f, rsp_frame h body = Ok f /\ length f = (7 + length body)%nat /\
            bytes_ok f = true /\ rx_filter h f o = Ok true /\ payload f = body.
Proof.
  intros (H1 & H2 & H3 & H4 & H5 & H6 & H7) Hd.
  pose proof (lor1_lt64 _ H6) as H6'.
  unfold rsp_frame, hdr_rsp_encode, arr_bytes, rsp_hdr_of.
  cbn [rs_sa rs_lun rq_sa rq_lun rq_seq netfn cmdid].
  rewrite !byte62_enc by assumption.
  set (nf := N.lor (netfn h) 1) in *.
  set (b1 := nf * 4 + rq_lun h). set (b4 := rq_seq h * 4 + rs_lun h).
  set (c := checksum [rq_sa h; b1]).
  assert (Hc : c < 256) by apply checksum_is_byte.
  assert (Hok : bytes_ok [rq_sa h; b1; c; rs_sa h; b4; cmdid h] = true).
  { cbn. unfold is_byte. subst b1 b4. lia. }
  rewrite Hok. cbn [bind]. rewrite Hd. cbn [bind].
  eexists. split; [reflexivity|].
  set (tail := rs_sa h :: b4 :: cmdid h :: body).
  split; [cbn; rewrite app_length; cbn; lia|].
  split. { rewrite !bytes_ok_app, Hok, Hd. cbn [bytes_ok forallb andb].
           match goal with |- context [is_byte (checksum ?l)] => pose proof (checksum_is_byte l) end.
           unfold is_byte. lia. }
  split.
  { apply rx_filter_iff. unfold filter_spec, nthN.
    split; [cbn; rewrite app_length; cbn; lia|].
    split. { cbn [app firstn]. change [rq_sa h; b1; c] with ([rq_sa h; b1] ++ [c]). apply sum256_with_checksum. }
    split. { cbn [app skipn]. apply (sum256_with_checksum tail). }
    cbn [app nth]. subst b1 b4.
    split; [lia|]. split; [reflexivity|].
    repeat match goal with |- _ /\ _ => split end; intros _; lia. }
  unfold payload. rewrite !app_length. cbn [length].
  replace (6 + length body + 1 - 7)%nat with (length body) by lia.
  cbn [app skipn]. now rewrite firstn_app_exact.
Qed.

(* a matching reply to a different sequence number or responder LUN is rejected
   under the default options (the ones every native transport uses) *)
Lemma other_seq_rejected h h' body f : hdr_in_range h -> hdr_in_range h' ->
  bytes_ok body = true -> rsp_frame h' body = Ok f ->
  (rq_seq h' <> rq_seq h \/ rs_lun h' <> rs_lun h \/ cmdid h' <> cmdid h \/
   N.lor (netfn h') 1 <> N.lor (netfn h) 1) ->
  rx_filter h f default_opts <> Ok true.
Proof.
  intros (H1 & H2 & H3 & H4 & H5 & H6 & H7) (G1 & G2 & G3 & G4 & G5 & G6 & G7) Hd Hf Hne Hacc.
  pose proof (lor1_lt64 _ G6) as G6'.
  apply rx_filter_iff in Hacc. unfold filter_spec, nthN in Hacc.
  revert Hf. unfold rsp_frame, hdr_rsp_encode, arr_bytes, rsp_hdr_of.
  cbn [rs_sa rs_lun rq_sa rq_lun rq_seq netfn cmdid].
  rewrite !byte62_enc by assumption.
  set (nf := N.lor (netfn h') 1) in *.
  set (nf0 := N.lor (netfn h) 1) in *.
  set (b1 := nf * 4 + rq_lun h'). set (b4 := rq_seq h' * 4 + rs_lun h').
  set (c := checksum [rq_sa h'; b1]).
  assert (Hc : c < 256) by apply checksum_is_byte.
  assert (Hok : bytes_ok [rq_sa h'; b1; c; rs_sa h'; b4; cmdid h'] = true).
  { cbn. unfold is_byte. subst b1 b4. lia. }
  rewrite Hok. cbn [bind]. rewrite Hd. cbn [bind].
  intros Hf. injection Hf as <-.
  destruct Hacc as (_ & _ & _ & A3 & A4 & _ & _ & _ & A8 & A9).
  cbn [app nth] in A3, A4, A8, A9. cbn [default_opts o_rs_lun o_rq_seq] in A8, A9.
  specialize (A8 eq_refl). specialize (A9 eq_refl). subst b1 b4. lia.
Qed.
