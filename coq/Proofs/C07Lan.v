(* C07 - LAN configuration parameters: VLAN id (20), IP address source (4), IP address (3). *)
From Coq Require Import String Ascii.
From Coq Require Import NArith ZArith List Bool Lia.
From PyIpmi Require Import Lib.Res Lib.Bytes Lib.Prog Model.ApiSem Model.Bmc Model.ApiRun Proofs.ApiRunProofs.
Import ListNotations.
Open Scope string_scope.
Open Scope list_scope.
Open Scope N_scope.

(* reference BMC: Set / Get LAN Configuration Parameters, for every state and payload *)
Lemma bmc_set_lan s ch p d : ch < 16 ->
  bmc_handle s (mkReq 12 1 0 (ch :: p :: d)) = (put s (K_LAN, ch, p) d, RBytes [0]).
Proof. intros H. unfold bmc_handle, h_transport. cbn. rewrite (N.mod_small ch 16 H). reflexivity. Qed.

Lemma bmc_get_lan s ch p : ch < 16 ->
  bmc_handle s (mkReq 12 2 0 [ch; p; 0; 0]) = (s, RBytes (0 :: 0x11 :: get s (K_LAN, ch, p))).
Proof.
  intros H. unfold bmc_handle, h_transport. cbn. unfold bit.
  assert (E : ch / 2 ^ 7 = 0) by (apply N.div_small; cbn; lia). rewrite E. cbn.
  rewrite (N.mod_small ch 16 H). reflexivity.
Qed.

(* ---- VLAN id ---- *)
Definition vlan_bytes (v : N) : list N := if v =? 0 then [0; 0] else [v mod 256; 128 + v / 256].
Definition chk_vlan (v ch : N) : bool :=
  exch_ok "set_vlan_id" [arg "vlan" v; arg "channel" ch] (RBytes [0])
           (mkReq 12 1 0 (ch :: 20 :: vlan_bytes v)) (Ok PNone)
  && exch_ok "get_vlan_id" [arg "channel" ch] (RBytes (0 :: 0x11 :: vlan_bytes v))
              (mkReq 12 2 0 [ch; 20; 0; 0]) (Ok (PInt (Z.of_N v))).

(* every VLAN id on channel 1; boundary ids on every channel *)
Definition vlan_boundary : list N := [0; 1; 2; 255; 256; 257; 394; 2047; 2048; 4094; 4095].
Definition vlan_dom (v ch : N) : Prop :=
  (v < 4096 /\ List.In ch [1]) \/ (List.In v vlan_boundary /\ ch < 16).

Lemma vlan_table1 : forallb (fun ch => forallb (fun v => chk_vlan v ch) (nrange 4096)) [1] = true.
Proof. vm_cast_no_check (eq_refl true). Qed.
Lemma vlan_table2 : forallb (fun ch => forallb (fun v => chk_vlan v ch) vlan_boundary) (nrange 16) = true.
Proof. vm_cast_no_check (eq_refl true). Qed.

Lemma vlan_chk v ch : vlan_dom v ch -> chk_vlan v ch = true /\ ch < 16.
Proof.
  intros [[Hv Hc] | [Hv Hc]].
  - split.
    + exact (table2 chk_vlan [1] (nrange 4096) vlan_table1 ch v Hc (nrange_in 4096 v Hv)).
    + destruct Hc as [<- | []]; lia.
  - split; [| assumption].
    exact (table2 chk_vlan (nrange 16) vlan_boundary vlan_table2 ch v (nrange_in 16 ch Hc) Hv).
Qed.

Opaque one_exchange call bmc_handle.

Lemma write_read_vlan s v ch : is_supported "set_vlan_id" = true -> is_supported "get_vlan_id" = true -> vlan_dom v ch ->
  exists r1 r2, let s1 := put s (K_LAN, ch, 20) (vlan_bytes v) in
    call "set_vlan_id" [arg "vlan" v; arg "channel" ch] s = (r1, s1) /\ same r1 (Ok PNone) /\
    call "get_vlan_id" [arg "channel" ch] s1 = (r2, s1) /\ same r2 (Ok (PInt (Z.of_N v))).
Proof.
  intros Sw Sr D. destruct (vlan_chk v ch D) as [C Hc]. unfold chk_vlan in C. apply andb_true_iff in C as [W R].
  assert (BR : bmc_handle (put s (K_LAN, ch, 20) (vlan_bytes v)) (mkReq 12 2 0 [ch; 20; 0; 0])
               = (put s (K_LAN, ch, 20) (vlan_bytes v), RBytes (0 :: 0x11 :: vlan_bytes v))).
  { rewrite (bmc_get_lan _ ch 20 Hc), get_put_same. reflexivity. }
  exact (write_then_read "set_vlan_id" "get_vlan_id" _ _ s _ _ _ _ _ _ _ Sw Sr
           W (bmc_set_lan s ch 20 (vlan_bytes v) Hc) R BR).
Qed.

(* ---- IP address source ---- *)
Definition src_name (k : N) : string := if k =? 1 then "static" else "dhcp".
Definition chk_ipsrc (k ch : N) : bool :=
  exch_ok "set_ip_source" [("ip_source", PStr (src_name k)); arg "channel" ch] (RBytes [0])
           (mkReq 12 1 0 [ch; 4; k]) (Ok PNone)
  && exch_ok "get_ip_source" [arg "channel" ch] (RBytes [0; 0x11; k])
              (mkReq 12 2 0 [ch; 4; 0; 0]) (Ok (PStr (src_name k))).
Lemma ipsrc_table : forallb (fun ch => forallb (fun k => chk_ipsrc k ch) [1; 2]) (nrange 16) = true.
Proof. vm_cast_no_check (eq_refl true). Qed.

Lemma write_read_ip_source s k ch : is_supported "set_ip_source" = true -> is_supported "get_ip_source" = true -> List.In k [1; 2] -> ch < 16 ->
  exists r1 r2, let s1 := put s (K_LAN, ch, 4) [k] in
    call "set_ip_source" [("ip_source", PStr (src_name k)); arg "channel" ch] s = (r1, s1) /\ same r1 (Ok PNone) /\
    call "get_ip_source" [arg "channel" ch] s1 = (r2, s1) /\ same r2 (Ok (PStr (src_name k))).
Proof.
  intros Sw Sr Hk Hc.
  pose proof (table2 chk_ipsrc (nrange 16) [1; 2] ipsrc_table ch k (nrange_in 16 ch Hc) Hk) as C.
  unfold chk_ipsrc in C. apply andb_true_iff in C as [W R].
  assert (BR : bmc_handle (put s (K_LAN, ch, 4) [k]) (mkReq 12 2 0 [ch; 4; 0; 0])
               = (put s (K_LAN, ch, 4) [k], RBytes [0; 0x11; k])).
  { rewrite (bmc_get_lan _ ch 4 Hc), get_put_same. reflexivity. }
  exact (write_then_read "set_ip_source" "get_ip_source" _ _ s _ _ _ _ _ _ _ Sw Sr
           W (bmc_set_lan s ch 4 [k] Hc) R BR).
Qed.

(* ---- IP address: octets from a boundary set, channel 1 ---- *)
Definition octets : list N := [0; 9; 10; 100; 255].
Definition ip_text (a b c d : N) : string :=
  (dec_of_N a ++ "." ++ dec_of_N b ++ "." ++ dec_of_N c ++ "." ++ dec_of_N d)%string.
Definition chk_ip (ch : N) (x : N * N * N * N) : bool :=
  let '(a, b, c, d) := x in
  exch_ok "set_ip_address" [("ip_address", PStr (ip_text a b c d)); arg "channel" ch] (RBytes [0])
           (mkReq 12 1 0 [ch; 3; a; b; c; d]) (Ok PNone)
  && exch_ok "get_ip_address" [arg "channel" ch] (RBytes [0; 0x11; a; b; c; d])
              (mkReq 12 2 0 [ch; 3; 0; 0]) (Ok (PStr (ip_text a b c d))).
Definition quads : list (N * N * N * N) :=
  flat_map (fun a => flat_map (fun b => flat_map (fun c => map (fun d => (a, b, c, d)) octets) octets) octets) octets.
Lemma ip_table : forallb (fun ch => forallb (fun x => chk_ip ch x) quads) [1] = true.
Proof. vm_cast_no_check (eq_refl true). Qed.

Lemma quads_in a b c d : List.In a octets -> List.In b octets -> List.In c octets -> List.In d octets ->
  List.In (a, b, c, d) quads.
Proof.
  intros Ha Hb Hc Hd. unfold quads.
  apply in_flat_map. exists a. split; [assumption |].
  apply in_flat_map. exists b. split; [assumption |].
  apply in_flat_map. exists c. split; [assumption |].
  apply in_map. assumption.
Qed.

Lemma write_read_ip_address s a b c d ch : is_supported "set_ip_address" = true -> is_supported "get_ip_address" = true -> 
  List.In a octets -> List.In b octets -> List.In c octets -> List.In d octets -> List.In ch [1] ->
  exists r1 r2, let s1 := put s (K_LAN, ch, 3) [a; b; c; d] in
    call "set_ip_address" [("ip_address", PStr (ip_text a b c d)); arg "channel" ch] s = (r1, s1) /\ same r1 (Ok PNone) /\
    call "get_ip_address" [arg "channel" ch] s1 = (r2, s1) /\ same r2 (Ok (PStr (ip_text a b c d))).
Proof.
  intros Sw Sr Ha Hb Hc Hd Hch.
  assert (Hlt : ch < 16) by (destruct Hch as [<- | []]; lia).
  pose proof (table2 (fun x ch => chk_ip ch x) [1] quads ip_table ch (a, b, c, d) Hch (quads_in a b c d Ha Hb Hc Hd)) as C.
  cbv beta in C. unfold chk_ip in C. apply andb_true_iff in C as [W R].
  assert (BR : bmc_handle (put s (K_LAN, ch, 3) [a; b; c; d]) (mkReq 12 2 0 [ch; 3; 0; 0])
               = (put s (K_LAN, ch, 3) [a; b; c; d], RBytes [0; 0x11; a; b; c; d])).
  { rewrite (bmc_get_lan _ ch 3 Hlt), get_put_same. reflexivity. }
  exact (write_then_read "set_ip_address" "get_ip_address" _ _ s _ _ _ _ _ _ _ Sw Sr
           W (bmc_set_lan s ch 3 [a; b; c; d] Hlt) R BR).
Qed.
