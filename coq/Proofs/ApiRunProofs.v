(* C07 - lemmas.  A generated operation that makes one exchange factorises into
   (request built from the arguments) ; (the BMC's transition) ; (result from the reply):
   the first and third parts are checked exhaustively over stated finite argument domains
   by vm_compute (they do not depend on the BMC state), the middle part is the reference
   BMC's transition, proved for every state. *)
From Coq Require Import String Ascii.
From Coq Require Import NArith ZArith List Bool Lia.
From PyIpmi Require Import Lib.Res Lib.Bytes Lib.Prog Model.Codec Model.ApiShape Model.ApiSem Model.Bmc
  Gen.Layouts Gen.ApiContent Model.ApiRun Proofs.ApiShapeProofs.
Import ListNotations.
Open Scope list_scope.
Open Scope N_scope.

(* ---- store ---- *)
Lemma key_eqb_refl k : key_eqb k k = true.
Proof. destruct k as [[a b] c]. cbn. rewrite !N.eqb_refl. reflexivity. Qed.

Lemma key_eqb_eq k k' : key_eqb k k' = true -> k = k'.
Proof.
  destruct k as [[a b] c], k' as [[d e] f]. cbn. intros H.
  apply andb_true_iff in H as [H H3]. apply andb_true_iff in H as [H1 H2].
  apply N.eqb_eq in H1, H2, H3. congruence.
Qed.

Lemma get_put_same s k v : get (put s k v) k = v.
Proof. unfold get, put. cbn. rewrite key_eqb_refl. reflexivity. Qed.

(* frame: every other object of the BMC is untouched by a write *)
Lemma get_put_other s k v k' : k' <> k -> get (put s k v) k' = get s k'.
Proof.
  intros H. unfold get, put. cbn. destruct (key_eqb k' k) eqn:E; [| reflexivity].
  apply key_eqb_eq in E. contradiction.
Qed.

(* ---- one exchange ---- *)
Lemma run_acc {A S} (p : prog A) (dev : device S) : forall s tr,
  run p dev s tr = let '(r, s', t) := run p dev s [] in (r, s', tr ++ t).
Proof.
  induction p as [a | e | r f IH | ms p IH]; intros s tr; cbn.
  - rewrite app_nil_r. reflexivity.
  - rewrite app_nil_r. reflexivity.
  - destruct (dev s r) as [s' rp]. rewrite (IH rp s' (tr ++ [(r, rp)])), (IH rp s' [(r, rp)]).
    destruct (run (f rp) dev s' []) as [[x y] z]. rewrite <- app_assoc. reflexivity.
  - apply IH.
Qed.

Lemma replay_no_send {A} (p : prog A) : forall reqs0 sl0 out sl rest rs,
  replay p rs reqs0 sl0 = (out, reqs0, sl, rest) ->
  forall {S} (dev : device S) s, run p dev s [] = (out, s, []).
Proof.
  induction p as [a | e | r f IH | ms p IH]; intros reqs0 sl0 out sl rest rs H S dev s; cbn in *.
  - inversion H; subst. reflexivity.
  - inversion H; subst. reflexivity.
  - exfalso. destruct rs as [| rp rs'].
    + inversion H as [[H1 H2 H3 H4]]. apply (f_equal (@length _)) in H2. rewrite app_length in H2. cbn in H2. lia.
    + rewrite replay_acc in H.
      destruct (replay (f rp) rs' [] []) as [[[o q] l] t]. inversion H as [[H1 H2 H3 H4]].
      apply (f_equal (@length _)) in H2. rewrite <- app_assoc, app_length in H2. cbn in H2. lia.
  - eapply IH. eassumption.
Qed.

Lemma single_exchange {A} (p : prog A) : forall rp out r sl,
  replay p [rp] [] [] = (out, [r], sl, []) ->
  forall {S} (dev : device S) s s', dev s r = (s', rp) -> run p dev s [] = (out, s', [(r, rp)]).
Proof.
  induction p as [a | e | r0 f IH | ms p IH]; intros rp out r sl H S dev s s' D; cbn in H.
  - discriminate.
  - discriminate.
  - rewrite replay_acc in H.
    destruct (replay (f rp) [] [] []) as [[[o q] l] t] eqn:E. inversion H as [[H1 H2 H3 H4]]. subst o t.
    destruct q; [| destruct q; discriminate]. cbn in H2. inversion H2; subst r0.
    cbn. rewrite D. rewrite run_acc. rewrite (replay_no_send (f rp) [] [] out l [] [] E dev s'). reflexivity.
  - cbn. rewrite replay_acc in H. destruct (replay p [rp] [] []) as [[[o q] l] t] eqn:E.
    inversion H; subst. eapply IH; [| eassumption]. rewrite E. reflexivity.
Qed.

Lemma call_one name args rp r out s s' :
  one_exchange name args rp = Some (r, out) -> bmc_handle s r = (s', rp) ->
  call name args s = (out, s').
Proof.
  unfold one_exchange, call. destruct (find_cop name) as [o |]; [| discriminate].
  destruct (replay (run_cop o args) [rp] [] []) as [[[o' q] l] t] eqn:E.
  destruct q as [| r' [| ? ?]]; try discriminate. destruct t; [| discriminate].
  intros H D. inversion H; subst. rewrite (single_exchange _ _ _ _ _ E bmc_handle s s' D). reflexivity.
Qed.

Lemma exch_eqb_eq x r v : exch_eqb x r v = true -> exists r' v', x = Some (r', v') /\ request_eqb r' r = true /\ res_eqb pv_eqb v' v = true.
Proof.
  destruct x as [[r' v'] |]; [| discriminate]. cbn. intros H. apply andb_true_iff in H as [H1 H2]. eauto.
Qed.

Lemma request_eqb_eq a b : request_eqb a b = true -> a = b.
Proof.
  destruct a, b. unfold request_eqb. cbn. intros H.
  apply andb_true_iff in H as [H H4]. apply andb_true_iff in H as [H H3]. apply andb_true_iff in H as [H1 H2].
  apply N.eqb_eq in H1, H2, H3. apply list_eqb_N_eq in H4. congruence.
Qed.

(* Python == on outcomes *)
Definition same (r v : res pv) : Prop := res_eqb pv_eqb r v = true.

Definition nrange (n : N) : list N := map N.of_nat (seq 0 (N.to_nat n)).

Lemma nrange_in n x : x < n -> List.In x (nrange n).
Proof.
  intros H. unfold nrange. apply in_map_iff. exists (N.to_nat x). split; [apply N2Nat.id |].
  apply in_seq. lia.
Qed.

Lemma exch_ok_eq name args rp r v :
  is_supported name = true -> exch_ok name args rp r v = true -> exch_eqb (one_exchange name args rp) r v = true.
Proof. unfold exch_ok. intros ->. exact (fun H => H). Qed.

(* a write followed by the matching read, factorised (see the head of this file) *)
Lemma write_then_read wname rname wargs rargs s s1 wreq rreq wrp rrp wv v :
  is_supported wname = true -> is_supported rname = true ->
  exch_ok wname wargs wrp wreq wv = true ->
  bmc_handle s wreq = (s1, wrp) ->
  exch_ok rname rargs rrp rreq v = true ->
  bmc_handle s1 rreq = (s1, rrp) ->
  exists r1 r2, call wname wargs s = (r1, s1) /\ same r1 wv /\
                call rname rargs s1 = (r2, s1) /\ same r2 v.
Proof.
  intros Sw Sr W BW R BR. apply (exch_ok_eq _ _ _ _ _ Sw) in W. apply (exch_ok_eq _ _ _ _ _ Sr) in R.
  apply exch_eqb_eq in W as (wr & r1 & W & Wq & Wv). apply request_eqb_eq in Wq. subst wr.
  apply exch_eqb_eq in R as (rr & r2 & R & Rq & Rv). apply request_eqb_eq in Rq. subst rr.
  exists r1, r2. rewrite (call_one _ _ _ _ _ _ _ W BW), (call_one _ _ _ _ _ _ _ R BR). auto.
Qed.

Lemma read_only rname rargs s rreq rrp v :
  is_supported rname = true ->
  exch_ok rname rargs rrp rreq v = true ->
  bmc_handle s rreq = (s, rrp) ->
  exists r, call rname rargs s = (r, s) /\ same r v.
Proof.
  intros Sr R BR. apply (exch_ok_eq _ _ _ _ _ Sr) in R.
  apply exch_eqb_eq in R as (rr & r2 & R & Rq & Rv). apply request_eqb_eq in Rq. subst rr.
  exists r2. rewrite (call_one _ _ _ _ _ _ _ R BR). auto.
Qed.

Lemma write_only wname wargs s s' wreq wrp wv :
  is_supported wname = true ->
  exch_ok wname wargs wrp wreq wv = true ->
  bmc_handle s wreq = (s', wrp) ->
  exists r1, call wname wargs s = (r1, s') /\ same r1 wv.
Proof.
  intros Sw W BW. apply (exch_ok_eq _ _ _ _ _ Sw) in W.
  apply exch_eqb_eq in W as (wr & r1 & W & Wq & Wv). apply request_eqb_eq in Wq. subst wr.
  exists r1. rewrite (call_one _ _ _ _ _ _ _ W BW). auto.
Qed.

(* using an exhaustive two-level table without unfolding the checker *)
Lemma table2 {A B} (chk : B -> A -> bool) (la : list A) (lb : list B) :
  forallb (fun a => forallb (fun b => chk b a) lb) la = true ->
  forall a b, List.In a la -> List.In b lb -> chk b a = true.
Proof.
  intros T a b Ha Hb. pose proof (proj1 (forallb_forall _ _) T a Ha) as X. cbv beta in X.
  exact (proj1 (forallb_forall _ _) X b Hb).
Qed.

Lemma table1 {A} (chk : A -> bool) (la : list A) :
  forallb chk la = true -> forall a, List.In a la -> chk a = true.
Proof. intros T a Ha. exact (proj1 (forallb_forall _ _) T a Ha). Qed.
