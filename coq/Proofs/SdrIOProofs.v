(* Lemmas about SDR retrieval (Model/SdrIO.v). *)
From Coq Require Import NArith ZArith List Bool Lia ZifyN ZifyBool ZifyNat.
From PyIpmi Require Import Lib.Res Lib.Bytes Lib.Prog Model.SdrIO.
Import ListNotations.
Open Scope N_scope.
Ltac Zify.zify_post_hook ::= Z.to_euclidean_division_equations.

Ltac inv H := inversion H; subst; clear H.

(* ------------------------------------------------------------------------- *)
(* generic facts about progs: run through bind / catch, request predicates,   *)
(* bounds on the number of requests - for ANY device                          *)
(* ------------------------------------------------------------------------- *)
Section Generic.
Context {S : Type}.
Variable dev : device S.

Lemma run_bind {A B} (p : prog A) (f : A -> prog B) : forall s tr,
  run (pbind p f) dev s tr =
  match run p dev s tr with
  | (Ok a, s', tr') => run (f a) dev s' tr'
  | (Err e, s', tr') => (Err e, s', tr')
  end.
Proof.
  induction p as [a|e|r k IH|ms k IH]; intros s tr; cbn; try reflexivity.
  - destruct (dev s r) as [s' rp]. apply IH.
  - apply IH.
Qed.

Lemma run_catch {A} (p : prog A) (h : err -> prog A) : forall s tr,
  run (pcatch p h) dev s tr =
  match run p dev s tr with
  | (Ok a, s', tr') => (Ok a, s', tr')
  | (Err e, s', tr') => run (h e) dev s' tr'
  end.
Proof.
  induction p as [a|e|r k IH|ms k IH]; intros s tr; cbn; try reflexivity.
  - destruct (dev s r) as [s' rp]. apply IH.
  - apply IH.
Qed.

(* outcome and final state do not depend on the transcript accumulated so far *)
Lemma run_tr_indep {A} (p : prog A) : forall s tr x s' tr', run p dev s tr = (x, s', tr') ->
  forall tr2, exists tr2', run p dev s tr2 = (x, s', tr2').
Proof.
  induction p as [a|e|r k IH|ms k IH]; intros s tr x s' tr' H tr2; cbn in *.
  - inv H. eexists; reflexivity.
  - inv H. eexists; reflexivity.
  - destruct (dev s r) as [s1 rp]. eapply IH. exact H.
  - eapply IH. exact H.
Qed.

(* every request a prog can ever send satisfies P *)
Inductive all_reqs {A} (P : request -> Prop) : prog A -> Prop :=
| ar_ret a : all_reqs P (Ret a)
| ar_raise e : all_reqs P (Raise e)
| ar_send r k : P r -> (forall rp, all_reqs P (k rp)) -> all_reqs P (Send r k)
| ar_sleep ms k : all_reqs P k -> all_reqs P (Sleep ms k).

Lemma all_reqs_bind {A B} P (p : prog A) (f : A -> prog B) :
  all_reqs P p -> (forall a, all_reqs P (f a)) -> all_reqs P (pbind p f).
Proof. induction 1; intros Hf; cbn; try constructor; auto. Qed.
Lemma all_reqs_catch {A} P (p : prog A) h :
  all_reqs P p -> (forall e, all_reqs P (h e)) -> all_reqs P (pcatch p h).
Proof. induction 1; intros Hf; cbn; try constructor; auto. Qed.
Lemma all_reqs_run {A} P (p : prog A) : all_reqs P p -> forall s tr x s' tr',
  run p dev s tr = (x, s', tr') -> Forall (fun e => P (fst e)) tr -> Forall (fun e => P (fst e)) tr'.
Proof.
  induction 1 as [a|e|r k HP Hk IH|ms k Hk IH]; intros s tr x s' tr' Hrun Htr; cbn in Hrun.
  - inv Hrun. exact Htr.
  - inv Hrun. exact Htr.
  - destruct (dev s r) as [s1 rp]. eapply IH; [exact Hrun|]. apply Forall_app. split; [exact Htr|]. constructor; [exact HP|constructor].
  - eapply IH; eauto.
Qed.

(* a prog sends at most n requests *)
Inductive sends_le {A} : nat -> prog A -> Prop :=
| sl_ret n a : sends_le n (Ret a)
| sl_raise n e : sends_le n (Raise e)
| sl_send n r k : (forall rp, sends_le n (k rp)) -> sends_le (Datatypes.S n) (Send r k)
| sl_sleep n ms k : sends_le n k -> sends_le n (Sleep ms k).

Lemma sends_le_mono {A} (p : prog A) n : sends_le n p -> forall m, (n <= m)%nat -> sends_le m p.
Proof.
  induction 1 as [n a|n e|n r k Hk IH|n ms k Hk IH]; intros m Hm; try constructor; auto.
  destruct m as [|m]; [lia|]. constructor. intros rp. apply IH. lia.
Qed.
Lemma sends_le_bind {A B} (p : prog A) (f : A -> prog B) a b :
  sends_le a p -> (forall x, sends_le b (f x)) -> sends_le (a + b) (pbind p f).
Proof.
  induction 1 as [n x|n e|n r k Hk IH|n ms k Hk IH]; intros Hf; cbn [pbind].
  - eapply sends_le_mono; [apply Hf | lia].
  - constructor.
  - cbn. constructor. intros rp. apply IH. exact Hf.
  - constructor. apply IH. exact Hf.
Qed.
Lemma sends_le_catch {A} (p : prog A) h a b :
  sends_le a p -> (forall e, sends_le b (h e)) -> sends_le (a + b) (pcatch p h).
Proof.
  induction 1 as [n x|n e|n r k Hk IH|n ms k Hk IH]; intros Hf; cbn [pcatch].
  - constructor.
  - eapply sends_le_mono; [apply Hf | lia].
  - cbn. constructor. intros rp. apply IH. exact Hf.
  - constructor. apply IH. exact Hf.
Qed.
Lemma sends_le_run {A} (p : prog A) n : sends_le n p -> forall s tr x s' tr',
  run p dev s tr = (x, s', tr') -> (length tr' <= length tr + n)%nat.
Proof.
  induction 1 as [n a|n e|n r k Hk IH|n ms k Hk IH]; intros s tr x s' tr' Hrun; cbn in Hrun.
  - inv Hrun. lia.
  - inv Hrun. lia.
  - destruct (dev s r) as [s1 rp]. apply IH in Hrun. rewrite app_length in Hrun. cbn in Hrun. lia.
  - eapply IH; eauto.
Qed.
End Generic.
Arguments all_reqs {A} P p.
Arguments sends_le {A} n p.

(* ------------------------------------------------------------------------- *)
(* same store; request bound  (any device, any replies)                       *)
(* ------------------------------------------------------------------------- *)
(* a request of the store: its Get command or its Reserve command, on its netfn *)
Definition of_store (st : store) (r : request) : Prop :=
  q_netfn r = st_netfn st /\ (q_cmd r = st_get_cmd st \/ (q_cmd r = RESERVE_CMD /\ q_data r = [])).

Lemma send_msg_reqs (P : request -> Prop) n r : P r -> all_reqs P (send_msg_loop n r).
Proof.
  intros HP. induction n as [|n IH]; cbn; constructor; auto.
  intros [d|e]; [constructor|]. destruct e; try constructor. destruct (cc =? CC_NODE_BUSY); [exact IH | constructor].
Qed.
Lemma reserve_reqs st : all_reqs (of_store st) (reserve st).
Proof.
  unfold reserve. apply all_reqs_bind.
  - apply send_msg_reqs. split; [reflexivity | right; split; reflexivity].
  - intros d. destruct (dec_reserve_rsp d) as [[cc id]|e]; [destruct (cc =? 0)|]; constructor.
Qed.
Lemma chunk_reqs n st : forall resv rid off len, all_reqs (of_store st) (chunk_prog n st st resv rid off len).
Proof.
  induction n as [|n IH]; intros; cbn [chunk_prog]; [constructor|].
  apply all_reqs_bind.
  - apply send_msg_reqs. split; [reflexivity | left; reflexivity].
  - intros d. destruct (dec_get_rsp d) as [[[cc nx] data]|e]; [|constructor].
    destruct (cc =? 0); [constructor|].
    destruct (cc =? CC_RES_CANCELED).
    { constructor. apply all_reqs_bind; [apply reserve_reqs | intros; apply IH]. }
    destruct (cc =? CC_TIMEOUT); [constructor; apply IH|].
    destruct (cc =? CC_RESP_COULD_NOT_BE_PRV); [constructor; apply IH | constructor].
Qed.
Lemma catch_ca_reqs {A} (P : request -> Prop) (p : prog A) : all_reqs P p -> all_reqs P (catch_ca p).
Proof.
  intros H. unfold catch_ca. apply all_reqs_catch.
  - apply all_reqs_bind; [exact H | intros; constructor].
  - intros e. destruct e; try constructor. destruct (cc =? CC_CANT_RET_NUM_REQ_BYTES); constructor.
Qed.
Lemma data_loop_reqs n st : forall resv rid reclen maxlen next acc,
  all_reqs (of_store st) (data_loop n st resv rid reclen maxlen next acc).
Proof.
  induction n as [|n IH]; intros; cbn [data_loop]; [constructor|].
  apply all_reqs_bind; [apply catch_ca_reqs, chunk_reqs|].
  intros [[nx d]|].
  - destruct (Z.of_nat (length (acc ++ d)) >=? reclen)%Z; [constructor | apply IH].
  - destruct (maxlen - 4 <=? 0)%Z; [constructor | apply IH].
Qed.
Lemma get_sdr_reqs st rid resv : all_reqs (of_store st) (get_sdr st rid resv).
Proof.
  unfold get_sdr. apply all_reqs_bind.
  - destruct resv; [constructor | apply reserve_reqs].
  - intros r. apply all_reqs_bind; [apply chunk_reqs|]. intros [next data].
    destruct data as [|b0 [|b1 [|b2 [|b3 [|b4 rest]]]]]; first [apply data_loop_reqs | constructor].
Qed.
Lemma entries_reqs fuel st : forall resv rid acc, all_reqs (of_store st) (entries_loop fuel st resv rid acc).
Proof.
  induction fuel as [|f IH]; intros; cbn [entries_loop]; [constructor|].
  apply all_reqs_bind; [apply get_sdr_reqs|]. intros s.
  destruct (fst s =? 0); [constructor|]. destruct (fst s =? 0xFFFF); [constructor | apply IH].
Qed.
Lemma sdr_entries_reqs fuel st : all_reqs (of_store st) (sdr_entries fuel st).
Proof. unfold sdr_entries. apply all_reqs_bind; [apply reserve_reqs | intros; apply entries_reqs]. Qed.

Lemma same_store_get {S} (dev : device S) st rid resv s x s' tr :
  run (get_sdr st rid resv) dev s [] = (x, s', tr) -> Forall (fun e => of_store st (fst e)) tr.
Proof. intros H. eapply all_reqs_run; [apply get_sdr_reqs | exact H | constructor]. Qed.
Lemma same_store_list {S} (dev : device S) fuel st s x s' tr :
  run (sdr_entries fuel st) dev s [] = (x, s', tr) -> Forall (fun e => of_store st (fst e)) tr.
Proof. intros H. eapply all_reqs_run; [apply sdr_entries_reqs | exact H | constructor]. Qed.

(* the unrepaired wiring (F11b) can send a request of the other store *)
Lemma unrepaired_other_store :
  exists (rps : list reply) x rq sl rest q,
    replay (get_chunk_repo_unrepaired 1 2 0 5) rps [] [] = (x, rq, sl, rest) /\ In q rq /\ ~ of_store Repo q.
Proof.
  exists [RBytes [CC_RES_CANCELED]; RBytes [0; 7; 0]], (Err OutOfFuel),
    [get_req Repo 1 2 0 5; reserve_req DevSdr; get_req Repo 7 2 0 5], [1000], [], (reserve_req DevSdr).
  split; [vm_compute; reflexivity|]. split; [cbn; auto|]. intros [H _]. discriminate.
Qed.

(* ---- explicit bound on the number of requests, for any device ---- *)
Lemma send_msg_sends n r : sends_le n (send_msg_loop n r).
Proof.
  induction n as [|n IH]; cbn; constructor.
  intros [d|e]; [constructor|]. destruct e; try constructor. destruct (cc =? CC_NODE_BUSY); [exact IH | constructor].
Qed.
Lemma reserve_sends st : sends_le 3 (reserve st).
Proof.
  unfold reserve. change 3%nat with (3 + 0)%nat. apply sends_le_bind; [apply send_msg_sends|].
  intros d. destruct (dec_reserve_rsp d) as [[cc id]|e]; [destruct (cc =? 0)|]; constructor.
Qed.
Lemma chunk_sends n st rst : forall resv rid off len, sends_le (6 * n) (chunk_prog n st rst resv rid off len).
Proof.
  induction n as [|n IH]; intros; cbn [chunk_prog]; [constructor|].
  replace (6 * S n)%nat with (3 + (3 + 6 * n))%nat by lia.
  apply sends_le_bind; [apply send_msg_sends|].
  intros d. destruct (dec_get_rsp d) as [[[cc nx] data]|e]; [|constructor].
  destruct (cc =? 0); [constructor|].
  destruct (cc =? CC_RES_CANCELED).
  { constructor. apply sends_le_bind; [apply reserve_sends | intros; apply IH]. }
  destruct (cc =? CC_TIMEOUT); [constructor; eapply sends_le_mono; [apply IH | lia]|].
  destruct (cc =? CC_RESP_COULD_NOT_BE_PRV); [constructor; eapply sends_le_mono; [apply IH | lia] | constructor].
Qed.
Lemma catch_ca_sends {A} (p : prog A) a : sends_le a p -> sends_le a (catch_ca p).
Proof.
  intros H. unfold catch_ca. replace a with (a + 0 + 0)%nat by lia. apply sends_le_catch.
  - apply sends_le_bind; [exact H | intros; constructor].
  - intros e. destruct e; try constructor. destruct (cc =? CC_CANT_RET_NUM_REQ_BYTES); constructor.
Qed.
Lemma data_loop_sends n st : forall resv rid reclen maxlen next acc,
  sends_le (24 * n) (data_loop n st resv rid reclen maxlen next acc).
Proof.
  induction n as [|n IH]; intros; cbn [data_loop]; [constructor|].
  replace (24 * S n)%nat with (24 + 24 * n)%nat by lia.
  apply sends_le_bind; [apply catch_ca_sends; apply (chunk_sends 4)|].
  intros [[nx d]|].
  - destruct (Z.of_nat (length (acc ++ d)) >=? reclen)%Z; [constructor | apply IH].
  - destruct (maxlen - 4 <=? 0)%Z; [constructor | apply IH].
Qed.
Definition GET_SDR_BOUND : nat := 483.      (* 3 + 24 + 24 * 19 *)
Lemma get_sdr_sends st rid resv : sends_le GET_SDR_BOUND (get_sdr st rid resv).
Proof.
  unfold get_sdr, GET_SDR_BOUND. change 483%nat with (3 + (24 + 24 * 19))%nat. apply sends_le_bind.
  - destruct resv; [constructor | apply reserve_sends].
  - intros r. apply sends_le_bind; [apply (chunk_sends 4)|]. intros [next data].
    destruct data as [|b0 [|b1 [|b2 [|b3 [|b4 rest]]]]]; first [apply data_loop_sends | constructor].
Qed.
Lemma entries_sends fuel st : forall resv rid acc,
  sends_le (GET_SDR_BOUND * fuel) (entries_loop fuel st resv rid acc).
Proof.
  induction fuel as [|f IH]; intros; cbn [entries_loop]; [constructor|].
  replace (GET_SDR_BOUND * S f)%nat with (GET_SDR_BOUND + GET_SDR_BOUND * f)%nat by lia.
  apply sends_le_bind; [apply get_sdr_sends|]. intros s.
  destruct (fst s =? 0); [constructor|]. destruct (fst s =? 0xFFFF); [constructor | apply IH].
Qed.

Lemma budget_get {S} (dev : device S) st rid resv s x s' tr :
  run (get_sdr st rid resv) dev s [] = (x, s', tr) -> (length tr <= GET_SDR_BOUND)%nat.
Proof. intros H. apply (sends_le_run dev _ _ (get_sdr_sends st rid resv)) in H. cbn in H. lia. Qed.
Lemma budget_list {S} (dev : device S) fuel st s x s' tr :
  run (sdr_entries fuel st) dev s [] = (x, s', tr) -> (length tr <= 3 + GET_SDR_BOUND * fuel)%nat.
Proof.
  intros H. assert (sends_le (3 + GET_SDR_BOUND * fuel) (sdr_entries fuel st)) as B.
  { unfold sdr_entries. apply sends_le_bind; [apply reserve_sends | intros; apply entries_sends]. }
  apply (sends_le_run dev _ _ B) in H. cbn [length] in H. lia.
Qed.

(* ------------------------------------------------------------------------- *)
(* the Gallina SDR device: what a step can answer                             *)
(* ------------------------------------------------------------------------- *)
Definition w16 (v : N) : N := v mod 256 + 256 * ((v / 256) mod 256).
Lemma w16_small v : v < 65536 -> w16 v = v.
Proof. unfold w16. lia. Qed.

Definition same_content (s s' : sdr_state) : Prop :=
  s_repo s' = s_repo s /\ s_dev s' = s_dev s /\ s_limit s' = s_limit s.
(* the transient codes of the property: timeout, response unavailable *)
Definition code_ok (f : fault) : Prop :=
  match f with FCode cc => cc = CC_TIMEOUT \/ cc = CC_RESP_COULD_NOT_BE_PRV | _ => True end.
Definition plan_ok (s : sdr_state) : Prop := Forall code_ok (s_plan s).
Definition inv (s s' : sdr_state) : Prop := same_content s s' /\ (plan_ok s -> plan_ok s').

Lemma inv_refl s : inv s s.
Proof. unfold inv, same_content. tauto. Qed.
Lemma inv_trans a b c : inv a b -> inv b c -> inv a c.
Proof. unfold inv, same_content. intros (A & A') (B & B'). split; [|tauto]. destruct A as (?&?&?), B as (?&?&?). repeat split; congruence. Qed.
Lemma inv_recs st a b : inv a b -> recs_of st b = recs_of st a.
Proof. intros ((A & B & C) & _). destruct st; cbn; assumption. Qed.
Lemma inv_limit a b : inv a b -> s_limit b = s_limit a.
Proof. intros ((A & B & C) & _). assumption. Qed.

Lemma answer_content s r s' rp : sdr_answer s r = (s', rp) -> same_content s s' /\ s_plan s' = s_plan s.
Proof.
  unfold sdr_answer. intros H.
  repeat match type of H with context [match ?x with _ => _ end] => destruct x eqn:? end;
    inv H; unfold same_content; cbn; try tauto;
    match goal with st : store |- _ => destruct st; cbn; tauto end.
Qed.

Lemma dev_step_inv s r s' rp : sdr_dev s r = (s', rp) -> inv s s'.
Proof.
  unfold sdr_dev. intros H.
  assert (forall p, inv (set_plan s p) s' -> (plan_ok s -> Forall code_ok p) -> inv s s') as K.
  { intros p ((A & B & C) & D) E. split; [exact (conj A (conj B C))|]. intros F. apply D. exact (E F). }
  destruct (s_plan s) as [|f p] eqn:P.
  - apply answer_content in H. destruct H as (A & B). split; [exact A|]. unfold plan_ok. rewrite B, P. constructor.
  - assert (plan_ok s -> Forall code_ok p) as E by (unfold plan_ok; rewrite P; intros F; inv F; assumption).
    apply (K p); [|exact E]. destruct f.
    + apply answer_content in H. destruct H as (A & B). split; [exact A|]. unfold plan_ok. rewrite B. tauto.
    + apply answer_content in H. destruct H as (A & B). split; [exact A|]. unfold plan_ok. rewrite B. tauto.
    + inv H. apply inv_refl.
    + inv H. apply inv_refl.
Qed.

Lemma store_of_own st : store_of_netfn (st_netfn st) = Some st.
Proof. destruct st; reflexivity. Qed.

(* a Get request is answered by: a raised node-busy | one completion-code byte | the slice *)
Lemma dev_get_spec s st resv rid off len s' rp :
  sdr_dev s (get_req st resv rid off len) = (s', rp) ->
  rp = RRaise (CCError CC_NODE_BUSY) \/
  (exists cc, rp = RBytes [cc] /\ (cc = CC_CANT_RET_NUM_REQ_BYTES -> plan_ok s -> s_limit s < byteZ len)) \/
  (exists rec nx, lookup (recs_of st s) (w16 rid) = Some (rec, nx) /\ byteZ len <= s_limit s /\
                  rp = RBytes (0 :: le_bytes 2 nx ++ slice (byteZ off) (byteZ len) rec)).
Proof.
  assert (forall s0, s_limit s0 = s_limit s -> recs_of st s0 = recs_of st s ->
            sdr_answer s0 (get_req st resv rid off len) = (s', rp) ->
            (exists cc, rp = RBytes [cc] /\ (cc = CC_CANT_RET_NUM_REQ_BYTES -> s_limit s < byteZ len)) \/
            (exists rec nx, lookup (recs_of st s) (w16 rid) = Some (rec, nx) /\ byteZ len <= s_limit s /\
                  rp = RBytes (0 :: le_bytes 2 nx ++ slice (byteZ off) (byteZ len) rec))) as A.
  { intros s0 L R H. unfold sdr_answer in H. cbn [get_req q_netfn q_cmd q_data] in H.
    rewrite store_of_own in H.
    assert (st_get_cmd st =? RESERVE_CMD = false) as Eg by (destruct st; reflexivity).
    rewrite Eg, N.eqb_refl in H. cbn [le_bytes app] in H.
    destruct (negb _) eqn:V; [inv H; left; eexists; split; [reflexivity | discriminate]|].
    fold (w16 rid) in H. rewrite R in H.
    destruct (lookup (recs_of st s) (w16 rid)) as [[rec nx]|] eqn:Lk;
      [|inv H; left; eexists; split; [reflexivity | discriminate]].
    rewrite L in H. destruct (s_limit s <? byteZ len) eqn:Lim; inv H.
    - left. eexists. split; [reflexivity|]. intros _. lia.
    - right. exists rec, nx. split; [reflexivity|]. split; [lia | reflexivity]. }
  unfold sdr_dev. intros H. destruct (s_plan s) as [|f p] eqn:P.
  - right. apply A in H; [|reflexivity|reflexivity]. destruct H as [(cc & E & F)|H]; [left; eauto | right; exact H].
  - destruct f.
    + right. apply A in H; [| reflexivity | destruct st; reflexivity]. destruct H as [(cc & E & F)|H]; [left; eauto | right; exact H].
    + right. apply A in H; [| reflexivity | destruct st; reflexivity]. destruct H as [(cc & E & F)|H]; [left; eauto | right; exact H].
    + inv H. right. left. eexists. split; [reflexivity|]. intros -> Hp. unfold plan_ok in Hp. rewrite P in Hp. inv Hp.
      cbn in H1. destruct H1; discriminate.
    + inv H. left. reflexivity.
Qed.

(* a Reserve request is answered by: a raised node-busy | one byte (only a transient code
   when the plan is ok) | a reservation id *)
Lemma dev_reserve_spec s st s' rp :
  sdr_dev s (reserve_req st) = (s', rp) ->
  rp = RRaise (CCError CC_NODE_BUSY) \/
  (exists cc, rp = RBytes [cc] /\ (plan_ok s -> cc <> CC_CANT_RET_NUM_REQ_BYTES)) \/
  (exists id, rp = RBytes (0 :: le_bytes 2 id)).
Proof.
  assert (forall s0, sdr_answer s0 (reserve_req st) = (s', rp) -> exists id, rp = RBytes (0 :: le_bytes 2 id)) as A.
  { intros s0 H. unfold sdr_answer in H. cbn [reserve_req q_netfn q_cmd q_data] in H.
    rewrite store_of_own, N.eqb_refl in H. inv H. eexists. reflexivity. }
  unfold sdr_dev. intros H. destruct (s_plan s) as [|f p] eqn:P.
  - right. right. eapply A; eauto.
  - destruct f.
    + right. right. eapply A; eauto.
    + right. right. eapply A; eauto.
    + inv H. right. left. eexists. split; [reflexivity|]. intros Hp ->. unfold plan_ok in Hp. rewrite P in Hp. inv Hp.
      cbn in H1. destruct H1; discriminate.
    + inv H. left. reflexivity.
Qed.

(* ------------------------------------------------------------------------- *)
(* the client progs against the device                                        *)
(* ------------------------------------------------------------------------- *)
Lemma send_msg_run k r : forall s tr x s' tr',
  run (send_msg_loop k r) sdr_dev s tr = (x, s', tr') ->
  inv s s' /\
  match x with
  | Ok d => exists s1, inv s s1 /\ sdr_dev s1 r = (s', RBytes d)
  | Err e => e = RetryError \/
             (exists cc, e = CCError cc /\ cc <> CC_NODE_BUSY /\ exists s1, inv s s1 /\ sdr_dev s1 r = (s', RRaise (CCError cc))) \/
             ((forall cc, e <> CCError cc) /\ exists s1, inv s s1 /\ sdr_dev s1 r = (s', RRaise e))
  end.
Proof.
  induction k as [|k IH]; intros s tr x s' tr' H; cbn in H.
  - inv H. split; [apply inv_refl | left; reflexivity].
  - destruct (sdr_dev s r) as [s1 rp] eqn:D. pose proof (dev_step_inv _ _ _ _ D) as I1.
    destruct rp as [d|e].
    + cbn in H. inv H. split; [exact I1|]. exists s. split; [apply inv_refl | exact D].
    + destruct e as [| |cc| | | | | | | | |k0];
        try (cbn in H; inv H; split; [exact I1 | right; right; split; [discriminate | exists s; split; [apply inv_refl | exact D]]]).
      destruct (cc =? CC_NODE_BUSY) eqn:B.
      * apply IH in H. destruct H as (I2 & X). split; [eapply inv_trans; eauto|].
        destruct x as [d|e].
        -- destruct X as (s2 & I3 & D2). exists s2. split; [eapply inv_trans; eauto | exact D2].
        -- destruct X as [X|[(c & E1 & E2 & s2 & I3 & D2)|(NC & s2 & I3 & D2)]]; [left; exact X | |].
           ++ right. left. exists c. repeat split; auto. exists s2. split; [eapply inv_trans; eauto | exact D2].
           ++ right. right. split; [exact NC|]. exists s2. split; [eapply inv_trans; eauto | exact D2].
      * cbn in H. inv H. split; [exact I1|]. right. left. exists cc. split; [reflexivity|]. split; [apply N.eqb_neq; exact B|].
        exists s. split; [apply inv_refl | exact D].
Qed.

(* against this device send_message fails only with RetryError (three raised node-busy) *)
Lemma send_msg_get_run st resv rid off len s tr x s' tr' :
  run (send_message (get_req st resv rid off len)) sdr_dev s tr = (x, s', tr') ->
  inv s s' /\
  match x with
  | Ok d => (exists cc, d = [cc] /\ (cc = CC_CANT_RET_NUM_REQ_BYTES -> plan_ok s -> s_limit s < byteZ len)) \/
            (exists rec nx, lookup (recs_of st s) (w16 rid) = Some (rec, nx) /\ byteZ len <= s_limit s /\
                            d = 0 :: le_bytes 2 nx ++ slice (byteZ off) (byteZ len) rec)
  | Err e => e = RetryError
  end.
Proof.
  intros H. apply send_msg_run in H. destruct H as (I & X). split; [exact I|]. destruct x as [d|e].
  - destruct X as (s1 & I1 & D). apply dev_get_spec in D. destruct D as [D|[(cc & D & F)|(rec & nx & L & B & D)]]; try discriminate.
    + inv D. left. exists cc. split; [reflexivity|]. intros C P. rewrite <- (inv_limit _ _ I1). apply F; [exact C | apply I1; exact P].
    + inv D. right. exists rec, nx. rewrite <- (inv_recs st _ _ I1), <- (inv_limit _ _ I1). auto.
  - destruct X as [X|[(c & E1 & E2 & s1 & I1 & D)|(NC & s1 & I1 & D)]]; [exact X | |];
      apply dev_get_spec in D; destruct D as [D|[(cc & D & F)|(rec & nx & L & B & D)]]; try discriminate;
      inv D; try congruence; exfalso; eapply NC; reflexivity.
Qed.

Lemma reserve_run st s tr x s' tr' :
  run (reserve st) sdr_dev s tr = (x, s', tr') ->
  inv s s' /\ (plan_ok s -> x <> Err (CCError CC_CANT_RET_NUM_REQ_BYTES)) /\ x <> Err OutOfFuel.
Proof.
  unfold reserve. rewrite run_bind. destruct (run (send_message (reserve_req st)) sdr_dev s tr) as [[x1 s1] tr1] eqn:R.
  apply send_msg_run in R. destruct R as (I & X). destruct x1 as [d|e].
  - destruct X as (s0 & I0 & D). apply dev_reserve_spec in D.
    destruct D as [D|[(cc & D & F)|(id & D)]]; try discriminate; inv D.
    + cbn [dec_reserve_rsp]. destruct (cc =? 0) eqn:Z; cbn; rewrite ?Z; cbn; intros H; inv H;
        (split; [exact I|split; [|discriminate]]); intros P; try discriminate.
      intros E. inv E. apply (F (proj2 I0 P)). reflexivity.
    + cbn [dec_reserve_rsp le_bytes]. cbn. intros H. inv H. split; [exact I | split; discriminate].
  - intros H. inv H. split; [exact I|].
    assert (e = RetryError) as ->.
    { destruct X as [X|[(c & E1 & E2 & s0 & I0 & D)|(NC & s0 & I0 & D)]]; [exact X | |];
      apply dev_reserve_spec in D; destruct D as [D|[(cc & D & F)|(id & D)]]; try discriminate; inv D; try congruence;
      exfalso; eapply NC; reflexivity. }
    split; [intros _|]; discriminate.
Qed.

Lemma dec_get_full nx sl : dec_get_rsp (0 :: le_bytes 2 nx ++ sl) = Ok (0, w16 nx, sl).
Proof. reflexivity. Qed.

Lemma chunk_run n st : forall resv rid off len s tr x s' tr',
  run (chunk_prog n st st resv rid off len) sdr_dev s tr = (x, s', tr') ->
  inv s s' /\
  match x with
  | Ok (nx, d) => exists rec nx0, lookup (recs_of st s) (w16 rid) = Some (rec, nx0) /\ nx = w16 nx0 /\
                                  d = slice (byteZ off) (byteZ len) rec /\ byteZ len <= s_limit s
  | Err (CCError cc) => cc = CC_CANT_RET_NUM_REQ_BYTES -> plan_ok s -> s_limit s < byteZ len
  | Err OutOfFuel => False
  | Err _ => True
  end.
Proof.
  induction n as [|n IH]; intros resv rid off len s tr x s' tr' H; cbn [chunk_prog] in H.
  - cbn in H. inv H. split; [apply inv_refl | exact I].
  - rewrite run_bind in H.
    destruct (run (send_message (get_req st resv rid off len)) sdr_dev s tr) as [[x1 s1] tr1] eqn:R.
    apply send_msg_get_run in R. destruct R as (I1 & X). destruct x1 as [d|e].
    2:{ inv H. split; [exact I1 | exact I]. }
    destruct X as [(cc & -> & F)|(rec & nx & L & B & ->)].
    + cbn [dec_get_rsp] in H. destruct (cc =? 0) eqn:Z; [cbn in H; inv H; split; [exact I1 | exact I]|].
      rewrite ?Z in H.
      destruct (cc =? CC_RES_CANCELED) eqn:E5.
      { cbn [run] in H. rewrite run_bind in H.
        destruct (run (reserve st) sdr_dev s1 tr1) as [[x2 s2] tr2] eqn:R2.
        apply reserve_run in R2. destruct R2 as (I2 & X2 & X2'). destruct x2 as [nr|e].
        - apply IH in H. destruct H as (I3 & X3).
          assert (inv s s2) as I12 by (eapply inv_trans; eauto).
          split; [eapply inv_trans; eauto|].
          destruct x as [[nx d]|e]; [|destruct e; auto].
          + rewrite (inv_recs st _ _ I12), (inv_limit _ _ I12) in X3. exact X3.
          + intros C P. rewrite <- (inv_limit _ _ I12). apply X3; [exact C | apply I12; exact P].
        - inv H. split; [eapply inv_trans; eauto|]. destruct e; auto; try (exfalso; apply X2'; reflexivity). intros -> P. exfalso. apply X2; [apply I1; exact P | reflexivity]. }
      assert (forall ms, run (Sleep ms (chunk_prog n st st resv rid off len)) sdr_dev s1 tr1 = (x, s', tr') ->
              inv s s' /\ match x with
                | Ok (nx, d) => exists rec nx0, lookup (recs_of st s) (w16 rid) = Some (rec, nx0) /\ nx = w16 nx0 /\
                                  d = slice (byteZ off) (byteZ len) rec /\ byteZ len <= s_limit s
                | Err (CCError cc) => cc = CC_CANT_RET_NUM_REQ_BYTES -> plan_ok s -> s_limit s < byteZ len
                | Err OutOfFuel => False
                | Err _ => True end) as K.
      { intros ms H'. cbn [run] in H'. apply IH in H'. destruct H' as (I3 & X3). split; [eapply inv_trans; eauto|].
        destruct x as [[nx d]|e]; [|destruct e; auto].
        - rewrite (inv_recs st _ _ I1), (inv_limit _ _ I1) in X3. exact X3.
        - intros C P. rewrite <- (inv_limit _ _ I1). apply X3; [exact C | apply I1; exact P]. }
      destruct (cc =? CC_TIMEOUT) eqn:E3; [eapply K; exact H|].
      destruct (cc =? CC_RESP_COULD_NOT_BE_PRV) eqn:EE; [eapply K; exact H|].
      cbn in H. inv H. split; [exact I1|]. exact F.
    + rewrite dec_get_full in H. cbn in H. inv H. split; [exact I1|]. exists rec, nx. auto.
Qed.

(* ---- reassembly ---- *)
Lemma firstn_skipn_app {A} (l : list A) : forall a b, firstn a l ++ firstn b (skipn a l) = firstn (a + b) l.
Proof.
  induction l as [|x l IH]; intros a b.
  - rewrite skipn_nil, !firstn_nil. reflexivity.
  - destruct a as [|a]; cbn; [reflexivity|]. rewrite IH. reflexivity.
Qed.
Lemma firstn_idem {A} (l : list A) n : firstn (length (firstn n l)) l = firstn n l.
Proof.
  rewrite firstn_length. destruct (Nat.le_ge_cases n (length l)).
  - rewrite Nat.min_l by assumption. reflexivity.
  - rewrite Nat.min_r by assumption. rewrite !firstn_all2; auto.
Qed.
Lemma byteZ_small k : (k < 256)%nat -> byteZ (Z.of_nat k) = N.of_nat k.
Proof. unfold byteZ. intros H. lia. Qed.

(* The offset field of the request is ONE byte (push_unsigned_int keeps offset & 0xff), and
   records may be up to 260 bytes long.  For records of at most 256 bytes every offset
   below the record length fits.  For longer records the offset stays <= 255 because of the
   retry budget and the chunk sizes, provided the device's limit is what refuses reads (only
   transient codes are injected: plan_ok): reads are refused first (each costs an iteration
   and shrinks max_req_len by 4), then every accepted chunk but the last has exactly
   max_req_len = m bytes, so the k-th offset is 5 + m*k, with
   4*(iterations left + k) <= 56 + m.  m = 20: 5+20k < 260 gives <= 245; m = 16: <= 245;
   m <= 12: k <= 17 gives <= 209. *)
Definition full_inv (n : nat) (maxlen : Z) (la lrec : nat) (s : sdr_state) : Prop :=
  plan_ok s /\ (lrec <= 260)%nat /\
  (maxlen = 4 \/ maxlen = 8 \/ maxlen = 12 \/ maxlen = 16 \/ maxlen = 20)%Z /\
  exists k : nat, Z.of_nat la = (5 + maxlen * Z.of_nat k)%Z /\
    ((0 < k)%nat -> Z.to_N maxlen <= s_limit s) /\
    (4 * (Z.of_nat n + Z.of_nat k) <= 56 + maxlen)%Z.

Lemma data_loop_run n st resv rid rec nx0 : forall maxlen next acc s tr x s' tr',
  lookup (recs_of st s) (w16 rid) = Some (rec, nx0) ->
  (length rec <= 256)%nat \/ full_inv n maxlen (length acc) (length rec) s ->
  acc = firstn (length acc) rec -> (length acc <= length rec)%nat -> (length acc <= 255)%nat ->
  (0 < maxlen <= 20)%Z ->
  run (data_loop n st resv rid (Z.of_nat (length rec)) maxlen next acc) sdr_dev s tr = (x, s', tr') ->
  inv s s' /\
  match x with
  | Ok (nx, data) => data = rec /\ nx = w16 nx0
  | Err OutOfFuel => plan_ok s -> 4 <= s_limit s -> False
  | Err _ => True
  end.
Proof.
  induction n as [|n IH]; intros maxlen next acc s tr x s' tr' L Hcase Hacc Hle H255 Hmax H; cbn [data_loop] in H.
  - cbn in H. inv H. split; [apply inv_refl | exact I].
  - set (off := Z.of_nat (length acc)) in *.
    set (len := if (off + maxlen >? Z.of_nat (length rec))%Z then (Z.of_nat (length rec) - off)%Z else maxlen) in *.
    assert (0 <= len <= 20)%Z as Hlen by (unfold len; destruct (off + maxlen >? Z.of_nat (length rec))%Z eqn:G; lia).
    assert (len <= maxlen)%Z as Hlm by (unfold len; destruct (off + maxlen >? Z.of_nat (length rec))%Z eqn:G; lia).
    rewrite run_bind in H. unfold catch_ca in H. rewrite run_catch, run_bind in H. unfold get_chunk in H.
    destruct (run (chunk_prog 4 st st resv rid off len) sdr_dev s tr) as [[x1 s1] tr1] eqn:Rc.
    apply chunk_run in Rc. destruct Rc as (I1 & X1).
    assert (byteZ off = N.of_nat (length acc)) as Boff by (apply byteZ_small; lia).
    assert (byteZ len = Z.to_N len) as Blen by (unfold byteZ; lia).
    pose proof (inv_limit _ _ I1) as Hl1.
    destruct x1 as [[nx d]|e].
    + cbn [run] in H. destruct X1 as (rec' & nx' & L' & -> & -> & Hlim).
      rewrite L in L'. inv L'. rewrite Boff, Blen in *. unfold slice in H. rewrite !Nnat.Nat2N.id in H.
      assert (acc ++ firstn (N.to_nat (Z.to_N len)) (skipn (length acc) rec') =
              firstn (length acc + N.to_nat (Z.to_N len)) rec') as Eapp
        by (rewrite Hacc at 1; apply firstn_skipn_app).
      rewrite !Eapp in H.
      destruct (Z.of_nat (length (firstn (length acc + N.to_nat (Z.to_N len)) rec')) >=? Z.of_nat (length rec'))%Z eqn:G.
      * cbn in H. inv H. split; [exact I1|]. split; [|reflexivity].
        apply firstn_all2. rewrite firstn_length in G. lia.
      * rewrite firstn_length in G.
        assert (len = maxlen /\ (length acc + N.to_nat (Z.to_N len) < length rec')%nat) as (Elen & Hlt).
        { unfold len in *. destruct (off + maxlen >? Z.of_nat (length rec'))%Z eqn:G2; unfold off in *; lia. }
        assert (length (firstn (length acc + N.to_nat (Z.to_N len)) rec') = (length acc + N.to_nat (Z.to_N len))%nat) as Elen'
          by (rewrite firstn_length; lia).
        assert ((length rec' <= 256)%nat \/
                full_inv n maxlen (length (firstn (length acc + N.to_nat (Z.to_N len)) rec')) (length rec') s1) as Hcase'.
        { destruct Hcase as [R256|(P & R260 & Hm & k & Ek & Hk & Hb)]; [left; exact R256|]. right.
          split; [apply I1; exact P|]. split; [exact R260|]. split; [exact Hm|].
          exists (S k). rewrite Elen'. split; [|split]; [fold off in Ek; lia | intros _; rewrite Hl1; lia | lia]. }
        apply IH in H; try assumption.
        -- destruct H as (I2 & X2). split; [eapply inv_trans; eauto|].
           destruct x as [[nx d]|e]; [exact X2|]. destruct e; auto. intros P Lm. apply X2; [apply I1; exact P|].
           rewrite Hl1. exact Lm.
        -- rewrite (inv_recs st _ _ I1). exact L.
        -- symmetry. apply firstn_idem.
        -- rewrite Elen'. lia.
        -- rewrite Elen'. destruct Hcase' as [R256|(P & R260 & Hm & k & Ek & Hk & Hb)]; [lia|].
           rewrite Elen' in Ek. destruct Hm as [Hm|[Hm|[Hm|[Hm|Hm]]]]; rewrite Hm in *; lia.
    + destruct e as [| |cc| | | | | | | | |k0];
        try (cbn [run] in H; inv H; split; [exact I1 | first [exact I | contradiction]]).
      * destruct (cc =? CC_CANT_RET_NUM_REQ_BYTES) eqn:Eca.
        -- cbn [run] in H. apply N.eqb_eq in Eca. subst cc.
           destruct (maxlen - 4 <=? 0)%Z eqn:G.
           ++ cbn in H. inv H. split; [exact I1|]. intros P Lm. specialize (X1 eq_refl P). rewrite Blen in X1. lia.
           ++ assert ((length rec <= 256)%nat \/ full_inv n (maxlen - 4) (length acc) (length rec) s1) as Hcase'.
              { destruct Hcase as [R256|(P & R260 & Hm & k & Ek & Hk & Hb)]; [left; exact R256|]. right.
                specialize (X1 eq_refl P). rewrite Blen in X1.
                assert (k = 0%nat) as -> by (destruct k; [reflexivity | specialize (Hk ltac:(lia)); lia]).
                split; [apply I1; exact P|]. split; [exact R260|]. split; [lia|].
                exists 0%nat. split; [fold off in Ek; fold off; lia|]. split; [lia | lia]. }
              apply IH in H; try assumption; try lia.
              ** destruct H as (I2 & X2). split; [eapply inv_trans; eauto|].
                 destruct x as [[nx d]|e]; [exact X2|]. destruct e; auto. intros P Lm. apply X2; [apply I1; exact P|].
                 rewrite Hl1. exact Lm.
              ** rewrite (inv_recs st _ _ I1). exact L.
        -- cbn [run] in H. inv H. split; [exact I1 | exact I].
Qed.

(* ---- a whole record ---- *)
(* a well-formed record: bytes, 5..260 long, length byte = length - 5 *)
Definition wf_rec (r : list N) : Prop :=
  bytes_ok r = true /\ (5 <= length r <= 260)%nat /\ nth 4 r 0 = N.of_nat (length r) - 5.

Lemma wf_rec_id r : wf_rec r -> rec_id r < 65536.
Proof.
  intros (B & L & _). destruct r as [|b0 [|b1 r]]; cbn in L; try lia.
  cbn in B. unfold is_byte in B. cbn [rec_id]. lia.
Qed.
Lemma find_rec_spec recs rid rec nx :
  find_rec recs rid = Some (rec, nx) -> rec_id rec = rid /\ In rec recs /\
  (nx = 0xFFFF \/ exists r', In r' recs /\ nx = rec_id r').
Proof.
  induction recs as [|r rest IH]; cbn; [discriminate|].
  destruct (rec_id r =? rid) eqn:E.
  - intros H. inv H. apply N.eqb_eq in E. split; [exact E|]. split; [left; reflexivity|].
    destruct rest as [|r' rest']; cbn; [left; reflexivity | right; exists r'; auto].
  - intros H. apply IH in H. destruct H as (A & B & [C|(r' & C & D)]); repeat split; auto. right. exists r'. auto.
Qed.
Lemma lookup_spec recs rid rec nx :
  lookup recs rid = Some (rec, nx) ->
  In rec recs /\ (nx = 0xFFFF \/ exists r', In r' recs /\ nx = rec_id r') /\ lookup recs (rec_id rec) = Some (rec, nx).
Proof.
  unfold lookup. destruct (rid =? 0) eqn:Z.
  - destruct recs as [|r rest]; [discriminate|]. intros H. inv H. split; [left; reflexivity|]. split.
    + destruct rest as [|r' rest']; cbn; [left; reflexivity | right; exists r'; auto].
    + destruct (rec_id rec =? 0); [reflexivity|]. cbn. rewrite N.eqb_refl. reflexivity.
  - intros H. pose proof (find_rec_spec _ _ _ _ H) as (A & B & C). split; [exact B|]. split; [exact C|].
    rewrite A, Z. exact H.
Qed.

(* either every record fits the one-byte offset, or only transient codes are injected *)
Definition short_recs (recs : list (list N)) : Prop := forall r, In r recs -> (length r <= 256)%nat.

Lemma get_sdr_run st rid resv s x s' tr :
  Forall wf_rec (recs_of st s) -> short_recs (recs_of st s) \/ plan_ok s -> rid < 65536 ->
  run (get_sdr st rid resv) sdr_dev s [] = (x, s', tr) ->
  inv s s' /\
  match x with
  | Ok (nx, data) => lookup (recs_of st s) rid = Some (data, nx)
  | Err OutOfFuel => plan_ok s -> 4 <= s_limit s -> False
  | Err _ => True
  end.
Proof.
  intros W R256 Hrid H. unfold get_sdr in H. rewrite run_bind in H.
  assert (exists r s0 tr0, inv s s0 /\
            run (dop h <- get_chunk st r rid 0 5;
                 (let '(next, data) := h in
                  match data with
                  | b0 :: b1 :: _ :: _ :: b4 :: _ => data_loop 19 st r (b0 + 256 * b1) (Z.of_N b4 + 5) 20 next data
                  | _ => Raise DecodingError
                  end)) sdr_dev s0 tr0 = (x, s', tr) \/
          (inv s s' /\ exists e, x = Err e /\ e <> OutOfFuel)) as K.
  { destruct resv as [r|].
    - cbn [run] in H. exists r, s, []. left. split; [apply inv_refl | exact H].
    - destruct (run (reserve st) sdr_dev s []) as [[x0 s0] tr0] eqn:R0. apply reserve_run in R0. destruct R0 as (I0 & _ & NF).
      destruct x0 as [r|e].
      + exists r, s0, tr0. left. split; [exact I0 | exact H].
      + inv H. exists 0, s, []. right. split; [exact I0|]. exists e. split; [reflexivity | congruence]. }
  clear H. destruct K as (r & s0 & tr0 & [(I0 & H)|(I0 & e & -> & NF)]).
  2:{ split; [exact I0|]. destruct e; auto; congruence. }
  rewrite run_bind in H. unfold get_chunk in H.
  destruct (run (chunk_prog 4 st st r rid 0 5) sdr_dev s0 tr0) as [[x1 s1] tr1] eqn:Rc.
  apply chunk_run in Rc. destruct Rc as (I1 & X1).
  assert (inv s s1) as I01 by (eapply inv_trans; eauto).
  destruct x1 as [[nx d]|e].
  2:{ inv H. split; [exact I01|]. destruct e; auto. }
  destruct X1 as (rec & nx0 & L & -> & -> & _).
  rewrite (inv_recs st _ _ I0), (w16_small _ Hrid) in L.
  pose proof (lookup_spec _ _ _ _ L) as (Hin & Hnx & Lown).
  assert (wf_rec rec) as Wr by (rewrite Forall_forall in W; apply W; exact Hin).
  assert (nx0 < 65536) as Hnx0.
  { destruct Hnx as [->|(r' & Hr' & ->)]; [reflexivity|]. apply wf_rec_id. rewrite Forall_forall in W. apply W. exact Hr'. }
  pose proof (wf_rec_id _ Wr) as Hid.
  destruct Wr as (Wb & Wl & W4).
  destruct rec as [|b0 [|b1 [|b2 [|b3 [|b4 rest]]]]]; cbn [length] in Wl; try lia.
  assert (slice (byteZ 0) (byteZ 5) (b0 :: b1 :: b2 :: b3 :: b4 :: rest) = [b0; b1; b2; b3; b4]) as Hd by reflexivity.
  rewrite Hd in H. cbv beta iota in H.
  cbn [nth] in W4.
  assert (Z.of_N b4 + 5 = Z.of_nat (length (b0 :: b1 :: b2 :: b3 :: b4 :: rest)))%Z as Hlen by (cbn [length] in *; lia).
  rewrite Hlen in H.
  change (b0 + 256 * b1) with (rec_id (b0 :: b1 :: b2 :: b3 :: b4 :: rest)) in H.
  eapply (data_loop_run 19 st r _ _ nx0) in H.
  - destruct H as (I2 & X2). split; [eapply inv_trans; eauto|].
    destruct x as [[nx data]|e].
    + destruct X2 as (-> & ->). rewrite (w16_small _ Hnx0). exact L.
    + destruct e; auto. intros P Lm. apply X2; [apply I01; exact P | rewrite (inv_limit _ _ I01); exact Lm].
  - rewrite (inv_recs st _ _ I01), (w16_small _ Hid). exact Lown.
  - destruct R256 as [R256|P]; [left; apply R256; exact Hin|]. right.
    split; [apply I01; exact P|]. split; [cbn [length]; lia|]. split; [lia|].
    exists 0%nat. cbn [length]. split; [lia|]. split; lia.
  - reflexivity.
  - cbn [length]. lia.
  - cbn [length]. lia.
  - lia.
Qed.

(* ---- listing ---- *)
(* every record with the id of its successor (0xFFFF after the last) *)
Fixpoint annot (recs : list (list N)) : list (N * list N) :=
  match recs with [] => [] | r :: rest => (next_id rest, r) :: annot rest end.

Definition wf_store (recs : list (list N)) : Prop :=
  Forall wf_rec recs /\ NoDup (map rec_id recs) /\
  Forall (fun r => rec_id r <> 0 /\ rec_id r <> 0xFFFF) recs.

Lemma find_rec_mid done : forall r rest,
  ~ In (rec_id r) (map rec_id done) ->
  find_rec (done ++ r :: rest) (rec_id r) = Some (r, next_id rest).
Proof.
  induction done as [|d done IH]; intros r rest Hn; cbn.
  - rewrite N.eqb_refl. reflexivity.
  - destruct (rec_id d =? rec_id r) eqn:E.
    + apply N.eqb_eq in E. exfalso. apply Hn. left. exact E.
    + apply IH. intros Hin. apply Hn. right. exact Hin.
Qed.
Lemma lookup_mid done r rest :
  NoDup (map rec_id (done ++ r :: rest)) -> rec_id r <> 0 ->
  lookup (done ++ r :: rest) (rec_id r) = Some (r, next_id rest).
Proof.
  intros ND Hz. unfold lookup. apply N.eqb_neq in Hz. rewrite Hz. apply find_rec_mid.
  rewrite map_app in ND. cbn in ND. apply NoDup_remove_2 in ND. intros Hin. apply ND. apply in_or_app. left. exact Hin.
Qed.
Lemma annot_app done : forall r rest, annot (done ++ r :: rest) = annot (done ++ [r]) ++ annot rest
  -> True.
Proof. trivial. Qed.

Lemma entries_run fuel st resv (recs : list (list N)) : forall done r rest rid acc s tr x s' tr',
  recs = done ++ r :: rest -> wf_store recs -> short_recs recs \/ plan_ok s -> recs_of st s = recs ->
  lookup recs rid = Some (r, next_id rest) -> rid < 65536 ->
  acc ++ annot (r :: rest) = annot recs ->
  (length (r :: rest) <= fuel)%nat ->
  run (entries_loop fuel st resv rid acc) sdr_dev s tr = (x, s', tr') ->
  inv s s' /\
  match x with
  | Ok l => l = annot recs
  | Err OutOfFuel => plan_ok s -> 4 <= s_limit s -> False
  | Err _ => True
  end.
Proof.
  induction fuel as [|fuel IH]; intros done r rest rid acc s tr x s' tr' Hrecs W Hsp Hs L Hrid Hacc Hfuel H;
    cbn [length] in Hfuel; [lia|].
  cbn [entries_loop] in H. rewrite run_bind in H.
  destruct (run (get_sdr st rid (Some resv)) sdr_dev s tr) as [[x1 s1] tr1] eqn:R1.
  assert (exists trx, run (get_sdr st rid (Some resv)) sdr_dev s [] = (x1, s1, trx)) as (trx & R1').
  { eapply run_tr_indep. exact R1. }
  destruct W as (Wf & ND & Wid).
  apply get_sdr_run in R1'; [| rewrite Hs; exact Wf | rewrite Hs; exact Hsp | exact Hrid].
  destruct R1' as (I1 & X1). destruct x1 as [[nx data]|e].
  2:{ inv H. split; [exact I1|]. destruct e; auto. }
  rewrite Hs, L in X1. inv X1.
  cbn [fst] in H.
  assert (next_id rest <> 0) as Hnz.
  { destruct rest as [|r' rest']; cbn; [discriminate|]. rewrite Forall_forall in Wid. apply Wid. apply in_or_app. right. right. left. reflexivity. }
  apply N.eqb_neq in Hnz. rewrite Hnz in H.
  destruct rest as [|r' rest'].
  - cbn [next_id] in H. cbn in H. inv H. split; [exact I1|]. cbn [annot next_id] in Hacc. exact Hacc.
  - cbn [next_id] in H.
    assert (rec_id r' <> 0 /\ rec_id r' <> 0xFFFF) as (Hr0 & Hrf).
    { rewrite Forall_forall in Wid. apply Wid. apply in_or_app. right. right. left. reflexivity. }
    apply N.eqb_neq in Hrf. rewrite Hrf in H.
    eapply (IH (done ++ [data]) r' rest') in H.
    + destruct H as (I2 & X2). split; [eapply inv_trans; eauto|]. destruct x as [l|e]; [exact X2|].
      destruct e; auto. intros P Lm. apply X2; [apply I1; exact P | rewrite (inv_limit _ _ I1); exact Lm].
    + rewrite <- app_assoc. reflexivity.
    + repeat split; assumption.
    + destruct Hsp as [Hsp|Hsp]; [left; exact Hsp | right; apply I1; exact Hsp].
    + rewrite (inv_recs st _ _ I1). exact Hs.
    + change (done ++ data :: r' :: rest') with (done ++ [data] ++ r' :: rest'). rewrite app_assoc.
      apply lookup_mid; [rewrite <- app_assoc; exact ND | exact Hr0].
    + apply wf_rec_id. rewrite Forall_forall in Wf. apply Wf. apply in_or_app. right. right. left. reflexivity.
    + rewrite <- app_assoc. exact Hacc.
    + cbn [length] in *. lia.
Qed.

Lemma sdr_entries_run fuel st s x s' tr :
  wf_store (recs_of st s) -> short_recs (recs_of st s) \/ plan_ok s ->
  recs_of st s <> [] -> (length (recs_of st s) <= fuel)%nat ->
  run (sdr_entries fuel st) sdr_dev s [] = (x, s', tr) ->
  match x with
  | Ok l => l = annot (recs_of st s)
  | Err OutOfFuel => plan_ok s -> 4 <= s_limit s -> False
  | Err _ => True
  end.
Proof.
  intros W Hsp Hne Hfuel H. unfold sdr_entries in H. rewrite run_bind in H.
  destruct (run (reserve st) sdr_dev s []) as [[x0 s0] tr0] eqn:R0. apply reserve_run in R0. destruct R0 as (I0 & _ & NF).
  destruct x0 as [resv|e]; [|inv H; destruct e; auto; congruence].
  destruct (recs_of st s) as [|r rest] eqn:Hs; [congruence|].
  eapply (entries_run fuel st resv (r :: rest) [] r rest) in H; try reflexivity; try assumption.
  - destruct H as (_ & X). destruct x as [l|e]; [exact X|]. destruct e; auto. intros P Lm. apply X; [apply I0; exact P|].
    rewrite (inv_limit _ _ I0). exact Lm.
  - destruct Hsp as [Hsp|Hsp]; [left; exact Hsp | right; apply I0; exact Hsp].
  - rewrite (inv_recs st _ _ I0). exact Hs.
Qed.

(* ------------------------------------------------------------------------- *)
(* statements used by Props/C11.v                                             *)
(* ------------------------------------------------------------------------- *)
Lemma exact_or_error st s rid resv nx data s' tr :
  Forall wf_rec (recs_of st s) -> plan_ok s -> rid < 65536 ->
  run (get_sdr st rid resv) sdr_dev s [] = (Ok (nx, data), s', tr) ->
  lookup (recs_of st s) rid = Some (data, nx).
Proof. intros W P Hr H. apply get_sdr_run in H; auto. destruct H as (_ & X). exact X. Qed.

Lemma exact_or_error_any_codes st s rid resv nx data s' tr :
  Forall wf_rec (recs_of st s) -> short_recs (recs_of st s) -> rid < 65536 ->
  run (get_sdr st rid resv) sdr_dev s [] = (Ok (nx, data), s', tr) ->
  lookup (recs_of st s) rid = Some (data, nx).
Proof. intros W R Hr H. apply get_sdr_run in H; auto. destruct H as (_ & X). exact X. Qed.

Lemma map_snd_annot recs : map snd (annot recs) = recs.
Proof. induction recs as [|r rest IH]; cbn; [reflexivity | rewrite IH; reflexivity]. Qed.

Lemma list_complete fuel st s l s' tr :
  wf_store (recs_of st s) -> plan_ok s -> recs_of st s <> [] -> (length (recs_of st s) <= fuel)%nat ->
  run (sdr_entries fuel st) sdr_dev s [] = (Ok l, s', tr) ->
  l = annot (recs_of st s) /\ map snd l = recs_of st s.
Proof.
  intros W P Hne Hf H. apply sdr_entries_run in H; auto. split; [exact H|]. subst l. apply map_snd_annot.
Qed.

Lemma list_complete_any_codes fuel st s l s' tr :
  wf_store (recs_of st s) -> short_recs (recs_of st s) -> recs_of st s <> [] -> (length (recs_of st s) <= fuel)%nat ->
  run (sdr_entries fuel st) sdr_dev s [] = (Ok l, s', tr) ->
  l = annot (recs_of st s) /\ map snd l = recs_of st s.
Proof.
  intros W R Hne Hf H. apply sdr_entries_run in H; auto. split; [exact H|]. subst l. apply map_snd_annot.
Qed.

Lemma no_fuel_get st s rid resv x s' tr :
  Forall wf_rec (recs_of st s) -> rid < 65536 -> plan_ok s -> 4 <= s_limit s ->
  run (get_sdr st rid resv) sdr_dev s [] = (x, s', tr) -> x <> Err OutOfFuel.
Proof. intros W Hr P L H. apply get_sdr_run in H; auto. destruct H as (_ & X). intros ->. exact (X P L). Qed.

Lemma no_fuel_list fuel st s x s' tr :
  wf_store (recs_of st s) -> recs_of st s <> [] -> (length (recs_of st s) <= fuel)%nat -> plan_ok s -> 4 <= s_limit s ->
  run (sdr_entries fuel st) sdr_dev s [] = (x, s', tr) -> x <> Err OutOfFuel.
Proof. intros W Hne Hf P L H. apply sdr_entries_run in H; auto. intros ->. exact (H P L). Qed.

Definition example_state : sdr_state :=
  mkSdr [[1; 0; 0x51; 0xC1; 3; 7; 8; 9]; [2; 0; 0x51; 0xC1; 9; 1; 2; 3; 4; 5; 6; 7; 8; 9]] [] 6
        0x10 false 0x20 false [FNone; FNone; FNone; FCancel; FNone; FCode CC_TIMEOUT].
Lemma example_read :
  let s := example_state in
  fst (fst (run (get_sdr Repo 2 None) sdr_dev s [])) = Ok (0xFFFF, [2; 0; 0x51; 0xC1; 9; 1; 2; 3; 4; 5; 6; 7; 8; 9])
  /\ wf_store (s_repo s) /\ plan_ok s /\ 4 <= s_limit s.
Proof.
  split; [vm_compute; reflexivity|]. split; [|split].
  - unfold wf_store, wf_rec, example_state. cbn. split; [|split].
    + repeat constructor; cbn; lia.
    + repeat constructor; cbn; intuition discriminate.
    + repeat constructor; cbn; discriminate.
  - unfold plan_ok. cbn. repeat constructor; cbn; auto.
  - cbn. lia.
Qed.

(* ------------------------------------------------------------------------- *)
(* renewal: with no further fault, a chunk read completes from ANY reservation *)
(* state (valid, cancelled, stale id) - renewing once, with the store's own     *)
(* reservation command (C11_same_store)                                        *)
(* ------------------------------------------------------------------------- *)
Definition get_answer (s : sdr_state) (st : store) (resv rid : N) (off len : Z) : list N :=
  if negb (valid_of st s && (w16 resv =? res_of st s)) then [CC_RES_CANCELED]
  else match lookup (recs_of st s) (w16 rid) with
       | None => [0xCB]
       | Some (rec, nx) => if s_limit s <? byteZ len then [CC_CANT_RET_NUM_REQ_BYTES]
                           else 0 :: le_bytes 2 nx ++ slice (byteZ off) (byteZ len) rec
       end.

Lemma dev_get_exact s st resv rid off len : s_plan s = [] ->
  sdr_dev s (get_req st resv rid off len) = (s, RBytes (get_answer s st resv rid off len)).
Proof.
  intros P. unfold sdr_dev. rewrite P. unfold sdr_answer, get_answer. cbn [get_req q_netfn q_cmd q_data].
  rewrite store_of_own.
  assert (st_get_cmd st =? RESERVE_CMD = false) as Eg by (destruct st; reflexivity).
  rewrite Eg, N.eqb_refl. cbn [le_bytes app]. fold (w16 resv). fold (w16 rid).
  destruct (negb _); [reflexivity|]. destruct (lookup _ _) as [[rec nx]|]; [|reflexivity].
  destruct (s_limit s <? byteZ len); reflexivity.
Qed.
Lemma dev_reserve_exact s st : s_plan s = [] ->
  sdr_dev s (reserve_req st) = (do_reserve st s, RBytes (0 :: le_bytes 2 (res_of st (do_reserve st s)))).
Proof.
  intros P. unfold sdr_dev. rewrite P. unfold sdr_answer. cbn [reserve_req q_netfn q_cmd q_data].
  rewrite store_of_own, N.eqb_refl. reflexivity.
Qed.

Lemma chunk_unfold n st rst resv rid off len :
  chunk_prog (S n) st rst resv rid off len =
  (dop d <- send_message (get_req st resv rid off len);
    match dec_get_rsp d with
    | Err e => Raise e
    | Ok (cc, next, data) =>
      if cc =? 0 then Ret (next, data)
      else if cc =? CC_RES_CANCELED then
        Sleep 1000 (dop nr <- reserve rst; chunk_prog n st rst nr rid off len)
      else if cc =? CC_TIMEOUT then Sleep 100 (chunk_prog n st rst resv rid off len)
      else if cc =? CC_RESP_COULD_NOT_BE_PRV then Sleep (100 * N.of_nat (S n)) (chunk_prog n st rst resv rid off len)
      else Raise (CCError cc)
    end).
Proof. reflexivity. Qed.

Lemma renewal_completes st resv rid off len s tr rec nx :
  s_plan s = [] -> lookup (recs_of st s) (w16 rid) = Some (rec, nx) -> byteZ len <= s_limit s ->
  exists s' tr', run (get_chunk st resv rid off len) sdr_dev s tr =
                   (Ok (w16 nx, slice (byteZ off) (byteZ len) rec), s', tr') /\
                 s_plan s' = [] /\ same_content s s' /\ valid_of st s' = true.
Proof.
  intros P L B.
  assert (forall s0 r0 tr0 n, s_plan s0 = [] -> recs_of st s0 = recs_of st s -> s_limit s0 = s_limit s ->
            valid_of st s0 = true -> w16 r0 = res_of st s0 ->
            run (chunk_prog (S n) st st r0 rid off len) sdr_dev s0 tr0 =
            (Ok (w16 nx, slice (byteZ off) (byteZ len) rec), s0, tr0 ++ [(get_req st r0 rid off len, RBytes (get_answer s0 st r0 rid off len))])) as Good.
  { intros s0 r0 tr0 n P0 R0 L0 V0 E0. rewrite chunk_unfold. rewrite run_bind. unfold send_message. cbn [send_msg_loop run].
    rewrite (dev_get_exact _ _ _ _ _ _ P0). cbn [run].
    unfold get_answer. rewrite V0, E0, N.eqb_refl, R0, L, L0. cbn [andb negb].
    assert (s_limit s <? byteZ len = false) as -> by lia.
    rewrite dec_get_full. cbn. reflexivity. }
  destruct (valid_of st s && (w16 resv =? res_of st s)) eqn:V.
  - apply andb_prop in V as [V1 V2]. apply N.eqb_eq in V2.
    eexists s, _. split; [unfold get_chunk; apply Good; auto|]. split; [exact P|]. split; [unfold same_content; tauto | exact V1].
  - unfold get_chunk. rewrite (chunk_unfold 3). rewrite run_bind. unfold send_message at 1. cbn [send_msg_loop run].
    rewrite (dev_get_exact _ _ _ _ _ _ P). cbn [run]. unfold get_answer at 1. rewrite V. cbn [negb].
    cbn [dec_get_rsp]. cbn [N.eqb CC_RES_CANCELED Pos.eqb]. cbn [run]. rewrite run_bind.
    unfold reserve. rewrite run_bind. unfold send_message at 1. cbn [send_msg_loop run].
    rewrite (dev_reserve_exact _ _ P). cbn [run].
    set (s2 := do_reserve st s).
    assert (res_of st s2 < 65536) as Hr by (unfold s2; destruct st; cbn; unfold new_res; lia).
    assert (dec_reserve_rsp (0 :: le_bytes 2 (res_of st s2)) = Ok (0, w16 (res_of st s2))) as -> by reflexivity.
    cbn [N.eqb run].
    eexists s2, _. split.
    + apply Good.
      * unfold s2; destruct st; cbn; exact P.
      * unfold s2; destruct st; reflexivity.
      * unfold s2; destruct st; reflexivity.
      * unfold s2; destruct st; reflexivity.
      * rewrite !w16_small; auto. rewrite w16_small; auto.
    + split; [unfold s2; destruct st; cbn; exact P|]. split; [unfold same_content, s2; destruct st; cbn; tauto|].
      unfold s2; destruct st; reflexivity.
Qed.

(* Why [plan_ok] is needed for records longer than 256 bytes: a device that refuses ONE
   20-byte read with 0xCA after having accepted three of them (an inconsistent limit) steers
   the reads to offset 5 + 3*20 + 12*16 = 257, which the one-byte offset field turns into 1:
   the 260-byte record comes back with its last three bytes replaced. *)
Definition long_rec : list N := [2; 1; 0x51; 0xC1; 255] ++ map (fun i => N.of_nat i mod 251) (seq 5 255).
Definition inconsistent_state : sdr_state :=
  mkSdr [long_rec] [] 255 0x10 false 0x20 false [FNone; FNone; FNone; FNone; FNone; FCode CC_CANT_RET_NUM_REQ_BYTES].
Lemma inconsistent_limit_alters :
  let s := inconsistent_state in
  Forall wf_rec (recs_of Repo s) /\ 4 <= s_limit s /\
  exists nx data, fst (fst (run (get_sdr Repo 0x0102 None) sdr_dev s [])) = Ok (nx, data) /\
                  lookup (recs_of Repo s) 0x0102 <> Some (data, nx).
Proof.
  split; [|split].
  - constructor; [|constructor]. unfold wf_rec. split; [vm_compute; reflexivity|]. split; [vm_compute; lia | vm_compute; reflexivity].
  - vm_compute. discriminate.
  - eexists. eexists. split; [vm_compute; reflexivity|]. vm_compute. intros H. inv H.
Qed.
