(* C07 - purity: obligations over the regenerated operation list, and "a read leaves the BMC as
   it is and returns a function of the BMC's answer only". *)
From Coq Require Import String Ascii.
From Coq Require Import NArith ZArith List Bool Lia.
From PyIpmi Require Import Lib.Res Lib.Bytes Lib.Prog Model.ApiSem Model.Bmc Gen.ApiContent Model.ApiRun
  Proofs.ApiRunProofs.
Import ListNotations.
Open Scope string_scope.
Open Scope list_scope.
Open Scope N_scope.

(* no result class mutates class-level state in place, no constructor default is a shared mutable object *)
Lemma all_pure : forallb pure_op api_content = true.
Proof. vm_compute. reflexivity. Qed.
Lemma no_shared_defaults : shared_defaults = [].
Proof. reflexivity. Qed.
(* every operation the C07 theorems and the reference semantics speak about exists on the connection object; whether
   it translated in this run is is_supported (an operation refused in this run is "downgraded": see Model/ApiRun.v) *)
Lemma covered_present : forallb is_present covered = true.
Proof. vm_compute. reflexivity. Qed.

(* the read commands of the reference BMC (netfn, cmd) *)
Definition read_cmds : list (N * N) :=
  [(6, 1); (6, 8); (6, 37); (6, 70); (6, 68); (0, 1); (0, 9); (4, 1); (4, 45); (4, 39); (4, 42);
   (12, 2); (44, 0); (44, 8); (44, 11); (44, 18); (44, 20); (44, 22); (44, 46); (44, 52); (44, 54);
   (6, 56); (44, 15); (44, 60); (44, 37); (44, 55); (44, 1); (44, 2); (44, 47)].
Definition is_read_cmd (r : request) : bool :=
  existsb (fun '(a, b) => (q_netfn r =? a) && (q_cmd r =? b)) read_cmds.

Lemma bmc_read_pure s r : is_read_cmd r = true -> fst (bmc_handle s r) = s.
Proof.
  destruct r as [nf cmd lun d]. unfold is_read_cmd. cbn [q_netfn q_cmd]. intros H.
  apply existsb_exists in H as ([a b] & Hin & E). apply andb_true_iff in E as [E1 E2].
  apply N.eqb_eq in E1, E2. subst nf cmd.
  unfold read_cmds in Hin. cbn [List.In] in Hin.
  repeat (destruct Hin as [Hin | Hin];
          [injection Hin as <- <-; unfold bmc_handle, h_app, h_chassis, h_sensor, h_transport, h_picmg, h_dcmi;
           cbn [q_netfn q_cmd q_lun q_data N.eqb Pos.eqb];
           repeat match goal with |- context [if ?c then _ else _] => destruct c end; reflexivity |]).
  contradiction.
Qed.

(* a one-exchange operation whose request is a read command: the BMC state is unchanged and the
   result is [one_exchange] of the BMC's answer - a function of (arguments, BMC state) only *)
Lemma read_pure name args s :
  forall rp r out, one_exchange name args rp = Some (r, out) -> is_read_cmd r = true ->
  snd (bmc_handle s r) = rp -> call name args s = (out, s).
Proof.
  intros rp r out H R B. apply (call_one name args rp r out s s H).
  rewrite (surjective_pairing (bmc_handle s r)), B, (bmc_read_pure s r R). reflexivity.
Qed.

(* the covered read operations do send read commands (arguments from the middle of their ranges) *)
Definition read_samples : list (string * list (string * pv) * reply) := [
  ("get_device_id", [], RBytes [0]); ("get_watchdog_timer", [], RBytes [0]); ("get_chassis_status", [], RBytes [0]);
  ("get_system_boot_options", [arg "parameter_selector" 5], RBytes [0]);
  ("get_boot_device", [], RBytes [0]); ("get_boot_mode", [], RBytes [0]); ("get_boot_persistency", [], RBytes [0]);
  ("get_lan_config_param", [arg "channel" 1; arg "parameter_selector" 3], RBytes [0]);
  ("get_ip_address", [arg "channel" 1], RBytes [0]); ("get_ip_source", [arg "channel" 1], RBytes [0]);
  ("get_mac_address", [arg "channel" 1], RBytes [0]); ("get_vlan_id", [arg "channel" 1], RBytes [0]);
  ("get_username", [arg "userid" 2], RBytes [0]); ("get_user_access", [arg "userid" 2; arg "channel" 1], RBytes [0]);
  ("get_sensor_reading", [arg "sensor_number" 3; arg "lun" 1], RBytes [0]);
  ("get_sensor_thresholds", [arg "sensor_number" 3; arg "lun" 1], RBytes [0]);
  ("get_event_receiver", [], RBytes [0]); ("get_picmg_properties", [], RBytes [0]);
  ("get_power_level", [arg "fru_id" 1; arg "power_type" 0], RBytes [0]);
  ("get_fan_speed_properties", [arg "fru_id" 1], RBytes [0]); ("get_fan_level", [arg "fru_id" 1], RBytes [0]);
  ("get_led_state", [arg "fru_id" 1; arg "led_id" 2], RBytes [0]);
  ("get_target_upgrade_capabilities", [], RBytes [0]); ("get_upgrade_status", [], RBytes [0]);
  ("query_selftest_results", [], RBytes [0]);
  ("get_port_state", [arg "channel_number" 15; arg "channel_interface" 1], RBytes [0]);
  ("get_signaling_class", [arg "interface" 1; arg "channel" 15], RBytes [0]);
  ("get_power_channel_status", [arg "start" 3], RBytes [0]); ("get_pm_global_status", [], RBytes [0]);
  ("get_device_guid", [], RBytes [0]);
  ("get_channel_authentication_capabilities", [arg "channel" 1; arg "priv_lvl" 4], RBytes [0]);
  ("query_rollback_status", [], RBytes [0]); ("get_dcmi_capabilities", [arg "selector" 1], RBytes [0]);
  ("get_power_reading", [arg "mode" 1; arg "attributes" 0], RBytes [0]);
  ("get_component_property", [arg "component_id" 0; arg "property_id" 1], RBytes [0])].
Definition chk_read_sample (x : string * list (string * pv) * reply) : bool :=
  let '(n, a, rp) := x in
  match find_cop n with
  | Some o => if supported o then
                match replay (run_cop o a) [rp] [] [] with
                | (_, [r], _, _) => is_read_cmd r
                | _ => false
                end
              else true                       (* refused in this run: downgraded, no claim *)
  | None => false
  end.
Lemma reads_send_reads : forallb chk_read_sample read_samples = true.
Proof. vm_compute. reflexivity. Qed.
