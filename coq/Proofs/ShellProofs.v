(* Lemmas about Model/Shell.v: how the lexer consumes a command line that is a sequence
   of blank-separated tokens, each a plain literal word, a double-quoted string escaped by
   [dq_escape], or the redirection 2>&1. *)
From Coq Require Import String Ascii.
From Coq Require Import NArith List Bool Lia.
From PyIpmi Require Import Lib.Bytes Model.Shell.
Import ListNotations.
Open Scope N_scope.

Lemma lit_facts x : lit x = true ->
  (x =? 0) = false /\ blank x = false /\ (x =? 34) = false /\ (x =? 39) = false /\
  (x =? 92) = false /\ (x =? 96) = false /\ (x =? 36) = false /\ (x =? 62) = false /\
  (x =? 126) = false /\ (x =? 35) = false /\ special x = false.
Proof.
  unfold lit. intros H. apply negb_true_iff in H. pose proof H as Hs. unfold special in H.
  repeat (apply orb_false_iff in H; destruct H as [H ?]).
  repeat split; assumption.
Qed.

Lemma lit_step x c acc r s : lit x = true ->
  lex MW c acc r (x :: s) = lex MW (addc c true x) acc r s.
Proof.
  intros H. destruct (lit_facts x H) as (H0 & Hb & H34 & H39 & H92 & H96 & H36 & H62 & H126 & H35 & Hs).
  cbn [lex]. rewrite Hb, H34, H39, H92, H96, H36, H62, H126, H35, Hs. reflexivity.
Qed.

Lemma lit_run w : forallb lit w = true -> forall b v acc r X,
  lex MW (Some (b, v)) acc r (w ++ X) = lex MW (Some (b, v ++ w)) acc r X.
Proof.
  induction w as [|x w IH]; intros H b v acc r X.
  - now rewrite app_nil_r.
  - cbn in H. apply andb_prop in H as [Hx Hw]. cbn [app]. rewrite lit_step by assumption.
    cbn [addc]. rewrite andb_true_r. rewrite IH by assumption. now rewrite <- app_assoc.
Qed.

Lemma lit_word w : forallb lit w = true -> w <> [] -> forall acc r X,
  lex MW None acc r (w ++ X) = lex MW (Some (true, w)) acc r X.
Proof.
  intros H Hne acc r X. destruct w as [|x w]; [congruence|].
  cbn in H. apply andb_prop in H as [Hx Hw]. cbn [app]. rewrite lit_step by assumption.
  cbn [addc]. now rewrite (lit_run w Hw).
Qed.

Lemma dq_special_false c : dq_special c = false ->
  (c =? 92) = false /\ (c =? 34) = false /\ (c =? 36) = false /\ (c =? 96) = false.
Proof.
  unfold dq_special. intros H. repeat (apply orb_false_iff in H; destruct H as [H ?]). auto.
Qed.

(* the heart of C19: inside double quotes the escaped text lexes back to the text *)
Lemma dq_run s : nonul s = true -> forall v acc r X,
  lex MDq (Some (false, v)) acc r (dq_escape s ++ 34 :: X) = lex MW (Some (false, v ++ s)) acc r X.
Proof.
  induction s as [|c s IH]; intros H v acc r X.
  - cbn. now rewrite app_nil_r.
  - cbn in H. apply andb_prop in H as [Hc Hs]. apply negb_true_iff in Hc.
    unfold dq_escape. cbn [flat_map]. fold (dq_escape s).
    destruct (dq_special c) eqn:E.
    + (* backslash c : the shell removes the backslash *)
      cbn [app lex]. change (92 =? 0) with false. change (92 =? 34) with false.
      change (92 =? 96) with false. change (92 =? 36) with false. change (92 =? 92) with true.
      cbn iota. rewrite E. cbn [addc andb]. rewrite IH by assumption.
      now rewrite <- app_assoc.
    + destruct (dq_special_false c E) as (H92 & H34 & H36 & H96).
      cbn [app lex]. rewrite Hc, H34, H96, H36, H92. cbn [addc andb]. rewrite IH by assumption.
      now rewrite <- app_assoc.
Qed.

(* ---- tokens ---- *)
Inductive tok := TLit (w : list N) | TDq (s : list N) | TRedir.
Definition repr (t : tok) : list N :=
  match t with
  | TLit w => w
  | TDq s => 34 :: dq_escape s ++ [34]
  | TRedir => [50; 62; 38; 49]
  end.
Definition tok_ok (t : tok) : bool :=
  match t with
  | TLit w => plain_word w
  | TDq s => nonul s
  | TRedir => true
  end.
(* what is pending after a token has been read *)
Inductive pend := PW (pure : bool) (w : list N) | PR.
Definition pend_of (t : tok) : pend :=
  match t with TLit w => PW true w | TDq s => PW false s | TRedir => PR end.
Definition lexP (p : pend) (acc : list (list N)) (r : bool) (s : list N) : outcome :=
  match p with PW b w => lex MW (Some (b, w)) acc r s | PR => lex MR3 None acc r s end.
Definition flush (p : pend) (st : list (list N) * bool) : list (list N) * bool :=
  match p with PW _ w => (fst st ++ [w], snd st) | PR => (fst st, true) end.

Lemma bytes_eqb_nil_false w : negb (bytes_eqb w []) = true -> w <> [].
Proof. destruct w; cbn; [discriminate | congruence]. Qed.

Lemma tok_step t : tok_ok t = true -> forall acc r X,
  lex MW None acc r (repr t ++ X) = lexP (pend_of t) acc r X.
Proof.
  destruct t as [w|s|]; cbn [tok_ok repr pend_of lexP]; intros H acc r X.
  - unfold plain_word in H. apply andb_prop in H as [H1 H2]. apply lit_word; [assumption | now apply bytes_eqb_nil_false].
  - cbn [app]. rewrite <- app_assoc. cbn [app].
    change (lex MW None acc r (34 :: dq_escape s ++ 34 :: X))
      with (lex MDq (Some (false, [])) acc r (dq_escape s ++ 34 :: X)).
    now rewrite dq_run.
  - reflexivity.
Qed.

Lemma gap p acc r X :
  lexP p acc r (32 :: X) = lex MW None (fst (flush p (acc, r))) (snd (flush p (acc, r))) X.
Proof. destruct p; reflexivity. Qed.
Lemma at_end p acc r :
  lexP p acc r [] = finish (fst (flush p (acc, r))) (snd (flush p (acc, r))).
Proof. destruct p; reflexivity. Qed.

(* " tok tok ..." : every token preceded by one blank, as the builders append them *)
Definition lead (ts : list tok) : list N := flat_map (fun t => 32 :: repr t) ts.
Lemma lead_app a b : lead (a ++ b) = lead a ++ lead b.
Proof. apply flat_map_app. Qed.

Fixpoint after (p : pend) (ts : list tok) (st : list (list N) * bool) : list (list N) * bool :=
  match ts with [] => flush p st | t :: ts' => after (pend_of t) ts' (flush p st) end.

Lemma lex_lead ts : forallb tok_ok ts = true -> forall p acc r,
  lexP p acc r (lead ts) = finish (fst (after p ts (acc, r))) (snd (after p ts (acc, r))).
Proof.
  induction ts as [|t ts IH]; intros H p acc r.
  - apply at_end.
  - cbn in H. apply andb_prop in H as [Ht Hts].
    cbn [lead flat_map]. fold (lead ts). cbn [app]. rewrite gap.
    rewrite tok_step by assumption. rewrite IH by assumption. cbn [after].
    now destruct (flush p (acc, r)).
Qed.

Definition vals (ts : list tok) : list (list N) :=
  flat_map (fun t => match t with TLit w => [w] | TDq s => [s] | TRedir => [] end) ts.
Definition has_redir (ts : list tok) : bool :=
  existsb (fun t => match t with TRedir => true | _ => false end) ts.
Definition pval (p : pend) : list (list N) := match p with PW _ w => [w] | PR => [] end.
Definition predir (p : pend) : bool := match p with PR => true | _ => false end.

Lemma after_val ts : forall p acc r,
  after p ts (acc, r) = (acc ++ pval p ++ vals ts, r || predir p || has_redir ts).
Proof.
  induction ts as [|t ts IH]; intros p acc r.
  - destruct p; cbn; rewrite ?app_nil_r, ?orb_false_r, ?orb_true_r; reflexivity.
  - cbn [after]. unfold vals, has_redir. cbn [flat_map existsb]. fold (vals ts). fold (has_redir ts).
    destruct p as [b w|]; cbn [flush fst snd]; rewrite IH; f_equal.
    + destruct t; cbn; rewrite <- ?app_assoc; reflexivity.
    + destruct t; cbn; destruct r; cbn; reflexivity.
    + destruct t; cbn; rewrite <- ?app_assoc; reflexivity.
    + destruct t; cbn; destruct r; cbn; reflexivity.
Qed.

(* command word w0 followed by the tokens *)
Theorem lex_command w0 ts :
  forallb lit w0 = true -> w0 <> [] -> forallb tok_ok ts = true ->
  sh_lex (w0 ++ lead ts) = finish (w0 :: vals ts) (has_redir ts).
Proof.
  intros H0 Hne Hts. unfold sh_lex. rewrite lit_word by assumption.
  change (lex MW (Some (true, w0)) [] false (lead ts)) with (lexP (PW true w0) [] false (lead ts)).
  rewrite lex_lead by assumption. rewrite after_val. reflexivity.
Qed.

(* ordinary strings are not changed by the quoting rule *)
Lemma dq_escape_id s : forallb (fun c => negb (dq_special c)) s = true -> dq_escape s = s.
Proof.
  induction s as [|c s IH]; intros H; [reflexivity|].
  cbn in H. apply andb_prop in H as [Hc Hs]. apply negb_true_iff in Hc.
  unfold dq_escape. cbn [flat_map]. rewrite Hc. fold (dq_escape s). now rewrite IH.
Qed.
