(* Proofs about Model/RxLoop.v (C04, and the acknowledgement part of C09). *)
From Coq Require Import NArith List Lia ZArith ZifyN ZifyBool ZifyNat Bool.
From PyIpmi Require Import Lib.Res Lib.Bytes Lib.Bits Model.Ipmb Model.Bridge Model.RxLoop
     Proofs.IpmbProofs Proofs.BridgeProofs.
Import ListNotations.
Open Scope N_scope.
Ltac Zify.zify_post_hook ::= Z.to_euclidean_division_equations.

(* ------------------------------------------------------------------------- *)
(* what the loop body does with one frame                                      *)
(* ------------------------------------------------------------------------- *)
(* unwrapping as done by the LAN loop: Send Message responses are unwrapped, any other
   frame of at least 6 bytes is taken as it is *)
Definition unwrap (f : list N) : res (list N) :=
  match nth_error f 5 with
  | None => Err (OtherError IndexError)
  | Some c => if c =? CMDID_SEND_MESSAGE then decode_bridged f else Ok f
  end.

Lemma rx_filter_err h f o e : rx_filter h f o = Err e -> exists k, e = OtherError k.
Proof.
  unfold rx_filter. destruct f as [|d0 r]; [intros E; injection E as <-; eauto|].
  unfold hdr_rsp_decode.
  destruct r as [|d1 [|d2 [|d3 [|d4 [|d5 r]]]]]; cbn [bind]; intros E; try (injection E as <-; eauto); discriminate.
Qed.

Lemma rx_filter_ok_length h f o b : rx_filter h f o = Ok b -> (6 <= length f)%nat.
Proof.
  unfold rx_filter. destruct f as [|d0 r]; [discriminate|].
  unfold hdr_rsp_decode.
  destruct r as [|d1 [|d2 [|d3 [|d4 [|d5 r]]]]]; cbn [bind]; intros E; try discriminate. cbn. lia.
Qed.

Lemma classify_match h o f x : classify h o f = VMatch x ->
  unwrap f = Ok x /\ rx_filter h x o = Ok true.
Proof.
  unfold classify, unwrap. destruct f as [|b0 f0]; [discriminate|].
  destruct (nth_error (b0 :: f0) 5) as [c|]; [|discriminate].
  destruct (if c =? CMDID_SEND_MESSAGE then decode_bridged (b0 :: f0) else Ok (b0 :: f0)) as [y|e]; [|discriminate].
  destruct y as [|y0 y]; [discriminate|].
  destruct (rx_filter h (y0 :: y) o) as [[|]|e] eqn:E; try discriminate.
  intros H. injection H as <-. auto.
Qed.

Lemma classify_reject h o f x : classify h o f = VReject x ->
  unwrap f = Ok x /\ rx_filter h x o = Ok false.
Proof.
  unfold classify, unwrap. destruct f as [|b0 f0]; [discriminate|].
  destruct (nth_error (b0 :: f0) 5) as [c|]; [|discriminate].
  destruct (if c =? CMDID_SEND_MESSAGE then decode_bridged (b0 :: f0) else Ok (b0 :: f0)) as [y|e]; [|discriminate].
  destruct y as [|y0 y]; [discriminate|].
  destruct (rx_filter h (y0 :: y) o) as [[|]|e] eqn:E; try discriminate.
  intros H. injection H as <-. auto.
Qed.

Lemma classify_not_out_of_fuel h o f : classify h o f <> VRaise OutOfFuel.
Proof.
  unfold classify. destruct f as [|b0 f0]; [discriminate|].
  destruct (nth_error (b0 :: f0) 5) as [c|]; [|discriminate].
  destruct (c =? CMDID_SEND_MESSAGE).
  - destruct (decode_bridged (b0 :: f0)) as [y|e] eqn:E.
    + destruct y as [|y0 y]; [discriminate|].
      destruct (rx_filter h (y0 :: y) o) as [[|]|e] eqn:E2; try discriminate.
      apply rx_filter_err in E2 as [k ->]. discriminate.
    + intros H. injection H as ->. now apply decode_bridged_never_out_of_fuel in E.
  - destruct (rx_filter h (b0 :: f0) o) as [[|]|e] eqn:E2; try discriminate.
    apply rx_filter_err in E2 as [k ->]. discriminate.
Qed.

(* a frame that went through [unwrap] and is long enough for the filter is a fixed point *)
Lemma unwrap_idem f x : unwrap f = Ok x -> (6 <= length x)%nat -> unwrap x = Ok x.
Proof.
  unfold unwrap at 1. destruct (nth_error f 5) as [c|] eqn:E5; [|discriminate].
  destruct (c =? CMDID_SEND_MESSAGE) eqn:Ec.
  - intros D L. apply decode_bridged_result in D as [D|(c' & D1 & D2)]; [lia|].
    unfold unwrap. rewrite D1. destruct (c' =? CMDID_SEND_MESSAGE) eqn:Ec'; [lia | reflexivity].
  - intros D _. injection D as <-. unfold unwrap. now rewrite E5, Ec.
Qed.

(* ------------------------------------------------------------------------- *)
(* RMCP: fuel                                                                  *)
(* ------------------------------------------------------------------------- *)
Lemma rmcp_recv_fuel_enough rq h o : forall fuel rr q s,
  (rr + length q + length s < fuel)%nat ->
  fst (fst (rmcp_recv rq h o fuel rr q s)) <> RxRaise OutOfFuel.
Proof.
  induction fuel as [|fuel IH]; intros rr q s Hm; [lia|].
  cbn [rmcp_recv]. destruct rr as [|rr]; [cbn; discriminate|].
  destruct q as [|f q'].
  - destruct s as [|e s']; [cbn; discriminate|].
    destruct e as [f| |]; try (cbn; discriminate).
    destruct (classify h o f) as [x|x| |e] eqn:Ec; cbn [fst].
    + discriminate.
    + apply IH. destruct rq; cbn [length app] in *; lia.
    + apply IH. cbn [length] in *. lia.
    + intros E. injection E as ->. now apply classify_not_out_of_fuel in Ec.
  - destruct (classify h o f) as [x|x| |e] eqn:Ec; cbn [fst].
    + discriminate.
    + apply IH. destruct rq; [rewrite app_length|]; cbn [length] in *; lia.
    + apply IH. cbn [length] in *. lia.
    + intros E. injection E as ->. now apply classify_not_out_of_fuel in Ec.
Qed.

Lemma encode_ipmb_msg_err h d e : encode_ipmb_msg h d = Err e -> e = OtherError OtherExc.
Proof.
  unfold encode_ipmb_msg, hdr_req_encode, arr_bytes.
  destruct (bytes_ok [_; _; _; _; _; _]); cbn [bind]; [|intros E; now injection E as <-].
  destruct (bytes_ok d); cbn [bind]; [discriminate | intros E; now injection E as <-].
Qed.

Lemma wrap_hops_err hops seq : forall inner e,
  wrap_hops hops inner seq = Err e -> (forall e', inner = Err e' -> e' <> OutOfFuel) -> e <> OutOfFuel.
Proof.
  induction hops as [|b r IH]; intros inner e E Hin; cbn [wrap_hops] in E.
  - now apply Hin.
  - destruct (wrap_hops r inner seq) as [x|e'] eqn:Ex; cbn [bind] in E.
    + unfold encode_send_message in E. apply encode_ipmb_msg_err in E. subst. discriminate.
    + injection E as <-. eapply IH; eassumption.
Qed.

Lemma rmcp_prepare_err seq slave r e : rmcp_prepare seq slave r = Err e -> e <> OutOfFuel.
Proof.
  unfold rmcp_prepare. destruct (q_routing r) as [|r0 rt] eqn:Er.
  - destruct (encode_ipmb_msg _ _) eqn:E; cbn [bind]; [discriminate|].
    intros H. injection H as <-. apply encode_ipmb_msg_err in E. subst. discriminate.
  - destruct (exists_last (l := r0 :: rt) ltac:(discriminate)) as (hops & last & ->).
    rewrite encode_bridged_unfold.
    unfold bridged_header. rewrite rev_app_distr. cbn [rev app bind].
    destruct (wrap_hops _ _ _) eqn:E; cbn [bind]; [discriminate|].
    intros H. injection H as <-. eapply wrap_hops_err; [eassumption|].
    intros e' E'. apply encode_ipmb_msg_err in E'. subst. discriminate.
Qed.

Lemma rmcp_attempts_no_oof rq h o mr tx : forall n q s sent,
  fst (fst (fst (rmcp_attempts rq h o mr tx n q s sent))) <> Err OutOfFuel.
Proof.
  induction n as [|n IH]; intros q s sent; cbn [rmcp_attempts]; [cbn; discriminate|].
  pose proof (rmcp_recv_fuel_enough rq h o (rmcp_recv_fuel (S mr) q s) (S mr) q s) as F.
  destruct (rmcp_recv rq h o (rmcp_recv_fuel (S mr) q s) (S mr) q s) as [[r q'] s'].
  cbn [fst] in F. destruct r as [x| |e]; cbn [fst].
  - discriminate.
  - apply IH.
  - intros E. injection E as ->. apply F; [unfold rmcp_recv_fuel; lia | reflexivity].
Qed.

Lemma rmcp_never_out_of_fuel rq st r s :
  fst (fst (fst (rmcp_send_receive_gen rq st r s))) <> Err OutOfFuel.
Proof.
  unfold rmcp_send_receive_gen.
  destruct (rmcp_prepare _ _ r) as [[h tx]|e] eqn:Ep.
  - pose proof (rmcp_attempts_no_oof rq h (rmcp_opts (m_ignore_rq_seq st)) (m_max_retries st) tx
                  (S (m_max_retries st)) (m_queue st) s []) as F.
    destruct (rmcp_attempts _ _ _ _ _ _ _ _ _) as [[[out q'] s'] sent]. exact F.
  - cbn [fst]. intros E. injection E as ->. now apply rmcp_prepare_err in Ep.
Qed.

(* ------------------------------------------------------------------------- *)
(* RMCP: attribution (safety), for the repaired and for the original code      *)
(* ------------------------------------------------------------------------- *)
Section Attribution.
  Variable P : list N -> Prop.     (* "was received": a frame of the initial queue or of the script *)

  (* queue invariant: every queued frame is a received frame, or the (stable)
     unwrapping of one *)
  Definition qinv (q : list (list N)) : Prop :=
    forall y, In y q -> exists f, P f /\ (y = f \/ (unwrap f = Ok y /\ unwrap y = Ok y)).

  Lemma qinv_tail f q : qinv (f :: q) -> qinv q.
  Proof. intros H y Hy. apply H. now right. Qed.

  Lemma qinv_app q x : qinv q ->
    (exists f, P f /\ (x = f \/ (unwrap f = Ok x /\ unwrap x = Ok x))) -> qinv (q ++ [x]).
  Proof.
    intros Hq Hx y Hy. apply in_app_or in Hy as [Hy|[<-|[]]]; [now apply Hq | exact Hx].
  Qed.

  (* from a frame y that satisfies the invariant, what the loop body derives *)
  Lemma derived_step y x :
    (exists f, P f /\ (y = f \/ (unwrap f = Ok y /\ unwrap y = Ok y))) ->
    unwrap y = Ok x -> (6 <= length x)%nat ->
    exists f, P f /\ unwrap f = Ok x /\ unwrap x = Ok x.
  Proof.
    intros (f & Pf & [->|[U1 U2]]) U L.
    - exists f. repeat split; try assumption. eapply unwrap_idem; eassumption.
    - rewrite U2 in U. injection U as <-. exists f. auto.
  Qed.

  Lemma rmcp_recv_inv rq h o : forall fuel rr q s r q' s',
    (forall f, In f (frames_of s) -> P f) -> qinv q ->
    rmcp_recv rq h o fuel rr q s = (r, q', s') ->
    (forall f, In f (frames_of s') -> P f) /\ qinv q' /\
    (forall x, r = RxMatch x -> exists f, P f /\ unwrap f = Ok x /\ rx_filter h x o = Ok true).
  Proof.
    induction fuel as [|fuel IH]; intros rr q s r q' s' Hs Hq E; cbn [rmcp_recv] in E.
    { injection E as <- <- <-. repeat split; try assumption. discriminate. }
    destruct rr as [|rr].
    { injection E as <- <- <-. repeat split; try assumption. discriminate. }
    assert (Step : forall y q1 s1,
               (exists f, P f /\ (y = f \/ (unwrap f = Ok y /\ unwrap y = Ok y))) ->
               (forall f, In f (frames_of s1) -> P f) -> qinv q1 ->
               match classify h o y with
               | VRaise e => (RxRaise e, q1, s1)
               | VAck => rmcp_recv rq h o fuel (S rr) q1 s1
               | VMatch x => (RxMatch x, q1, s1)
               | VReject x => rmcp_recv rq h o fuel rr (if rq then q1 ++ [x] else q1) s1
               end = (r, q', s') ->
               (forall f, In f (frames_of s') -> P f) /\ qinv q' /\
               (forall x, r = RxMatch x -> exists f, P f /\ unwrap f = Ok x /\ rx_filter h x o = Ok true)).
    { intros y q1 s1 Hy Hs1 Hq1 E1.
      destruct (classify h o y) as [x|x| |e] eqn:Ec.
      - injection E1 as <- <- <-. apply classify_match in Ec as [U F].
        repeat split; try assumption. intros x' Ex. injection Ex as <-.
        destruct (derived_step y x Hy U (rx_filter_ok_length _ _ _ _ F)) as (f & Pf & Uf & _).
        exists f. auto.
      - apply classify_reject in Ec as [U F].
        eapply IH; [exact Hs1 | | exact E1].
        destruct rq; [|assumption]. apply qinv_app; [assumption|].
        destruct (derived_step y x Hy U (rx_filter_ok_length _ _ _ _ F)) as (f & Pf & Uf & Ux).
        exists f. split; [assumption|]. right. auto.
      - eapply IH; eassumption.
      - injection E1 as <- <- <-. repeat split; try assumption. discriminate. }
    destruct q as [|y q1].
    - destruct s as [|e s1].
      + injection E as <- <- <-. repeat split; try assumption. discriminate.
      + destruct e as [y| |].
        * apply (Step y [] s1); try assumption.
          -- exists y. split; [apply Hs; cbn; auto | now left].
          -- intros f Hf. apply Hs. cbn. now right.
        * injection E as <- <- <-. repeat split; try assumption; try discriminate.
        * injection E as <- <- <-. repeat split; try assumption; try discriminate.
    - apply (Step y q1 s); try assumption.
      + apply Hq. now left.
      + eapply qinv_tail; eassumption.
  Qed.

  Lemma rmcp_attempts_inv rq h o mr tx : forall n q s sent out q' s' sent',
    (forall f, In f (frames_of s) -> P f) -> qinv q ->
    rmcp_attempts rq h o mr tx n q s sent = (out, q', s', sent') ->
    forall d, out = Ok d ->
      exists f x, P f /\ unwrap f = Ok x /\ rx_filter h x o = Ok true /\ d = slice_6_m1 x.
  Proof.
    induction n as [|n IH]; intros q s sent out q' s' sent' Hs Hq E d Hd; cbn [rmcp_attempts] in E.
    { injection E as <- _ _ _. discriminate. }
    destruct (rmcp_recv rq h o (rmcp_recv_fuel (S mr) q s) (S mr) q s) as [[r q1] s1] eqn:Er.
    destruct (rmcp_recv_inv _ _ _ _ _ _ _ _ _ _ Hs Hq Er) as (Hs1 & Hq1 & Hm).
    destruct r as [x| |e].
    - injection E as <- _ _ _. injection Hd as <-.
      destruct (Hm x eq_refl) as (f & Pf & U & F). exists f, x. auto.
    - eapply IH; eassumption.
    - injection E as <- _ _ _. discriminate.
  Qed.
End Attribution.

(* the header the reply filter is applied with, and the frame transmitted *)
Definition rmcp_filter_header (st : rmcp_state) (r : rxreq) : res hdr :=
  do '(h, _) <- rmcp_prepare (inc_seq (m_next_seq st)) (m_slave st) r; Ok h.

Lemma rmcp_attribution rq st r s d st' sent rest :
  rmcp_send_receive_gen rq st r s = (Ok d, st', sent, rest) ->
  exists h f x,
    rmcp_filter_header st r = Ok h /\
    In f (m_queue st ++ frames_of s) /\          (* a frame that was received (or queued) *)
    unwrap f = Ok x /\                           (* x: that frame, Send Message responses removed *)
    rx_filter h x (rmcp_opts (m_ignore_rq_seq st)) = Ok true /\
    d = payload x.
Proof.
  unfold rmcp_send_receive_gen, rmcp_filter_header.
  destruct (rmcp_prepare _ _ r) as [[h tx]|e] eqn:Ep; [|discriminate].
  destruct (rmcp_attempts _ _ _ _ _ _ _ _ _) as [[[out q'] s'] sent0] eqn:Ea.
  intros E. injection E as -> _ _ _.
  pose (P := fun f => In f (m_queue st ++ frames_of s)).
  assert (H1 : forall f, In f (frames_of s) -> P f) by (intros f Hf; apply in_or_app; now right).
  assert (H2 : qinv P (m_queue st)).
  { intros y Hy. exists y. split; [apply in_or_app; now left | now left]. }
  destruct (rmcp_attempts_inv P rq h _ _ tx _ _ _ _ _ _ _ _ H1 H2 Ea d eq_refl)
    as (f & x & Pf & U & F & ->).
  exists h, f, x. cbn [bind]. repeat split; assumption.
Qed.

(* spelled out with the C03 characterisation of the filter *)
Lemma rmcp_attribution_fields rq st r s d st' sent rest :
  rmcp_send_receive_gen rq st r s = (Ok d, st', sent, rest) ->
  exists h f x,
    rmcp_filter_header st r = Ok h /\ In f (m_queue st ++ frames_of s) /\ unwrap f = Ok x /\
    d = payload x /\
    (6 <= length x)%nat /\ sum256 (firstn 3 x) = 0 /\ sum256 (skipn 3 x) = 0 /\
    nthN 1 x / 4 = N.lor (netfn h) 1 /\ nthN 5 x = cmdid h /\ nthN 4 x mod 4 = rs_lun h /\
    (m_ignore_rq_seq st = false -> nthN 4 x / 4 = rq_seq h).
Proof.
  intros E. destruct (rmcp_attribution _ _ _ _ _ _ _ _ E) as (h & f & x & Hh & Hf & U & F & ->).
  exists h, f, x. apply rx_filter_iff in F.
  destruct F as (L & S1 & S2 & Nf & Cm & _ & _ & _ & Lu & Sq).
  repeat split; try assumption.
  - apply Lu. reflexivity.
  - intros Hi. apply Sq. cbn. now rewrite Hi.
Qed.

(* ------------------------------------------------------------------------- *)
(* sequence numbers                                                            *)
(* ------------------------------------------------------------------------- *)
Lemma inc_seq_lt n : inc_seq n < 64.
Proof. unfold inc_seq. lia. Qed.

Lemma inc_seq_changes n : inc_seq (inc_seq n) <> inc_seq n.
Proof. unfold inc_seq. lia. Qed.

Lemma encode_ipmb_msg_byte4 h d f : encode_ipmb_msg h d = Ok f ->
  nth 4 f 0 = N.lor (N.shiftl (rq_seq h) 2) (rq_lun h).
Proof.
  unfold encode_ipmb_msg, hdr_req_encode, arr_bytes.
  destruct (bytes_ok [_; _; _; _; _; _]); cbn [bind]; [|discriminate].
  destruct (bytes_ok d); cbn [bind]; [|discriminate].
  intros E. injection E as <-. reflexivity.
Qed.

Lemma seq_field seq : N.lor (N.shiftl seq 2) 0 / 4 = seq.
Proof. rewrite N.lor_0_r, N.shiftl_mul_pow2. change (2 ^ 2) with 4. lia. Qed.

Lemma wrap_hops_byte4 hops seq inner f :
  wrap_hops hops inner seq = Ok f ->
  (forall x, inner = Ok x -> nth 4 x 0 / 4 = seq) -> nth 4 f 0 / 4 = seq.
Proof.
  destruct hops as [|b r]; cbn [wrap_hops]; intros E Hin; [now apply Hin|].
  destruct (wrap_hops r inner seq) as [x|e]; cbn [bind] in E; [|discriminate].
  unfold encode_send_message in E. apply encode_ipmb_msg_byte4 in E. rewrite E.
  cbn [rq_seq rq_lun]. apply seq_field.
Qed.

Lemma rmcp_prepare_seq seq slave r h tx :
  rmcp_prepare seq slave r = Ok (h, tx) -> nth 4 tx 0 / 4 = seq.
Proof.
  unfold rmcp_prepare. destruct (q_routing r) as [|r0 rt] eqn:Er.
  - destruct (encode_ipmb_msg _ _) as [t|] eqn:E; cbn [bind]; [|discriminate].
    intros H. injection H as _ <-. apply encode_ipmb_msg_byte4 in E. rewrite E.
    cbn [rmcp_header rq_seq rq_lun]. apply seq_field.
  - destruct (exists_last (l := r0 :: rt) ltac:(discriminate)) as (hops & last & ->).
    rewrite encode_bridged_unfold.
    destruct (bridged_header _ _); cbn [bind]; [|discriminate].
    destruct (wrap_hops _ _ _) as [t|] eqn:E; cbn [bind]; [|discriminate].
    intros H. injection H as _ <-. eapply wrap_hops_byte4; [exact E|].
    intros x Ex. apply encode_ipmb_msg_byte4 in Ex. rewrite Ex.
    cbn [rmcp_header rq_seq rq_lun]. apply seq_field.
Qed.

Lemma rmcp_attempts_sent rq h o mr tx : forall n q s sent out q' s' sent',
  rmcp_attempts rq h o mr tx n q s sent = (out, q', s', sent') ->
  forall f, In f sent' -> In f sent \/ f = tx.
Proof.
  induction n as [|n IH]; intros q s sent out q' s' sent' E f Hf; cbn [rmcp_attempts] in E.
  { injection E as _ _ _ <-. now left. }
  destruct (rmcp_recv _ _ _ _ _ _ _) as [[r q1] s1].
  assert (A : In f (sent ++ [tx]) -> In f sent \/ f = tx).
  { intros H. apply in_app_or in H as [H|[H|[]]]; auto. }
  destruct r as [x| |e].
  - injection E as _ _ _ <-. auto.
  - destruct (IH _ _ _ _ _ _ _ E f Hf) as [H|H]; auto.
  - injection E as _ _ _ <-. auto.
Qed.

(* every request advances the counter by one modulo 64 - whatever its outcome - and
   every frame it writes carries the new value in its sequence-number field *)
Lemma rmcp_seq rq st r s out st' sent rest :
  rmcp_send_receive_gen rq st r s = (out, st', sent, rest) ->
  m_next_seq st' = inc_seq (m_next_seq st) /\
  m_max_retries st' = m_max_retries st /\ m_ignore_rq_seq st' = m_ignore_rq_seq st /\
  m_slave st' = m_slave st /\
  forall f, In f sent -> nth 4 f 0 / 4 = inc_seq (m_next_seq st).
Proof.
  unfold rmcp_send_receive_gen.
  destruct (rmcp_prepare _ _ r) as [[h tx]|e] eqn:Ep.
  - destruct (rmcp_attempts _ _ _ _ _ _ _ _ _) as [[[out0 q'] s'] sent0] eqn:Ea.
    intros E. injection E as _ <- <- _. cbn. repeat split.
    intros f Hf. destruct (rmcp_attempts_sent _ _ _ _ _ _ _ _ _ _ _ _ _ Ea f Hf) as [[] | ->].
    eapply rmcp_prepare_seq; eassumption.
  - intros E. injection E as _ <- <- _. cbn. repeat split. intros f [].
Qed.

(* ------------------------------------------------------------------------- *)
(* RMCP liveness, repaired code (requeue = false, the queue stays empty)       *)
(* ------------------------------------------------------------------------- *)
(* an unrelated frame: the loop neither accepts it nor raises on it *)
Definition benign (h : hdr) (o : rxopts) (f : list N) : bool :=
  match classify h o f with VAck | VReject _ => true | _ => false end.
(* ... and of those, the ones that consume one unit of the retry budget *)
Definition counted (h : hdr) (o : rxopts) (f : list N) : bool :=
  match classify h o f with VReject _ => true | _ => false end.
Definition n_counted h o (pre : list (list N)) : nat := length (filter (counted h o) pre).

Lemma rmcp_recv_finds h o x m rest : forall pre fuel rr,
  forallb (benign h o) pre = true -> (n_counted h o pre < rr)%nat ->
  classify h o m = VMatch x ->
  (rr + length pre + S (length rest) < fuel)%nat ->
  rmcp_recv false h o fuel rr [] (map Frame pre ++ Frame m :: rest) = (RxMatch x, [], rest).
Proof.
  induction pre as [|f pre IH]; intros fuel rr Hb Hc Hm Hf.
  - destruct fuel as [|fuel]; [lia|]. destruct rr as [|rr]; [unfold n_counted in Hc; cbn in Hc; lia|].
    cbn [map app rmcp_recv]. rewrite Hm. reflexivity.
  - destruct fuel as [|fuel]; [lia|]. destruct rr as [|rr]; [lia|].
    cbn [forallb] in Hb. apply andb_prop in Hb as [Hb1 Hb2].
    cbn [map app rmcp_recv]. unfold benign in Hb1. unfold n_counted in Hc. cbn [filter] in Hc.
    unfold counted in Hc at 1.
    destruct (classify h o f) as [y|y| |e] eqn:Ec; try discriminate.
    + cbn [length] in Hc, Hf. apply IH; try assumption; unfold n_counted; lia.
    + cbn [length] in Hf. apply IH; try assumption; unfold n_counted; lia.
Qed.

Lemma rmcp_finds_match st r pre m rest h tx x :
  m_queue st = [] ->
  rmcp_prepare (inc_seq (m_next_seq st)) (m_slave st) r = Ok (h, tx) ->
  let o := rmcp_opts (m_ignore_rq_seq st) in
  forallb (benign h o) pre = true ->             (* unrelated frames ...                  *)
  (n_counted h o pre <= m_max_retries st)%nat -> (* ... at most max_retries of them count *)
  classify h o m = VMatch x ->                   (* then the matching reply               *)
  rmcp_send_receive st r (map Frame pre ++ Frame m :: rest) =
  (Ok (payload x),
   mkRmcp (inc_seq (m_next_seq st)) [] (m_max_retries st) (m_ignore_rq_seq st) (m_slave st),
   [tx], rest).
Proof.
  intros Hq Hp o Hb Hc Hm. unfold rmcp_send_receive, rmcp_send_receive_gen.
  rewrite Hp, Hq. cbn [rmcp_attempts]. fold o.
  rewrite (rmcp_recv_finds h o x m rest pre); try assumption; [reflexivity | lia |].
  unfold rmcp_recv_fuel. rewrite app_length, map_length. cbn [length]. lia.
Qed.

Lemma rmcp_recv_queue_empty h o : forall fuel rr s r q' s',
  rmcp_recv false h o fuel rr [] s = (r, q', s') -> q' = [].
Proof.
  induction fuel as [|fuel IH]; intros rr s r q' s' E; cbn [rmcp_recv] in E.
  { now injection E as _ <- _. }
  destruct rr as [|rr]; [now injection E as _ <- _|].
  destruct s as [|e s1]; [now injection E as _ <- _|].
  destruct e as [f| |]; try (now injection E as _ <- _).
  destruct (classify h o f); try (now injection E as _ <- _); eapply IH; eassumption.
Qed.

Lemma rmcp_attempts_queue_empty h o mr tx : forall n s sent out q' s' sent',
  rmcp_attempts false h o mr tx n [] s sent = (out, q', s', sent') -> q' = [].
Proof.
  induction n as [|n IH]; intros s sent out q' s' sent' E; cbn [rmcp_attempts] in E.
  { now injection E as _ <- _ _. }
  destruct (rmcp_recv _ _ _ _ _ _ _) as [[r q1] s1] eqn:Er.
  apply rmcp_recv_queue_empty in Er. subst q1.
  destruct r; try (now injection E as _ <- _ _). eapply IH; eassumption.
Qed.

Lemma rmcp_queue_stays_empty st r s out st' sent rest :
  m_queue st = [] -> rmcp_send_receive st r s = (out, st', sent, rest) -> m_queue st' = [].
Proof.
  intros Hq. unfold rmcp_send_receive, rmcp_send_receive_gen. rewrite Hq.
  destruct (rmcp_prepare _ _ r) as [[h tx]|e].
  - destruct (rmcp_attempts _ _ _ _ _ _ _ _ _) as [[[out0 q'] s'] sent0] eqn:Ea.
    apply rmcp_attempts_queue_empty in Ea. subst q'.
    intros E. now injection E as _ <- _ _.
  - intros E. now injection E as _ <- _ _.
Qed.

Lemma rmcp_run_queue_empty : forall reqs st carry outs st' carry',
  m_queue st = [] -> rmcp_run false st carry reqs = (outs, st', carry') -> m_queue st' = [].
Proof.
  induction reqs as [|[r s] reqs IH]; intros st carry outs st' carry' Hq E; cbn [rmcp_run] in E.
  { now injection E as _ <- _. }
  fold rmcp_send_receive in E.
  destruct (rmcp_send_receive st r (carry ++ s)) as [[[out st1] sent] unread] eqn:E1.
  apply rmcp_queue_stays_empty in E1; [|assumption].
  destruct (rmcp_run false st1 unread reqs) as [[outs1 stf] c] eqn:E2.
  injection E as _ <- _. eapply IH; eassumption.
Qed.

(* whatever happened before - any requests, any frames, any outcomes - a later request
   whose matching reply arrives (after at most max_retries unrelated frames) succeeds *)
Lemma rmcp_no_poisoning st history carry outs st' carry' r pre m rest h tx x :
  m_queue st = [] ->
  rmcp_run false st carry history = (outs, st', carry') ->
  rmcp_prepare (inc_seq (m_next_seq st')) (m_slave st') r = Ok (h, tx) ->
  let o := rmcp_opts (m_ignore_rq_seq st') in
  forallb (benign h o) pre = true -> (n_counted h o pre <= m_max_retries st')%nat ->
  classify h o m = VMatch x ->
  fst (fst (fst (rmcp_send_receive st' r (map Frame pre ++ Frame m :: rest)))) = Ok (payload x).
Proof.
  intros Hq Hr Hp o Hb Hc Hm.
  rewrite (rmcp_finds_match st' r pre m rest h tx x); try assumption; [reflexivity|].
  eapply rmcp_run_queue_empty; eassumption.
Qed.

(* ------------------------------------------------------------------------- *)
(* a bare acknowledgement makes the LAN transport wait (C09)                   *)
(* ------------------------------------------------------------------------- *)
Lemma wrap_all_ack_cmd ws w : nth_error (wrap_all ws (wrap_reply w 0 [])) 5 = Some CMDID_SEND_MESSAGE.
Proof.
  destruct ws as [|w' ws]; cbn [wrap_all fold_right].
  - destruct (wrap_reply_shape w 0 []) as (a & b & c & d & e & cs & ->). reflexivity.
  - destruct (wrap_reply_shape w' 0 (fold_right (fun w0 acc => wrap_reply w0 0 acc) (wrap_reply w 0 []) ws))
      as (a & b & c & d & e & cs & ->). reflexivity.
Qed.

Lemma classify_ack h o ws w : classify h o (wrap_all ws (wrap_reply w 0 [])) = VAck.
Proof.
  unfold classify. rewrite wrap_all_ack_cmd.
  destruct (wrap_all ws (wrap_reply w 0 [])) eqn:E.
  - pose proof (wrap_all_ack_cmd ws w) as H. rewrite E in H. discriminate.
  - rewrite <- E. rewrite N.eqb_refl, bridged_ack. reflexivity.
Qed.

(* the acknowledgement is consumed without touching any counter, without a resend and
   without being returned: the request behaves exactly as if it had not arrived *)
Lemma rmcp_ack_waits rq st r a s h tx :
  m_queue st = [] ->
  rmcp_prepare (inc_seq (m_next_seq st)) (m_slave st) r = Ok (h, tx) ->
  classify h (rmcp_opts (m_ignore_rq_seq st)) a = VAck ->
  rmcp_send_receive_gen rq st r (Frame a :: s) = rmcp_send_receive_gen rq st r s.
Proof.
  intros Hq Hp Ha. unfold rmcp_send_receive_gen. rewrite Hp, Hq.
  cbn [rmcp_attempts]. unfold rmcp_recv_fuel at 1. cbn [length].
  replace (S (S (m_max_retries st) + 0 + S (length s)))%nat
    with (S (rmcp_recv_fuel (S (m_max_retries st)) [] s)) by (unfold rmcp_recv_fuel; cbn [length]; lia).
  cbn [rmcp_recv]. rewrite Ha. reflexivity.
Qed.

(* ------------------------------------------------------------------------- *)
(* ipmb-dev and Aardvark                                                       *)
(* ------------------------------------------------------------------------- *)
Lemma i2c_recv_inv view h : forall s r s',
  i2c_recv view h s = (r, s') ->
  (forall f, In f (frames_of s') -> In f (frames_of s)) /\
  (forall x, r = RxMatch x ->
     exists f, In f (frames_of s) /\ view f = Ok x /\ rx_filter h x default_opts = Ok true).
Proof.
  induction s as [|e s IH]; intros r s' E; cbn [i2c_recv] in E.
  { injection E as <- <-. split; [auto | discriminate]. }
  destruct e as [f| |].
  - destruct (view f) as [x|e] eqn:Ev.
    + destruct (rx_filter h x default_opts) as [[|]|e] eqn:Ef.
      * injection E as <- <-. split; [intros g Hg; cbn; now right|].
        intros x' Ex. injection Ex as <-. exists f. cbn. auto.
      * destruct (IH _ _ E) as [A B]. split.
        -- intros g Hg. cbn. right. now apply A.
        -- intros x' Ex. destruct (B x' Ex) as (g & Hg & R). exists g. cbn. auto.
      * injection E as <- <-. split; [intros g Hg; cbn; now right | discriminate].
    + injection E as <- <-. split; [intros g Hg; cbn; now right | discriminate].
  - injection E as <- <-. split; [auto | discriminate].
  - injection E as <- <-. split; [auto | discriminate].
Qed.

Lemma i2c_attempts_inv view wire h p : forall n s sent out s' sent',
  i2c_attempts view wire h p n s sent = (out, s', sent') ->
  forall d, out = Ok d ->
    exists f x, In f (frames_of s) /\ view f = Ok x /\ rx_filter h x default_opts = Ok true /\
                d = slice_6_m1 x.
Proof.
  induction n as [|n IH]; intros s sent out s' sent' E d Hd; cbn [i2c_attempts] in E.
  { injection E as <- _ _. discriminate. }
  destruct (encode_ipmb_msg h p) as [tx|e]; [|injection E as <- _ _; discriminate].
  destruct (i2c_recv view h s) as [r s1] eqn:Er.
  destruct (i2c_recv_inv _ _ _ _ _ Er) as [A B].
  destruct r as [x| |e].
  - injection E as <- _ _. injection Hd as <-. destruct (B x eq_refl) as (f & Hf & V & F).
    exists f, x. auto.
  - destruct (IH _ _ _ _ _ E d Hd) as (f & x & Hf & R). exists f, x. split; [now apply A | exact R].
  - injection E as <- _ _. discriminate.
Qed.

Definition i2c_header (st : i2c_state) (r : rxreq) : hdr :=
  rmcp_header (inc_seq (i_next_seq st)) (i_slave st) r.

Lemma i2c_attribution view wire st r s d st' sent rest :
  i2c_send_receive view wire st r s = (Ok d, st', sent, rest) ->
  exists f x,
    In f (frames_of s) /\ view f = Ok x /\        (* x: the frame as this adapter presents it *)
    rx_filter (i2c_header st r) x default_opts = Ok true /\ d = payload x.
Proof.
  unfold i2c_send_receive.
  destruct (i2c_attempts _ _ _ _ _ _ _) as [[out s'] sent0] eqn:Ea.
  intros E. injection E as -> _ _ _.
  destruct (i2c_attempts_inv _ _ _ _ _ _ _ _ _ _ Ea d eq_refl) as (f & x & Hf & V & F & ->).
  exists f, x. auto.
Qed.

Lemma i2c_attribution_fields view wire st r s d st' sent rest :
  i2c_send_receive view wire st r s = (Ok d, st', sent, rest) ->
  exists f x, In f (frames_of s) /\ view f = Ok x /\ d = payload x /\
    let h := i2c_header st r in
    (6 <= length x)%nat /\ sum256 (firstn 3 x) = 0 /\ sum256 (skipn 3 x) = 0 /\
    nthN 1 x / 4 = N.lor (netfn h) 1 /\ nthN 5 x = cmdid h /\ nthN 4 x mod 4 = rs_lun h /\
    nthN 4 x / 4 = rq_seq h.
Proof.
  intros E. destruct (i2c_attribution _ _ _ _ _ _ _ _ _ E) as (f & x & Hf & V & F & ->).
  exists f, x. apply rx_filter_iff in F.
  destruct F as (L & S1 & S2 & Nf & Cm & _ & _ & _ & Lu & Sq).
  repeat split; try assumption; [apply Lu | apply Sq]; reflexivity.
Qed.

(* the views: ipmb-dev presents the frame itself; Aardvark the frame with bit 0 of
   its first byte cleared *)
Lemma ipmbdev_view_ok f x : ipmbdev_view f = Ok x -> x = f.
Proof. unfold ipmbdev_view. destruct (Nat.ltb _ _); [discriminate | intros E; now injection E]. Qed.
Lemma aardvark_view_ok f x : aardvark_view f = Ok x ->
  match f with [] => x = [0] | a :: r => x = (a / 2 * 2) :: r end.
Proof.
  unfold aardvark_view. destruct f as [|a r]; intros E; injection E as E; subst x; [reflexivity|].
  f_equal. rewrite N.shiftl_mul_pow2, N.div2_div. reflexivity.
Qed.

Lemma i2c_attempts_sent view wire h p : forall n s sent out s' sent',
  i2c_attempts view wire h p n s sent = (out, s', sent') ->
  forall f, In f sent' -> In f sent \/ exists tx, encode_ipmb_msg h p = Ok tx /\ f = wire tx.
Proof.
  induction n as [|n IH]; intros s sent out s' sent' E f Hf; cbn [i2c_attempts] in E.
  { injection E as _ _ <-. now left. }
  destruct (encode_ipmb_msg h p) as [tx|e] eqn:Ee; [|injection E as _ _ <-; now left].
  assert (A : In f (sent ++ [wire tx]) -> In f sent \/ exists tx0, Ok tx = Ok tx0 /\ f = wire tx0).
  { intros H. apply in_app_or in H as [H|[H|[]]]; [now left | right; exists tx; auto]. }
  destruct (i2c_recv view h s) as [r s1].
  destruct r as [x| |e].
  - injection E as _ _ <-. auto.
  - destruct (IH _ _ _ _ _ E f Hf) as [H|H]; auto.
  - injection E as _ _ <-. auto.
Qed.

Lemma i2c_seq view wire st r s out st' sent rest :
  (forall tx, nth 4 (wire tx) 0 = nth 4 tx 0) ->
  i2c_send_receive view wire st r s = (out, st', sent, rest) ->
  i_next_seq st' = inc_seq (i_next_seq st) /\ i_max_retries st' = i_max_retries st /\
  i_slave st' = i_slave st /\
  forall f, In f sent -> nth 4 f 0 / 4 = inc_seq (i_next_seq st).
Proof.
  intros Hw. unfold i2c_send_receive.
  destruct (i2c_attempts _ _ _ _ _ _ _) as [[out0 s'] sent0] eqn:Ea.
  intros E. injection E as _ <- <- _. cbn. repeat split.
  intros f Hf. destruct (i2c_attempts_sent _ _ _ _ _ _ _ _ _ _ Ea f Hf) as [[] | (tx & Et & ->)].
  rewrite Hw. apply encode_ipmb_msg_byte4 in Et. rewrite Et.
  cbn [rmcp_header rq_seq rq_lun]. apply seq_field.
Qed.

Lemma ipmbdev_wire_byte4 tx : nth 4 (ipmbdev_wire tx) 0 = nth 4 tx 0.
Proof. reflexivity. Qed.
Lemma aardvark_wire_byte4 tx : nth 4 (aardvark_wire tx) 0 = nth 4 tx 0.
Proof. destruct tx; reflexivity. Qed.

(* liveness: unmatched frames are dropped and do not count; any number of them may
   precede the matching reply, as long as one attempt is made at all *)
Definition i2c_unrelated (view : list N -> res (list N)) (h : hdr) (f : list N) : bool :=
  match view f with
  | Ok x => match rx_filter h x default_opts with Ok false => true | _ => false end
  | Err _ => false
  end.

Lemma i2c_recv_finds view h m x rest : forall pre,
  forallb (i2c_unrelated view h) pre = true ->
  view m = Ok x -> rx_filter h x default_opts = Ok true ->
  i2c_recv view h (map Frame pre ++ Frame m :: rest) = (RxMatch x, rest).
Proof.
  induction pre as [|f pre IH]; intros Hb Hv Hf; cbn [map app i2c_recv].
  - now rewrite Hv, Hf.
  - cbn [forallb] in Hb. apply andb_prop in Hb as [H1 H2]. unfold i2c_unrelated in H1.
    destruct (view f) as [y|e]; [|discriminate].
    destruct (rx_filter h y default_opts) as [[|]|e]; try discriminate. now apply IH.
Qed.

Lemma i2c_finds_match view wire st r pre m rest tx x :
  (1 <= i_max_retries st)%nat ->
  encode_ipmb_msg (i2c_header st r) (q_payload r) = Ok tx ->
  forallb (i2c_unrelated view (i2c_header st r)) pre = true ->
  view m = Ok x -> rx_filter (i2c_header st r) x default_opts = Ok true ->
  i2c_send_receive view wire st r (map Frame pre ++ Frame m :: rest) =
  (Ok (payload x), mkI2c (inc_seq (i_next_seq st)) (i_max_retries st) (i_slave st), [wire tx], rest).
Proof.
  intros Hn He Hb Hv Hf. unfold i2c_send_receive. fold (i2c_header st r).
  destruct (i_max_retries st) as [|n]; [lia|]. cbn [i2c_attempts]. rewrite He.
  rewrite (i2c_recv_finds view _ m x rest pre Hb Hv Hf). reflexivity.
Qed.

(* the only state an I2C interface carries between requests is the counter *)
Lemma i2c_run_state view wire : forall reqs st carry outs st' carry',
  i2c_run view wire st carry reqs = (outs, st', carry') ->
  i_max_retries st' = i_max_retries st /\ i_slave st' = i_slave st.
Proof.
  induction reqs as [|[r s] reqs IH]; intros st carry outs st' carry' E; cbn [i2c_run] in E.
  { injection E as _ <- _. auto. }
  destruct (i2c_send_receive view wire st r (carry ++ s)) as [[[out st1] sent] unread] eqn:E1.
  destruct (i2c_run view wire st1 unread reqs) as [[outs1 stf] c] eqn:E2.
  injection E as _ <- _. apply IH in E2 as [A B].
  unfold i2c_send_receive in E1. destruct (i2c_attempts _ _ _ _ _ _ _) as [[o s1] sn].
  injection E1 as _ <- _ _. cbn in A, B. auto.
Qed.

Lemma i2c_no_poisoning view wire st history carry outs st' carry' r pre m rest tx x :
  (1 <= i_max_retries st)%nat ->
  i2c_run view wire st carry history = (outs, st', carry') ->
  encode_ipmb_msg (i2c_header st' r) (q_payload r) = Ok tx ->
  forallb (i2c_unrelated view (i2c_header st' r)) pre = true ->
  view m = Ok x -> rx_filter (i2c_header st' r) x default_opts = Ok true ->
  fst (fst (fst (i2c_send_receive view wire st' r (map Frame pre ++ Frame m :: rest)))) = Ok (payload x).
Proof.
  intros Hn Hr He Hb Hv Hf. apply i2c_run_state in Hr as [A _].
  rewrite (i2c_finds_match view wire st' r pre m rest tx x); try assumption; [reflexivity | lia].
Qed.

(* ------------------------------------------------------------------------- *)
(* the two I2C transports, instantiated                                        *)
(* ------------------------------------------------------------------------- *)
Lemma ipmbdev_attribution st r s d st' sent rest :
  ipmbdev_send_receive st r s = (Ok d, st', sent, rest) ->
  exists f, In f (frames_of s) /\ rx_filter (i2c_header st r) f default_opts = Ok true /\ d = payload f.
Proof.
  intros E. destruct (i2c_attribution _ _ _ _ _ _ _ _ _ E) as (f & x & Hf & V & F & ->).
  apply ipmbdev_view_ok in V. subst x. exists f. auto.
Qed.

(* Aardvark: the frame is seen with bit 0 of its first byte (the I2C address) cleared *)
Definition aardvark_seen (f : list N) : list N :=
  match f with [] => [0] | a :: r => (a / 2 * 2) :: r end.

Lemma aardvark_attribution st r s d st' sent rest :
  aardvark_send_receive st r s = (Ok d, st', sent, rest) ->
  exists f, In f (frames_of s) /\
    rx_filter (i2c_header st r) (aardvark_seen f) default_opts = Ok true /\ d = payload (aardvark_seen f).
Proof.
  intros E. destruct (i2c_attribution _ _ _ _ _ _ _ _ _ E) as (f & x & Hf & V & F & ->).
  apply aardvark_view_ok in V. exists f. unfold aardvark_seen. destruct f; subst x; auto.
Qed.

Lemma ipmbdev_seq st r s out st' sent rest :
  ipmbdev_send_receive st r s = (out, st', sent, rest) ->
  i_next_seq st' = inc_seq (i_next_seq st) /\ i_max_retries st' = i_max_retries st /\
  i_slave st' = i_slave st /\
  forall f, In f sent -> nth 4 f 0 / 4 = inc_seq (i_next_seq st).
Proof. apply i2c_seq. exact ipmbdev_wire_byte4. Qed.

Lemma aardvark_seq st r s out st' sent rest :
  aardvark_send_receive st r s = (out, st', sent, rest) ->
  i_next_seq st' = inc_seq (i_next_seq st) /\ i_max_retries st' = i_max_retries st /\
  i_slave st' = i_slave st /\
  forall f, In f sent -> nth 4 f 0 / 4 = inc_seq (i_next_seq st).
Proof. apply i2c_seq. exact aardvark_wire_byte4. Qed.

(* ------------------------------------------------------------------------- *)
(* F4: the code as found (unmatched frames re-queued) - both liveness statements
   are false of it.  Witness: Get Device Id to 20h, max_retries = 1, the reply to
   another command arrives before the matching reply.                           *)
(* ------------------------------------------------------------------------- *)
Definition f4_state : rmcp_state := mkRmcp 0 [] 1 false 0x81.
Definition f4_req : rxreq := mkRq 0x20 [] 0 6 1 [].
Definition f4_other : list N := [0x81; 0x1c; 0x63; 0x20; 0x04; 0x02; 0x00; 0xbb; 0x1f].  (* reply to cmd 02h *)
Definition f4_match : list N := [0x81; 0x1c; 0x63; 0x20; 0x04; 0x01; 0x00; 0xaa; 0x31].  (* reply to cmd 01h, seq 1 *)
Definition f4_match2 : list N := [0x81; 0x1c; 0x63; 0x20; 0x08; 0x01; 0x00; 0xcc; 0x0b]. (* reply to cmd 01h, seq 2 *)

Lemma f4_original_misses_match :
  exists h tx x,
    rmcp_prepare (inc_seq (m_next_seq f4_state)) (m_slave f4_state) f4_req = Ok (h, tx) /\
    forallb (benign h (rmcp_opts false)) [f4_other] = true /\
    (n_counted h (rmcp_opts false) [f4_other] <= m_max_retries f4_state)%nat /\
    classify h (rmcp_opts false) f4_match = VMatch x /\
    fst (fst (fst (rmcp_send_receive_original f4_state f4_req [Frame f4_other; Frame f4_match])))
      = Err RetryError /\
    (* ... whereas the repaired code returns the reply *)
    fst (fst (fst (rmcp_send_receive f4_state f4_req [Frame f4_other; Frame f4_match])))
      = Ok [0x00; 0xaa].
Proof. do 3 eexists. repeat split; vm_compute; reflexivity. Qed.

Lemma f4_original_poisons_later_requests :
  exists st1 h tx x,
    snd (fst (fst (rmcp_send_receive_original f4_state f4_req [Frame f4_other; Frame f4_match]))) = st1 /\
    rmcp_prepare (inc_seq (m_next_seq st1)) (m_slave st1) f4_req = Ok (h, tx) /\
    classify h (rmcp_opts false) f4_match2 = VMatch x /\
    (* the later request's own reply is the next thing on the wire, yet: *)
    fst (fst (fst (rmcp_send_receive_original st1 f4_req [Frame f4_match2]))) = Err RetryError /\
    m_queue st1 = [f4_other].
Proof. do 4 eexists. repeat split; vm_compute; reflexivity. Qed.

(* ------------------------------------------------------------------------- *)
(* the accessibility probe (ipmb-dev, Aardvark)                                *)
(* ------------------------------------------------------------------------- *)
Lemma i2c_probe_recv_inv view h : forall s r s',
  i2c_probe_recv view h s = (r, s') ->
  forall x, r = RxMatch x ->
    exists f, In f (frames_of s) /\ view f = Ok x /\ rx_filter h x default_opts = Ok true.
Proof.
  induction s as [|e s IH]; intros r s' E; cbn [i2c_probe_recv] in E.
  { injection E as <- <-. discriminate. }
  destruct e as [f| |]; try (injection E as <- <-; discriminate).
  destruct (view f) as [x|e] eqn:Ev; [|injection E as <- <-; discriminate].
  destruct (rx_filter h x default_opts) as [[|]|e] eqn:Ef.
  - injection E as <- <-. intros x' Ex. injection Ex as <-. exists f. cbn. auto.
  - intros x' Ex. destruct (IH _ _ E x' Ex) as (g & Hg & R). exists g. cbn. auto.
  - injection E as <- <-. discriminate.
Qed.

(* the probe reports "accessible" only on a received frame that passes the reply filter
   for the probe's own header *)
Lemma i2c_probe_attribution view wire st a s d st' sent rest :
  i2c_probe view wire st a s = (Ok d, st', sent, rest) ->
  exists f x, In f (frames_of s) /\ view f = Ok x /\
              rx_filter (probe_header st a) x default_opts = Ok true.
Proof.
  unfold i2c_probe. destruct (encode_ipmb_msg _ _) as [tx|e]; [|discriminate].
  destruct (i2c_probe_recv view (probe_header st a) s) as [r s1] eqn:Er.
  destruct r as [x| |e]; try discriminate. intros _.
  destruct (i2c_probe_recv_inv _ _ _ _ _ Er x eq_refl) as (f & Hf & V & F). exists f, x. auto.
Qed.

(* the probe, like a request, advances the counter by one modulo 64 - whatever its outcome -
   and its frame carries the new value *)
Lemma i2c_probe_seq view wire st a s out st' sent rest :
  (forall tx, nth 4 (wire tx) 0 = nth 4 tx 0) ->
  i2c_probe view wire st a s = (out, st', sent, rest) ->
  i_next_seq st' = inc_seq (i_next_seq st) /\ i_max_retries st' = i_max_retries st /\
  i_slave st' = i_slave st /\
  forall f, In f sent -> nth 4 f 0 / 4 = inc_seq (i_next_seq st).
Proof.
  intros Hw. unfold i2c_probe.
  destruct (encode_ipmb_msg (probe_header st a) []) as [tx|e] eqn:Ee.
  - assert (B : forall f, In f [wire tx] -> nth 4 f 0 / 4 = inc_seq (i_next_seq st)).
    { intros f [<-|[]]. rewrite Hw. apply encode_ipmb_msg_byte4 in Ee. rewrite Ee.
      cbn [probe_header rq_seq rq_lun]. apply seq_field. }
    destruct (i2c_probe_recv view (probe_header st a) s) as [r s1].
    destruct r; intros E; injection E as _ <- <- _; cbn; auto.
  - intros E. injection E as _ <- <- _. cbn. repeat split. intros f [].
Qed.
