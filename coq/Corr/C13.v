(* Case checkers for the C13 correspondence run: the models of Model/Helper.v evaluated on
   an outcome oracle, compared with the exact call/sleep sequence and the final outcome
   observed on pyipmi.helper / Ipmi.send_message driven by the same oracle. *)
From Coq Require Import NArith ZArith List Bool.
From PyIpmi Require Import Lib.Res Lib.Bytes Model.Helper.
(* the history stage of harness/c13.py evaluates SDR reads step by step with the checkers of Corr/C11.v
   (stateless model of chunk fetching in place, Model/SdrIO.v): make them part of this build *)
From PyIpmi Require Lib.Prog Model.SdrIO Corr.C11.
Import ListNotations.
Open Scope N_scope.

Definition outcome_eqb (a b : outcome) : bool :=
  match a, b with
  | OVal x, OVal y => x =? y
  | OCc x, OCc y => x =? y
  | OExc x, OExc y => err_eqb x y
  | _, _ => false
  end.
Definition call_eqb (a b : call) : bool :=
  match a, b with
  | CReserve, CReserve => true
  | CClear c r, CClear c' r' => (c =? c') && (r =? r')
  | CSend r, CSend r' => r =? r'
  | CXfer, CXfer => true
  | _, _ => false
  end.
Definition event_eqb (a b : event) : bool :=
  match a, b with
  | ECall c o, ECall c' o' => call_eqb c c' && outcome_eqb o o'
  | ESleep x, ESleep y => x =? y
  | _, _ => false
  end.

(* expected final outcome: Ok v (v = None when the function returns nothing) or Err e *)
Definition out_eqb {A} (veq : A -> option N -> bool) (x : res A) (exp : res (option N)) : bool :=
  match x, exp with
  | Ok a, Ok v => veq a v
  | Err e, Err f => err_eqb e f
  | _, _ => false
  end.
Definition unit_is (_ : unit) (v : option N) : bool := match v with None => true | _ => false end.
Definition n_is (a : N) (v : option N) : bool := match v with Some b => a =? b | None => false end.

Definition chk {A} (veq : A -> option N -> bool) (r : result A)
  (evs : list event) (exp : res (option N)) : bool :=
  let '(t, x, _) := r in list_eqb event_eqb t evs && out_eqb veq x exp.

(* clear_repository_helper(reserve_fn, clear_fn, retry, reservation) *)
Definition chk_clear (retry : Z) (resv : option N) (os : list outcome) :=
  chk unit_is (clear_repository_helper (budget retry) resv os).
(* get_sdr_chunk_helper(send_fn, req, reserve_fn, retry); Ok v: req.reservation_id at return *)
Definition chk_chunk (retry : Z) (resv : N) (os : list outcome) :=
  chk n_is (get_sdr_chunk_helper (budget retry) resv os).
(* Ipmi.send_message(req, retry); Ok v: tag of the response object returned *)
Definition chk_send (retry : Z) (os : list outcome) :=
  chk n_is (send_message (budget retry) os).
