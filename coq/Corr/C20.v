(* Case checkers for the C20 correspondence run (Model/Cli.v + Gen/CliTable.v vs.
   pyipmi/ipmitool.py run in-process). *)
From Coq Require Import String Ascii.
From Coq Require Import NArith ZArith List Bool.
From PyIpmi Require Import Lib.Res Lib.Bytes Lib.Prog Model.Cli Model.CliApi Gen.CliTable.
Import ListNotations.
Open Scope string_scope.
Open Scope list_scope.

Definition oz_eqb := option_eqb Z.eqb.
Definition hops_eqb := list_eqb (list_eqb oz_eqb).

Definition ioval_eqb (a b : ioval) : bool :=
  match a, b with
  | IStr x, IStr y => String.eqb x y
  | IBool x, IBool y => Bool.eqb x y
  | _, _ => false
  end.
(* keyword arguments are compared as maps *)
Definition iopts_eqb (a b : iopts) : bool :=
  forallb (fun kv => option_eqb ioval_eqb (io_get b (fst kv)) (Some (snd kv))) a
  && forallb (fun kv => option_eqb ioval_eqb (io_get a (fst kv)) (Some (snd kv))) b.

Definition session_eqb (a b : session) : bool :=
  String.eqb (s_host a) (s_host b) && Z.eqb (s_port a) (s_port b) && String.eqb (s_user a) (s_user b)
  && String.eqb (s_password a) (s_password b) && N.eqb (s_priv a) (s_priv b).

Definition plan_eqb (a b : plan) : bool :=
  String.eqb (p_iface a) (p_iface b) && iopts_eqb (p_iopts a) (p_iopts b)
  && Nat.eqb (p_cmd a) (p_cmd b) && list_eqb String.eqb (p_args a) (p_args b)
  && oz_eqb (p_addr a) (p_addr b) && option_eqb hops_eqb (p_routing a) (p_routing b)
  && option_eqb session_eqb (p_session a) (p_session b)
  && Bool.eqb (p_verbose a) (p_verbose b) && Bool.eqb (p_json a) (p_json b).

(* Unmodelled never equals an observation: inputs outside the model fail the case *)
Definition outcome_eqb (m o : outcome) : bool :=
  match m, o with
  | Exit a, Exit b => Z.eqb a b
  | Raise a, Raise b => err_eqb a b
  | Run a, Run b => plan_eqb a b
  | _, _ => false
  end.

(* lit: what ast.literal_eval returned for the -r argument of this command line *)
Definition chk_main (argv : list string) (lit : option (res (list (list (option Z))))) (obs : outcome) : bool :=
  outcome_eqb (main_model (fun _ => match lit with Some r => r | None => Err OutOfFuel end)
                          commands getopt_shortopts getopt_longopts option_table option_defaults
                          interface_names argv) obs.

Definition raw_action_eqb (a b : raw_action) : bool :=
  match a, b with
  | RawUsage, RawUsage => true
  | RawSend l n d, RawSend l' n' d' => Z.eqb l l' && Z.eqb n n' && bytes_eqb d d'
  | _, _ => false
  end.
Definition chk_raw (args : list string) (obs : res raw_action) : bool := res_eqb raw_action_eqb (cmd_raw args) obs.
Definition chk_print (rsp : list N) (printed : string) : bool := String.eqb (print_hex rsp) printed.

Definition chk_int (base : N) (s : string) (obs : res Z) : bool := res_eqb Z.eqb (py_int base s) obs.

(* how the tool ends when the command raised e: Some (printed line, status) or None = the
   exception leaves main *)
Definition chk_end (e : err) (obs : option (option string * Z)) : bool :=
  match command_error_end exit_table e, obs with
  | EndStatus p c, Some (p', c') => option_eqb String.eqb p p' && Z.eqb c c'
  | EndPropagates, None => true
  | _, _ => false
  end.

(* the generated table against the live objects *)
Definition chk_cmd (i : nat) (name : string) (is_lambda : bool) : bool :=
  match nth_error commands i with
  | Some c => String.eqb (c_name c) name
              && match c_handler c with HLambda _ => is_lambda | HDef _ _ => negb is_lambda | HUntranslated _ => true end
  | None => false
  end.
Definition chk_ncmds (n : nat) : bool := Nat.eqb (length commands) n.
Definition chk_lookup_name (name : string) (obs : option nat) : bool :=
  option_eqb Nat.eqb (match get_command_function commands name 0 with Some (i, _) => Some i | None => None end) obs.
(* hasattr(Ipmi, method) *)
Definition chk_api (name : string) (exists_ : bool) : bool :=
  Bool.eqb (existsb (fun a => String.eqb (a_name a) name) api_methods) exists_.
(* handler i resolves  <->  the command ran without AttributeError/TypeError at the call *)
Definition chk_resolves (i : nat) (ok : bool) : bool :=
  match nth_error commands i with
  | Some c => negb (handler_translated (c_handler c)) || Bool.eqb (handler_resolves api_methods (c_handler c)) ok
  | None => false
  end.
Definition chk_power (sub : string) (obs : option request) : bool :=
  match get_command_function commands (String.append "chassis power " sub) 0 with
  | Some (_, HUntranslated _) => true           (* downgraded in this run: decided by the oracle *)
  | _ =>
  match power_sends commands power_table chassis_control_req sub, obs with
  | Some a, Some b => N.eqb (q_netfn a) (q_netfn b) && N.eqb (q_cmd a) (q_cmd b) && N.eqb (q_lun a) (q_lun b)
                      && bytes_eqb (q_data a) (q_data b)
  | None, None => true
  | _, _ => false
  end
  end.

(* one run with at most one failing interface call: the calls made on the interface object
   (the command counted as one step) and how main ends *)
Definition run_end_eqb (a b : run_end) : bool :=
  match a, b with
  | RunReturns, RunReturns => true
  | RunExit p c, RunExit p' c' => option_eqb String.eqb p p' && Z.eqb c c'
  | RunRaises e, RunRaises e' => err_eqb e e'
  | _, _ => false
  end.
Definition chk_run (fault : option (istep * err)) (calls : list istep) (e : run_end) : bool :=
  let '(c, r) := main_run run_shape exit_table fault in
  list_eqb istep_eqb c calls && run_end_eqb r e.

(* the request of a single-call command, computed from call_specs + the regenerated operation
   content (Model.CliApi.cli_request), against the request the tool really sent *)
Definition chk_cli_request (name : string) (args : list string) (obs : option request) : bool :=
  if negb (cli_translated call_specs name) then true      (* downgraded in this run: decided by the oracle *)
  else
  match cli_request call_specs name args, obs with
  | Some a, Some b => N.eqb (q_netfn a) (q_netfn b) && N.eqb (q_cmd a) (q_cmd b) && N.eqb (q_lun a) (q_lun b)
                      && bytes_eqb (q_data a) (q_data b)
  | None, None => true
  | _, _ => false
  end.
