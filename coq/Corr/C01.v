(* Case checkers for the C01 / C02 correspondence runs: the model (Model/Codec.v
   interpreting the REGENERATED layouts) against pyipmi.msgs.message on the same inputs. *)
From Coq Require Import String.
From Coq Require Import NArith List Bool.
From PyIpmi Require Import Lib.Res Lib.Bytes Model.Codec Gen.Layouts.
Import ListNotations.
Open Scope N_scope.

(* observed outcome of the implementation: value, or the class of the exception *)
Inductive xres (A : Type) := XOk (a : A) | XDec | XEnc | XDesc | XOther.
Arguments XOk {A} a. Arguments XDec {A}. Arguments XEnc {A}. Arguments XDesc {A}. Arguments XOther {A}.

Definition sim {A} (eqb : A -> A -> bool) (r : res A) (x : xres A) : bool :=
  match r, x with
  | Ok a, XOk b => eqb a b
  | Err DecodingError, XDec => true
  | Err EncodingError, XEnc => true
  | Err DescriptionError, XDesc => true
  | Err (OtherError _), XOther => true
  | _, _ => false
  end.

Definition env_eqb := list_eqb val_eqb.

Definition chk_create (m : layout) (x : xres env) : bool := sim env_eqb (create m) x.
Definition chk_enc (m : layout) (e : env) (x : xres (list N)) : bool := sim bytes_eqb (encode m e) x.
Definition chk_dec (m : layout) (d : list N) (x : xres env) : bool :=
  sim env_eqb (match decode m d with Ok (e, _) => Ok e | Err e => Err e end) x.

(* all 256 one-byte inputs at once: [oks] lists the bytes that decode, with the result;
   every other byte must give DecodingError *)
Fixpoint assoc (b : N) (l : list (N * env)) : option env :=
  match l with [] => None | (k, e) :: r => if k =? b then Some e else assoc b r end.
Definition chk_dec_byte (m : layout) (oks : list (N * env)) (b : N) : bool :=
  match assoc b oks with
  | Some e => chk_dec m [b] (XOk e)
  | None => chk_dec m [b] XDec
  end.
Definition chk_dec_all1 (m : layout) (oks : list (N * env)) : bool :=
  forallb (fun i => chk_dec_byte m oks (N.of_nat i)) (seq 0 256).

(* registry entry as seen by the implementation *)
Definition chk_entry (name : string) (netfn cmd : N) (grp : option N) (lun : N) : bool :=
  existsb (fun m => String.eqb (m_name m) name && (m_netfn m =? netfn) && (m_cmd m =? cmd)
                    && option_eqb N.eqb (m_grp m) grp && (m_lun m =? lun)) registry.
