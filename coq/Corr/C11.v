(* Case checkers for the C11 correspondence run: the client progs of Model/SdrIO.v are
   replayed against the replies recorded from the real pyipmi code behind a scripted
   interface; every request, every sleep and the final outcome are compared.  The Gallina
   device is run on the recorded requests as well and must give the recorded replies (the
   Python device of the harness and the device of the theorems cannot drift). *)
From Coq Require Import NArith ZArith List Bool.
From PyIpmi Require Import Lib.Res Lib.Bytes Lib.Prog Model.SdrIO Model.SdrE2E.
(* parsed objects are compared through the attribute view of the C16 correspondence *)
From PyIpmi Require Model.SdrParse Corr.C16.
Import ListNotations.
Open Scope N_scope.

Definition reply_eqb (a b : reply) : bool :=
  match a, b with
  | RBytes x, RBytes y => bytes_eqb x y
  | RRaise e, RRaise f => err_eqb e f
  | _, _ => false
  end.
Definition rec_eqb (a b : N * list N) : bool := (fst a =? fst b) && bytes_eqb (snd a) (snd b).

(* outcome, requests, sleeps as observed; all replies must have been consumed *)
Definition chk_replay {A} (eqb : A -> A -> bool) (p : prog A) (reqs : list request) (reps : list reply)
  (sleeps : list N) (exp : res A) : bool :=
  let '(x, rq, sl, rest) := replay p reps [] [] in
  res_eqb eqb x exp && list_eqb request_eqb rq reqs && list_eqb N.eqb sl sleeps
  && match rest with [] => true | _ => false end.

(* the Gallina device on the recorded requests *)
Fixpoint dev_replies (s : sdr_state) (reqs : list request) : list reply :=
  match reqs with
  | [] => []
  | r :: rest => let '(s', rp) := sdr_dev s r in rp :: dev_replies s' rest
  end.
Definition chk_dev (s : sdr_state) (reqs : list request) (reps : list reply) : bool :=
  list_eqb reply_eqb (dev_replies s reqs) reps.

(* get_repository_sdr / get_device_sdr (record_id, reservation_id) -> (next_id, data) *)
Definition chk_get (s : sdr_state) (st : store) (rid : N) (resv : option N)
  (reqs : list request) (reps : list reply) (sleeps : list N) (exp : res (N * list N)) : bool :=
  chk_dev s reqs reps && chk_replay rec_eqb (get_sdr st rid resv) reqs reps sleeps exp.

(* get_repository_sdr_list / get_device_sdr_list -> [(next_id, data)] *)
Definition chk_list (s : sdr_state) (st : store)
  (reqs : list request) (reps : list reply) (sleeps : list N) (exp : res (list (N * list N))) : bool :=
  chk_dev s reqs reps &&
  chk_replay (list_eqb rec_eqb) (sdr_entries (S (length reps)) st) reqs reps sleeps exp.

(* one of several listing generators advanced side by side on one Ipmi object: its own exchanges
   (the harness attributes every exchange to the generator being advanced) against the stateless model;
   the device is checked on the whole interleaved log by a separate [chk_dev] *)
Definition chk_walk (st : store)
  (reqs : list request) (reps : list reply) (sleeps : list N) (exp : res (list (N * list N))) : bool :=
  chk_replay (list_eqb rec_eqb) (sdr_entries (S (length reps)) st) reqs reps sleeps exp.

(* ---- end to end: parsed objects (Model/SdrE2E.v) ---- *)
(* an object as observed: every attribute in the order of Corr.C16.observe, and next_id *)
Definition obs_obj (o : sdr_obj) : list (list N) * option N := (C16.observe (fst o), snd o).
Definition obj_eqb (a b : list (list N) * option N) : bool :=
  C16.obs_eqb (fst a) (fst b) && option_eqb N.eqb (snd a) (snd b).

(* get_repository_sdr / get_device_sdr -> object *)
Definition chk_get_obj (s : sdr_state) (st : store) (rid : N) (resv : option N)
  (reqs : list request) (reps : list reply) (sleeps : list N) (exp : res (list (list N) * option N)) : bool :=
  chk_dev s reqs reps &&
  chk_replay obj_eqb (dop o <- get_sdr_obj st rid resv; Ret (obs_obj o)) reqs reps sleeps exp.

(* get_repository_sdr_list / get_device_sdr_list -> objects *)
Definition chk_list_obj (s : sdr_state) (st : store)
  (reqs : list request) (reps : list reply) (sleeps : list N) (exp : res (list (list (list N) * option N))) : bool :=
  chk_dev s reqs reps &&
  chk_replay (list_eqb obj_eqb) (dop l <- sdr_list_obj (S (length reps)) st; Ret (map obs_obj l)) reqs reps sleeps exp.
