(* Case checkers for the C19 correspondence run:
   - Model/Shell.v against the real /bin/sh (argv seen by a stub executable),
   - Model/IpmitoolIf.v against pyipmi/interfaces/ipmitool.py. *)
From Coq Require Import NArith List Bool.
From PyIpmi Require Import Lib.Res Lib.Bytes Model.Shell Model.IpmitoolIf.
Import ListNotations.
Open Scope N_scope.

Definition argv_eqb := list_eqb bytes_eqb.

(* observed: Some (argv, stderr-is-stdout) when the stub ran exactly once, None when it
   did not run (syntax error, empty command).  The model only claims something when it
   answers Words (then the shell must have started exactly that) or Unterminated. *)
Definition chk_lex (cmd : list N) (obs : option (list (list N) * bool)) : bool :=
  match sh_lex cmd, obs with
  | Words [] _, None => true
  | Words a r, Some (b, q) => argv_eqb a b && Bool.eqb r q
  | Words _ _, None => false
  | Unterminated, None => true
  | Unterminated, Some _ => false
  | _, _ => true
  end.
Definition is_words (cmd : list N) : bool :=
  match sh_lex cmd with Words _ _ => true | _ => false end.
(* shell model applied to the quoting rule: "-P "<escaped>"" must lex to the password *)
Definition chk_escape (s esc : list N) : bool := bytes_eqb (dq_escape s) esc.

(* err equality up to the kind of unrelated exception *)
Definition err_sim (a b : err) : bool :=
  match a, b with OtherError _, OtherError _ => true | _, _ => err_eqb a b end.
Definition res_sim {A} (eqb : A -> A -> bool) (x y : res A) : bool :=
  match x, y with Ok a, Ok b => eqb a b | Err e, Err f => err_sim e f | _, _ => false end.

(* expected command string: Some bytes, None = the builder raised *)
Definition r_cmd_eqb (r : res (list N)) (exp : option (list N)) : bool :=
  match r, exp with Ok b, Some e => bytes_eqb b e | Err _, None => true | _, _ => false end.

Definition chk_cmd (c : config) (t : option target) (lun netfn : N) (raw : list N)
  (exp : option (list N)) : bool := r_cmd_eqb (cmd_of c t lun netfn raw) exp.
Definition chk_ping (c : config) (exp : option (list N)) : bool := r_cmd_eqb (ping_cmd_of c) exp.
Definition chk_target (t : option target) (exp : option (list N)) : bool :=
  r_cmd_eqb (build_target false t) exp.

(* end to end: library builder + real shell + stub, against builder model + shell model *)
Definition chk_argv (c : config) (t : option target) (lun netfn : N) (raw : list N)
  (obs : option (list (list N) * bool)) : bool :=
  match cmd_of c t lun netfn raw with
  | Ok cmd => match sh_lex cmd, obs with
              | Words a r, Some (b, q) => argv_eqb a b && Bool.eqb r q
              | _, _ => false
              end
  | Err _ => match obs with None => true | Some _ => false end
  end.

Definition parse_eqb (a b : option N * option (list N)) : bool :=
  option_eqb N.eqb (fst a) (fst b) && option_eqb bytes_eqb (snd a) (snd b).
Definition chk_parse (out : list N) (exp : res (option N * option (list N))) : bool :=
  res_sim parse_eqb (parse_output out) exp.
Definition chk_receive (out : list N) (rc : N) (exp : res (list N)) : bool :=
  res_sim bytes_eqb (receive out rc) exp.
Definition chk_pingres (rc : N) (exp : res unit) : bool :=
  res_sim (fun _ _ => true) (ping_result rc) exp.
