(* Case checkers for the C08 correspondence run: the shape-level meaning of the generated
   operations (Model/ApiShape.v over Gen/ApiOps.v), replayed on the replies recorded while
   the real pyipmi.Ipmi method ran behind the scripted interface, compared with the
   requests it issued (netfn, cmd) and with its outcome class. *)
From Coq Require Import String.
From Coq Require Import NArith List Bool.
From PyIpmi Require Import Lib.Res Lib.Bytes Lib.Prog Model.Codec Model.ApiShape Gen.Layouts Gen.ApiOps.
Import ListNotations.
Open Scope N_scope.

Definition find_msg (n : string) : option msgdef :=
  find (fun m => String.eqb (m_name m) n) registry.

(* the request a step sends, as far as the shape knows it: netfn / cmd of the message *)
Definition req_of (dflt : string) (nm : option string) : request :=
  let n := match nm with Some s => s | None => dflt end in
  match find_msg (n ++ "Req") with
  | Some m => mkReq (m_netfn m) (m_cmd m) 0 []
  | None => mkReq 255 255 0 []
  end.

Definition mem_nat (x : nat) (l : list nat) : bool := existsb (Nat.eqb x) l.

Definition inst_of (dflt : string) (skipped : list nat) : inst :=
  mkInst (fun _ nm => req_of dflt nm) (fun _ _ => None) (fun pos => negb (mem_nat pos skipped)).

Definition ids (l : list request) : list (N * N) := map (fun r => (q_netfn r, q_cmd r)) l.
Definition id_eqb (a b : N * N) : bool := (fst a =? fst b) && (snd a =? snd b).

Fixpoint is_prefix (a b : list (N * N)) : bool :=
  match a, b with
  | [], _ => true
  | x :: a', y :: b' => id_eqb x y && is_prefix a' b'
  | _, _ => false
  end.

(* an error the pure Python code between the exchanges may raise (not produced by a reply) *)
Definition glue_err (e : err) : bool :=
  match e with CCError _ | RetryError | OutOfFuel => false | _ => true end.

(* op: method name; dflt: message name when the name is an argument; skipped: conditional
   positions not taken; rs: recorded replies; obs_reqs: (netfn, cmd) of the requests seen;
   obs: None = returned, Some e = raised e *)
Definition chk_shape (name dflt : string) (skipped : list nat) (rs : list reply)
                     (obs_reqs : list (N * N)) (obs : option err) : bool :=
  match find_op api_ops name with
  | None => false
  | Some o =>
    simple_checked api_ops o &&
    let '(out, reqs, _, _) := replay (op_prog api_ops o (inst_of dflt skipped)) rs [] [] in
    match out, obs with
    | Ok _, None => list_eqb id_eqb (ids reqs) obs_reqs
    | Err e, Some e' =>
        (err_eqb e e' && list_eqb id_eqb (ids reqs) obs_reqs)
    | Ok _, Some e' => glue_err e' && is_prefix obs_reqs (ids reqs)
    | Err e, None => false
    end
  end.

(* is the operation in the straight-line class (the harness asks instead of guessing) *)
Definition is_simple (name : string) : bool :=
  match find_op api_ops name with Some o => simple_checked api_ops o | None => false end.

(* Ipmi.send_message(req, retry) alone: requests sent and outcome *)
Definition chk_send (retry : nat) (rs : list reply) (nreq : nat) (obs : option err) : bool :=
  let '(out, reqs, _, _) := replay (send_message retry (mkReq 6 1 0 []) (fun d => Ret d)) rs [] [] in
  Nat.eqb (length reqs) nreq &&
  match out, obs with
  | Ok _, None => true
  | Err e, Some e' => err_eqb e e'
  | _, _ => false
  end.

(* Hpm.get_component_properties: requests sent; outcome = selectors delivered | error *)
Definition chk_gcp (rs : list reply) (nreq : nat) (obs : res (list N)) : bool :=
  let '(out, reqs, _, _) :=
    replay (get_component_properties (fun p => mkReq 44 47 0 [0; 0; p]) (fun _ _ => None)) rs [] [] in
  Nat.eqb (length reqs) nreq &&
  match out, obs with
  | Ok l, Ok sel => list_eqb N.eqb (map fst l) sel
  | Err e, Err e' => err_eqb e e' || (glue_err e' && false)
  | _, _ => false
  end.
