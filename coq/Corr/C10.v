(* Case checkers for the C10 correspondence run: the model progs of Model/FruIO.v are
   replayed against the replies recorded from the real pyipmi client; every request and
   the final outcome must agree.  [chk_dev]: the Gallina device gives the recorded
   replies on the recorded requests (ties harness/c10.py:FruDevice to fru_dev). *)
From Coq Require Import NArith List Bool.
From PyIpmi Require Import Lib.Res Lib.Bytes Lib.Prog Model.FruIO.
Import ListNotations.
Open Scope N_scope.

(* "another exception" is one class on the Python side (common.exc_class) *)
Definition err_class_eqb (a b : err) : bool :=
  match a, b with OtherError _, OtherError _ => true | _, _ => err_eqb a b end.
Definition out_eqb {A} (eqb : A -> A -> bool) (x y : res A) : bool :=
  match x, y with
  | Ok a, Ok b => eqb a b
  | Err e, Err f => err_class_eqb e f
  | _, _ => false
  end.
Definition reply_eqb (a b : reply) : bool :=
  match a, b with
  | RBytes x, RBytes y => bytes_eqb x y
  | RRaise e, RRaise f => err_class_eqb e f
  | _, _ => false
  end.

Definition chk_prog {A} (eqb : A -> A -> bool) (p : prog A) (ex : list (request * reply))
    (exp : res A) : bool :=
  let '(out, reqs, _, rest) := replay p (map snd ex) [] [] in
  out_eqb eqb out exp && list_eqb request_eqb reqs (map fst ex)
  && match rest with [] => true | _ => false end.

Definition chk_read (rng : option (N * N)) (id : N) ex (exp : res (list N)) : bool :=
  chk_prog bytes_eqb (read_fru_data rng id) ex exp.
Definition chk_info (id : N) ex (exp : res N) : bool :=
  chk_prog N.eqb (get_fru_inventory_area_info id) ex exp.
Definition chk_area (off : option N) (id : N) ex (exp : res (list N)) : bool :=
  chk_prog bytes_eqb (read_fru_area off id) ex exp.
Definition chk_write (wl : N) (data : list N) (off id : N) ex (exp : res unit) : bool :=
  chk_prog (fun _ _ => true) (write_fru_data wl data off id) ex exp.

(* the parsers' verdicts observed on the implementation: kinds that raise, with the error *)
Definition parse_of (tbl : list (N * err)) (kind : N) (_ : list N) : res unit :=
  match find (fun p => fst p =? kind) tbl with Some p => Err (snd p) | None => Ok tt end.
(* get_fru_chassis_area (kind 1) / get_fru_board_area (2) / get_fru_product_area (3): raw bytes handed to the parser *)
Definition chk_infoarea (tbl : list (N * err)) (kind id : N) ex (exp : res (list N)) : bool :=
  chk_prog bytes_eqb (get_fru_info_area (parse_of tbl) kind id) ex exp.
Definition chk_inv (tbl : list (N * err)) (id : N) ex (exp : res (list (option (list N)))) : bool :=
  chk_prog (list_eqb (option_eqb bytes_eqb)) (get_fru_inventory (parse_of tbl) 4000 id) ex exp.

(* device *)
Definition mem_of (al : list (N * list N)) : N -> list N :=
  fun i => match find (fun p => fst p =? i) al with Some p => snd p | None => [] end.
Definition ack_of (ov : list (nat * N)) : nat -> N -> N :=
  fun k n => match find (fun p => Nat.eqb (fst p) k) ov with Some p => snd p | None => n end.
Fixpoint dev_replies {S} (dev : device S) (s : S) (reqs : list request) : list reply * S :=
  match reqs with
  | [] => ([], s)
  | r :: rest => let '(s1, rp) := dev s r in
                 let '(rps, s2) := dev_replies dev s1 rest in (rp :: rps, s2)
  end.
(* [final]: the memories of the Python device after the run *)
Definition chk_dev (al : list (N * list N)) (limit rej : N) (ov : list (nat * N))
    (ex : list (request * reply)) (final : list (N * list N)) : bool :=
  let '(rps, s') := dev_replies fru_dev (mkFruDev (mem_of al) limit rej (ack_of ov) 0) (map fst ex) in
  list_eqb reply_eqb rps (map snd ex)
  && forallb (fun p => bytes_eqb (fd_mem s' (fst p)) (snd p)) final.
