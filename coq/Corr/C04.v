(* Case checkers for the C04 correspondence run (Model/RxLoop.v vs. the three native
   interfaces driven with scripted transports). *)
From Coq Require Import NArith List Bool.
From PyIpmi Require Import Lib.Res Lib.Bytes Model.Ipmb Model.Bridge Model.RxLoop.
Import ListNotations.
Open Scope N_scope.

Definition err_sim (a b : err) : bool :=
  match a, b with
  | OtherError _, OtherError _ => true
  | _, _ => err_eqb a b
  end.
Definition res_sim (a b : res (list N)) : bool :=
  match a, b with
  | Ok x, Ok y => bytes_eqb x y
  | Err e, Err f => err_sim e f
  | _, _ => false
  end.

Definition mkr (l : list N) : route :=
  match l with [a; b; c] => mkRoute a b c | _ => mkRoute 0 0 0 end.
(* request: [rs_sa; lun; netfn; cmd], routing, payload *)
Definition mkq (l : list N) (routing : list (list N)) (p : list N) : rxreq :=
  match l with
  | [a; b; c; d] => mkRq a (map mkr routing) b c d p
  | _ => mkRq 0 [] 0 0 0 []
  end.

Inductive kind := KRmcp | KRmcpOriginal | KIpmbDev | KAardvark.

(* ------------------------------------------------------------------------- *)
(* explicit sequences of requests on one interface object                      *)
(* ------------------------------------------------------------------------- *)
Definition one_eqb (a b : res (list N) * list (list N) * nat) : bool :=
  let '(o1, s1, q1) := a in let '(o2, s2, q2) := b in
  res_sim o1 o2 && list_eqb bytes_eqb s1 s2 && Nat.eqb q1 q2.

(* expected per request: (outcome, frames written, queue length afterwards (0 for I2C));
   then the sequence counter and the number of unread events at the end *)
Definition chk_seq (k : kind) (mr : nat) (ign : bool) (slave seq0 : N) (queue0 : list (list N))
           (reqs : list (list N * list (list N) * list N * list event))
           (exp : list (res (list N) * list (list N) * nat)) (exp_seq : N) (exp_unread : nat) : bool :=
  let rs := map (fun '(l, rt, p, ev) => (mkq l rt p, ev)) reqs in
  match k with
  | KRmcp | KRmcpOriginal =>
    let '(outs, st, c) := rmcp_run (match k with KRmcpOriginal => true | _ => false end)
                                   (mkRmcp seq0 queue0 mr ign slave) [] rs in
    list_eqb one_eqb outs exp && (m_next_seq st =? exp_seq) && Nat.eqb (length c) exp_unread
  | KIpmbDev =>
    let '(outs, st, c) := i2c_run ipmbdev_view ipmbdev_wire (mkI2c seq0 mr slave) [] rs in
    list_eqb one_eqb outs exp && (i_next_seq st =? exp_seq) && Nat.eqb (length c) exp_unread
  | KAardvark =>
    let '(outs, st, c) := i2c_run aardvark_view aardvark_wire (mkI2c seq0 mr slave) [] rs in
    list_eqb one_eqb outs exp && (i_next_seq st =? exp_seq) && Nat.eqb (length c) exp_unread
  end.

(* histories of requests and probes: a step is (0, request ...) or (1, probe of address hd ql) *)
Definition chk_steps (k : kind) (mr : nat) (ign : bool) (slave seq0 : N) (queue0 : list (list N))
           (steps : list (N * list N * list (list N) * list N * list event))
           (exp : list (res (list N) * list (list N) * nat)) (exp_seq : N) (exp_unread : nat) : bool :=
  let ss := map (fun '(t, l, rt, p, ev) =>
                   (match t with 0 => SReq (mkq l rt p) | _ => SProbe (hd 0 l) end, ev)) steps in
  match k with
  | KRmcp | KRmcpOriginal =>
    let '(outs, st, c) := rmcp_run_steps (match k with KRmcpOriginal => true | _ => false end)
                                         (mkRmcp seq0 queue0 mr ign slave) [] ss in
    list_eqb one_eqb outs exp && (m_next_seq st =? exp_seq) && Nat.eqb (length c) exp_unread
  | KIpmbDev =>
    let '(outs, st, c) := i2c_run_steps ipmbdev_view ipmbdev_wire (mkI2c seq0 mr slave) [] ss in
    list_eqb one_eqb outs exp && (i_next_seq st =? exp_seq) && Nat.eqb (length c) exp_unread
  | KAardvark =>
    let '(outs, st, c) := i2c_run_steps aardvark_view aardvark_wire (mkI2c seq0 mr slave) [] ss in
    list_eqb one_eqb outs exp && (i_next_seq st =? exp_seq) && Nat.eqb (length c) exp_unread
  end.

(* ------------------------------------------------------------------------- *)
(* the alphabet of the exhaustive sweep, built from the request header          *)
(* ------------------------------------------------------------------------- *)
(* reply of the responder to request header h *)
Definition reply_frame (h : hdr) (data : list N) : list N :=
  let b1 := ((N.lor (netfn h) 1) * 4 + rq_lun h) mod 256 in
  let body := [rs_sa h; (rq_seq h * 4 + rs_lun h) mod 256; cmdid h] ++ data in
  [rq_sa h; b1; checksum [rq_sa h; b1]] ++ body ++ [checksum body].

Definition bump (i : nat) (f : list N) : list N :=
  firstn i f ++ match skipn i f with [] => [] | b :: r => ((b + 1) mod 256) :: r end.

(* the request itself, as written to the wire (an echoed / looped-back request) *)
Definition request_frame (h : hdr) (p : list N) : list N :=
  let b1 := (netfn h * 4 + rs_lun h) mod 256 in
  let body := [rq_sa h; (rq_seq h * 4 + rq_lun h) mod 256; cmdid h] ++ p in
  [rs_sa h; b1; checksum [rs_sa h; b1]] ++ body ++ [checksum body].
(* reply layout with an arbitrary network function value *)
Definition reply_frame_nf (h : hdr) (nf : N) (data : list N) : list N :=
  let b1 := (nf * 4 + rq_lun h) mod 256 in
  let body := [rs_sa h; (rq_seq h * 4 + rs_lun h) mod 256; cmdid h] ++ data in
  [rq_sa h; b1; checksum [rq_sa h; b1]] ++ body ++ [checksum body].

Definition sym_event (h : hdr) (p : list N) (k : N) : event :=
  let d := [0; 160 + k] in
  match k with
  | 0 => Frame (reply_frame h d)                                                        (* matching reply *)
  | 1 => Frame (reply_frame (mkHdr (rs_sa h) (rs_lun h) (rq_sa h) (rq_lun h) ((rq_seq h + 63) mod 64) (netfn h) (cmdid h)) d)
  | 2 => Frame (reply_frame (mkHdr (rs_sa h) (rs_lun h) (rq_sa h) (rq_lun h) (rq_seq h) (netfn h) ((cmdid h + 1) mod 256)) d)
  | 3 => Frame (reply_frame (mkHdr (rs_sa h) (rs_lun h) (rq_sa h) (rq_lun h) (rq_seq h) ((netfn h + 2) mod 64) (cmdid h)) d)
  | 4 => Frame (reply_frame (mkHdr (rs_sa h) ((rs_lun h + 1) mod 4) (rq_sa h) (rq_lun h) (rq_seq h) (netfn h) (cmdid h)) d)
  | 5 => Frame (bump 2 (reply_frame h d))                                               (* bad header checksum *)
  | 6 => Frame (bump 8 (reply_frame h d))                                               (* bad payload checksum *)
  | 7 => Frame (wrap_reply (mkWrap (rq_sa h) 0 (rs_sa h) 0 (rq_seq h)) 0 [])            (* bare bridge acknowledgement *)
  | 8 => Frame (firstn 5 (reply_frame h d))                                             (* short frame *)
  | 9 => Nothing
  | 10 => OsError
  | 11 => Frame (wrap_reply (mkWrap (rq_sa h) 0 0x20 0 (rq_seq h)) 0 (reply_frame h d)) (* reply inside a Send Message response *)
  | 12 => Frame (wrap_reply (mkWrap (rq_sa h) 0 0x20 0 (rq_seq h)) 0xc3 [])             (* failing Send Message response *)
  | 13 => Frame (request_frame h p)                                                     (* the request itself, echoed *)
  | 14 => Frame (reply_frame_nf h (netfn h) d)             (* reply layout, everything matching, but the REQUEST netfn *)
  | _ => Frame (reply_frame_nf h (N.lxor (N.lor (netfn h) 1) (2 ^ (k - 14))) d)         (* 15..19: netfn bit 1..5 flipped *)
  end.

Definition chk_sym (h p : list N) (k : N) (exp : option (list N)) : bool :=
  let hd := match h with [a; b; c; d; e; f; g] => mkHdr a b c d e f g | _ => mkHdr 0 0 0 0 0 0 0 end in
  match sym_event hd p k, exp with
  | Frame f, Some e => bytes_eqb f e
  | Nothing, None => true
  | OsError, None => true
  | _, _ => false
  end.

(* all words of length n over the alphabet, first letter most significant
   (itertools.product order) *)
Fixpoint words (alpha : list N) (n : nat) : list (list N) :=
  match n with
  | O => [[]]
  | S n' => flat_map (fun a => map (cons a) (words alpha n')) alpha
  end.

(* one run packed into a number:
   outcome: 0..31 = Ok [0; 160 + k] (payload of symbol k), 32 = any other Ok, 33 RetryError,
            34 TimeoutError, 35 DecodingError, 36 CCError, 37 other error *)
Definition out_code (o : res (list N)) : N :=
  match o with
  | Ok [0; t] => if (160 <=? t) && (t <? 192) then t - 160 else 32
  | Ok _ => 32
  | Err RetryError => 33
  | Err TimeoutError => 34
  | Err DecodingError => 35
  | Err (CCError _) => 36
  | Err _ => 37
  end.
Definition pack (o : res (list N)) (nsent qlen unread : nat) : N :=
  ((out_code o * 16 + N.of_nat nsent) * 16 + N.of_nat qlen) * 16 + N.of_nat unread.

Definition all_eq (tx : list N) (sent : list (list N)) : bool := forallb (bytes_eqb tx) sent.

(* one word under one configuration: packed result, or 999999 when a written frame
   differs from the expected one *)
Definition run_events (k : kind) (mr : nat) (ign : bool) (slave seq0 : N) (q : rxreq) (tx : list N)
           (s : list event) : N :=
  match k with
  | KRmcp | KRmcpOriginal =>
    let '(o, st, sent, rest) := rmcp_send_receive_gen (match k with KRmcpOriginal => true | _ => false end)
                                                      (mkRmcp seq0 [] mr ign slave) q s in
    if all_eq tx sent then pack o (length sent) (length (m_queue st)) (length rest) else 999999
  | KIpmbDev =>
    let '(o, st, sent, rest) := ipmbdev_send_receive (mkI2c seq0 mr slave) q s in
    if all_eq tx sent then pack o (length sent) 0 (length rest) else 999999
  | KAardvark =>
    let '(o, st, sent, rest) := aardvark_send_receive (mkI2c seq0 mr slave) q s in
    if all_eq tx sent then pack o (length sent) 0 (length rest) else 999999
  end.

(* the events of a word, looked up in the table of the 20 symbols (computed once) *)
Definition word_events (tbl : list event) (w : list N) : list event :=
  map (fun k => nth (N.to_nat k) tbl Nothing) w.
Definition sym_table (h : hdr) (p : list N) : list event :=
  map (sym_event h p) [0; 1; 2; 3; 4; 5; 6; 7; 8; 9; 10; 11; 12; 13; 14; 15; 16; 17; 18; 19].

Definition run_word (k : kind) (ign : bool) (slave seq0 : N) (q : rxreq) (tx : list N)
           (tbl : list event) (w : list N) : list N :=
  let s := word_events tbl w in
  map (fun mr => run_events k mr ign slave seq0 q tx s) [0; 1; 2; 3]%nat.

(* sweep: every word prefix ++ t, t over [alpha]^n, each under retry budgets 0..3;
   [exp] lists the packed results in that order (word-major, budget-minor) *)
Definition sweep_codes (k : kind) (ign : bool) (slave seq0 : N) (ql : list N) (p tx : list N)
           (alpha prefix : list N) (n : nat) : list N :=
  let q := mkq ql [] p in
  let tbl := sym_table (rmcp_header (inc_seq seq0) slave q) p in
  flat_map (fun t => run_word k ign slave seq0 q tx tbl (prefix ++ t)) (words alpha n).

Definition chk_sweep (k : kind) (ign : bool) (slave seq0 : N) (ql : list N) (p tx : list N)
           (alpha prefix : list N) (n : nat) (exp : list N) : bool :=
  list_eqb N.eqb (sweep_codes k ign slave seq0 ql p tx alpha prefix n) exp.

(* one word, for locating a disagreement inside a failing sweep shard *)
Definition chk_word (k : kind) (ign : bool) (slave seq0 : N) (ql : list N) (p tx : list N)
           (w : list N) (exp : list N) : bool :=
  let q := mkq ql [] p in
  let tbl := sym_table (rmcp_header (inc_seq seq0) slave q) p in
  list_eqb N.eqb (run_word k ign slave seq0 q tx tbl w) exp.
