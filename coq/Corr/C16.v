(* Case checkers for the C16 correspondence run (Model/SdrParse.v vs. pyipmi/sdr.py,
   and the harness's Python copies of the specification encoder / expected view vs.
   Model/SdrEnc.v). *)
From Coq Require Import String Ascii.
From Coq Require Import NArith ZArith List Bool.
From PyIpmi Require Import Lib.Res Lib.Bytes Model.SdrParse Model.SdrEnc.
Import ListNotations.
Open Scope string_scope.
Open Scope list_scope.
Open Scope N_scope.

(* Every attribute of a parsed object as a list of numbers:
   number -> [n]; signed -> [0;n] / [1;|n|]; string -> code points;
   list of names -> the names, each followed by ","; dict -> values in key order. *)
Definition oz (z : Z) : list N := if (z <? 0)%Z then [1; Z.to_N (- z)] else [0; Z.to_N z].
Definition ostrs (l : list string) : list N :=
  concat (map (fun s => bytes_of_string s ++ [44]) l).
Definition ohdr (h : hdr) : list (list N) := [[h_id h]; [h_version h]; [h_type h]; [h_length h]].
Definition okey (k : key) : list (list N) := [[owner_id k]; [owner_lun k]; [number k]].
Definition oent (e : ent) : list (list N) := [[entity_id e]; [entity_instance e]].
Definition oid (i : idstr) : list (list N) := [[ids_type i]; [ids_length i]; ids_string i].

Definition observe (r : record) : list (list N) :=
  match r with
  | RFull h f =>
      [[1]] ++ ohdr h ++ okey (f_key f) ++ oent (f_ent f) ++
      [ostrs (f_initialization f); ostrs (f_capabilities f);
       [f_sensor_type_code f]; [f_event_reading_type_code f];
       [f_assertion_mask f]; [f_deassertion_mask f]; [f_discrete_reading_mask f];
       [f_units_1 f]; [f_units_2 f]; [f_units_3 f];
       [f_analog_data_format f]; [f_rate_unit f]; [f_modifier_unit f]; [f_percentage f];
       [f_linearization f]; oz (f_m f); [f_tolerance f]; oz (f_b f);
       [f_accuracy f]; [f_accuracy_exp f]; oz (f_k2 f); oz (f_k1 f);
       ostrs (f_analog_characteristic f);
       [f_nominal_reading f]; [f_normal_maximum f]; [f_normal_minimum f];
       [f_sensor_maximum_reading f]; [f_sensor_minimum_reading f];
       f_threshold f; f_hysteresis f; [f_reserved f]; [f_oem f]] ++ oid (f_id f)
  | RCompact h c =>
      [[2]] ++ ohdr h ++ okey (c_key c) ++ oent (c_ent c) ++
      [[c_sensor_initialization c]; [c_capabilities c]; [c_sensor_type_code c];
       [c_event_reading_type_code c]; [c_assertion_mask c]; [c_deassertion_mask c];
       [c_discrete_reading_mask c]; [c_units_1 c]; [c_units_2 c]; [c_units_3 c];
       [c_record_sharing c]; [c_positive_going_hysteresis c]; [c_negative_going_hysteresis c];
       [c_reserved c]; [c_oem c]] ++ oid (c_id c)
  | REventOnly h e =>
      [[3]] ++ ohdr h ++ okey (e_key e) ++ oent (e_ent e) ++
      [[e_sensor_type e]; [e_event_reading_type_code e]; [e_record_sharing e];
       [e_reserved e]; [e_oem e]] ++ oid (e_id e)
  | RFruLoc h l =>
      [[17]] ++ ohdr h ++
      [[fl_device_access_address l]; [fl_fru_device_id l]; [fl_logical_physical l];
       [fl_channel_number l]; [fl_reserved l]; [fl_device_type l]; [fl_device_type_modifier l]] ++
      oent (fl_ent l) ++ [[fl_oem l]] ++ oid (fl_id l)
  | RMcLoc h m =>
      [[18]] ++ ohdr h ++
      [[ml_device_slave_address m]; [ml_channel_number m]; [ml_power_state_notification m];
       [ml_global_initialization m]; [ml_device_capabilities m]; [ml_reserved m]] ++
      oent (ml_ent m) ++ [[ml_oem m]] ++ oid (ml_id m)
  | RMcConf h m =>
      [[19]] ++ ohdr h ++
      [[mc_device_slave_address m]; [mc_device_id m]; [mc_channel_number m];
       [mc_firmware_revision_1 m]; [mc_firmware_revision_2 m]; [mc_ipmi_version m];
       [mc_manufacturer_id m]; [mc_product_id m]; [mc_device_guid m]]
  | ROem h k => [[192]] ++ ohdr h ++ okey k
  | RUnknown h => [[0]] ++ ohdr h
  end.

Definition obs_eqb := list_eqb bytes_eqb.

(* model on the implementation's input = the implementation's observed attributes
   (or the same exception class) *)
Definition chk_parse (d : list N) (exp : res (list (list N))) : bool :=
  res_eqb obs_eqb (do r <- sdr_from_data d; Ok (observe r)) exp.

(* the harness's Python encoder agrees with enc_sdr on this spec record, the record
   is in the range the theorem covers, and the harness's expected attributes agree
   with [expected] *)
Definition chk_spec (s : srec) (bytes : list N) (exp : list (list N)) : bool :=
  bytes_eqb (enc_sdr s) bytes && in_range_b s && obs_eqb (observe (expected s)) exp.

(* the theorem's conclusion evaluated on this spec record (model side only) *)
Definition chk_thm (s : srec) : bool :=
  res_eqb obs_eqb (do r <- sdr_from_data (enc_sdr s); Ok (observe r)) (Ok (observe (expected s))).
