(* Case checkers for the C18 correspondence run: Model/HpmImage.v against
   pyipmi.hpm.UpgradeImage, Model/HpmUpload.v against Hpm.upload_binary driven through
   harness/fakeif.py, and the Gallina reference device against its Python copy. *)
From Coq Require Import NArith ZArith List Bool.
From PyIpmi Require Import Lib.Res Lib.Bytes Lib.Prog Model.HpmImage Model.HpmUpload Model.HpmDevice
  Model.HpmUpgrade Model.HpmUpgradeSpec.
Import ListNotations.
Open Scope N_scope.

(* exceptions are compared by class; every "unrelated Python exception" is one class *)
Definition err_same (a b : err) : bool :=
  match a, b with
  | OtherError _, OtherError _ => true
  | _, _ => err_eqb a b
  end.
Definition res_same {A} (eqb : A -> A -> bool) (x y : res A) : bool :=
  match x, y with
  | Ok a, Ok b => eqb a b
  | Err e, Err f => err_same e f
  | _, _ => false
  end.

Definition version_eqb (a b : version) : bool :=
  (v_major a =? v_major b) && (v_minor a =? v_minor b) && option_eqb bytes_eqb (v_aux a) (v_aux b).

Definition header_eqb (a b : header) : bool :=
  bytes_eqb (h_signature a) (h_signature b) && (h_format_version a =? h_format_version b)
  && (h_device_id a =? h_device_id b) && (h_manufacturer_id a =? h_manufacturer_id b)
  && (h_product_id a =? h_product_id b) && (h_time a =? h_time b)
  && (h_capabilities a =? h_capabilities b) && bytes_eqb (h_components a) (h_components b)
  && (h_selftest_timeout a =? h_selftest_timeout b) && (h_rollback_timeout a =? h_rollback_timeout b)
  && (h_inaccessibility_timeout a =? h_inaccessibility_timeout b)
  && version_eqb (h_earliest a) (h_earliest b)
  && version_eqb (h_firmware_revision a) (h_firmware_revision b)
  && (h_oem_data_length a =? h_oem_data_length b)
  && option_eqb bytes_eqb (h_oem_data a) (h_oem_data b)
  && (h_checksum a =? h_checksum b) && (h_length a =? h_length b).

Definition upload_eqb (a b : upload) : bool :=
  version_eqb (u_version a) (u_version b) && bytes_eqb (u_description a) (u_description b)
  && (u_firmware_length a =? u_firmware_length b) && bytes_eqb (u_data a) (u_data b).

Definition action_eqb (a b : action) : bool :=
  (a_type a =? a_type b) && (a_components a =? a_components b) && (a_checksum a =? a_checksum b)
  && (a_length a =? a_length b) && option_eqb upload_eqb (a_upload a) (a_upload b).

Definition image_eqb (a b : image) : bool :=
  header_eqb (i_header a) (i_header b) && list_eqb action_eqb (i_actions a) (i_actions b)
  && option_eqb bytes_eqb (i_checksum a) (i_checksum b)
  && bytes_eqb (i_checksum_expected a) (i_checksum_expected b).

(* file content, observed attributes of UpgradeImage(file) (or the exception class) *)
Definition chk_parse (data : list N) (observed : res image) : bool :=
  res_same image_eqb (parse_image data) observed.
Definition chk_header (data : list N) (observed : res header) : bool :=
  res_same header_eqb (parse_header data) observed.
Definition chk_action (data : list N) (observed : res action) : bool :=
  res_same action_eqb (parse_action data) observed.
Definition chk_version (data : list N) (observed : res version) : bool :=
  res_same version_eqb (version_field data) observed.

(* upload: replay the model client against the recorded replies; every request, every
   sleep, the outcome, and no recorded reply left unread *)
Definition unit_eqb (a b : unit) : bool := true.
(* one recorded exchange, compactly: netfn cmd lun "request data" "reply bytes" *)
Definition ex (n c l : N) (d r : String.string) : request * reply := (mkReq n c l (hx d), RBytes (hx r)).
Definition exr (n c l : N) (d : String.string) (e : err) : request * reply := (mkReq n c l (hx d), RRaise e).

Definition chk_client (p : prog unit) (tr : list (request * reply)) (sleeps : list N) (outcome : res unit) : bool :=
  let '(r, qs, sl, unread) := replay p (map snd tr) [] [] in
  res_same unit_eqb r outcome && list_eqb request_eqb qs (map fst tr) && bytes_eqb sl sleeps
  && match unread with [] => true | _ => false end.

Definition chk_upload (block_size : nat) (binary : list N) (timeout interval : N) (retry : Z)
           (tr : list (request * reply)) (sleeps : list N) (outcome : res unit) : bool :=
  chk_client (upload_binary block_size binary timeout interval retry) tr sleeps outcome.

Definition chk_wait (timeout interval : N) (tr : list (request * reply)) (sleeps : list N)
           (outcome : res unit) : bool :=
  chk_client (wait_for_long_duration_command timeout interval) tr sleeps outcome.

(* the Gallina reference device gives the recorded replies on the recorded requests *)
Definition reply_eqb (a b : reply) : bool :=
  match a, b with
  | RBytes x, RBytes y => bytes_eqb x y
  | RRaise e, RRaise f => err_same e f
  | _, _ => false
  end.
Fixpoint dev_replies (s : dstate) (tr : list (request * reply)) : bool :=
  match tr with
  | [] => true
  | (q, rp) :: r => let '(s', rp') := hpm_device s q in reply_eqb rp rp' && dev_replies s' r
  end.
Definition chk_device (plan : list answer) (tr : list (request * reply)) : bool :=
  dev_replies (d_init plan) tr.

(* both at once on one recorded run (the transcript literal is written once) *)
Definition chk_upload_dev (block_size : nat) (binary : list N) (timeout interval : N) (retry : Z)
           (plan : list answer) (tr : list (request * reply)) (sleeps : list N) (outcome : res unit) : bool :=
  chk_upload block_size binary timeout interval retry tr sleeps outcome && chk_device plan tr.

(* ---- upgrade drivers (Model/HpmUpgrade.v): any driver prog, written out by the harness,
   replayed against the replies recorded from the real method ---- *)
Definition chk_clientA {A} (eqb : A -> A -> bool) (p : prog A) (tr : list (request * reply))
           (sleeps : list N) (outcome : res A) : bool :=
  let '(r, qs, sl, unread) := replay p (map snd tr) [] [] in
  res_same eqb r outcome && list_eqb request_eqb qs (map fst tr) && bytes_eqb sl sleeps
  && match unread with [] => true | _ => false end.

Definition selftest_eqb (a b : N * option (list N) * list N) : bool :=
  let '(s1, o1, l1) := a in let '(s2, o2, l2) := b in
  (s1 =? s2) && option_eqb bytes_eqb o1 o2 && bytes_eqb l1 l2.
Definition optN_eqb := option_eqb N.eqb.
Definition ident_eqb (a b : N * N * N) : bool :=
  let '(x1, y1, z1) := a in let '(x2, y2, z2) := b in (x1 =? x2) && (y1 =? y2) && (z1 =? z2).

(* install_component_from_file on the recorded replies, and the Gallina upgrade device on
   the recorded requests *)
Fixpoint udev_replies (s : ustate) (tr : list (request * reply)) : bool :=
  match tr with
  | [] => true
  | (q, rp) :: r => let '(s', rp') := upg_device s q in reply_eqb rp rp' && udev_replies s' r
  end.
Definition chk_udevice (block_plans : list (list answer)) (cmd_plan : list answer) (ident : N * N * N)
           (present : N) (down : nat) (tr : list (request * reply)) : bool :=
  udev_replies (u_init block_plans cmd_plan ident present down) tr.
Definition chk_install (file : list N) (component tick : N) (tr : list (request * reply))
           (sleeps : list N) (outcome : res unit) : bool :=
  chk_client (install_component_from_file file component tick) tr sleeps outcome.
Definition chk_install_dev (file : list N) (component tick : N)
           (block_plans : list (list answer)) (cmd_plan : list answer) (ident : N * N * N)
           (present : N) (down : nat)
           (tr : list (request * reply)) (sleeps : list N) (outcome : res unit) : bool :=
  chk_install file component tick tr sleeps outcome && chk_udevice block_plans cmd_plan ident present down tr.
(* a single driver against the upgrade device *)
Definition chk_driver_dev (p : prog unit) (block_plans : list (list answer)) (cmd_plan : list answer)
           (tr : list (request * reply)) (sleeps : list N) (outcome : res unit) : bool :=
  chk_client p tr sleeps outcome && chk_udevice block_plans cmd_plan (0, 0, 0) 0 0 tr.
Definition chk_version_from_file (file : list N) (observed : res (option version)) : bool :=
  res_same (option_eqb version_eqb) (get_upgrade_version_from_file file) observed.
