(* Case checkers for the C17 correspondence run (Model/SensorConv.v, SensorConvF.v vs.
   pyipmi/sdr.py convert_sensor_raw_to_value / convert_sensor_value_to_raw / lin). *)
From Coq Require Import NArith ZArith List Bool QArith Qabs Floats.
From PyIpmi Require Import Lib.Res Lib.Bytes Model.SensorConv Model.SensorConvF.
Import ListNotations.
Open Scope Z_scope.

(* a Python float handed over exactly as n * 2^e *)
Definition q_of (n e : Z) : Q := (inject_Z n * Qpower (2 # 1) e)%Q.

(* stated tolerance of the float result against the exact formula:
   |float - exact| <= 2^-50 * (|M x| + |B| 10^K1) 10^K2 *)
Definition magnitude (s : sensor) (x : Z) : Q :=
  ((Qabs (inject_Z (s_m s) * inject_Z x) + Qabs (inject_Z (s_b s)) * pow10 (s_k1 s)) * pow10 (s_k2 s))%Q.
Definition tol : Q := Qpower (2 # 1) (-50).
Definition close (s : sensor) (x : Z) (v : Q) : bool :=
  Qle_bool (Qabs (v - linear_Q s x)) (tol * magnitude s x).

Definition zres_eqb (a b : res Z) : bool := res_eqb Z.eqb a b.

(* one reading: raw, the implementation's forward result n * 2^e (linearization 0), and
   the implementation's answer to converting that result back *)
Definition chk_one (s : sensor) (c : N * (Z * Z) * res Z) : bool :=
  let '(raw, (n, e), back) := c in
  let x := raw_signed (s_fmt s) raw in
  PrimFloat.eqb (convert_raw_F s raw) (mkf n e)            (* float model, bit-exact *)
  && close s x (q_of n e)                                  (* exact model, within tolerance *)
  && zres_eqb (convert_value_F s (mkf n e)) back           (* float inverse *)
  && zres_eqb (convert_sensor_value_to_raw s (linear_Q s x)) back.  (* exact inverse on the exact value *)
Definition chk_conv (s : sensor) (cs : list (N * (Z * Z) * res Z)) : bool := forallb (chk_one s) cs.

(* inverse on an arbitrary float value (not a forward result): float model only *)
Definition chk_inv (s : sensor) (n e : Z) (back : res Z) : bool :=
  zres_eqb (convert_value_F s (mkf n e)) back.

(* Python's 10**k as a float operand *)
Definition chk_pow10 (k n e : Z) : bool := PrimFloat.eqb (pow10_F k) (mkf n e).

(* which function lin selects: the model's table instantiated with tags 1..11
   (0 = identity); 255 = DecodingError *)
Definition lin_tag (code : N) : N :=
  match lin N (fun _ => 1%N) (fun _ => 2%N) (fun _ => 3%N) (fun _ => 4%N) (fun _ => 5%N) (fun _ => 6%N)
            (fun _ => 7%N) (fun _ => 8%N) (fun _ => 9%N) (fun _ => 10%N) (fun _ => 11%N) code with
  | Ok f => f 0%N
  | Err _ => 255%N
  end.
Definition chk_lin (code tag : N) : bool := (lin_tag code =? tag)%N.

(* convert_sensor_raw_to_value(None) is None, also for an unknown linearization *)
Definition chk_none (s : sensor) (impl_none : bool) : bool :=
  match convert_sensor_raw_to_value N (fun _ => 0%N) (fun x => x) (fun x => x) (fun x => x) (fun x => x)
          (fun x => x) (fun x => x) (fun x => x) (fun x => x) (fun x => x) (fun x => x) (fun x => x) s None with
  | Ok None => impl_none
  | _ => false
  end.
