(* Case checkers for the C12 correspondence run: the model progs of Model/SelIO.v are
   replayed against the replies recorded from the real pyipmi client (same requests,
   same outcome); [chk_seldev]: the Gallina device sel_dev, started in the same state
   with the same adversary plan, gives the recorded replies and ends with the same log
   and deletion record as harness/c12.py:SelDevice. *)
From Coq Require Import NArith ZArith List Bool.
From PyIpmi Require Import Lib.Res Lib.Bytes Lib.Prog Model.SelIO Corr.C10.
From PyIpmi Require Model.Helper.
Import ListNotations.
Open Scope N_scope.

Definition entry_eqb (a b : selentry) : bool :=
  bytes_eqb (se_data a) (se_data b) && (se_record_id a =? se_record_id b)
  && (se_type a =? se_type b) && (se_timestamp a =? se_timestamp b)
  && (se_generator_id a =? se_generator_id b) && (se_evm_rev a =? se_evm_rev b)
  && (se_sensor_type a =? se_sensor_type b) && (se_sensor_number a =? se_sensor_number b)
  && (se_event_direction a =? se_event_direction b) && (se_event_type a =? se_event_type b)
  && bytes_eqb (se_event_data a) (se_event_data b).

(* budgets of the model loops (the Python loops have none): the harness never records
   more exchanges than these allow *)
Definition FI : nat := 600.
Definition FO : nat := 1500.

Definition chk_count ex (exp : res N) : bool := chk_prog N.eqb get_sel_entries_count ex exp.
Definition chk_reserve ex (exp : res N) : bool := chk_prog N.eqb get_sel_reservation_id ex exp.
Definition chk_delete (rid resv : N) ex (exp : res N) : bool :=
  chk_prog N.eqb (delete_sel_entry rid resv) ex exp.
Definition chk_entry (rid resv : N) ex (exp : res (selentry * N)) : bool :=
  chk_prog (fun a b => entry_eqb (fst a) (fst b) && (snd a =? snd b)) (get_sel_entry FI rid resv) ex exp.
Definition chk_entries ex (exp : res (list selentry)) : bool :=
  chk_prog (list_eqb entry_eqb) (get_sel_entries FO FI) ex exp.
Definition chk_gac (rid : N) ex (exp : res selentry) : bool :=
  chk_prog entry_eqb (get_and_clear_sel_entry FO FI rid) ex exp.
Definition chk_decode (d : list N) (exp : res selentry) : bool :=
  out_eqb entry_eqb (sel_entry_decode d) exp.

Definition chk_seldev (log : list (list N)) (limit resv : N) (valid : bool)
    (plan : list (option (list N))) (ex : list (request * reply))
    (final_log final_deleted : list (list N)) : bool :=
  let '(rps, s') := dev_replies sel_dev (mkSelDev log limit resv valid plan []) (map fst ex) in
  list_eqb reply_eqb rps (map snd ex)
  && list_eqb bytes_eqb (sd_log s') final_log && list_eqb bytes_eqb (sd_deleted s') final_deleted.

(* clear_sel: replay of the model prog (requests, sleeps, outcome) AND agreement with C13's
   model of helper.clear_repository_helper (Model/Helper.v, an outcome-oracle function): the
   recorded exchanges, read as the outcomes of reserve_fn / clear_fn, make that model issue the
   same calls with the same reservations, the same sleeps and the same final outcome. *)
Definition res_outcome (r : res N) : Helper.outcome :=
  match r with Ok v => Helper.OVal v | Err (CCError cc) => Helper.OCc cc | Err e => Helper.OExc e end.
Definition outcome_of (x : request * reply) : Helper.outcome :=
  match snd x with
  | RRaise (CCError cc) => Helper.OCc cc
  | RRaise e => Helper.OExc e
  | RBytes d => if q_cmd (fst x) =? CMD_RESERVE_SEL then res_outcome (dec_id16 d) else res_outcome (dec_clear d)
  end.
Definition call_eqb (c : Helper.call) (r : request) : bool :=
  match c with
  | Helper.CReserve => request_eqb r reserve_req
  | Helper.CClear ctrl resv => request_eqb r (clear_req resv ctrl)
  | _ => false
  end.
Definition outcome_eqb (a b : Helper.outcome) : bool :=
  match a, b with
  | Helper.OVal x, Helper.OVal y => x =? y
  | Helper.OCc x, Helper.OCc y => x =? y
  | Helper.OExc e, Helper.OExc f => err_class_eqb e f
  | _, _ => false
  end.
Fixpoint ev_calls (l : list Helper.event) : list (Helper.call * Helper.outcome) :=
  match l with
  | [] => []
  | Helper.ECall c o :: r => (c, o) :: ev_calls r
  | Helper.ESleep _ :: r => ev_calls r
  end.
Fixpoint ev_sleeps (l : list Helper.event) : list N :=
  match l with
  | [] => []
  | Helper.ECall _ _ :: r => ev_sleeps r
  | Helper.ESleep ms :: r => ms :: ev_sleeps r
  end.
Fixpoint calls_match (cs : list (Helper.call * Helper.outcome)) (ex : list (request * reply)) : bool :=
  match cs, ex with
  | [], [] => true
  | (c, o) :: cs', x :: ex' => call_eqb c (fst x) && outcome_eqb o (outcome_of x) && calls_match cs' ex'
  | _, _ => false
  end.
Definition chk_clear (retry : nat) (ex : list (request * reply)) (sleeps : list N) (exp : res unit) : bool :=
  let '(out, reqs, sl, rest) := replay (clear_sel retry) (map snd ex) [] [] in
  out_eqb (fun _ _ => true) out exp && list_eqb request_eqb reqs (map fst ex)
  && match rest with [] => true | _ => false end
  && list_eqb N.eqb sl sleeps
  && (let '(evs, hres, os') := Helper.clear_repository_helper retry None (map outcome_of ex) in
      calls_match (ev_calls evs) ex && list_eqb N.eqb (ev_sleeps evs) sleeps
      && out_eqb (fun _ _ => true) hres exp && match os' with [] => true | _ => false end).
