(* Case checkers for the C12 correspondence run: the model progs of Model/SelIO.v are
   replayed against the replies recorded from the real pyipmi client (same requests,
   same outcome); [chk_seldev]: the Gallina device sel_dev, started in the same state
   with the same adversary plan, gives the recorded replies and ends with the same log
   and deletion record as harness/c12.py:SelDevice. *)
From Coq Require Import NArith ZArith List Bool.
From PyIpmi Require Import Lib.Res Lib.Bytes Lib.Prog Model.SelIO Corr.C10.
Import ListNotations.
Open Scope N_scope.

Definition entry_eqb (a b : selentry) : bool :=
  bytes_eqb (se_data a) (se_data b) && (se_record_id a =? se_record_id b)
  && (se_type a =? se_type b) && (se_timestamp a =? se_timestamp b)
  && (se_generator_id a =? se_generator_id b) && (se_evm_rev a =? se_evm_rev b)
  && (se_sensor_type a =? se_sensor_type b) && (se_sensor_number a =? se_sensor_number b)
  && (se_event_direction a =? se_event_direction b) && (se_event_type a =? se_event_type b)
  && bytes_eqb (se_event_data a) (se_event_data b).

(* budgets of the model loops (the Python loops have none): the harness never records
   more exchanges than these allow *)
Definition FI : nat := 600.
Definition FO : nat := 1500.

Definition chk_count ex (exp : res N) : bool := chk_prog N.eqb get_sel_entries_count ex exp.
Definition chk_reserve ex (exp : res N) : bool := chk_prog N.eqb get_sel_reservation_id ex exp.
Definition chk_delete (rid resv : N) ex (exp : res N) : bool :=
  chk_prog N.eqb (delete_sel_entry rid resv) ex exp.
Definition chk_entry (rid resv : N) ex (exp : res (selentry * N)) : bool :=
  chk_prog (fun a b => entry_eqb (fst a) (fst b) && (snd a =? snd b)) (get_sel_entry FI rid resv) ex exp.
Definition chk_entries ex (exp : res (list selentry)) : bool :=
  chk_prog (list_eqb entry_eqb) (get_sel_entries FO FI) ex exp.
Definition chk_gac (rid : N) ex (exp : res selentry) : bool :=
  chk_prog entry_eqb (get_and_clear_sel_entry FO FI rid) ex exp.
Definition chk_decode (d : list N) (exp : res selentry) : bool :=
  out_eqb entry_eqb (sel_entry_decode d) exp.

Definition chk_seldev (log : list (list N)) (limit resv : N) (valid : bool)
    (plan : list (option (list N))) (ex : list (request * reply))
    (final_log final_deleted : list (list N)) : bool :=
  let '(rps, s') := dev_replies sel_dev (mkSelDev log limit resv valid plan []) (map fst ex) in
  list_eqb reply_eqb rps (map snd ex)
  && list_eqb bytes_eqb (sd_log s') final_log && list_eqb bytes_eqb (sd_deleted s') final_deleted.
