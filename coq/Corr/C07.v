(* Case checkers for the C07 correspondence run.
   chk_op : a generated operation (Gen/ApiContent.v) interpreted by Model/ApiSem.v, replayed on
            the replies recorded while the real pyipmi.Ipmi method ran against the reference BMC
            twin: every request (netfn, cmd, lun, bytes) and the result must agree.
   chk_bmc: the Gallina reference BMC (Model/Bmc.v) answers a recorded history like the Python twin. *)
From Coq Require Import String Ascii.
From Coq Require Import NArith ZArith List Bool.
From PyIpmi Require Import Lib.Res Lib.Bytes Lib.Prog Model.Codec Model.ApiShape Model.ApiSem Model.Bmc
  Gen.Layouts Gen.ApiContent Model.ApiRun.
Import ListNotations.
Open Scope N_scope.

(* results are compared up to the order of attributes *)
Fixpoint pv_sim (a b : pv) {struct a} : bool :=
  match a, b with
  | PList l, PList m =>
      (fix go (l m : list pv) : bool :=
         match l, m with
         | [], [] => true
         | x :: l', y :: m' => pv_sim x y && go l' m'
         | _, _ => false
         end) l m
  | PObj c f, PObj d g =>
      String.eqb c d && Nat.eqb (length f) (length g) &&
      (fix go (f : list (string * pv)) : bool :=
         match f with
         | [] => true
         | (k, x) :: f' => match assoc k g with Some y => pv_sim x y | None => false end && go f'
         end) f
  | _, _ => pv_eqb a b
  end.

(* exs: recorded (request, reply); expected: Ok value | Err e *)
Definition chk_op (name : string) (args : list (string * pv)) (exs : list (request * reply))
                  (expected : res pv) : bool :=
  match find_cop name with
  | None => false
  | Some o =>
    supported o &&
    let '(out, reqs, _, rest) := replay (run_cop o args) (map snd exs) [] [] in
    list_eqb request_eqb reqs (map fst exs) &&
    match rest with [] => true | _ => false end &&
    match out, expected with
    | Ok v, Ok w => pv_sim v w
    | Err (OtherError _), Err (OtherError _) => true      (* "an unrelated Python exception": the kind is not observed *)
    | Err e, Err f => err_eqb e f
    | _, _ => false
    end
  end.

Definition reply_eqb (a b : reply) : bool :=
  match a, b with
  | RBytes x, RBytes y => bytes_eqb x y
  | RRaise e, RRaise f => err_eqb e f
  | _, _ => false
  end.

Fixpoint bmc_replay (s : store) (exs : list (request * reply)) : bool :=
  match exs with
  | [] => true
  | (r, rp) :: rest => let '(s', rp') := bmc_handle s r in reply_eqb rp rp' && bmc_replay s' rest
  end.

Definition chk_bmc (init : store) (exs : list (request * reply)) : bool := bmc_replay init exs.

