(* Case checker for the C14 correspondence run: the model (Model/Threads.v) executed
   on the schedule the harness drove the real threads with, compared with what was
   observed on the real Rmcp object. *)
From Coq Require Import NArith List Bool.
From PyIpmi Require Import Lib.Res Lib.Bytes Model.Threads.
Import ListNotations.
Open Scope N_scope.

(* (netfn, cmd, number of Send Message wrappers) *)
Definition mk_progs (l : list (list (N * N * N))) : list (list treq) :=
  map (map (fun p => mkTReq (fst (fst p)) (snd (fst p)) (N.to_nat (snd p)))) l.

(* harness event kinds: 0 read next_sequence_number (value), 1 write (value),
   2 acquire, 3 sendto, 4 recvfrom, 5 recvfrom timed out, 6 release, 7 taken from _q,
   8 first source line of _send_and_receive executed after the release *)
Definition lab_code (l : label) : list N :=
  match l with
  | LRead v => [0; v] | LHdr v => [0; v] | LWrite v => [1; v]
  | LAcq => [2; 0] | LSend => [3; 0] | LRecv => [4; 0] | LTimeout => [5; 0]
  | LRel => [6; 0] | LQGet => [7; 0] | LRet => [8; 0]
  end.
Definition trace_code (tr : list (tid * label)) : list (list N) :=
  map (fun p => N.of_nat (fst p) :: lab_code (snd p)) tr.

Definition ev_code (e : event) : list N :=
  match e with
  | Sent t k s h q => [0; N.of_nat t; N.of_nat k; s; h; q_netfn q; q_cmd q]
  | Rcvd t r => if is_ack r then [4; N.of_nat t; p_serial r]   (* acknowledge of datagram n; its rqSeq is not modelled *)
                else [1; N.of_nat t; p_seq r; p_netfn r; p_cmd r; p_serial r]
  end.

Definition out_code (o : res frame) : option N :=
  match o with Ok r => Some (p_serial r) | Err _ => None end.

Definition lln_eqb := list_eqb (list_eqb N.eqb).

(* inputs: max_retries, activated, the datagram numbers the BMC answers with an unrelated
   frame first, the datagram numbers whose reply is lost, initial next_sequence_number, initial session
   sequence number, the threads' requests (netfn, cmd), the schedule (thread of every
   step the implementation performed at the model's granularity);
   observed: the step trace [tid; kind; value], the socket log, the outcomes per thread
   (payload serial, None = exception), the final next_sequence_number and session
   sequence number, whether the lock was free at the end *)
Definition chk_run (maxr : N) (active : bool) (stale lose : list N) (nsn0 s0 : N) (progs : list (list (N * N * N)))
           (sched : list N) (tr wire : list (list N)) (outs : list (list (option N)))
           (nsn_end sseq_end : N) (lock_free : bool) : bool :=
  let c := mkCfg (N.to_nat maxr) active stale lose in
  let '(labs, g) := exec_l c (map N.to_nat sched) (init nsn0 s0 (mk_progs progs)) in
  lln_eqb (trace_code (rev labs)) tr
  && Nat.eqb (length labs) (length sched)
  && lln_eqb (map ev_code (rev (g_wire g))) wire
  && list_eqb (list_eqb (option_eqb N.eqb)) (map (fun th => map out_code (t_done th)) (g_thr g)) outs
  && (g_nsn g =? nsn_end) && (g_sseq g =? sseq_end)
  && Bool.eqb (match g_lock g with None => true | Some _ => false end) lock_free
  && all_finished g.
