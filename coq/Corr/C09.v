(* Case checkers for the C09 correspondence run (Model/Bridge.v vs.
   pyipmi/interfaces/ipmb.py bridging functions and Target.set_routing). *)
From Coq Require Import NArith List Bool.
From PyIpmi Require Import Lib.Res Lib.Bytes Model.Ipmb Model.Bridge.
Import ListNotations.
Open Scope N_scope.

(* [rs_sa; rs_lun; rq_sa; rq_lun; rq_seq; netfn; cmdid] *)
Definition mk (l : list N) : hdr :=
  match l with
  | [a; b; c; d; e; f; g] => mkHdr a b c d e f g
  | _ => mkHdr 0 0 0 0 0 0 0
  end.
Definition unmk (h : hdr) : list N :=
  [rs_sa h; rs_lun h; rq_sa h; rq_lun h; rq_seq h; netfn h; cmdid h].

Definition mkr (l : list N) : route :=
  match l with [a; b; c] => mkRoute a b c | _ => mkRoute 0 0 0 end.

(* outcomes are compared up to the class of "unrelated Python exception" *)
Definition err_sim (a b : err) : bool :=
  match a, b with
  | OtherError _, OtherError _ => true
  | _, _ => err_eqb a b
  end.
Definition res_sim (a b : res (list N)) : bool :=
  match a, b with
  | Ok x, Ok y => bytes_eqb x y
  | Err e, Err f => err_sim e f
  | _, _ => false
  end.

(* encode_send_message(payload, rq_sa, rs_sa, channel, seq, tracking) *)
Definition chk_send_message (payload : list N) (rq rs ch seq tr : N) (exp : res (list N)) : bool :=
  res_sim (encode_send_message payload rq rs ch seq tr) exp.

(* encode_bridged_message(routing, header, payload, seq): bytes, and the header
   addresses after the call (the header object is mutated) *)
Definition chk_bridged (routing : list (list N)) (h p : list N) (seq : N)
           (exp : res (list N)) (exp_hdr : list N) : bool :=
  let rt := map mkr routing in
  res_sim (encode_bridged rt (mk h) p seq) exp
  && match bridged_header rt (mk h) with
     | Ok h' => bytes_eqb (unmk h') exp_hdr
     | Err _ => match exp with Err _ => true | Ok _ => false end
     end.

(* decode_bridged_message(rx) *)
Definition chk_decode (rx : list N) (exp : res (list N)) : bool := res_sim (decode_bridged rx) exp.

(* the two copies of the specification side (Python oracle / Gallina) cannot drift:
   the harness' own peeler and reply wrapper are compared with [peel] / [wrap_reply] *)
Definition mkhop (l : list N) : hop :=
  match l with [a; b; c; d; e] => mkHop a b c d e | _ => mkHop 0 0 0 0 0 end.
Definition chk_peel (n : nat) (f : list N) (exp : option (list (list N) * list N)) : bool :=
  match peel n f, exp with
  | Some (hs, x), Some (ehs, ex) => list_eqb hop_eqb hs (map mkhop ehs) && bytes_eqb x ex
  | None, None => true
  | _, _ => false
  end.
Definition mkw (l : list N) : wrapinfo :=
  match l with [a; b; c; d; e] => mkWrap a b c d e | _ => mkWrap 0 0 0 0 0 end.
Definition chk_wrap (w : list N) (cc : N) (emb : list N) (exp : list N) : bool :=
  bytes_eqb (wrap_reply (mkw w) cc emb) exp.
