(* Case checkers for the C03 correspondence run (model vs. pyipmi/interfaces/ipmb.py). *)
From Coq Require Import NArith List Bool.
From PyIpmi Require Import Lib.Res Lib.Bytes Model.Ipmb.
Import ListNotations.
Open Scope N_scope.

(* [rs_sa; rs_lun; rq_sa; rq_lun; rq_seq; netfn; cmdid] *)
Definition mk (l : list N) : hdr :=
  match l with
  | [a; b; c; d; e; f; g] => mkHdr a b c d e f g
  | _ => mkHdr 0 0 0 0 0 0 0
  end.
Definition unmk (h : hdr) : list N :=
  [rs_sa h; rs_lun h; rq_sa h; rq_lun h; rq_seq h; netfn h; cmdid h].

(* expected: Some bytes, or None for "raised an exception" *)
Definition r_bytes_eqb (r : res (list N)) (exp : option (list N)) : bool :=
  match r, exp with
  | Ok b, Some e => bytes_eqb b e
  | Err _, None => true
  | _, _ => false
  end.

Definition chk_checksum (d : list N) (e : N) : bool := checksum d =? e.
Definition chk_encode (h d : list N) (exp : option (list N)) : bool :=
  r_bytes_eqb (encode_ipmb_msg (mk h) d) exp.
Definition chk_req_enc (h : list N) (exp : option (list N)) : bool := r_bytes_eqb (hdr_req_encode (mk h)) exp.
Definition chk_rsp_enc (h : list N) (exp : option (list N)) : bool := r_bytes_eqb (hdr_rsp_encode (mk h)) exp.
Definition dec_out (r : res (hdr * N)) : res (list N) :=
  match r with Ok (h, c) => Ok (unmk h ++ [c]) | Err e => Err e end.
Definition chk_req_dec (d : list N) (exp : option (list N)) : bool := r_bytes_eqb (dec_out (hdr_req_decode d)) exp.
Definition chk_rsp_dec (d : list N) (exp : option (list N)) : bool := r_bytes_eqb (dec_out (hdr_rsp_decode d)) exp.

(* the harness's independent construction of a conforming reply equals the model's *)
Definition chk_rsp_frame (h d : list N) (exp : option (list N)) : bool :=
  r_bytes_eqb (rsp_frame (mk h) d) exp.

Definition mko (l : list bool) : rxopts :=
  match l with [a; b; c; d; e] => mkOpts a b c d e | _ => default_opts end.
(* expected: 0 = False, 1 = True, 2 = exception *)
Definition chk_filter (h f : list N) (o : list bool) (exp : N) : bool :=
  match rx_filter (mk h) f (mko o), exp with
  | Ok false, 0 | Ok true, 1 | Err _, 2 => true
  | _, _ => false
  end.
