(* Case checkers for the C05 correspondence run (Model/Rmcp.v vs. pyipmi/interfaces/rmcp.py). *)
From Coq Require Import String.
From Coq Require Import NArith List Bool.
From PyIpmi Require Import Lib.Res Lib.Bytes Model.Codec Gen.Layouts Model.Ipmb Model.Rmcp Model.Wire.
Import ListNotations.
Open Scope N_scope.

(* outcome classes: 0 = returned, 1 = DecodingError, 2 = NotSupportedError,
   3 = any other (unrelated) Python exception, 9 = something the harness never reports *)
Definition eclass (e : err) : N :=
  match e with DecodingError => 1 | NotSupported => 2 | OtherError _ => 3 | _ => 9 end.
Definition r_match {A} (eqb : A -> A -> bool) (r : res A) (code : N) (v : A) : bool :=
  match r with
  | Ok a => (code =? 0) && eqb a v
  | Err e => (code =? eclass e) && negb (code =? 0)
  end.

(* hashlib.md5 as recorded by the harness: (hashed input, digest) pairs; an input the
   implementation never hashed has digest [] and so cannot match *)
Fixpoint md5_of (tab : list (list N * list N)) (x : list N) : list N :=
  match tab with
  | [] => []
  | (k, v) :: r => if bytes_eqb k x then v else md5_of r x
  end.

Definition seq_of (so : option sess) : N := match so with Some s => s_seq s | None => 0 end.

(* IpmiMsg(session).pack(sdu): sequence number afterwards, outcome *)
Definition chk_pack (tab : list (list N * list N)) (so : option sess) (sdu : option (list N))
                    (seq' code : N) (pdu : list N) : bool :=
  let '(so', r) := ipmi_pack (md5_of tab) so sdu in
  (seq_of so' =? seq') && r_match bytes_eqb r code pdu.

(* what _pack_auth_code_md5 hands to hashlib.md5 *)
Definition chk_preimage (so : option sess) (sdu : option (list N)) (code : N) (pre : list N) : bool :=
  r_match bytes_eqb (md5_preimage so sdu) code pre.

Definition chk_padd (so : option sess) (code : N) (p : list N) : bool :=
  r_match bytes_eqb (padd_password so) code p.

Definition chk_incr (n e : N) : bool := incr_seq n =? e.

Definition chk_rmcp_pack (sdu : option (list N)) (seq cls code : N) (pdu : list N) : bool :=
  r_match bytes_eqb (rmcp_pack sdu seq cls) code pdu.

Definition t3_eqb (a b : N * N * list N) : bool :=
  let '(x, y, z) := a in let '(u, v, w) := b in (x =? u) && (y =? v) && bytes_eqb z w.
Definition chk_rmcp_unpack (pdu : list N) (code seq cls : N) (sdu : list N) : bool :=
  r_match t3_eqb (rmcp_unpack pdu) code (seq, cls, sdu).

Definition chk_ipmi_unpack (q : bool) (pdu : list N) (code : N) (sdu : option (list N)) : bool :=
  r_match (option_eqb bytes_eqb) (ipmi_unpack q pdu) code sdu.

Definition chk_recv (q : bool) (dgram : list N) (code : N) (data : list N) : bool :=
  r_match bytes_eqb (receive_ipmi_msg q dgram) code data.

Definition chk_ping (code : N) (pdu : list N) : bool := r_match bytes_eqb asf_ping code pdu.

Definition t4_list (x : N * N * N * N) : list N := let '(a, b, c, d) := x in [a; b; c; d].
Definition chk_pong (sdu : list N) (code : N) (v : list N) : bool :=
  r_match bytes_eqb (match asf_pong_unpack sdu with Ok x => Ok (t4_list x) | Err e => Err e end) code v.
Definition chk_recv_pong (dgram : list N) (code : N) (v : list N) : bool :=
  r_match bytes_eqb (match receive_pong dgram with Ok x => Ok (t4_list x) | Err e => Err e end) code v.

(* Rmcp._send_ipmi_msg behind a recording socket: session sequence number and RMCP
   sequence number afterwards, and the datagram given to sendto *)
Definition chk_send (tab : list (list N * list N)) (so : option sess) (rseq : N) (data : list N)
                    (seq' rseq' code : N) (dgram : list N) : bool :=
  let '(so', rs, r) := send_ipmi_msg (md5_of tab) so rseq data in
  (seq_of so' =? seq') && (rs =? rseq') && r_match bytes_eqb r code dgram.

(* ---- end to end: Rmcp.send_and_receive(req) for a registered request class ---- *)
Definition find_layout (name : string) : option layout :=
  option_map m_layout (find (fun x => String.eqb (m_name x) name) registry).
(* [rs_sa; rs_lun; rq_sa; rq_lun; rq_seq; netfn; cmdid] *)
Definition hdr_of (l : list N) : hdr :=
  match l with [a; b; c; d; e; f; g] => mkHdr a b c d e f g | _ => mkHdr 0 0 0 0 0 0 0 end.
Definition hdr_list (h : hdr) : list N := [rs_sa h; rs_lun h; rq_sa h; rq_lun h; rq_seq h; netfn h; cmdid h].

(* the model's composition sends the observed datagram (same session / RMCP sequence numbers
   afterwards, same exception class otherwise), and the independent receiver gets the header
   and the field values back out of the OBSERVED datagram *)
Definition chk_e2e (tab : list (list N * list N)) (name : string) (e : env) (hl : list N)
                   (so : option sess) (rseq seq' rseq' code : N) (dgram : list N) : bool :=
  match find_layout name with
  | None => false
  | Some l =>
    let '(so', rs, r) := wire_send (md5_of tab) l e (hdr_of hl) so rseq in
    (seq_of so' =? seq') && (rs =? rseq') && r_match bytes_eqb r code dgram &&
    (if code =? 0 then
       match wire_recv l dgram with
       | Ok (h', e') => bytes_eqb (hdr_list h') hl && list_eqb val_eqb e' e
       | Err _ => false
       end
     else true)
  end.
