(* Case checkers for the C15 correspondence run: Model/FruParse.v evaluated on the same
   images as pyipmi.fru (FruInventory on bytes / array('B'), get_fru_inventory_from_file),
   and Model/FruSpec.v (the independent encoder) against the harness's Python encoder. *)
From Coq Require Import NArith List Bool.
From PyIpmi Require Import Lib.Res Lib.Bytes Lib.Prog Model.FruIO Model.FruParse Model.FruSpec Model.FruDevice.
Import ListNotations.
Open Scope N_scope.

Definition tlfield_eqb (a b : tlfield) : bool :=
  (f_off a =? f_off b) && (f_type a =? f_type b) && (f_len a =? f_len b) &&
  bytes_eqb (f_raw a) (f_raw b) && bytes_eqb (f_str a) (f_str b).

Definition area_eqb (a b : info_area) : bool :=
  (a_version a =? a_version b) && (a_length a =? a_length b) && (a_b2 a =? a_b2 b) &&
  (a_minutes a =? a_minutes b) && list_eqb tlfield_eqb (a_fields a) (a_fields b) &&
  list_eqb tlfield_eqb (a_custom a) (a_custom b).

Definition area_st_eqb (a b : area_st) : bool :=
  match a, b with
  | Absent, Absent | Shell, Shell => true
  | Parsed x, Parsed y => area_eqb x y
  | _, _ => false
  end.

Definition kind_eqb (a b : rec_kind) : bool :=
  match a, b with
  | KUnknown, KUnknown => true
  | KPicmg m p, KPicmg m' p' => (m =? m') && (p =? p')
  | KPower m p c, KPower m' p' c' => (m =? m') && (p =? p') && (c =? c')
  | _, _ => false
  end.

Definition rec_eqb (a b : mrec) : bool :=
  (r_type a =? r_type b) && (r_fver a =? r_fver b) && Bool.eqb (r_eol a) (r_eol b) &&
  (r_len a =? r_len b) && bytes_eqb (r_raw a) (r_raw b) && kind_eqb (r_kind a) (r_kind b).

Definition mr_st_eqb (a b : mr_st) : bool :=
  match a, b with
  | MAbsent, MAbsent | MShell, MShell => true
  | MParsed x, MParsed y => list_eqb rec_eqb x y
  | _, _ => false
  end.

Definition header_eqb (a b : header) : bool :=
  (h_version a =? h_version b) && (h_internal a =? h_internal b) &&
  (h_chassis a =? h_chassis b) && (h_board a =? h_board b) &&
  (h_product a =? h_product b) && (h_multi a =? h_multi b).

Definition inv_eqb (a b : inventory) : bool :=
  header_eqb (i_header a) (i_header b) && area_st_eqb (i_chassis a) (i_chassis b) &&
  area_st_eqb (i_board a) (i_board b) && area_st_eqb (i_product a) (i_product b) &&
  mr_st_eqb (i_multi a) (i_multi b).

(* the implementation's observed outcome is written by the harness as a term of the
   model's own result type; exceptions by class *)
Definition outcome_eqb := res_eqb (option_eqb inv_eqb).

(* FruInventory(img) / get_fru_inventory_from_file observed [exp] *)
Definition chk_parse (img : list N) (exp : res (option inventory)) : bool :=
  outcome_eqb (parse_inventory img) exp.

(* one type/length field: FruTypeLengthString(data, off) *)
Definition chk_tls (data : list N) (off : N) (exp : res tlfield) : bool :=
  res_eqb tlfield_eqb (tls off (skipn (N.to_nat off) data)) exp.

(* the area classes on exact slices, as Fru.get_fru_*_area builds them (k: 0 chassis,
   1 board, 2 product), and InventoryMultiRecordArea(data) *)
Definition chk_area (k : N) (d : list N) (exp : res area_st) : bool :=
  res_eqb area_st_eqb
    (if k =? 0 then area_obj false 2 d else if k =? 1 then area_obj true 5 d else area_obj false 7 d) exp.
Definition chk_multi (d : list N) (exp : res mr_st) : bool :=
  res_eqb mr_st_eqb (multi_obj d) exp.

(* Ipmi.get_fru_inventory(fru_id) against a device holding [img]: the four areas it returns
   must be those of the stateless parse of the image the device holds at that moment *)
Definition dev_eqb (a b : area_st * area_st * area_st * mr_st) : bool :=
  let '(a1, a2, a3, a4) := a in let '(b1, b2, b3, b4) := b in
  area_st_eqb a1 b1 && area_st_eqb a2 b2 && area_st_eqb a3 b3 && mr_st_eqb a4 b4.
Definition dev_view (r : res (option inventory)) : res (area_st * area_st * area_st * mr_st) :=
  match r with
  | Ok (Some i) => Ok (i_chassis i, i_board i, i_product i, i_multi i)
  | Ok None => Err (OtherError OtherExc)
  | Err e => Err e
  end.
Definition chk_dev (img : list N) (exp : res (area_st * area_st * area_st * mr_st)) : bool :=
  res_eqb dev_eqb (dev_view (parse_inventory img)) exp.

(* the composed client Model.FruDevice.device_inventory (C10's transfer model + the real area
   classes) replayed against the replies recorded while the implementation ran
   get_fru_inventory(id): same requests in the same order, all replies consumed, same outcome *)
Definition chk_dev_replay (fuel : nat) (id : N) (replies : list reply) (reqs : list request)
                          (exp : res dev_inventory) : bool :=
  let '(out, rq, _, rest) := replay (device_inventory fuel id) replies [] [] in
  res_eqb dev_eqb out exp && list_eqb request_eqb rq reqs &&
  match rest with [] => true | _ => false end.

(* the harness's Python encoder (written from the same format description) and the Coq
   encoder produce the same image for inventory s, s is inside the theorems' domain,
   and the model parses that image to exactly the attribute values of s *)
Definition chk_enc (s : sinv) (img : list N) : bool :=
  bytes_eqb (enc_inventory s) img && wf_inv s &&
  outcome_eqb (parse_inventory img) (Ok (Some (view_inventory s))).

(* inventories outside wf_inv (the harness says why): only the encoders are compared *)
Definition chk_enc_only (s : sinv) (img : list N) : bool :=
  bytes_eqb (enc_inventory s) img.
