(* Case checkers for the C06 correspondence run: Model/Session.v against the real
   Rmcp/Session objects behind a scripted socket, and Model/Bmc15.v against the Python
   copy of the reference BMC that served the client. *)
From Coq Require Import NArith List Bool.
From PyIpmi Require Import Lib.Res Lib.Bytes Model.Rmcp Model.Session Model.Bmc15 Corr.C05.
Import ListNotations.
Open Scope N_scope.

(* outcome classes of an operation: 0 ok, 1 DecodingError, 2 NotSupportedError, 3 other
   exception, 4 RetryError, 100+cc CompletionCodeError *)
Definition oclass (e : err) : N :=
  match e with
  | DecodingError => 1 | NotSupported => 2 | OtherError _ => 3 | RetryError => 4
  | CCError cc => 100 + cc | _ => 9
  end.

Inductive op := OEst (rnd : N) | OReq (netfn lun cmd : N) (data : list N) | OClose.

(* one operation on the state: (state', outcome class, returned data) as an lprog *)
Definition run_op (md5 : list N -> list N) (c : cfg) (o : op) (st : lstate)
  : lprog (lstate * (N * list N)) :=
  match o with
  | OEst rnd => lbind (establish md5 c rnd st)
                  (fun x => LRet (fst x, match snd x with Ok _ => (0, []) | Err e => (oclass e, []) end))
  | OReq nf lun cmd d => lbind (request md5 c nf lun cmd d st)
                  (fun x => LRet (fst x, match snd x with Ok r => (0, r) | Err e => (oclass e, []) end))
  | OClose => lbind (close_session md5 c st)
                  (fun x => LRet (fst x, match snd x with Ok _ => (0, []) | Err e => (oclass e, []) end))
  end.

Fixpoint run_ops (md5 : list N -> list N) (c : cfg) (ops : list op) (st : lstate)
                 (acc : list (N * list N)) : lprog (lstate * list (N * list N)) :=
  match ops with
  | [] => LRet (st, acc)
  | o :: r => lbind (run_op md5 c o st) (fun x => run_ops md5 c r (fst x) (acc ++ [snd x]))
  end.

Definition st_sig (st : lstate) : list N :=
  [match s_auth (l_so st) with Some a => a | None => 999 end; s_sid (l_so st); s_seq (l_so st);
   if s_act (l_so st) then 1 else 0; if l_att st then 1 else 0; l_rseq st; l_nseq st;
   if l_keep st then 1 else 0].

(* an entry of the observed signature may be "not observable" (a non-public attribute that does
   not exist in the tree under test): 2^40 *)
Definition sig_eqb (m o : N) : bool := (o =? 1099511627776) || (m =? o).

Definition outs_eqb (a b : list (N * list N)) : bool :=
  list_eqb (fun x y => (fst x =? fst y) && bytes_eqb (snd x) (snd y)) a b.

(* 0 = all equal; 1 = ran out of replies; 2 = datagrams differ; 3 = outcomes differ;
   4 = final state differs; 5 = replies left over *)
Definition diag_ops (tab : list (list N * list N)) (c : cfg) (st0 : lstate) (ops : list op)
                    (replies : list lreply) (dgrams : list (list N))
                    (outs : list (N * list N)) (final : list N) : N :=
  match lreplay (run_ops (md5_of tab) c ops st0 []) replies [] with
  | (None, _, _) => 1
  | (Some (st, o), sent, rest) =>
      if negb (list_eqb bytes_eqb sent dgrams) then 2
      else if negb (outs_eqb o outs) then 3
      else if negb (list_eqb sig_eqb (st_sig st) final) then 4
      else match rest with [] => 0 | _ => 5 end
  end.
Definition chk_ops tab c st0 ops replies dgrams outs final : bool :=
  diag_ops tab c st0 ops replies dgrams outs final =? 0.

(* the Gallina reference BMC on the recorded datagrams: same replies (None = the harness
   injected a fault there), same first violation, same number of accepted in-session
   datagrams, same final phase number *)
Definition lreply_eqb (a b : lreply) : bool :=
  match a, b with
  | LData x, LData y => bytes_eqb x y
  | LTimeout, LTimeout => true
  | _, _ => false
  end.
Definition phase_no (p : phase) : N :=
  match p with P0 => 0 | P1 => 1 | P2 => 2 | P3 _ => 3 | P4 _ _ => 4 | P5 => 5 end.

Fixpoint bmc_fold (tab : list (list N * list N)) (p : bmcp) (s : bstate)
                  (dgs : list (list N)) (exp : list (option lreply)) : bool * bstate :=
  match dgs, exp with
  | [], [] => (true, s)
  | dg :: dr, e :: er =>
      let '(s', r) := bmc_step (md5_of tab) p s dg in
      let ok := match e with Some x => lreply_eqb r x | None => true end in
      let '(b, sf) := bmc_fold tab p s' dr er in (ok && b, sf)
  | _, _ => (false, s)
  end.
Definition chk_bmc (tab : list (list N * list N)) (p : bmcp) (dgs : list (list N))
                   (exp : list (option lreply)) (viol : option N) (cnt ph : N) : bool :=
  let '(b, s) := bmc_fold tab p bmc_start dgs exp in
  b && option_eqb N.eqb (b_viol s) viol && (b_cnt s =? cnt) && (phase_no (b_ph s) =? ph).

(* k real calls of Session.increment_sequence_number from n end where the closed form of
   C06_seq_closed_form says (k given as N: no large nat literal) *)
Definition chk_seq_walk (n k e : N) : bool := ((n - 1 + k) mod 0xffffffff + 1 =? e).

(* get_max_auth_type(supported) on a support byte: 999 = None *)
Definition chk_max_auth (support : N) (supported : option (list N)) (e : N) : bool :=
  (match max_auth_type support supported with Some a => a | None => 999 end) =? e.

(* decode_message of the five response classes + completion-code check *)
Definition r_out {A} (f : A -> list N) (r : res A) : N * list N :=
  match r with Ok a => (0, f a) | Err e => (oclass e, []) end.
Definition out_eqb (a : N * list N) (c : N) (v : list N) : bool := (fst a =? c) && bytes_eqb (snd a) v.
Definition chk_dec_caps (d : list N) (c : N) (v : list N) : bool :=
  out_eqb (r_out (fun x => [fst x; snd x]) (decode_caps d)) c v.
Definition chk_dec_challenge (d : list N) (c : N) (v : list N) : bool :=
  out_eqb (r_out (fun x => [fst (fst x); snd (fst x)] ++ snd x) (decode_challenge d)) c v.
Definition chk_dec_activate (d : list N) (c : N) (v : list N) : bool :=
  out_eqb (r_out (fun x => [fst (fst x); snd (fst x); snd x]) (decode_activate d)) c v.
Definition chk_dec_cc (n : nat) (d : list N) (c : N) (v : list N) : bool :=
  out_eqb (r_out (fun x => [x]) (decode_cc_n n d)) c v.
