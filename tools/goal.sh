#!/bin/sh
# usage: tools/goal.sh <file.v relative to coq/> <line>  -- prints the goals after that line
cd /verif/coq
head -n "$2" "$1" > /verif/.build/_goal_tmp.v
echo "Show. Abort." >> /verif/.build/_goal_tmp.v
mkdir -p /verif/.build/goal && cp /verif/.build/_goal_tmp.v /verif/.build/goal/GoalTmp.v
timeout 300 coqc -Q . PyIpmi -w -all /verif/.build/goal/GoalTmp.v 2>&1 | head -${3:-60}
