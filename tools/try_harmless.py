#!/usr/bin/env python3
"""Run checks against a behaviour-preserving refactoring: none of them may raise an alarm.

usage: tools/try_harmless.py <dir with patch.diff demo.py notes.md> <name> <PROP> [<PROP> ...]

Scratch worktree of /repo's HEAD under /tmp (removed afterwards); the patch must apply, keep the
406 tests green and keep its own demo passing (before and after). Then every named check is run
with VERIF_REPO=<worktree>. Result: /verif/harmless/<name>/{patch.diff,notes.md,meta.json}.
"""
import concurrent.futures as cf
import json
import os
import re
import shutil
import subprocess
import sys
from pathlib import Path

V = Path(__file__).resolve().parent.parent


def sh(cmd, cwd=None, env=None, timeout=7200):
    p = subprocess.run(cmd, cwd=cwd, env=env, shell=isinstance(cmd, str), stdout=subprocess.PIPE,
                       stderr=subprocess.STDOUT, text=True, timeout=timeout)
    return p.returncode, p.stdout


def main():
    src, name, props = Path(sys.argv[1]), sys.argv[2], sys.argv[3:]
    wt = Path('/tmp/tryharm-%s' % name)
    sh('git -C /repo worktree remove --force %s' % wt)
    rc, out = sh('git -C /repo worktree add -q %s HEAD' % wt)
    assert rc == 0, out
    meta = {'name': name, 'properties_run': props,
            'base_commit': sh('git -C /repo rev-parse --short HEAD')[1].strip()}
    try:
        env = dict(os.environ, PYTHONPATH=str(wt), PYTHONDONTWRITEBYTECODE='1')
        demo_dir = wt / '_demo'
        shutil.copytree(src, demo_dir)
        for f in demo_dir.rglob('*.py'):
            f.write_text(re.sub(r'/tmp/refac[0-9]*-[A-F](?!-out)', str(wt), f.read_text()).replace(str(src), str(demo_dir)))
        rc0, out0 = sh(['/venv/bin/python', str(demo_dir / 'demo.py')], cwd=wt, env=env, timeout=900)
        meta['demo_on_original'] = {'rc': rc0, 'tail': out0[-200:]}
        rc, out = sh(['git', 'apply', str((src / 'patch.diff').resolve())], cwd=wt)
        meta['patch_applies'] = rc == 0
        if rc != 0:
            meta['error'] = out[-400:]
            return finish(meta, src, name)
        rc, out = sh('/venv/bin/python -m pytest -q -p no:cacheprovider --timeout=900 tests 2>&1 | tail -2', cwd=wt, env=env)
        meta['tests_pass'] = '406 passed' in out
        rc1, out1 = sh(['/venv/bin/python', str(demo_dir / 'demo.py')], cwd=wt, env=env, timeout=900)
        meta['demo_with_patch'] = {'rc': rc1, 'tail': out1[-200:]}
        meta['confirmed_harmless'] = bool(meta['tests_pass'] and rc0 == 0 and rc1 == 0)
        shutil.rmtree(demo_dir)
        cenv = dict(os.environ, VERIF_REPO=str(wt))

        def one(p):
            rc, out = sh([str(V / 'check'), p], cwd=V, env=cenv, timeout=3600)
            vio = [l for l in out.splitlines() if l.startswith('VIOLATION')]
            det = [l.strip() for l in out.splitlines() if l.startswith('  ')][:3]
            sh(['git', 'checkout', '--', 'evidence/%s.json' % p], cwd=V)
            return p, {'rc': rc, 'violations': vio, 'detail': det,
                       'summary': out.strip().splitlines()[-1][:200] if out.strip() else ''}
        res = {}
        with cf.ThreadPoolExecutor(max_workers=4) as ex:
            for p, r in ex.map(one, props):
                res[p] = r
        meta['checks'] = res
        meta['false_alarms'] = sorted(p for p, r in res.items() if r['rc'] != 0)
    finally:
        sh('git -C /repo worktree remove --force %s' % wt)
    return finish(meta, src, name)


def finish(meta, src, name):
    d = V / 'harmless' / name
    d.mkdir(parents=True, exist_ok=True)
    if src.resolve() != d.resolve():
        for f in src.iterdir():
            if f.is_file() and f.name != 'meta.json' and f.stat().st_size < 400000:
                shutil.copy(f, d / f.name)
    (d / 'meta.json').write_text(json.dumps(meta, indent=1))
    print(name, 'confirmed_harmless=%s' % meta.get('confirmed_harmless'), 'false_alarms=%s' % meta.get('false_alarms'))
    for p in meta.get('false_alarms', []):
        print('  ', p, meta['checks'][p]['violations'][:2], meta['checks'][p]['detail'][:2])


if __name__ == '__main__':
    main()
