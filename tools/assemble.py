#!/usr/bin/env python3
"""Assemble MANIFEST.json from manifest.d/Cxx.json fragments and known_findings.json
from known.d/Cxx.json fragments (deterministic; run after editing a fragment)."""
import json
from pathlib import Path

V = Path(__file__).resolve().parent.parent
props = [json.loads(l) for l in (V / 'properties.jsonl').read_text().splitlines() if l.strip()]
checks, na = [], []
for p in props:
    f = V / 'manifest.d' / ('%s.json' % p['id'])
    if f.exists():
        frag = json.loads(f.read_text())
        if 'not_applicable' in frag:
            na.append({'property_id': p['id'], 'reason': frag['not_applicable']})
            continue
        pid = p['id']
        c = {'property_id': pid,
             'quick_cmd': './check %s --tier quick' % pid,
             'thorough_cmd': './check %s --tier thorough' % pid,
             'evidence_file': '/verif/evidence/%s.json' % pid,
             'replay_cmd_template': './check %s --replay {path}' % pid,
             'engine': 'coq-model+correspondence',
             'level_claimed': {'category': 'proof', 'text': frag['level_text'],
                               'design_ref': frag.get('design_ref', 'DESIGN.md section 5, %s' % pid)},
             'level_note': frag['level_note'],
             'technique': frag['technique']}
        checks.append(c)
    else:
        na.append({'property_id': p['id'],
                   'reason': 'check not built yet (work in progress; see DESIGN.md section 5)'})
m = {
    'version': 1,
    'setup_cmd': './check --setup',
    'hooks': {'guard': 'PYIPMI_VERIF',
              'enable': 'no hooks are needed: checks substitute sockets, clocks, subprocesses and the transport '
                        'from outside; the guard variable is unused',
              'baseline_off_cmd': 'cd /repo && /venv/bin/python -m pytest -ra -q -p no:cacheprovider --timeout=900 '
                                  '--continue-on-collection-errors',
              'source_commits': [], 'add_only': True},
    'engines': [{'name': 'coq-model+correspondence', 'path': '/verif/check',
                 'serves_properties': [c['property_id'] for c in checks],
                 'kind_free_text': 'Coq 8.16 theorems over executable Gallina models (generated from /repo or '
                                   'hand-written) + per-run correspondence check (model evaluated by vm_compute inside '
                                   'Coq against the Python implementation) + property oracle on the implementation'}],
    'checks': checks,
    'not_applicable': na,
    'notes': 'VERIF_REPO=<dir> points the checks at another working tree (default /repo). See DESIGN.md.',
}
(V / 'MANIFEST.json').write_text(json.dumps(m, indent=1) + '\n')
import re
import subprocess
kn = []
try:
    log = subprocess.run(['git', '-C', '/repo', 'log', '--format=%h\t%s'], capture_output=True, text=True).stdout
except Exception:
    log = ''
commits = {}
for ln in log.splitlines():
    h, _, subj = ln.partition('\t')
    commits[subj.strip()] = h
for f in sorted((V / 'known.d').glob('*.json')):
    for e in json.loads(f.read_text()):
        if e.get('status') == 'fixed':
            # the repair is a fixes/*.diff whose first line is the commit subject in /repo
            m = re.search(r'fixes/[\w.+-]+\.diff', json.dumps(e))
            if m and (V / m.group(0)).exists():
                e.setdefault('fix', m.group(0))
                subj = (V / m.group(0)).read_text().splitlines()[0].lstrip('# ').strip()
                if subj in commits:
                    e['commit'] = commits[subj]
            e['fixed_line'] = 'fixed: property=%s %s %s' % (e['property'], e.get('commit', '<not yet committed>'),
                                                           e.get('what', '')[:200])
        kn.append(e)
(V / 'known_findings.json').write_text(json.dumps({'findings': kn}, indent=1) + '\n')
print('MANIFEST: %d checks, %d not_applicable; known findings: %d' % (len(checks), len(na), len(kn)))
import subprocess, sys; subprocess.run([sys.executable, str(V / "tools" / "assemble_design.py")])
