#!/usr/bin/env python3
"""Regenerate the generated tail of DESIGN.md (sections 11-13) from design.d/*.md,
known_findings.json and seeded/*/meta.json."""
import json
import re
from pathlib import Path

V = Path(__file__).resolve().parent.parent
MARK = '<!-- GENERATED BELOW by tools/assemble_design.py - do not edit by hand -->'


def main():
    d = (V / 'DESIGN.md').read_text()
    head = d.split(MARK)[0].rstrip() + '\n\n'
    out = [MARK, '',
           '--------------------------------------------------------------------------------', '',
           '## 11. Per property — as built', '',
           'One subsection per property, written by whoever built the check, in the order of',
           'properties.jsonl. Where a subsection disagrees with the plan in section 5, this one is right.', '']
    for f in sorted((V / 'design.d').glob('C*.md')):
        out.append(f.read_text().rstrip())
        out.append('')
    out += ['--------------------------------------------------------------------------------', '',
            '## 12. Genuine defects: repairs and known findings', '',
            'Every entry was first reported by its check as `VIOLATION … replay=…` against the real code.',
            '`fixed` = repaired in /repo by the named `fix:` commit (the diff is kept under `fixes/`; the model',
            'follows the repaired code; the entry suppresses nothing). `known` = recorded, not repaired: the check',
            'prints `KNOWN-FINDING:` for exactly that key and still reports any other violation.', '',
            '| property | status | commit | key | what fails |', '|---|---|---|---|---|']
    kn = json.loads((V / 'known_findings.json').read_text())['findings']
    for e in kn:
        what = re.sub(r'\s+', ' ', e.get('what', ''))[:260].replace('|', '\\|')
        out.append('| %s | %s | %s | `%s` | %s |' % (e['property'], e['status'], e.get('commit', ''), e['key'], what))
    out += ['', '--------------------------------------------------------------------------------', '',
            '## 13. Independently seeded changes and which check catches them', '',
            'Each change was written by a fresh sub-agent that saw only the property text and its own scratch',
            'worktree; it keeps the 406 tests green and comes with a demonstration that fails with the change and',
            'passes without it (`seeded/<name>/`). "caught" = the property\'s quick check exits 1 with a VIOLATION',
            'line; "input" = with a concrete failing input whose replay fails on the changed tree and holds on /repo.', '',
            'The table shows the verdict of the checks AS THEY ARE NOW; about a third of these changes were',
            'missed (or caught without a reproducing input) by the first version of the check they target.',
            '`seeded/HISTORY.md` records those first verdicts and what was changed in response - most misses',
            'were history-dependent changes, boundary values of derived bytes, or content outside the generators\' reach.', '',
            '| name | property | confirmed | caught | input | first violation reported |', '|---|---|---|---|---|---|']
    for f in sorted((V / 'seeded').glob('*/meta.json')):
        m = json.loads(f.read_text())
        det = (m.get('check', {}).get('detail') or [''])[0].strip()[:140].replace('|', '\\|')
        reps = m.get('replays') or []
        ok = bool(reps) and all(r['fails_on_mutant'] and r['holds_on_repo'] for r in reps)
        out.append('| %s | %s | %s | %s | %s | %s |' % (m['name'], m['property'], 'yes' if m.get('confirmed') else 'NO',
                                                      'yes' if m.get('caught') else 'NO',
                                                      'yes' if (m.get('caught_with_input') and ok) else 'no', det))
    out += ['', '--------------------------------------------------------------------------------', '',
            '## 14. Behaviour-preserving refactorings and false alarms', '',
            'Independent "harmless refactorer" sub-agents (own worktree, nothing from /verif) produced realistic',
            'behaviour-preserving refactorings (helpers extracted/inlined, loops over literal tables, renamed locals,',
            'guard clauses, changed message texts, added classes/entries); each keeps the 406 tests green and passes its',
            'own before/after demo. `tools/try_harmless.py` runs the checks of the touched area against each. A check',
            'that alarms here raises a false alarm (always of the `no-failing-input-found` kind: a translator refused a',
            'construct, so an obligation over generated definitions could not be re-established).',
            'The table shows the checks as they are now; the first verdicts of the refactorings that did alarm, and what was',
            'changed in response, are kept in `harmless/HISTORY.md`.', '',
            '| refactoring | confirmed harmless | checks run | false alarms |', '|---|---|---|---|']
    for f in sorted((V / 'harmless').glob('*/meta.json')):
        m = json.loads(f.read_text())
        out.append('| %s | %s | %s | %s |' % (m['name'], 'yes' if m.get('confirmed_harmless') else 'NO',
                                             ' '.join(m.get('properties_run', [])), ' '.join(m.get('false_alarms', [])) or '-'))
    (V / 'DESIGN.md').write_text(head + '\n'.join(out) + '\n')
    print('DESIGN.md: %d build notes, %d findings, %d seeded' % (
        len(list((V / 'design.d').glob('C*.md'))), len(kn), len(list((V / 'seeded').glob('*/meta.json')))))


if __name__ == '__main__':
    main()
