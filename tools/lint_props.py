#!/usr/bin/env python3
"""Lint coq/Props/Cxx.v: only Theorem/Example statements, each closed by `exact`, each Theorem
followed by Print Assumptions; report anything else."""
import re, sys
from pathlib import Path
V = Path(__file__).resolve().parent.parent
sys.path.insert(0, str(V))
from harness.common import _strip_comments_strings
bad = 0
for f in sorted((V / 'coq' / 'Props').glob('C*.v')):
    txt = _strip_comments_strings(f.read_text())
    sents = [s.strip() for s in re.split(r'\.\s', txt + ' ') if s.strip()]
    thms = re.findall(r'\b(?:Theorem|Lemma)\s+(\w+)', txt)
    exs = re.findall(r'\bExample\s+(\w+)', txt)
    pa = set(re.findall(r'Print Assumptions\s+(\w+)', txt))
    issues = []
    for t in thms:
        if t not in pa:
            issues.append('no Print Assumptions for %s' % t)
        m = re.search(r'(?:Theorem|Lemma)\s+%s\b.*?Proof\.(.*?)Qed\.' % t, txt, flags=re.S)
        if not m:
            issues.append('%s: no Proof..Qed' % t)
        else:
            body = m.group(1).strip()
            if not re.fullmatch(r'exact\s.*\.', body, flags=re.S) or body.count('. ') > 0:
                issues.append('%s: proof is not a single exact: %s' % (t, body[:60].replace('\n', ' ')))
    others = [s for s in re.findall(r'^\s*(Definition|Fixpoint|Inductive|Ltac|Hint|Instance|Record|Notation)\b', txt, flags=re.M)]
    if others:
        issues.append('non-statement vernacular: %s' % sorted(set(others)))
    print('%s: %d theorems, %d examples%s' % (f.name, len(thms), len(exs), '' if not issues else ''))
    for i in issues:
        bad += 1
        print('   ! ' + i)
sys.exit(1 if bad else 0)
