#!/usr/bin/env python3
"""Confirm a seeded change and run the property's check against it.

usage: tools/try_seed.py <PROP> <dir with patch.diff demo.py notes.md> <name> [--tier quick]

Steps (all in a scratch worktree of /repo's HEAD under /tmp, removed afterwards):
  1. patch applies; 2. the 406 tests pass with it; 3. demo fails with it; 4. demo passes without it;
  5. `VERIF_REPO=<worktree> ./check <PROP>` -> records exit code, VIOLATION lines, replay files;
  6. the replay (if any) is re-run on the mutant (must fail) and on /repo (must hold).
Result is stored as /verif/seeded/<name>/{patch.diff,demo.py,notes.md,meta.json}.
"""
import json
import os
import re
import shutil
import subprocess
import sys
from pathlib import Path

V = Path(__file__).resolve().parent.parent


def sh(cmd, cwd=None, env=None, timeout=3600):
    p = subprocess.run(cmd, cwd=cwd, env=env, shell=isinstance(cmd, str), stdout=subprocess.PIPE,
                       stderr=subprocess.STDOUT, text=True, timeout=timeout)
    return p.returncode, p.stdout


def main():
    prop, src, name = sys.argv[1], Path(sys.argv[2]), sys.argv[3]
    tier = sys.argv[sys.argv.index('--tier') + 1] if '--tier' in sys.argv else 'quick'
    wt = Path('/tmp/tryseed-%s' % name)
    sh('git -C /repo worktree remove --force %s' % wt)
    rc, out = sh('git -C /repo worktree add -q %s HEAD' % wt)
    assert rc == 0, out
    meta = {'property': prop, 'name': name, 'tier': tier,
            'base_commit': sh('git -C /repo rev-parse --short HEAD')[1].strip()}
    try:
        env = dict(os.environ, PYTHONPATH=str(wt), PYTHONDONTWRITEBYTECODE='1')
        demo = src / 'demo.py'
        demo_txt = demo.read_text()
        # demos were written against the seeder's own worktree path: retarget
        demo_local = wt / '_demo.py'
        demo_local.write_text(re.sub(r'/tmp/seed-C\d+(?!-out)', str(wt), demo_txt))
        rc0, out0 = sh(['/venv/bin/python', str(demo_local)], cwd=wt, env=env, timeout=600)
        meta['demo_on_original'] = {'rc': rc0, 'tail': out0[-300:]}
        rc, out = sh(['git', 'apply', str((src / 'patch.diff').resolve())], cwd=wt)
        meta['patch_applies'] = rc == 0
        if rc != 0:
            meta['error'] = out[-500:]
            return finish(meta, src, name)
        rc, out = sh('/venv/bin/python -m pytest -q -p no:cacheprovider --timeout=900 tests 2>&1 | tail -2', cwd=wt, env=env)
        meta['tests_with_patch'] = out.strip().splitlines()[-1] if out.strip() else ''
        meta['tests_pass'] = '406 passed' in out
        rc1, out1 = sh(['/venv/bin/python', str(demo_local)], cwd=wt, env=env, timeout=600)
        meta['demo_on_mutant'] = {'rc': rc1, 'tail': out1[-300:]}
        meta['confirmed'] = bool(meta['tests_pass'] and rc0 == 0 and rc1 != 0)
        demo_local.unlink()
        # the check
        before = set(os.listdir(V / 'replays'))
        cenv = dict(os.environ, VERIF_REPO=str(wt))
        rc, out = sh([str(V / 'check'), prop, '--tier', tier], cwd=V, env=cenv, timeout=7200)
        vio = [l for l in out.splitlines() if l.startswith('VIOLATION')]
        meta['check'] = {'cmd': 'VERIF_REPO=<worktree with patch> ./check %s --tier %s' % (prop, tier), 'rc': rc,
                         'violations': vio, 'detail': [l for l in out.splitlines() if l.startswith('  ')][:6],
                         'summary': out.strip().splitlines()[-1] if out.strip() else ''}
        meta['caught'] = rc == 1 and bool(vio)
        meta['caught_with_input'] = any('no-failing-input-found' not in l for l in vio)
        reps = []
        for l in vio:
            m = re.search(r'replay=(\S+)', l)
            if m and 'no-failing-input-found' not in l:
                r_m, o_m = sh([str(V / 'check'), prop, '--replay', m.group(1)], cwd=V, env=cenv, timeout=1200)
                r_o, o_o = sh([str(V / 'check'), prop, '--replay', m.group(1)], cwd=V, timeout=1200)
                reps.append({'replay': m.group(1), 'fails_on_mutant': r_m != 0, 'holds_on_repo': r_o == 0})
        meta['replays'] = reps
        # evidence file was rewritten by this run against the mutant: restore the committed one
        sh(['git', 'checkout', '--', 'evidence/%s.json' % prop], cwd=V)
        for f in set(os.listdir(V / 'replays')) - before:
            pass  # keep replay files for inspection (git-ignored)
    finally:
        sh('git -C /repo worktree remove --force %s' % wt)
    return finish(meta, src, name)


def finish(meta, src, name):
    d = V / 'seeded' / name
    d.mkdir(parents=True, exist_ok=True)
    for f in ('patch.diff', 'demo.py', 'notes.md'):
        if (src / f).exists() and (src / f).resolve() != (d / f).resolve():
            shutil.copy(src / f, d / f)
    if (src / 'notes.md').exists():
        meta['needs_to_manifest'] = (src / 'notes.md').read_text()[:1500]
    (d / 'meta.json').write_text(json.dumps(meta, indent=1))
    print(json.dumps({k: meta.get(k) for k in ('name', 'confirmed', 'caught', 'caught_with_input', 'replays')}, indent=1))
    print(meta.get('check', {}).get('violations'), meta.get('check', {}).get('detail'))


if __name__ == '__main__':
    main()
