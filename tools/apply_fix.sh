#!/bin/sh
# usage: tools/apply_fix.sh fixes/Fxx.diff   -- applies to /repo, runs the 406 tests, commits as "fix: ..."
set -e
D="$(cd "$(dirname "$1")" && pwd)/$(basename "$1")"
MSG="$(head -1 "$D" | sed 's/^# *//')"
case "$MSG" in fix:*) ;; *) echo "first line must be '# fix: ...'"; exit 1;; esac
cd /repo
test -z "$(git status --porcelain)" || { echo "/repo not clean"; exit 1; }
git apply "$D"
if /venv/bin/python -m pytest -q -p no:cacheprovider --timeout=900 2>&1 | tail -1 | grep -q "406 passed"; then
  git add -A && git commit -qm "$MSG" && git log --oneline | head -1
else
  echo "TESTS FAILED - reverting"; git checkout -- .; exit 1
fi
