From Coq Require Import NArith List Lia ZArith ZifyN ZifyBool ZifyNat Bool.
Import ListNotations.
Open Scope N_scope.

Inductive err := CCError (cc:N) | OutOfFuel | Other.
Inductive res (A:Type) := Ok (a:A) | Err (e:err).
Arguments Ok {A}. Arguments Err {A}.

(* request: Read FRU (id, off, count) ; reply: completion code + data *)
Record rdreq := { r_id : N; r_off : N; r_cnt : N }.
Inductive reply := ROk (cnt : N) (data : list N) | RCc (cc : N).

Inductive prog (A:Type) :=
| Ret (a:A) | Raise (e:err) | Send (r:rdreq) (k : reply -> prog A).
Arguments Ret {A}. Arguments Raise {A}. Arguments Send {A}.

(* pyipmi/fru.py:read_fru_data, offset/count given *)
Fixpoint read_loop (fuel:nat) (id off area req_size : N) (acc : list N) : prog (list N) :=
  match fuel with
  | O => Raise OutOfFuel
  | S fuel' =>
    if off <? area then
      let req_size := if area <? off + req_size then area - off else req_size in
      Send {| r_id := id; r_off := off; r_cnt := req_size |} (fun rp =>
        match rp with
        | RCc cc =>
            if (cc =? 0xca) || (cc =? 0xc8) || (cc =? 0xc9) then
              let rs := req_size - 2 in
              if (req_size <=? 2) then Raise (CCError cc)
              else read_loop fuel' id off area rs acc
            else Raise (CCError cc)
        | ROk cnt data => read_loop fuel' id (off + cnt) area req_size (acc ++ data)
        end)
    else Ret acc
  end.
Definition read_fru_data (fuel:nat) id off cnt := read_loop fuel id off (off + cnt) 32 [].

(* conforming device *)
Record dev := { mem : N -> list N; limit : N; rej : N }.
Definition slice (l:list N) (off cnt:N) := firstn (N.to_nat cnt) (skipn (N.to_nat off) l).
Definition dev_answer (d:dev) (r:rdreq) : reply :=
  if limit d <? r_cnt r then RCc (rej d)
  else ROk r.(r_cnt) (slice (mem d r.(r_id)) r.(r_off) r.(r_cnt)).

Fixpoint run {A} (p:prog A) (d:dev) (tr:list rdreq) : res A * list rdreq :=
  match p with
  | Ret a => (Ok a, tr)
  | Raise e => (Err e, tr)
  | Send r k => run (k (dev_answer d r)) d (tr ++ [r])
  end.

Lemma skipn_skipn' {A} (x y:nat) (l:list A) : skipn x (skipn y l) = skipn (x + y) l.
Proof. revert l; induction y as [|y IH]; intros l; [now rewrite Nat.add_0_r|].
  destruct l as [|h t]; [now rewrite !skipn_nil|]. rewrite Nat.add_succ_r. cbn [skipn]. apply IH. Qed.

Lemma slice_app l off a b : off + a + b <= N.of_nat (length l) ->
  slice l off a ++ slice l (off + a) b = slice l off (a + b).
Proof.
  intros H. unfold slice.
  replace (N.to_nat (a + b)) with (N.to_nat a + N.to_nat b)%nat by lia.
  replace (N.to_nat (off + a)) with (N.to_nat a + N.to_nat off)%nat by lia.
  rewrite <- skipn_skipn'.
  set (m := skipn (N.to_nat off) l).
  rewrite <- (firstn_skipn (N.to_nat a) m) at 3.
  rewrite firstn_app, firstn_firstn.
  assert (Hm : (N.to_nat a <= length m)%nat) by (subst m; rewrite skipn_length; lia).
  rewrite firstn_length_le by exact Hm.
  replace (Nat.min (N.to_nat a + N.to_nat b) (N.to_nat a)) with (N.to_nat a) by lia.
  replace (N.to_nat a + N.to_nat b - N.to_nat a)%nat with (N.to_nat b) by lia.
  reflexivity.
Qed.

Definition ok_rej d := (rej d =? 0xca) || (rej d =? 0xc8) || (rej d =? 0xc9) = true.

Lemma read_loop_exact d id : 2 <= limit d -> ok_rej d ->
  forall fuel off area rs acc tr start,
    area <= N.of_nat (length (mem d id)) -> start <= off -> off <= area ->
    1 <= rs -> rs <= 32 ->
    (N.to_nat (area - off) + N.to_nat rs + 1 <= fuel)%nat ->
    acc = slice (mem d id) start (off - start) ->
    Forall (fun r => r_id r = id) tr ->
    exists tr', run (read_loop fuel id off area rs acc) d tr
                = (Ok (slice (mem d id) start (area - start)), tr')
                /\ Forall (fun r => r_id r = id) tr'.
Proof.
  intros HL Hrej. induction fuel as [|fuel IH]; intros off area rs acc tr start Harea Hs Hoff Hrs1 Hrs2 Hfuel Hacc Htr; [lia|].
  cbn [read_loop].
  destruct (N.ltb_spec off area) as [Hlt|Hge].
  - set (rs' := if area <? off + rs then area - off else rs).
    assert (Hrs' : 1 <= rs' /\ rs' <= rs /\ off + rs' <= area).
    { subst rs'. destruct (N.ltb_spec area (off + rs)); lia. }
    cbn [run]. unfold dev_answer at 1. cbn [r_cnt r_id r_off].
    destruct (N.ltb_spec (limit d) rs') as [Hbig|Hfit].
    + unfold ok_rej in Hrej. rewrite Hrej.
      destruct (N.leb_spec rs' 2) as [H2|H2]; [lia|].
      apply IH; try lia; try assumption.
      apply Forall_app; split; [assumption|constructor; [reflexivity|constructor]].
    + apply IH; try lia.
      * subst acc. replace (off + rs' - start) with ((off - start) + rs') by lia.
        replace off with (start + (off - start)) at 2 by lia.
        apply slice_app. lia.
      * apply Forall_app; split; [assumption|constructor; [reflexivity|constructor]].
  - cbn [run]. exists tr. split; [|assumption]. subst acc. do 3 f_equal. lia.
Qed.

Theorem read_fru_exact d id off cnt :
  2 <= limit d -> ok_rej d -> off + cnt <= N.of_nat (length (mem d id)) ->
  exists tr, run (read_fru_data (N.to_nat cnt + 40) id off cnt) d []
             = (Ok (slice (mem d id) off cnt), tr) /\ Forall (fun r => r_id r = id) tr.
Proof.
  intros HL Hrej Hlen. unfold read_fru_data.
  destruct (read_loop_exact d id HL Hrej (N.to_nat cnt + 40) off (off + cnt) 32 [] [] off) as [tr [H1 H2]];
    try lia; try constructor.
  - unfold slice. replace (off - off) with 0 by lia. reflexivity.
  - exists tr. replace (off + cnt - off) with cnt in H1 by lia. split; assumption.
Qed.
Print Assumptions read_fru_exact.
