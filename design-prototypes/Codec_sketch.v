From Coq Require Import NArith List Lia ZArith ZifyN ZifyBool ZifyNat Bool.
Import ListNotations.
Open Scope N_scope.
Ltac Zify.zify_post_hook ::= Z.to_euclidean_division_equations.

Inductive base := UInt (n:nat) | Bytes (n:nat) | Remaining.
Inductive fld := Plain (b:base) | Opt (b:base).
Inductive val := VInt (v:N) | VBytes (l:list N) | VNone.
Inductive res (A:Type) := Ok (a:A) | DecErr | EncErr | Crash.
Arguments Ok {A}. Arguments DecErr {A}. Arguments EncErr {A}. Arguments Crash {A}.

Fixpoint le_bytes (n:nat) (v:N) : list N :=
  match n with O => [] | S n' => (v mod 256) :: le_bytes n' (v / 256) end.
Fixpoint le_val (l:list N) : N :=
  match l with [] => 0 | b :: r => b + 256 * le_val r end.

Definition is_byte (b:N) := b <? 256.
Definition bytes_ok (l:list N) := forallb is_byte l.

Definition enc_base (b:base) (v:val) : res (list N) :=
  match b, v with
  | UInt n, VInt x => Ok (le_bytes n x)
  | Bytes n, VBytes l => if Nat.eqb (length l) n then Ok l else EncErr
  | Remaining, VBytes l => Ok l
  | _, _ => Crash
  end.
Definition dec_base (b:base) (d:list N) : res (val * list N) :=
  match b with
  | UInt n => if Nat.leb n (length d) then Ok (VInt (le_val (firstn n d)), skipn n d) else DecErr
  | Bytes n => if Nat.leb n (length d) then Ok (VBytes (firstn n d), skipn n d) else DecErr
  | Remaining => Ok (VBytes d, [])
  end.

Fixpoint encode (l:list fld) (e:list val) : res (list N) :=
  match l, e with
  | [], [] => Ok []
  | f :: l', v :: e' =>
      let hd := match f, v with
                | Plain b, _ => enc_base b v
                | Opt b, VNone => Ok []
                | Opt b, _ => enc_base b v
                end in
      match hd with
      | Ok bs => match encode l' e' with Ok r => Ok (bs ++ r) | x => x end
      | DecErr => DecErr | EncErr => EncErr | Crash => Crash
      end
  | _, _ => Crash
  end.

Fixpoint decode_f (l:list fld) (d:list N) : res (list val) :=
  match l with
  | [] => match d with [] => Ok [] | _ => DecErr end
  | f :: l' =>
      let step := match f with
                  | Plain b => dec_base b d
                  | Opt b => match d with [] => Ok (VNone, []) | _ => dec_base b d end
                  end in
      match step with
      | Ok (v, d') => match decode_f l' d' with Ok e => Ok (v :: e) | x => x end
      | DecErr => DecErr | EncErr => EncErr | Crash => Crash
      end
  end.

(* well-formedness *)
Definition base_min (b:base) : nat := match b with UInt n => n | Bytes n => n | Remaining => 0 end.
Definition is_opt f := match f with Opt _ => true | _ => false end.
Definition fbase f := match f with Plain b | Opt b => b end.
Fixpoint wf (l:list fld) : bool :=
  match l with
  | [] => true
  | f :: l' =>
      (match fbase f with Remaining => match l' with [] => true | _ => false end | b => Nat.ltb 0 (base_min b) end)
      && (if is_opt f then forallb is_opt l' else true)
      && wf l'
  end.

(* --- C02 strictness: decode then encode reproduces the input --- *)
Lemma le_bytes_val n : forall d, bytes_ok d = true -> length d = n -> le_bytes n (le_val d) = d.
Proof.
  induction n as [|n IH]; intros d Hb Hl; destruct d as [|b r]; try discriminate; [reflexivity|].
  cbn [le_bytes le_val]. cbn in Hb. apply andb_prop in Hb as [Hb1 Hb2]. unfold is_byte in Hb1.
  assert (b < 256) by lia. f_equal.
  - lia.
  - replace ((b + 256 * le_val r) / 256) with (le_val r) by lia.
    apply IH; [assumption| cbn in Hl; lia].
Qed.

Lemma bytes_ok_firstn n d : bytes_ok d = true -> bytes_ok (firstn n d) = true.
Proof. revert d; induction n; intros [|b r] H; cbn in *; try reflexivity.
  apply andb_prop in H as [H1 H2]. rewrite H1. cbn. auto. Qed.
Lemma bytes_ok_skipn n d : bytes_ok d = true -> bytes_ok (skipn n d) = true.
Proof. revert d; induction n; intros [|b r] H; cbn in *; try reflexivity; try assumption.
  apply andb_prop in H as [H1 H2]. auto. Qed.

Lemma dec_enc_base b d v d' : bytes_ok d = true -> dec_base b d = Ok (v, d') ->
  exists bs, enc_base b v = Ok bs /\ d = bs ++ d' /\ bytes_ok d' = true /\ v <> VNone.
Proof.
  intros Hb. destruct b as [n|n|]; cbn [dec_base].
  - destruct (Nat.leb_spec n (length d)) as [Hle|]; [|discriminate]. intros [= <- <-].
    exists (firstn n d). cbn [enc_base]. repeat split.
    + f_equal. apply le_bytes_val; [now apply bytes_ok_firstn| rewrite firstn_length; lia].
    + symmetry; apply firstn_skipn. + now apply bytes_ok_skipn. + discriminate.
  - destruct (Nat.leb_spec n (length d)) as [Hle|]; [|discriminate]. intros [= <- <-].
    exists (firstn n d). cbn [enc_base]. rewrite firstn_length, Nat.min_l by lia. rewrite Nat.eqb_refl.
    repeat split; [symmetry; apply firstn_skipn| now apply bytes_ok_skipn | discriminate].
  - intros [= <- <-]. exists d. cbn. rewrite app_nil_r. repeat split; discriminate.
Qed.

Theorem decode_strict l : forall d e, bytes_ok d = true -> decode_f l d = Ok e -> encode l e = Ok d.
Proof.
  induction l as [|f l IH]; intros d e Hb; cbn [decode_f].
  - destruct d; [|discriminate]. intros [= <-]. reflexivity.
  - destruct f as [b|b].
    + destruct (dec_base b d) as [[v d']| | |] eqn:Hd; try discriminate.
      destruct (decode_f l d') as [e'| | |] eqn:He; try discriminate. intros [= <-].
      destruct (dec_enc_base _ _ _ _ Hb Hd) as [bs [Hbs [-> [Hb' _]]]].
      cbn [encode]. rewrite Hbs, (IH _ _ Hb' He). reflexivity.
    + destruct d as [|x d0].
      * destruct (decode_f l []) as [e'| | |] eqn:He; try discriminate. intros [= <-].
        cbn [encode]. rewrite (IH _ _ Hb He). reflexivity.
      * set (d := x :: d0) in *.
        destruct (dec_base b d) as [[v d']| | |] eqn:Hd; try discriminate.
        destruct (decode_f l d') as [e'| | |] eqn:He; try discriminate. intros [= <-].
        destruct (dec_enc_base _ _ _ _ Hb Hd) as [bs [Hbs [Heq [Hb' Hnn]]]].
        cbn [encode]. rewrite (IH _ _ Hb' He).
        destruct v; try (rewrite Hbs, Heq; reflexivity). congruence.
Qed.
Print Assumptions decode_strict.

(* --- C02 totality: never Crash / EncErr --- *)
Theorem decode_total l : forall d, (exists e, decode_f l d = Ok e) \/ decode_f l d = DecErr.
Proof.
  induction l as [|f l IH]; intros d; cbn [decode_f].
  - destruct d; eauto.
  - assert (Hb : forall b d, (exists v d', dec_base b d = Ok (v, d')) \/ dec_base b d = DecErr).
    { intros [n|n|] d1; cbn; try destruct (Nat.leb _ _); eauto. }
    assert (Hs : forall v d', (exists e, match decode_f l d' with Ok e => Ok (v :: e) | x => x end = Ok e)
                        \/ match decode_f l d' with Ok e => Ok (v :: e) | x => x end = DecErr).
    { intros v d'. destruct (IH d') as [[e ->]| ->]; eauto. }
    destruct f as [b|b].
    + destruct (Hb b d) as [[v [d' ->]]| ->]; auto.
    + destruct d as [|x d0]; [apply Hs|]. destruct (Hb b (x :: d0)) as [[v [d' ->]]| ->]; auto.
Qed.

(* --- C01 round trip under wf + in_range --- *)
Definition base_in_range (b:base) (v:val) : Prop :=
  match b, v with
  | UInt n, VInt x => x < 256 ^ N.of_nat n
  | Bytes n, VBytes l => length l = n /\ bytes_ok l = true
  | Remaining, VBytes l => bytes_ok l = true
  | _, _ => False
  end.
Fixpoint all_none (e:list val) := match e with [] => True | v :: r => v = VNone /\ all_none r end.
Fixpoint in_range (l:list fld) (e:list val) : Prop :=
  match l, e with
  | [], [] => True
  | Plain b :: l', v :: e' => base_in_range b v /\ in_range l' e'
  | Opt b :: l', v :: e' =>
      (v = VNone /\ all_none e' /\ length e' = length l') \/
      (base_in_range b v /\ (b = Remaining -> v <> VBytes []) /\ in_range l' e')
  | _, _ => False
  end.

Lemma le_val_bytes n : forall x, x < 256 ^ N.of_nat n ->
  le_val (le_bytes n x) = x /\ length (le_bytes n x) = n /\ bytes_ok (le_bytes n x) = true.
Proof.
  induction n as [|n IH]; intros x Hx.
  - cbn in *. repeat split. lia.
  - cbn [le_bytes le_val length bytes_ok forallb].
    assert (Hq : x / 256 < 256 ^ N.of_nat n).
    { rewrite Nat2N.inj_succ, N.pow_succ_r' in Hx. apply N.div_lt_upper_bound; lia. }
    destruct (IH _ Hq) as [H1 [H2 H3]]. rewrite H1, H2. fold (bytes_ok (le_bytes n (x/256))). rewrite H3.
    unfold is_byte. repeat split; try lia.
Qed.

Lemma firstn_app_exact {A} n (a b:list A) : length a = n -> firstn n (a ++ b) = a.
Proof. intros <-. rewrite firstn_app, Nat.sub_diag, firstn_O, app_nil_r. apply firstn_all. Qed.
Lemma skipn_app_exact {A} n (a b:list A) : length a = n -> skipn n (a ++ b) = b.
Proof. intros <-. rewrite skipn_app, Nat.sub_diag, skipn_O, skipn_all. reflexivity. Qed.

Lemma enc_dec_base b v rest : base_in_range b v -> (0 < base_min b)%nat \/ rest = [] ->
  exists bs, enc_base b v = Ok bs /\ dec_base b (bs ++ rest) = Ok (v, rest) /\
             (length bs >= base_min b)%nat /\ (b = Remaining -> bs = match v with VBytes l => l | _ => [] end).
Proof.
  intros Hr Hm. destruct b as [n|n|], v as [x|l|]; cbn in Hr; try contradiction.
  - destruct (le_val_bytes n x Hr) as [H1 [H2 H3]]. exists (le_bytes n x). cbn [enc_base dec_base base_min].
    rewrite app_length, H2. replace (Nat.leb n (n + length rest)) with true by (symmetry; apply Nat.leb_le; lia).
    rewrite (firstn_app_exact n _ _ H2), (skipn_app_exact n _ _ H2), H1.
    repeat split; try lia; discriminate.
  - destruct Hr as [Hl Hb]. exists l. cbn [enc_base dec_base base_min]. rewrite Hl, Nat.eqb_refl.
    rewrite app_length, Hl. replace (Nat.leb n (n + length rest)) with true by (symmetry; apply Nat.leb_le; lia).
    rewrite (firstn_app_exact n _ _ Hl), (skipn_app_exact n _ _ Hl).
    repeat split; try lia; discriminate.
  - destruct Hm as [Hm| ->]; [cbn in Hm; lia|]. exists l. cbn. rewrite app_nil_r. repeat split; lia.
Qed.

Lemma encode_all_none l : forall e, forallb is_opt l = true -> all_none e -> length e = length l ->
  encode l e = Ok [] /\ decode_f l [] = Ok e.
Proof.
  induction l as [|f l IH]; intros [|v e] Ho Hn Hl; try discriminate; cbn in *; [auto|].
  destruct Hn as [-> Hn]. apply andb_prop in Ho as [Hf Ho]. destruct f; [discriminate|].
  destruct (IH e Ho Hn) as [-> ->]; [lia|]. auto.
Qed.

Theorem roundtrip l : forall e, wf l = true -> in_range l e ->
  exists bs, encode l e = Ok bs /\ decode_f l bs = Ok e.
Proof.
  induction l as [|f l IH]; intros [|v e] Hwf Hr; try (cbn in Hr; contradiction).
  - exists []. auto.
  - destruct f; cbn in Hr; contradiction.
  - cbn [wf] in Hwf. apply andb_prop in Hwf as [Hwf Hwf3]. apply andb_prop in Hwf as [Hwf1 Hwf2].
    assert (Hmin : forall b, fbase f = b -> (0 < base_min b)%nat \/ l = []).
    { intros b Hb. rewrite Hb in Hwf1. destruct b; [left; now apply Nat.ltb_lt in Hwf1..|right; destruct l; [reflexivity|discriminate]]. }
    destruct f as [b|b]; cbn [in_range] in Hr.
    + destruct Hr as [Hb Hr]. destruct (IH e Hwf3 Hr) as [r [He Hd]].
      destruct (Hmin b eq_refl) as [Hm| ->].
      * destruct (enc_dec_base b v r Hb (or_introl Hm)) as [bs [H1 [H2 _]]].
        exists (bs ++ r). cbn [encode decode_f]. rewrite H1, He, H2, Hd. auto.
      * destruct e; [|destruct Hr]. cbn in He. injection He as <-.
        destruct (enc_dec_base b v [] Hb (or_intror eq_refl)) as [bs [H1 [H2 _]]].
        exists (bs ++ []). cbn [encode decode_f]. rewrite H1, H2. auto.
    + cbn [is_opt] in Hwf2. destruct Hr as [[-> [Hn Hl]]|[Hb [Hne Hr]]].
      * destruct (encode_all_none l e Hwf2 Hn Hl) as [He Hd]. exists []. cbn [encode decode_f]. rewrite He, Hd. auto.
      * destruct (IH e Hwf3 Hr) as [r [He Hd]].
        assert (Hrest : (0 < base_min b)%nat \/ r = []).
        { destruct (Hmin b eq_refl) as [Hm| ->]; [auto|]. right. destruct e; [|destruct Hr]. cbn in He. congruence. }
        destruct (enc_dec_base b v r Hb Hrest) as [bs [H1 [H2 [H3 H4]]]].
        exists (bs ++ r). cbn [encode decode_f].
        assert (Hnz : bs ++ r <> []).
        { destruct b as [n|n|]; cbn [fbase base_min] in *.
          - apply Nat.ltb_lt in Hwf1. destruct bs; [cbn in H3; lia|discriminate].
          - apply Nat.ltb_lt in Hwf1. destruct bs; [cbn in H3; lia|discriminate].
          - destruct v as [x|l0|]; cbn in Hb; try contradiction.
            rewrite (H4 eq_refl). intros Habs. apply app_eq_nil in Habs as [-> _]. now apply (Hne eq_refl). }
        assert (Hv : v <> VNone) by (destruct b, v; cbn in Hb; try contradiction; discriminate).
        assert (Henc : match v with VNone => Ok [] | _ => enc_base b v end = Ok bs) by (destruct v; congruence).
        rewrite Henc, He. split; [reflexivity|].
        destruct (bs ++ r) eqn:Hbr; [congruence|]. rewrite H2, Hd. reflexivity.
Qed.
Print Assumptions roundtrip.
