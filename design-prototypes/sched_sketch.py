import sys, threading, itertools
sys.path.insert(0,'/repo')
from array import array
import pyipmi
from pyipmi import Target
from pyipmi.session import Session
from pyipmi.interfaces import rmcp as R
from pyipmi.interfaces.ipmb import IpmbHeaderRsp, encode_ipmb_msg, IpmbHeaderReq

class Sched:
    def __init__(self, schedule):
        self.schedule=list(schedule); self.cv=threading.Condition()
        self.parked={}   # tid -> reason
        self.turn=None; self.done=set(); self.trace=[]
    def park(self, tid, why):
        with self.cv:
            self.parked[tid]=why; self.cv.notify_all()
            while self.turn!=tid: self.cv.wait()
            self.turn=None; del self.parked[tid]
    def finish(self,tid):
        with self.cv:
            self.done.add(tid); self.cv.notify_all()
    def run(self, tids, blocked):
        i=0
        while True:
            with self.cv:
                while len(self.parked)+len(self.done)<len(tids): self.cv.wait()
                if len(self.done)==len(tids): return True
                runnable=[t for t in tids if t in self.parked and not blocked(t,self.parked[t])]
                if not runnable: return False
                pick=None
                while i<len(self.schedule):
                    c=self.schedule[i]; i+=1
                    if c in runnable: pick=c; break
                if pick is None: pick=runnable[0]
                self.trace.append(pick); self.turn=pick; self.cv.notify_all()
                while self.turn is not None and pick not in self.done: self.cv.wait()

class CoopLock:
    def __init__(self,s): self.s=s; self.owner=None
    def __enter__(self):
        tid=threading.current_thread().name
        while True:
            self.s.park(tid,'acquire')
            if self.owner is None: self.owner=tid; return
    def __exit__(self,*a):
        self.owner=None
class FakeSock:
    def __init__(self,s): self.s=s; self.wire=[]; self.pending=[]
    def sendto(self,pdu,addr):
        tid=threading.current_thread().name
        self.s.park(tid,'send')
        self.wire.append(('tx',tid,pdu))
        # BMC: echo reply for the ipmb request inside
        sdu=pdu[4:]; 
        auth=sdu[0]; off=10 if auth==0 else 26
        req=sdu[off:]
        h=IpmbHeaderReq(); h.decode(req[:6])
        rh=IpmbHeaderRsp(); rh.from_req_header(h); rh.netfn=h.netfn+1
        rsp=encode_ipmb_msg(rh, b'\x00'+bytes([h.rq_seq]))
        ipmi=R.IpmiMsg(); self.pending.append(R.RmcpMsg(7).pack(ipmi.pack(rsp),0xff))
    def recvfrom(self,n):
        tid=threading.current_thread().name
        self.s.park(tid,'recv')
        pdu=self.pending.pop(0); self.wire.append(('rx',tid,pdu)); return (pdu,None)
    def settimeout(self,t): pass

def one(schedule, nthreads=2):
    s=Sched(schedule)
    intf=R.Rmcp(keep_alive_interval=0); intf._sock=FakeSock(s); intf.host='h'; intf.port=623
    intf.transaction_lock=CoopLock(s)
    sess=Session(); sess.sid=0x1234; sess.activated=True; sess.sequence_number=5; intf._session=sess
    results={}
    def tracer(frame,event,arg):
        if frame.f_code.co_filename.endswith('rmcp.py') and frame.f_code.co_name in('_send_and_receive','_inc_sequence_number'):
            def local(frame,event,arg):
                if event=='line': s.park(threading.current_thread().name,'line')
                return local
            return local
        return None
    def worker(tid):
        sys.settrace(tracer)
        try:
            s.park(tid,'start')
            results[tid]=intf.send_and_receive_raw(Target(0x20),0,6,bytes([1]))
        except Exception as e: results[tid]=repr(e)
        finally:
            sys.settrace(None); s.finish(tid)
    tids=['T%d'%i for i in range(nthreads)]
    ths=[threading.Thread(target=worker,args=(t,),name=t) for t in tids]
    for t in ths: t.start()
    ok=s.run(tids, lambda t,why: why=='acquire' and intf.transaction_lock.owner not in (None,) )
    for t in ths: t.join(2)
    return ok, results, intf._sock.wire, s.trace

import random
random.seed(3)
seen=set()
for k in range(200):
    schedule=[random.choice(['T0','T1']) for _ in range(60)]
    ok,res,wire,trace=one(schedule)
    seqs=[int.from_bytes(p[5:9],'little') for (d,t,p) in wire if d=='tx']
    order=''.join(d[0]+t[1] for d,t,_ in wire)
    seen.add((order,tuple(seqs),tuple(sorted((k,bytes(v)) for k,v in res.items()))))
for x in sorted(seen): print(x)
