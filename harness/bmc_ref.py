"""C07 - reference BMC, Python twin of coq/Model/Bmc.v.

Written by byte position from the IPMI 2.0 / PICMG 3.0 command tables; it does not import or use
any pyipmi message class.  State: dict (kind, a, b) -> list of bytes; unset objects have the default
of their kind.  Every recorded exchange of a run is replayed through the Gallina twin in Coq.
"""
K_DEVID, K_GUID, K_WD, K_WDRUN, K_WDPRES, K_WDINIT = 1, 2, 3, 4, 5, 6
K_CHASSIS, K_LASTCTL, K_BOOT, K_BOOTINV, K_LAN = 10, 11, 12, 13, 14
K_UNAME, K_UPW, K_UEN, K_UACC = 15, 16, 17, 18
K_EVRCV, K_EVENT, K_SENS, K_THR, K_THRMASK = 20, 21, 22, 23, 24
K_PICMG, K_FRUCTL, K_LED, K_FAN, K_POLICY, K_ACT, K_PWRLVL, K_FANPROP, K_RESET = 30, 31, 32, 33, 34, 35, 36, 37, 40
K_HPMCAP, K_HPMSTAT, K_SELFTEST = 41, 42, 43
K_PORT, K_SIGCLASS, K_PWRCHST, K_PWRCHCTL, K_PMGLOBAL, K_HEARTBEAT, K_AUTHCAP, K_ROLLBACK, K_ROLLBACKREQ = \
    50, 51, 52, 53, 54, 55, 56, 57, 58
K_DCMICAP, K_DCMIPWR, K_I2CMEM, K_I2CW = 60, 61, 62, 63
K_COMPPROP = 44


def default(k):
    kind, a, b = k
    if kind == K_DEVID:
        return [0x12, 0x81, 0x02, 0x35, 0x02, 0xbf, 0x98, 0x3a, 0x00, 0x34, 0x12, 1, 2, 3, 4]
    if kind == K_GUID:
        return list(range(1, 17))
    if kind == K_WD:
        return [0] * 6
    if kind == K_WDRUN:
        return [0]
    if kind == K_WDPRES:
        return [0, 0]
    if kind == K_WDINIT:
        return [0]
    if kind == K_CHASSIS:
        return [0x20, 0, 0, 0]
    if kind == K_BOOT:
        return [0] * 5 if a == 5 else []
    if kind == K_BOOTINV:
        return [0]
    if kind == K_LAN:
        return {3: [0] * 4, 4: [0], 5: [0] * 6, 20: [0, 0]}.get(b, [])
    if kind in (K_UNAME, K_UPW):
        return [0] * 16
    if kind == K_UEN:
        return [0]
    if kind == K_UACC:
        return [0, 0x0f, 0]
    if kind == K_EVRCV:
        return [0x40, 0]
    if kind == K_SENS:
        return [0, 0xc0, 0, 0]
    if kind == K_THR:
        return [0] * 6
    if kind == K_THRMASK:
        return [0x3f]
    if kind == K_PICMG:
        return [0x22, 3, 0]
    if kind == K_LED:
        return [0x01, 0, 0, 1, 0, 0, 0, 0]
    if kind == K_FAN:
        return [0xff, 2]
    if kind in (K_POLICY, K_ACT):
        return [0]
    if kind == K_PWRLVL:
        return [0x01, 0, 1, 10, 20]
    if kind == K_FANPROP:
        return [1, 10, 5, 0x80]
    if kind == K_HPMCAP:
        return [1, 0x0f, 10, 20, 30, 40, 0x05]
    if kind == K_HPMSTAT:
        return [0, 0]
    if kind == K_SELFTEST:
        return [0x55, 0]
    if kind == K_COMPPROP:
        return {0: [0x0e], 1: [1, 0x23, 0, 0, 0, 1], 2: [66, 79, 79, 84] + [0] * 8, 3: [1, 0x22, 0, 0, 0, 0]}.get(b, [1, 0x24, 0, 0, 0, 2])
    if kind == K_SIGCLASS:
        return [0]
    if kind == K_PWRCHST:
        return [1]
    if kind == K_PWRCHCTL:
        return [0, 0, 0]
    if kind == K_PMGLOBAL:
        return [16, 6]
    if kind == K_HEARTBEAT:
        return [0, 0]
    if kind == K_AUTHCAP:
        return [0x97, 0, 3, 0, 0, 0, 0]
    if kind == K_ROLLBACK:
        return [0]
    if kind == K_DCMICAP:
        return [0, 1, 7]
    if kind == K_DCMIPWR:
        return [100, 0, 50, 0, 200, 0, 120, 0, 1, 2, 3, 4, 232, 3, 0, 0, 0x40]
    if kind == K_I2CMEM:
        return [0xa0, 0xa1, 0xa2, 0xa3, 0xa4, 0xa5, 0xa6, 0xa7]
    return []


def at(d, i):
    return d[i] if i < len(d) else 0


def bit(x, i):
    return (x >> i) & 1


def setbit(x, i, v):
    return x - bit(x, i) * 2 ** i + v * 2 ** i


def merge_bits(n, old, m, v):
    out = 0
    for i in range(n):
        out |= (bit(v, i) if bit(m, i) else bit(old, i)) << i
    return out


class RefBmc:
    def __init__(self, init=None):
        self.s = dict(init or {})

    def copy_state(self):
        return {k: list(v) for k, v in self.s.items()}

    def get(self, *k):
        return list(self.s[k]) if k in self.s else default(k)

    def put(self, k, v):
        self.s[k] = [int(x) for x in v]

    def handle(self, netfn, cmd, lun, data, req=None):
        d = list(data)
        fn = {0x06: self.h_app, 0x00: self.h_chassis, 0x04: self.h_sensor, 0x0c: self.h_transport,
              0x2c: self.h_dcmi if at(d, 0) == 0xdc else self.h_picmg}.get(netfn)
        r = [0xc1] if fn is None else fn(cmd, lun, d)
        return bytes(r)

    # replies
    @staticmethod
    def ok(d=()):
        return [0] + list(d)

    def h_app(self, cmd, lun, d):
        ok, get, put = self.ok, self.get, self.put
        if cmd == 0x01:
            return ok(get(K_DEVID, 0, 0))
        if cmd == 0x08:
            return ok(get(K_GUID, 0, 0))
        if cmd == 0x02:
            put((K_RESET, 0, 0), [1])
            return ok()
        if cmd == 0x03:
            put((K_RESET, 0, 0), [2])
            return ok()
        if cmd == 0x24:
            if len(d) != 6:
                return [0xc7]
            old = get(K_WD, 0, 0)
            flags = merge_bits(8, at(old, 3), d[3], 0)
            cfg = [d[0] % 8 + 128 * bit(d[0], 7), d[1] % 8 + 16 * ((d[1] // 16) % 8), d[2], flags, d[4], d[5]]
            put((K_WD, 0, 0), cfg)
            if bit(d[0], 6) == 0:
                put((K_WDRUN, 0, 0), [0])
            put((K_WDINIT, 0, 0), [1])
            return ok()
        if cmd == 0x25:
            c = get(K_WD, 0, 0)
            run = at(get(K_WDRUN, 0, 0), 0)
            pres = get(K_WDPRES, 0, 0) if run == 1 else [at(c, 4), at(c, 5)]
            return ok([at(c, 0) + 64 * run, at(c, 1), at(c, 2), at(c, 3), at(c, 4), at(c, 5)] + pres)
        if cmd == 0x22:
            if at(get(K_WDINIT, 0, 0), 0) == 0:
                return [0x80]
            c = get(K_WD, 0, 0)
            put((K_WDRUN, 0, 0), [1])
            put((K_WDPRES, 0, 0), [at(c, 4), at(c, 5)])
            return ok()
        if cmd == 0x45:
            if len(d) != 17:
                return [0xc7]
            put((K_UNAME, d[0] % 64, 0), d[1:])
            return ok()
        if cmd == 0x46:
            if len(d) < 1:
                return [0xc7]
            return ok(get(K_UNAME, d[0] % 64, 0))
        if cmd == 0x47:
            if len(d) < 2:
                return [0xc7]
            uid, op = d[0] % 64, d[1] % 4
            if op == 0:
                put((K_UEN, uid, 0), [0])
                return ok()
            if op == 1:
                put((K_UEN, uid, 0), [1])
                return ok()
            if op == 2:
                if len(d) not in (18, 22):
                    return [0xc7]
                put((K_UPW, uid, 0), d[2:])
                return ok()
            return ok() if d[2:] == get(K_UPW, uid, 0) else [0x80]
        if cmd == 0x43:
            if len(d) < 3:
                return [0xc7]
            ch, uid = d[0] % 16, d[1] % 64
            old = get(K_UACC, uid, ch)
            flags = 16 * ((d[0] // 16) % 8) if bit(d[0], 7) == 1 else at(old, 0)
            lim = d[3] % 16 if len(d) >= 4 else at(old, 2)
            put((K_UACC, uid, ch), [flags, d[2] % 16, lim])
            return ok()
        if cmd == 0x44:
            if len(d) < 2:
                return [0xc7]
            ch, uid = d[0] % 16, d[1] % 64
            a = get(K_UACC, uid, ch)
            st = 0
            if (K_UEN, uid, 0) in self.s:
                st = 1 if at(self.s[(K_UEN, uid, 0)], 0) == 1 else 2
            n = sum(1 for u in range(1, 11) if at(get(K_UEN, u, 0), 0) == 1)
            return ok([10, n + 64 * st, 1, at(a, 0) + at(a, 1)])
        if cmd == 0x38:
            if len(d) < 2:
                return [0xc7]
            ch = d[0] % 16
            return ok([ch] + get(K_AUTHCAP, ch, 0))
        if cmd == 0x52:
            if len(d) < 3:
                return [0xc7]
            mem = get(K_I2CMEM, d[0], d[1])
            if d[3:]:
                put((K_I2CW, d[0], d[1]), d[3:])
            return ok(mem[:d[2]])
        return [0xc1]

    def h_chassis(self, cmd, lun, d):
        ok, get, put = self.ok, self.get, self.put
        if cmd == 0x01:
            return ok(get(K_CHASSIS, 0, 0))
        if cmd == 0x02:
            if len(d) < 1:
                return [0xc7]
            o = d[0] % 16
            st = get(K_CHASSIS, 0, 0)
            ps = at(st, 0)
            on = ps % 2

            def set_on(v, ev):
                put((K_CHASSIS, 0, 0), [ps - on + v, ev, at(st, 2), at(st, 3)])
                put((K_LASTCTL, 0, 0), [o])
                return ok()
            if o == 0:
                return set_on(0, at(st, 1))
            if o == 1:
                return set_on(1, at(st, 1) - 16 * bit(at(st, 1), 4) + 16)
            if o == 2:
                return [0xd5] if on == 0 else set_on(1, at(st, 1))
            if o in (3, 4):
                return set_on(on, at(st, 1))
            if o == 5:
                return set_on(0, at(st, 1))
            return [0xcc]
        if cmd == 0x08:
            if len(d) < 1:
                return [0xc7]
            p = d[0] % 128
            put((K_BOOTINV, p, 0), [bit(d[0], 7)])
            if d[1:]:
                put((K_BOOT, p, 0), d[1:])
            return ok()
        if cmd == 0x09:
            if len(d) < 3:
                return [0xc7]
            p = d[0] % 128
            return ok([0x01, p + 128 * at(get(K_BOOTINV, p, 0), 0)] + get(K_BOOT, p, 0))
        return [0xc1]

    def h_sensor(self, cmd, lun, d):
        ok, get, put = self.ok, self.get, self.put
        if cmd == 0x00:
            if len(d) < 2:
                return [0xc7]
            put((K_EVRCV, 0, 0), [d[0], d[1] % 4])
            return ok()
        if cmd == 0x01:
            return ok(get(K_EVRCV, 0, 0))
        if cmd == 0x02:
            if len(d) < 5:
                return [0xc7]
            put((K_EVENT, 0, 0), d)
            return ok()
        if cmd == 0x2d:
            if len(d) < 1:
                return [0xc7]
            return ok(get(K_SENS, lun, d[0]))
        if cmd == 0x26:
            if len(d) != 8:
                return [0xc7]
            old = get(K_THR, lun, d[0])
            m = d[1]
            put((K_THR, lun, d[0]), [d[2 + i] if bit(m, i) == 1 else at(old, i) for i in range(6)])
            return ok()
        if cmd == 0x27:
            if len(d) < 1:
                return [0xc7]
            return ok(get(K_THRMASK, lun, d[0]) + get(K_THR, lun, d[0]))
        if cmd == 0x2a:
            return ok()
        return [0xc1]

    def h_transport(self, cmd, lun, d):
        ok, get, put = self.ok, self.get, self.put
        if cmd == 0x01:
            if len(d) < 2:
                return [0xc7]
            put((K_LAN, d[0] % 16, d[1]), d[2:])
            return ok()
        if cmd == 0x02:
            if len(d) < 4:
                return [0xc7]
            if bit(d[0], 7) == 1:
                return ok([0x11])
            return ok([0x11] + get(K_LAN, d[0] % 16, d[1]))
        return [0xc1]

    def h_picmg(self, cmd, lun, d):
        ok, get, put = self.ok, self.get, self.put
        if len(d) < 1 or d[0] != 0:
            return [0xc1]
        if cmd == 0x00:
            return ok([0] + get(K_PICMG, 0, 0))
        if cmd == 0x04:
            if len(d) < 3:
                return [0xc7]
            put((K_FRUCTL, d[1], 0), [d[2]])
            return ok([0])
        if cmd == 0x07:
            if len(d) != 6:
                return [0xc7]
            k = (K_LED, d[1], d[2])
            l = get(*k)
            st, fn = at(l, 0), d[3]
            if fn == 0xfc:
                l[0] = st % 2
                put(k, l)
            elif fn == 0xfb:
                l[0] = st % 4 + 4
                l[7] = d[4]
                put(k, l)
            else:
                put(k, [st % 2 + 2, at(l, 1), at(l, 2), at(l, 3), fn, d[4], d[5], at(l, 7)])
            return ok([0])
        if cmd == 0x08:
            if len(d) < 3:
                return [0xc7]
            l = get(K_LED, d[1], d[2])
            st = at(l, 0)
            out = [0, st, at(l, 1), at(l, 2), at(l, 3)]
            if bit(st, 1) == 1 or bit(st, 2) == 1:
                out += [at(l, 4), at(l, 5), at(l, 6)]
            if bit(st, 2) == 1:
                out += [at(l, 7)]
            return ok(out)
        if cmd == 0x0a:
            if len(d) < 4:
                return [0xc7]
            old = at(get(K_POLICY, d[1], 0), 0)
            put((K_POLICY, d[1], 0), [merge_bits(2, old, d[2], d[3])])
            return ok([0])
        if cmd == 0x0b:
            if len(d) < 2:
                return [0xc7]
            return ok([0] + get(K_POLICY, d[1], 0))
        if cmd == 0x0c:
            if len(d) < 3:
                return [0xc7]
            put((K_ACT, d[1], 0), [d[2]])
            return ok([0])
        if cmd == 0x12:
            if len(d) < 3:
                return [0xc7]
            return ok([0] + get(K_PWRLVL, d[1], d[2]))
        if cmd == 0x14:
            if len(d) < 2:
                return [0xc7]
            return ok([0] + get(K_FANPROP, d[1], 0))
        if cmd == 0x15:
            if len(d) < 3:
                return [0xc7]
            put((K_FAN, d[1], 0), [d[2], at(get(K_FAN, d[1], 0), 1)])
            return ok([0])
        if cmd == 0x16:
            if len(d) < 2:
                return [0xc7]
            return ok([0] + get(K_FAN, d[1], 0))
        if cmd == 0x2e:
            return ok([0] + get(K_HPMCAP, 0, 0))
        if cmd == 0x34:
            return ok([0] + get(K_HPMSTAT, 0, 0))
        if cmd == 0x36:
            return ok([0] + get(K_SELFTEST, 0, 0))
        if cmd == 0x2f:
            if len(d) < 3:
                return [0xc7]
            if d[1] > 7:
                return [0x82]
            if d[2] > 4:
                return [0x83]
            return ok([0] + get(K_COMPPROP, d[1], d[2]))
        if cmd == 0x37:
            return ok([0] + get(K_ROLLBACK, 0, 0))
        if cmd == 0x38:
            put((K_ROLLBACKREQ, 0, 0), [1])
            return ok([0])
        if cmd == 0x0e:
            if len(d) != 6:
                return [0xc7]
            put((K_PORT, d[1] // 64, d[1] % 64), d[1:6])
            return ok([0])
        if cmd == 0x0f:
            if len(d) < 2:
                return [0xc7]
            return ok([0] + get(K_PORT, d[1] // 64, d[1] % 64))
        if cmd == 0x3b:
            if len(d) < 3:
                return [0xc7]
            put((K_SIGCLASS, d[1] // 64, d[1] % 64), [d[2] % 16])
            return ok([0])
        if cmd == 0x3c:
            if len(d) < 2:
                return [0xc7]
            return ok([0, d[1], at(get(K_SIGCLASS, d[1] // 64, d[1] % 64), 0)])
        if cmd == 0x24:
            if len(d) != 6:
                return [0xc7]
            st, c = at(get(K_PWRCHST, d[1], 0), 0), d[2]
            if c > 5:
                return [0xcc]
            st2 = setbit(st, {0: 1, 1: 1, 2: 3, 3: 3, 4: 4, 5: 4}[c], c % 2)
            put((K_PWRCHST, d[1], 0), [st2])
            put((K_PWRCHCTL, d[1], 0), [d[3], d[4], d[5]])
            return ok([0])
        if cmd == 0x25:
            if len(d) < 3:
                return [0xc7]
            if d[2] > 16:
                return [0xc9]
            return ok([0] + get(K_PMGLOBAL, 0, 0) + [at(get(K_PWRCHST, d[1] + i, 0), 0) for i in range(d[2])])
        if cmd == 0x28:
            if len(d) < 3:
                return [0xc7]
            put((K_HEARTBEAT, 0, 0), [d[1], d[2]])
            return ok([0])
        return [0xc1]

    def h_dcmi(self, cmd, lun, d):
        ok, get = self.ok, self.get
        if cmd == 0x01:
            if len(d) < 2:
                return [0xc7]
            return ok([0xdc, 1, 5, 2] + get(K_DCMICAP, d[1], 0))
        if cmd == 0x02:
            if len(d) < 4:
                return [0xc7]
            return ok([0xdc] + get(K_DCMIPWR, 0, 0))
        return [0xc1]
