"""C13 - retry / reservation loops terminate and follow protocol.

The real pyipmi.helper.clear_repository_helper, get_sdr_chunk_helper and
Ipmi.send_message are driven by an *outcome oracle*: the supplied callables (resp. the
interface's send_and_receive) consume one scripted outcome per call.  time.sleep is
substituted (recorded, never slept).  Observed: the exact sequence of calls (with the
reservation each carried), sleeps, and the final return / exception.

Correspondence: Model/Helper.v evaluated in Coq on the same oracle (Corr/C13.v) must give
the same event sequence and outcome.  Enumeration is exhaustive and demand driven: a
sequence is extended by every letter exactly when the implementation asked for one more
outcome, so every outcome sequence up to the length bound is covered through its consumed
prefix (a sequence that is not read to the end behaves like the prefix that was read).

Oracle: the property text evaluated directly on the observed events (independent of the
model): bounds, freshest reservation, initiate before status, success iff last status is
'complete', propagation of unexpected codes, RetryError only with the budget used up,
send_message resends only after node-busy and at most `retry` times.
"""
import contextlib
import types

from . import common as C
from . import c11 as S          # SDR device, history runner and per-step model terms (Model/SdrIO.v)

MODEL_MAP = [
    {'python': 'pyipmi/helper.py:_clear_repository', 'coq': 'Model.Helper.clear_iter/clear_loop'},
    {'python': 'pyipmi/helper.py:clear_repository_helper', 'coq': 'Model.Helper.clear_repository_helper'},
    {'python': 'pyipmi/helper.py:get_sdr_chunk_helper', 'coq': 'Model.Helper.chunk_iter/get_sdr_chunk_helper'},
    {'python': 'pyipmi/__init__.py:Ipmi.send_message', 'coq': 'Model.Helper.send_loop/send_message'},
    {'python': 'pyipmi/sel.py:Sel.clear_sel/_clear_sel/get_sel_reservation_id',
     'coq': 'Model.Helper.clear_repository_helper (callables = ReserveSel / ClearSel exchanges)'},
    {'python': 'pyipmi/sdr.py:Sdr._get_sdr_chunk; pyipmi/sensor.py:Sensor._get_device_sdr_chunk (chunk fetching in place, '
               'operations in a row on one connection)', 'coq': 'Model.SdrIO.chunk_prog/get_sdr/sdr_entries (stateless, replayed per step)'},
    {'python': 'pyipmi/sdr.py:Sdr.clear_sdr_repository/_clear_sdr_repository/reserve_sdr_repository',
     'coq': 'Model.Helper.clear_repository_helper (callables = ReserveSdrRepository / ClearSdrRepository exchanges)'},
]

CC_BUSY, CC_TIMEOUT, CC_CANCEL, CC_UNAVAIL, CC_OTHER = 0xC0, 0xC3, 0xC5, 0xCE, 0xFF
INITIATE, STATUS = 0xAA, 0x00
CALLER_RESV = 0x0777


class Exhausted(BaseException):
    """the implementation asked for one more outcome than the oracle holds"""

    def __init__(self, kind):
        self.kind = kind


class Oracle:
    def __init__(self, outcomes, events):
        self.os, self.i, self.events = list(outcomes), 0, events

    def next(self, call):
        if self.i >= len(self.os):
            raise Exhausted(call[0])
        o = tuple(self.os[self.i])
        self.i += 1
        self.events.append(('call', call, o))
        return o


def _raise(o):
    import pyipmi.errors as E
    if o[0] == 'cc':
        raise E.CompletionCodeError(o[1])
    raise E.IpmiTimeoutError()          # the 'other exception' letter


@contextlib.contextmanager
def fake_sleep(events):
    """pyipmi.helper uses the module global `time`: give it a stand-in whose sleep records."""
    import pyipmi.helper as H

    def sleep(s):
        if s < 0:
            raise ValueError('sleep length must be non-negative')
        events.append(('sleep', int(round(s * 1000))))
    old = H.time
    H.time = types.SimpleNamespace(sleep=sleep)
    try:
        yield
    finally:
        H.time = old


def _finish(fn):
    try:
        v = fn()
        return ('ok', v)
    except Exhausted as x:
        return ('exhausted', x.kind)
    except Exception as e:  # noqa
        return ('err', C.exc_class(e))


def run_clear(inp):
    import pyipmi.helper as H
    events = []
    orc = Oracle(inp['os'], events)

    def reserve_fn():
        o = orc.next(('reserve',))
        if o[0] != 'val':
            _raise(o)
        return o[1]

    def clear_fn(ctrl, reservation):
        o = orc.next(('clear', ctrl, reservation))
        if o[0] != 'val':
            _raise(o)
        return o[1]
    with fake_sleep(events):
        out = _finish(lambda: H.clear_repository_helper(reserve_fn, clear_fn, inp['retry'], inp['resv']))
    return events, out


def run_chunk(inp):
    import pyipmi.helper as H
    events = []
    orc = Oracle(inp['os'], events)
    req = types.SimpleNamespace(reservation_id=inp['resv'])

    def reserve_fn():
        o = orc.next(('reserve',))
        if o[0] != 'val':
            _raise(o)
        return o[1]

    def send_fn(r):
        assert r is req
        o = orc.next(('send', r.reservation_id))
        if o[0] != 'val':
            _raise(o)
        return types.SimpleNamespace(completion_code=o[1])

    def go():
        H.get_sdr_chunk_helper(send_fn, req, reserve_fn, inp['retry'])
        return req.reservation_id
    with fake_sleep(events):
        out = _finish(go)
    return events, out


def run_send(inp):
    import pyipmi
    events = []
    orc = Oracle(inp['os'], events)

    class Itf:
        def send_and_receive(self, req):
            o = orc.next(('xfer',))
            if o[0] != 'val':
                _raise(o)
            return types.SimpleNamespace(tag=o[1])
    ipmi = pyipmi.create_connection(Itf())
    ipmi.target = pyipmi.Target(0x20)
    req = types.SimpleNamespace()
    with fake_sleep(events):
        out = _finish(lambda: ipmi.send_message(req, inp['retry']).tag)
    return events, out


def run_api(inp):
    """clear_sel / clear_sdr_repository end to end through a scripted interface: outcomes
    become reply bytes; events are reconstructed from the recorded exchanges."""
    import pyipmi.errors as E
    from . import fakeif
    events = []
    orc = Oracle(inp['os'], events)
    reserve_cmd, clear_cmd = {'sel': (0x42, 0x47), 'sdr': (0x22, 0x27)}[inp['store']]
    wrong = []

    def handler(netfn, cmd, lun, data, req):
        if netfn == 0x0a and cmd == reserve_cmd and data == b'':
            o = orc.next(('reserve',))
            if o[0] == 'val':
                return bytes([0, o[1] & 0xff, o[1] >> 8])
        elif netfn == 0x0a and cmd == clear_cmd and len(data) == 6 and data[2:5] == b'CLR':
            o = orc.next(('clear', data[5], data[0] | data[1] << 8))
            if o[0] == 'val':
                return bytes([0, o[1]])
        else:
            wrong.append((netfn, cmd, data.hex()))
            return bytes([0xC1])
        if o[0] == 'cc':
            return bytes([o[1]])
        raise E.IpmiTimeoutError()
    ipmi, itf = fakeif.connect(handler)
    fn = {'sel': ipmi.clear_sel, 'sdr': ipmi.clear_sdr_repository}[inp['store']]
    with fake_sleep(events):
        out = _finish(lambda: fn(inp['retry']))
    if wrong:
        out = ('err', 'wrong-request %r' % (wrong[0],))
    return events, out


RUNNERS = {'clear': run_clear, 'chunk': run_chunk, 'send': run_send, 'api': run_api}


# ----------------------------------------------------------------------------
# oracles: the property on the observed events (independent of the model)
# ----------------------------------------------------------------------------
def _calls(events):
    return [(e[1], e[2]) for e in events if e[0] == 'call']


def oracle_clear(inp, events, out):
    """returns (key, message) or None"""
    if out[0] == 'exhausted':
        return None
    budget = max(inp['retry'] - 1, 0)
    calls = _calls(events)
    if inp.get('fn') == 'api' and out[0] == 'err' and out[1].startswith('wrong-request'):
        return 'clear:wrong-command', 'unexpected request %s' % out[1]
    n_init = sum(1 for c, o in calls if c[0] == 'clear' and c[1] == INITIATE)
    n_stat = sum(1 for c, o in calls if c[0] == 'clear' and c[1] == STATUS)
    n_res = sum(1 for c, o in calls if c[0] == 'reserve')
    n_cancel = sum(1 for c, o in calls if c[0] == 'clear' and o == ('cc', CC_CANCEL))
    if any(c[0] == 'clear' and c[1] not in (INITIATE, STATUS) for c, o in calls):
        return 'clear:wrong-command', 'clear called with an action that is neither initiate nor get-status'
    if n_init > budget or n_stat > budget:
        return 'clear:budget-exceeded', ('%d initiate / %d status calls with retry=%d (bound retry-1 per phase)'
                                         % (n_init, n_stat, inp['retry']))
    if n_res > (1 if inp['resv'] is None else 0) + n_cancel:
        return 'clear:budget-exceeded', '%d reservations for %d cancellations' % (n_res, n_cancel)
    cur = inp['resv']
    started = False
    for c, o in calls:
        if c[0] == 'reserve':
            if o[0] == 'val':
                cur = o[1]
        else:
            if cur is None or c[2] != cur:
                return 'clear:stale-reservation', ('clear(0x%02x) carried reservation %r, most recent is %r'
                                                   % (c[1], c[2], cur))
            if c[1] == STATUS and not started:
                return 'clear:status-before-initiate', 'erase status polled before an erase was initiated'
            if c[1] == INITIATE and o[0] == 'val' and o[1] != 0:
                started = True
    last = calls[-1] if calls else None
    complete = bool(last and last[0][0] == 'clear' and last[0][1] == STATUS and last[1][0] == 'val' and last[1][1] != 0)
    if (out[0] == 'ok') != complete:
        return ('clear:success-without-complete' if out[0] == 'ok' else 'clear:complete-not-reported',
                'returned %r but the last call was %r' % (out, last))
    for c, o in calls:
        if o[0] == 'cc' and o[1] != 0 and not (c[0] == 'clear' and o[1] == CC_CANCEL):
            if out != ('err', 'CCError %d' % o[1]):
                return 'clear:code-not-propagated', 'completion code 0x%02x raised by %s ended as %r' % (o[1], c[0], out)
        if o[0] == 'exc' and out != ('err', 'TimeoutError'):
            return 'clear:exception-not-propagated', 'exception raised by %s ended as %r' % (c[0], out)
    if out == ('err', 'RetryError'):
        used = n_stat if started else n_init
        if used != budget:
            return 'clear:retry-error-early', 'RetryError after %d of %d allowed calls' % (used, budget)
    return None


def oracle_chunk(inp, events, out):
    if out[0] == 'exhausted':
        return None
    budget = max(inp['retry'] - 1, 0)
    calls = _calls(events)
    n_send = sum(1 for c, o in calls if c[0] == 'send')
    n_res = sum(1 for c, o in calls if c[0] == 'reserve')
    n_cancel = sum(1 for c, o in calls if c[0] == 'send' and o == ('val', CC_CANCEL))
    if n_send > budget or n_res > n_cancel:
        return 'chunk:budget-exceeded', '%d sends, %d reservations (%d cancellations) with retry=%d' % (
            n_send, n_res, n_cancel, inp['retry'])
    cur = inp['resv']
    for k, (c, o) in enumerate(calls):
        if c[0] == 'reserve':
            if o[0] == 'val':
                cur = o[1]
        else:
            if c[1] != cur:
                return 'chunk:stale-reservation', 'request carried reservation %r, most recent is %r' % (c[1], cur)
            if k > 0:
                pc, po = calls[k - 1]
                ok_prev = (pc[0] == 'reserve') or (po[0] == 'val' and po[1] in (CC_TIMEOUT, CC_UNAVAIL))
                if not ok_prev:
                    return 'chunk:resend-without-cause', 'request repeated after %r' % (po,)
    last = calls[-1] if calls else None
    done = bool(last and last[0][0] == 'send' and last[1] == ('val', 0))
    if (out[0] == 'ok') != done:
        return 'chunk:success-mismatch', 'returned %r but the last call was %r' % (out, last)
    if out[0] == 'ok' and out[1] != cur:
        return 'chunk:stale-reservation', 'request left with reservation %r, most recent is %r' % (out[1], cur)
    for c, o in calls:
        if c[0] == 'send' and o[0] == 'val' and o[1] not in (0, CC_CANCEL, CC_TIMEOUT, CC_UNAVAIL):
            if out != ('err', 'CCError %d' % o[1]):
                return 'chunk:code-not-propagated', 'completion code 0x%02x ended as %r' % (o[1], out)
        if o[0] == 'cc' and out != ('err', 'CCError %d' % o[1]):
            return 'chunk:code-not-propagated', 'raised completion code 0x%02x ended as %r' % (o[1], out)
        if o[0] == 'exc' and out != ('err', 'TimeoutError'):
            return 'chunk:exception-not-propagated', 'exception ended as %r' % (out,)
    if out == ('err', 'RetryError') and n_send != budget:
        return 'chunk:retry-error-early', 'RetryError after %d of %d allowed sends' % (n_send, budget)
    return None


def oracle_send(inp, events, out):
    if out[0] == 'exhausted':
        return None
    calls = _calls(events)
    if len(calls) > max(inp['retry'], 0):
        return 'send_message:budget-exceeded', '%d sends with retry=%d' % (len(calls), inp['retry'])
    for c, o in calls[:-1]:
        if o != ('cc', CC_BUSY):
            return ('send_message:resend-after-non-busy',
                    'request sent again after %s' % ('CompletionCodeError(0x%02x)' % o[1] if o[0] == 'cc' else repr(o)))
    last = calls[-1] if calls else None
    if (out[0] == 'ok') != bool(last and last[1][0] == 'val'):
        return 'send_message:success-mismatch', 'returned %r but the last send gave %r' % (out, last)
    if out[0] == 'ok' and out[1] != last[1][1]:
        return 'send_message:wrong-response', 'returned response %r, last received %r' % (out[1], last[1][1])
    return None


ORACLES = {'clear': oracle_clear, 'api': oracle_clear, 'chunk': oracle_chunk, 'send': oracle_send}


def judge(inp):
    events, out = RUNNERS[inp['fn']](inp)
    return events, out, ORACLES[inp['fn']](inp, events, out)


def oracle_sdr_history(inp):
    """record-chunk fetching in place: several SDR reads / listings in one process, on one Ipmi object and
    on objects created later, against fresh devices whose reservation counters restart.  Every Get request
    of every step must carry the reservation it has to (the one just obtained / held by this operation,
    never one remembered from an earlier operation) and the request count stays within the bound."""
    steps = inp['calls']
    for k, (st, ob) in enumerate(zip(steps, S.run_history(steps))):
        dev, log, sleeps, out, resv = ob
        v = S.oracle_resv(st, log, resv)
        if v:
            return k, v[0], 'step %d of %d (%s %s on connection %s): %s' % (k + 1, len(steps), st['op'], st['store'],
                                                                          st.get('conn', 0), v[1])
    return None


def replay(data):
    if 'input' not in data.get('replay', {}):
        return False        # a broken proof / correspondence without a failing input: nothing to re-run
    if data['replay'].get('oracle') == 'sdr_history':
        return oracle_sdr_history(data['replay']['input']) is None
    inp = data['replay']['input']
    inp = dict(inp, os=[tuple(o) for o in inp['os']])
    return judge(inp)[2] is None


# ----------------------------------------------------------------------------
# Coq literals
# ----------------------------------------------------------------------------
def c_outcome(o):
    if o[0] == 'val':
        return '(OVal %d)' % o[1]
    if o[0] == 'cc':
        return '(OCc %d)' % o[1]
    return '(OExc TimeoutError)'


def c_call(c):
    if c[0] == 'reserve':
        return 'CReserve'
    if c[0] == 'clear':
        return '(CClear %d %d)' % (c[1], c[2])
    if c[0] == 'send':
        return '(CSend %d)' % c[1]
    return 'CXfer'


def c_event(e):
    if e[0] == 'sleep':
        return '(ESleep %d)' % e[1]
    return '(ECall %s %s)' % (c_call(e[1]), c_outcome(e[2]))


def c_out(out):
    if out[0] == 'ok':
        return '(Ok %s)' % C.c_opt(None if out[1] is None else C.c_N(out[1]))
    if out[0] == 'exhausted':
        return '(Err OutOfFuel)'
    return '(Err %s)' % C.c_err(out[1])


def term(inp, events, out):
    os_ = C.c_list([c_outcome(o) for o in inp['os']])
    evs = C.c_list([c_event(e) for e in events])
    if inp['fn'] in ('clear', 'api'):
        return 'chk_clear %s %s %s %s %s' % (C.c_Z(inp['retry']), C.c_opt(None if inp['resv'] is None else C.c_N(inp['resv'])),
                                             os_, evs, c_out(out))
    if inp['fn'] == 'chunk':
        return 'chk_chunk %s %d %s %s %s' % (C.c_Z(inp['retry']), inp['resv'], os_, evs, c_out(out))
    return 'chk_send %s %s %s %s' % (C.c_Z(inp['retry']), os_, evs, c_out(out))


# ----------------------------------------------------------------------------
# alphabets: which outcomes the callable that asked for one can produce
# ----------------------------------------------------------------------------
def alphabet(fn, kind, pos, full):
    if kind == 'reserve':
        # a fresh id (distinct per position), or a failing reservation
        return [('val', 0x1000 + pos), ('exc', 'T')] + ([('cc', CC_OTHER)] if full else [])
    if fn in ('clear', 'api'):
        a = [('val', 1), ('val', 0), ('cc', CC_CANCEL), ('cc', CC_TIMEOUT), ('cc', CC_UNAVAIL), ('cc', CC_BUSY),
             ('cc', CC_OTHER), ('exc', 'T')]
        if fn == 'clear' and full:
            a += [('val', 2), ('cc', 0)]       # a reserved status value; CompletionCodeError(0)
        return a
    if fn == 'chunk':
        return [('val', 0), ('val', CC_CANCEL), ('val', CC_TIMEOUT), ('val', CC_UNAVAIL), ('val', CC_BUSY),
                ('val', CC_OTHER), ('exc', 'T')] + ([('cc', CC_OTHER)] if full else [])
    # send_message: completed / node busy / other raised codes / other exception
    a = [('val', pos + 1), ('cc', CC_BUSY), ('cc', CC_TIMEOUT), ('cc', CC_OTHER), ('exc', 'T')]
    if full:
        a += [('cc', CC_CANCEL), ('cc', CC_UNAVAIL)]
    return a


def enumerate_fn(base, maxlen, full, limit):
    """demand-driven exhaustive enumeration; yields (inp, events, out, verdict)"""
    stack = [()]
    n = 0
    while stack:
        os_ = stack.pop()
        inp = dict(base, os=list(os_))
        events, out, verdict = judge(inp)
        yield inp, events, out, verdict
        n += 1
        if n >= limit:
            return
        if out[0] == 'exhausted' and len(os_) < maxlen:
            for a in reversed(alphabet(base['fn'], out[1], len(os_), full)):
                stack.append(os_ + (a,))


def run(ctx):
    rng = ctx.rng
    q = ctx.quick
    res = C.Result(model_map=MODEL_MAP)
    D = C.Distinct()
    terms, meta = [], []
    fails = {}
    maxlen = 8 if q else 10
    truncated = []

    def record(inp, events, out, verdict, kind):
        terms.append(term(inp, events, out))
        meta.append({'input': inp, 'events': len(events), 'out': list(out)})
        D.add((inp['fn'], inp.get('store'), inp['retry'], inp['resv'] if 'resv' in inp else None, tuple(inp['os'])),
              len(inp['os']) > 0, kind)
        if verdict and verdict[0] not in fails:
            fails[verdict[0]] = C.Violation(key=verdict[0], what='%s(retry=%d): %s' % (inp['fn'], inp['retry'], verdict[1]),
                                            replay={'oracle': inp['fn'], 'input': inp, 'observed_events': events,
                                                    'observed_outcome': list(out)})

    # H. chunk fetching in place, with history: SDR reads and listings in a row on one Ipmi object and on
    # later created ones; an earlier read has its reservation cancelled and renewed; the devices of the later
    # steps hand out the same reservation values again (counter restarted / small ids).  Each step is
    # compared with the stateless model (Model/SdrIO.v replayed from a clean state) and judged.
    hid = 0
    for rep in range(30 if q else 200):
        hid += 1
        store = ('repo', 'dev')[rep % 2]
        ids = rng.sample(range(1, 14), 3)
        mine = [S.mk_record(rng, i, rng.choice([5, 9, 16, 28, 30, 47])).hex() for i in ids]
        res0 = rng.choice([None, {'repo': 0, 'dev': 0}, {'repo': 0, 'dev': 7}, {'repo': 65534, 'dev': 65534}])
        lim = rng.choice([255, 20, 16, 8])

        def hstep(conn, op, plan, resv):
            st = {'repo': mine if store == 'repo' else [], 'dev': mine if store == 'dev' else [], 'limit': lim,
                  'plan': plan, 'op': op, 'store': store, 'resv': resv, 'conn': 'c13h%d-%s' % (hid, conn)}
            if res0 is not None:
                st['res0'] = res0
            if op == 'get':
                rec = bytes.fromhex(rng.choice(mine))
                st['rid'] = rec[0] | rec[1] << 8
            return st
        resv = rng.choice(['none', 'valid'])
        cancel = [('none',)] * rng.randrange(1, 5) + [('cancel',)]
        steps = [hstep(0, 'get', cancel, resv), hstep(0, 'get', [], resv), hstep(0, rng.choice(['get', 'list']), [], 'none'),
                 hstep(1, 'get', cancel if rep % 2 else [], resv), hstep(0, 'get', [], rng.choice(['none', 'valid']))]
        steps = steps[:rng.randrange(2, 6)]
        first = None
        for k, (st, ob) in enumerate(zip(steps, S.run_history(steps))):
            dev, log, sleeps, out, resv_used = ob
            terms.append(S.term(st, dev, log, sleeps, out, resv_used))
            meta.append({'input': {'history-step': k, 'op': st['op'], 'store': st['store'], 'conn': st['conn']}, 'events': len(log),
                         'out': [out[0] if out[0] == 'ok' else out[1]]})
            D.add(('sdr-history', hid, k, st['op'], store, tuple(map(tuple, st['plan']))), True, 'history sdr reads')
            v = S.oracle_resv(st, log, resv_used)
            if v and first is None:
                first = (k, v)
        if first and first[1][0] not in fails:
            k, v = first
            seq = C.shrink_history('C13', 'sdr_history', steps[:k + 1])
            fails[v[0]] = C.Violation(key=v[0], what='%s [history of %d operation(s)]' % (v[1], len(seq or steps[:k + 1])),
                                      replay={'oracle': 'sdr_history', 'input': {'calls': seq or steps[:k + 1]}},
                                      found_input=bool(seq))
    budgets = [0, 1, 2, 3, 4, 5, 6]
    cap = 60000 if q else 400000
    for retry in budgets:
        for resv in (None, CALLER_RESV):
            base = {'fn': 'clear', 'retry': retry, 'resv': resv}
            k = 0
            for x in enumerate_fn(base, maxlen, not q, cap):
                record(*x, kind='clear r=%d' % retry)
                k += 1
            if k >= cap:
                truncated.append(('clear', retry))
    for retry in budgets[1:]:
        base = {'fn': 'chunk', 'retry': retry, 'resv': CALLER_RESV}
        k = 0
        for x in enumerate_fn(base, maxlen, not q, cap):
            record(*x, kind='chunk r=%d' % retry)
            k += 1
        if k >= cap:
            truncated.append(('chunk', retry))
    for retry in [-1] + budgets:
        base = {'fn': 'send', 'retry': retry}
        k = 0
        for x in enumerate_fn(base, maxlen, not q, cap):
            record(*x, kind='send r=%d' % retry)
            k += 1
        if k >= cap:
            truncated.append(('send', retry))
    # the two users of the clear helper, end to end through Ipmi + message codec
    for store in ('sel', 'sdr'):
        for retry in ([2, 5] if q else [1, 2, 3, 5]):
            base = {'fn': 'api', 'store': store, 'retry': retry, 'resv': None}
            for x in enumerate_fn(base, 4 if q else 6, False, cap):
                record(*x, kind='api %s' % store)
    # random long sequences with larger budgets (beyond the exhaustive bound)
    for _ in range(300 if q else 5000):
        fn = rng.choice(['clear', 'chunk', 'send'])
        retry = rng.randrange(1, 13)
        base = {'fn': fn, 'retry': retry}
        if fn != 'send':
            base['resv'] = rng.choice([None, CALLER_RESV]) if fn == 'clear' else CALLER_RESV
        os_ = []
        while True:
            inp = dict(base, os=list(os_))
            events, out, verdict = judge(inp)
            if out[0] != 'exhausted' or len(os_) >= 40:
                break
            a = alphabet(fn, out[1], len(os_), True)
            # bias towards the letters that keep the loop going
            cont = [x for x in a if x in (('val', 0), ('cc', CC_CANCEL), ('val', CC_CANCEL), ('val', CC_TIMEOUT),
                                           ('val', CC_UNAVAIL), ('cc', CC_BUSY))] or a
            os_.append(rng.choice(cont if rng.random() < 0.8 else a))
        record(inp, events, out, verdict, kind='random ' + fn)

    failing, errors = C.coq_cases('C13', 'Corr.C13 Model.Helper Lib.Prog Model.SdrIO Corr.C11', terms)
    res.mismatches = [{'case': meta[i], 'term': terms[i]} for i in failing[:50]]
    res.corr_errors = errors
    res.evaluations = len(terms)
    res.distinct_nontrivial = D.distinct
    res.histogram = D.hist
    res.exhaustive = not truncated
    res.extra['truncated'] = truncated
    res.rule = ('demand-driven exhaustive enumeration of outcome sequences up to length %d (a sequence is extended by every '
                'letter of the asking callable exactly when the implementation asks for one more outcome): '
                'clear_repository_helper budgets 0..6 with and without caller reservation, get_sdr_chunk_helper budgets 1..6, '
                'send_message budgets -1..6; clear_sel / clear_sdr_repository end to end; random long sequences with budgets '
                '1..12; SDR reads / listings in a row on one Ipmi object and on later ones against devices with restarting '
                'reservation counters (history stage, per step vs the stateless model). Compared: exact call + sleep sequence and final outcome. distinct = distinct (function, budget, '
                'reservation, oracle); non-trivial = at least one call made' % maxlen)
    res.samples = [{'term': terms[i], 'case': meta[i]} for i in (1, len(terms) // 3, len(terms) // 2, len(terms) - 1)]
    res.oracle_failures = list(fails.values())
    res.assumptions = ['time.sleep substituted by a recorder (pyipmi.helper.time); real-time behaviour not covered',
                       'budget <= 0 of get_sdr_chunk_helper not modelled (no caller passes it)']
    return res
