"""How the C05 / C06 harnesses reach the LAN code of the library.

Rule: neither harness nor model tie may DEPEND on private names of the library
(`_send_ipmi_msg`, `_receive_ipmi_msg`, `_receive_asf_msg`, `_session`, `_sock`, ...).  A private
name is only an optional fast path (it allows arbitrary payload bytes / arbitrary received
datagrams to be observed directly); when it is absent - renamed, split, merged by a refactoring -
the same code is reached through the public entry points (`Rmcp.open`, `establish_session`,
`send_and_receive_raw`, `ping`, `IpmiMsg().pack/unpack`, `RmcpMsg().pack/unpack`, `AsfPong().unpack`)
with the UDP socket substituted from outside (the `socket` factory of the module during `open()`).
`VERIF_PUBLIC_ONLY=1` forces the public paths (used to test them on the unchanged tree).
"""
import os
import socket

PUBLIC_ONLY = bool(os.environ.get('VERIF_PUBLIC_ONLY'))
PONG = bytes([6, 0, 0xff, 6, 0, 0, 0x11, 0xbe, 0x40, 0, 0, 0x10, 0, 0, 0x11, 0xbe, 0, 0, 0, 0, 0x81, 0, 0, 0, 0, 0, 0, 0])
PING = bytes([6, 0, 0xff, 6, 0, 0, 0x11, 0xbe, 0x80, 0, 0, 0])
notes = {}          # observations about which paths were used / what was missing (copied into the evidence)


def note(k, v=True):
    notes[k] = v


def rmcp_mod():
    import pyipmi.interfaces.rmcp as rmcp
    return rmcp


def has(obj, name):
    return (not PUBLIC_ONLY) and hasattr(obj, name)


class FakeSock:
    """Stands for the UDP socket.  rx: datagrams to hand out; responder(dg) -> list of datagrams."""

    def __init__(self, rx=(), responder=None):
        self.sent = []
        self.rx = list(rx)
        self.responder = responder

    def sendto(self, pdu, addr):
        self.sent.append(bytes(pdu))
        if self.responder is not None:
            self.rx = list(self.responder(bytes(pdu)))

    def recvfrom(self, n):
        if not self.rx:
            raise socket.timeout()
        return (self.rx.pop(0), ('bmc', 623))

    def settimeout(self, t):
        pass

    def close(self):
        pass


class _SocketModule:
    """Stands for the `socket` module inside pyipmi.interfaces.rmcp while open() runs."""

    def __init__(self, sock):
        self._sock = sock

    def socket(self, *a, **k):
        return self._sock

    def __getattr__(self, k):
        return getattr(socket, k)


def give_socket(itf, sock):
    """Make the interface use `sock`: through the public open() with the module's socket factory
    substituted; only if that does not take, by assigning the private attribute."""
    mod = rmcp_mod()
    saved = mod.socket
    mod.socket = _SocketModule(sock)
    try:
        itf.open()
        ok = True
    except Exception as e:  # noqa
        ok = False
        note('open() with substituted socket factory raised', type(e).__name__)
    finally:
        mod.socket = saved
    if not ok:
        itf._sock = sock
    try:
        itf.host, itf.port = 'bmc', 623
    except Exception:  # noqa
        pass
    return itf


def new_interface(sock, **kw):
    return give_socket(rmcp_mod().Rmcp(**kw), sock)


def le32(v):
    return bytes((v >> (8 * i)) & 0xff for i in range(4))


def req_frame(rs_sa, netfn, rs_lun, rq_sa, rq_seq, cmd, data, rq_lun=0):
    """IPMB request frame, built from the format (independent of the library)"""
    head = [rs_sa, (netfn << 2) | rs_lun]
    head.append(-sum(head) % 256)
    rest = [rq_sa, (rq_seq << 2) | rq_lun, cmd] + list(data)
    rest.append(-sum(rest) % 256)
    return bytes(head + rest)


def reply_datagram(req_dg, data, auth=0, delta=0, zero=False):
    """the datagram a BMC sends back for request datagram req_dg carrying response data (cc + fields),
    session header of type `auth`; length byte off by delta (or 0 when zero) - built from the formats"""
    body = req_dg[4:]
    f = body[(10 if body[0] == 0 else 26):]
    rs_sa, b1, _, rq_sa, b4, cmd = f[:6]
    head = [rq_sa, (((b1 >> 2) | 1) << 2) | (b4 & 3)]
    head.append(-sum(head) % 256)
    rest = [rs_sa, (b4 & 0xfc) | (b1 & 3), cmd] + list(data)
    rest.append(-sum(rest) % 256)
    frame = bytes(head + rest)
    ln = 0 if zero else (len(frame) + delta) % 256
    hdr = bytes([auth]) + bytes([1, 0, 0, 0, 2, 0, 0, 0]) + (bytes(range(16)) if auth != 0 else b'')
    return bytes([6, 0, 0xff, 7]) + hdr + bytes([ln]) + frame


def _granting_bmc(dg):
    """answers a whole handshake (type none offered) - only used to get a Session object attached
    to an interface through establish_session when the private attribute is not available"""
    if dg == PING:
        return [PONG]
    body = dg[4:]
    f = body[(10 if body[0] == 0 else 26):]
    cmd = f[5]
    data = {0x38: bytes([0, 1, 0x01, 0, 0, 0, 0, 0, 0]),
            0x39: bytes([0]) + le32(0x11223344) + bytes(16),
            0x3a: bytes([0, 0]) + le32(0x55667788) + le32(1) + bytes([4]),
            0x3b: bytes([0, 4]), 0x3c: bytes([0])}.get(cmd, bytes([0]))
    return [reply_datagram(dg, data)]


SESSION_FIELDS = ('auth_type', 'sid', 'sequence_number', 'activated')


def attach_session(itf, sock, session):
    """Make the interface send under `session` (a Session object in an arbitrary state)."""
    if session is None:
        return 'none'
    if has(type(itf), '_session'):
        itf._session = session
        return 'private'
    # public: a handshake against a BMC that grants everything, then the wanted state is put back
    # (all four are public attributes of Session)
    want = {k: getattr(session, k) for k in SESSION_FIELDS}
    session.sid, session.sequence_number, session.activated = 0, 0, False     # any state must not disturb the handshake
    rmcp = rmcp_mod()
    saved_cr, saved_resp = rmcp.call_repeatedly, sock.responder
    rmcp.call_repeatedly = lambda *a, **k: (lambda: None)          # no keep-alive thread
    sock.responder = _granting_bmc
    try:
        session.set_session_type_rmcp('bmc', 623)
        itf.establish_session(session)
    except Exception as e:  # noqa
        note('establish_session against the granting BMC raised', '%s: %s' % (type(e).__name__, e))
    finally:
        rmcp.call_repeatedly = saved_cr
        sock.responder = saved_resp
        sock.sent, sock.rx = [], []
    for k, v in want.items():
        setattr(session, k, v)
    note('session attached through establish_session (no private _session)')
    return 'public'


def frame_args(data):
    """arbitrary bytes (>= 7) -> the arguments of a raw request whose IPMB frame has the same length"""
    rs_sa = (data[0] & 0xfe) or 0x20
    return {'rs_sa': rs_sa, 'netfn': (data[1] >> 2) & 0x3e, 'lun': data[1] & 3, 'rq_sa': data[3],
            'rq_seq': data[4] >> 2, 'cmd': data[5], 'data': bytes(data[6:-1])}


def send_payload(itf, sock, data):
    """Send one IPMI-over-LAN datagram whose payload is `data`.
    -> (exception or None, payload actually carried) ; fast path: Rmcp._send_ipmi_msg(data) (any bytes);
    public path: send_and_receive_raw of a request whose IPMB frame stands for `data` (same length,
    same bytes where the frame format leaves a choice) - only for len(data) >= 7, else returns None"""
    if has(itf, '_send_ipmi_msg'):
        try:
            itf._send_ipmi_msg(data)
            return None, bytes(data)
        except Exception as e:  # noqa
            return e, bytes(data)
    if len(data) < 7:
        return None
    import pyipmi
    a = frame_args(data)
    itf.slave_address = a['rq_sa']
    itf.next_sequence_number = (a['rq_seq'] - 1) % 64
    eff = req_frame(a['rs_sa'], a['netfn'], a['lun'], a['rq_sa'], a['rq_seq'], a['cmd'], a['data'])
    note('datagrams sent through send_and_receive_raw (no private _send_ipmi_msg)')
    n0 = len(sock.sent)
    try:
        itf.send_and_receive_raw(pyipmi.Target(a['rs_sa']), a['lun'], a['netfn'], bytes([a['cmd']]) + a['data'])
        exc = None
    except Exception as e:  # noqa
        exc = e
    if len(sock.sent) > n0:
        exc = None              # the datagram went out; the exception is the missing reply
    return exc, eff


def receive_payload(q, dgram):
    """What the interface makes of one received datagram with the length check disabled = q.
    -> ('rmcp', exception or None, payload bytes)  observed at Rmcp level (private fast path), or
       ('classes', exception or None, payload bytes) observed through the public classes
       RmcpMsg().unpack / IpmiMsg(ignore_sdu_length=q).unpack (the message-class check of the
       interface is then not part of this observation: None is returned for class != 7)"""
    rmcp = rmcp_mod()
    if has(rmcp.Rmcp, '_receive_ipmi_msg'):
        itf = new_interface(FakeSock([dgram]))
        try:
            return 'rmcp', None, bytes(itf._receive_ipmi_msg(q))
        except Exception as e:  # noqa
            return 'rmcp', e, None
    note('received datagrams observed through RmcpMsg / IpmiMsg classes (no private _receive_ipmi_msg)')
    try:
        m = rmcp.RmcpMsg()
        sdu = m.unpack(dgram)
        if m.class_of_msg != 7:
            return None
        out = rmcp.IpmiMsg(ignore_sdu_length=q).unpack(sdu)
        if out is None:
            raise TypeError('empty payload')
        return 'classes', None, bytes(out)
    except Exception as e:  # noqa
        return 'classes', e, None


def ping_with(dgram):
    """Rmcp.ping() (public) with `dgram` as the answer -> exception or None, datagrams sent"""
    sock = FakeSock(responder=lambda d: [dgram])
    itf = new_interface(sock)
    try:
        itf.ping()
        return None, sock.sent
    except Exception as e:  # noqa
        return e, sock.sent


WILD = 1 << 40      # "not observable" in a state signature (the Coq checkers accept it for any value)


def peek(obj, name, f=lambda x: x):
    """value of a non-public attribute if it exists, else WILD"""
    if PUBLIC_ONLY or not hasattr(obj, name):
        note('attribute %s not observed' % name)
        return WILD
    return f(getattr(obj, name))
