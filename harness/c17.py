"""C17 - sensor reading conversion implements the IPMI formula and its inverse.

Oracle (property on the implementation, independent of the model; exact integer
arithmetic scaled by 10^16):
  forward  |convert_sensor_raw_to_value(raw) - (M x + B 10^K1) 10^K2| <= 2^-50 (|M x| + |B| 10^K1) 10^K2
           with x = raw read as unsigned / 1's / 2's complement, for all 256 raw x 3 formats x all
           16 x 16 exponent pairs x boundary + seeded (M, B) pairs; None -> None;
           the twelve linearisations against independently written references;
  inverse  convert_sensor_value_to_raw(convert_sensor_raw_to_value(raw)) == raw for the same
           domain with M != 0 (1's-complement negative zero excepted).

Correspondence: on a sample of the same domain Coq evaluates (checker chk_conv) the float
model (bit-exact), the exact model (within the stated tolerance), the float inverse and the
exact inverse against the implementation's results; chk_inv: float inverse on arbitrary
values; chk_pow10: Python's 10**k operands; chk_lin: the code -> function table; chk_none.
"""
import math

from . import common as C

MODEL_MAP = [
    {'python': 'pyipmi/sdr.py:SdrFullSensorRecord.convert_sensor_raw_to_value',
     'coq': 'Model.SensorConv.convert_sensor_raw_to_value / raw_signed / linear_Q; Model.SensorConvF.convert_raw_F'},
    {'python': 'pyipmi/sdr.py:SdrFullSensorRecord.convert_sensor_value_to_raw',
     'coq': 'Model.SensorConv.convert_sensor_value_to_raw; Model.SensorConvF.convert_value_F'},
    {'python': 'pyipmi/sdr.py:SdrFullSensorRecord.lin', 'coq': 'Model.SensorConv.lin'},
]
TRUSTED = ['Coq primitive floats (PrimFloat / Uint63 primitives, listed by Print Assumptions for the _partial '
           'float theorem) = IEEE-754 binary64 round-to-nearest-even, as CPython floats',
           'libm through Python math for the eleven non-linear functions (Section variables in Coq)']

SCALE = 10 ** 16
FMT_NAMES = {0: 'unsigned', 1: 'ones_complement', 2: 'twos_complement'}


def mk(fmt, lin, m, b, k1, k2):
    from pyipmi.sdr import SdrFullSensorRecord
    s = SdrFullSensorRecord()
    s.analog_data_format, s.linearization, s.m, s.b, s.k1, s.k2 = fmt, lin, m, b, k1, k2
    return s


def signed(fmt, raw):
    """the reading as a number, by the record's analog data format"""
    if fmt == 1 and raw >= 128:
        return raw - 255          # one's complement: -(~raw & 0xff)
    if fmt == 2 and raw >= 128:
        return raw - 256          # two's complement
    return raw


def exact_scaled(m, b, k1, k2, x):
    """(M x + B 10^K1) 10^K2 * 10^16, an integer for K1, K2 >= -8"""
    return (m * x * 10 ** 8 + b * 10 ** (k1 + 8)) * 10 ** (k2 + 8)


def mag_scaled(m, b, k1, k2, x):
    return (abs(m * x) * 10 ** 8 + abs(b) * 10 ** (k1 + 8)) * 10 ** (k2 + 8)


def within(v, m, b, k1, k2, x):
    if not isinstance(v, float) or v != v or v in (float('inf'), float('-inf')):
        return False
    num, den = v.as_integer_ratio()
    return (abs(num * SCALE - exact_scaled(m, b, k1, k2, x) * den) << 50) <= mag_scaled(m, b, k1, k2, x) * den


def cube_root(x):
    if x < 0:
        raise ValueError('library uses pow(x, 1/3): negative readings are a domain error')
    return x ** (1.0 / 3.0)


# the twelve linearisation functions, written from their names (IPMI 2.0 table 43-1 byte 24)
REF = {0: lambda x: x, 1: math.log, 2: math.log10, 3: math.log2, 4: math.exp,
       5: lambda x: 10.0 ** x, 6: lambda x: 2.0 ** x, 7: lambda x: 1.0 / x,
       8: lambda x: x * x, 9: lambda x: x * x * x, 10: math.sqrt, 11: cube_root}
LIN_NAMES = ['linear', 'ln', 'log10', 'log2', 'e', 'exp10', 'exp2', '1/x', 'sqr', 'cube', 'sqrt', 'cube-1']


def attempt(f):
    try:
        return f()
    except Exception as e:  # noqa
        return e


def fl(v):
    """finite float -> (n, e) with v == n * 2**e exactly, |n| < 2**53"""
    mant, ex = math.frexp(v)
    return int(mant * (1 << 53)), ex - 53


def coq_res(r):
    if isinstance(r, NotImplementedError):
        return '(Err (OtherError NotImplementedErr))'
    if isinstance(r, ValueError):
        return '(Err (OtherError ValueError))'
    if isinstance(r, Exception):
        return '(Err (OtherError OtherExc))'
    return '(Ok %s)' % C.c_Z(r)


def coq_sensor(fmt, lin, m, b, k1, k2):
    return '(mkSensor %d %d %s %s %s %s)' % (fmt, lin, C.c_Z(m), C.c_Z(b), C.c_Z(k1), C.c_Z(k2))


# ---- oracles (replayable) ----
def oracle_forward(inp):
    s = mk(inp['fmt'], 0, inp['m'], inp['b'], inp['k1'], inp['k2'])
    v = attempt(lambda: s.convert_sensor_raw_to_value(inp['raw']))
    x = signed(inp['fmt'], inp['raw'])
    if isinstance(v, Exception) or not within(v, inp['m'], inp['b'], inp['k1'], inp['k2'], x):
        return 'raw %d (%s, x=%d) M=%d B=%d K1=%d K2=%d converts to %r, formula gives %s' % (
            inp['raw'], FMT_NAMES[inp['fmt']], x, inp['m'], inp['b'], inp['k1'], inp['k2'], v,
            exact_scaled(inp['m'], inp['b'], inp['k1'], inp['k2'], x) / SCALE)
    return None


def oracle_inverse(inp):
    s = mk(inp['fmt'], 0, inp['m'], inp['b'], inp['k1'], inp['k2'])
    v = attempt(lambda: s.convert_sensor_raw_to_value(inp['raw']))
    r = attempt(lambda: s.convert_sensor_value_to_raw(v))
    if r != inp['raw'] or isinstance(r, bool):
        return 'raw %d (%s) M=%d B=%d K1=%d K2=%d: value %r converts back to %r' % (
            inp['raw'], FMT_NAMES[inp['fmt']], inp['m'], inp['b'], inp['k1'], inp['k2'], v, r)
    return None


def oracle_lin(inp):
    code = inp['lin']
    s = mk(inp['fmt'], code, inp['m'], inp['b'], inp['k1'], inp['k2'])
    base = attempt(lambda: mk(inp['fmt'], 0, inp['m'], inp['b'], inp['k1'], inp['k2']).convert_sensor_raw_to_value(inp['raw']))
    if not isinstance(base, float):
        return 'linear conversion needed as reference returned %r' % (base,)
    got = attempt(lambda: s.convert_sensor_raw_to_value(inp['raw']))
    want = attempt(lambda: REF[code & 0x7f](base))
    if isinstance(want, Exception):
        ok = isinstance(got, (ValueError, ZeroDivisionError, OverflowError))
    else:
        ok = isinstance(got, float) and (got == want or abs(got - want) <= 1e-12 * abs(want))
    if not ok:
        return 'linearization %d (%s) of %r gives %r, expected %r' % (code, LIN_NAMES[code & 0x7f], base, got, want)
    return None


def oracle_none(inp):
    s = mk(inp['fmt'], inp['lin'], inp['m'], inp['b'], inp['k1'], inp['k2'])
    r = attempt(lambda: s.convert_sensor_raw_to_value(None))
    return None if r is None else 'an absent reading converts to %r' % (r,)


def judge_call(obj, c):
    """one conversion on an existing object, judged as if it were the only conversion ever made
    (the specification has no memory): returns None or (key, message)"""
    fmt, lin, m, b, k1, k2 = (c['p'][k] for k in ('fmt', 'lin', 'm', 'b', 'k1', 'k2'))
    desc = 'fmt=%d lin=%d M=%d B=%d K1=%d K2=%d' % (fmt, lin, m, b, k1, k2)
    if c['op'] == 'none':
        r = attempt(lambda: obj.convert_sensor_raw_to_value(None))
        return None if r is None else ('convert_sensor_raw_to_value:none', 'an absent reading converts to %r (%s)' % (r, desc))
    raw = c['raw']
    x = signed(fmt, raw)
    if c['op'] == 'fwd':
        got = attempt(lambda: obj.convert_sensor_raw_to_value(raw))
        code = lin & 0x7f
        if code > 11:
            ok = isinstance(got, Exception)
            want = 'DecodingError'
        elif code == 0:
            ok = within(got, m, b, k1, k2, x)
            want = exact_scaled(m, b, k1, k2, x) / SCALE
        else:
            base = exact_scaled(m, b, k1, k2, x) / SCALE
            want = attempt(lambda: REF[code](base))
            if isinstance(want, Exception):
                ok = isinstance(got, (ValueError, ZeroDivisionError, OverflowError))
            else:
                ok = isinstance(got, float) and (got == want or abs(got - want) <= 1e-9 * abs(want) + 1e-12)
        if not ok:
            key = 'convert_sensor_raw_to_value:formula' if code == 0 else 'lin:%s' % LIN_NAMES[min(code, 11)] if code < 12 else 'lin:unknown-code'
            return key, 'raw %d (x=%d) %s converts to %r, expected %r' % (raw, x, desc, got, want)
        return None
    # 'rt': value and back (linear, M != 0)
    v = attempt(lambda: obj.convert_sensor_raw_to_value(raw))
    r = attempt(lambda: obj.convert_sensor_value_to_raw(v))
    if r != raw or isinstance(r, bool):
        return 'convert_sensor_value_to_raw:not-inverse', 'raw %d %s: value %r converts back to %r' % (raw, desc, v, r)
    return None


def oracle_conv_seq(inp):
    """conversions on several record objects in ONE process in the given order; an object is
    created on first use and re-configured (attributes assigned) when its parameters change"""
    objs = {}
    for n, c in enumerate(inp['calls']):
        o = objs.get(c['obj'])
        if o is None:
            o = objs[c['obj']] = mk(**c['p'])
        else:
            o.analog_data_format, o.linearization = c['p']['fmt'], c['p']['lin']
            o.m, o.b, o.k1, o.k2 = c['p']['m'], c['p']['b'], c['p']['k1'], c['p']['k2']
        r = judge_call(o, c)
        if r:
            return r[0], 'conversion %d of %d in this process: %s' % (n + 1, len(inp['calls']), r[1])
    return None


ORACLES = {'forward': oracle_forward, 'inverse': oracle_inverse, 'lin': oracle_lin, 'none': oracle_none,
           'conv_seq': oracle_conv_seq}


def replay(data):
    r = data['replay']
    return ORACLES[r['oracle']](r['input']) is None


BOUNDARY_PAIRS = [(1, 0), (2, 3), (-512, 511), (511, -512), (1, 511), (1, -512), (-1, 0), (-1, 511), (511, 0),
                  (-512, 0), (10, 0), (3, 7), (-2, -3), (2, -3), (-511, -1), (510, 1), (7, -100), (100, 37),
                  (-3, 1), (255, 255)]


def run(ctx):
    rng = ctx.rng
    q = ctx.quick
    res = C.Result(model_map=MODEL_MAP)
    D = C.Distinct()
    terms, meta = [], []
    fails = {}

    def add(term, info):
        terms.append(term)
        meta.append(info)

    # the analytic float theorems (Props/C17F.v: Flocq + Interval) are built and their assumptions
    # recorded on every run; they stay outside the coqchk pass (Interval's closure takes > 25 min there)
    import re
    with C.Lock():
        rc_f, out_f = C.make(['Props/C17F.vo'], timeout=900)
    thms_f = re.findall(r'^Theorem\s+(\w+)', (C.COQ / 'Props' / 'C17F.v').read_text(), flags=re.M)
    ax_f = []
    if rc_f == 0:
        (C.BUILD / 'props').mkdir(parents=True, exist_ok=True)
        rc_f, out_f = C.sh(['coqc', '-Q', '.', 'PyIpmi', '-w', '-all', '-o', str(C.BUILD / 'props' / 'C17F.vo'),
                            'Props/C17F.v'], cwd=C.COQ, timeout=600)
        for blk in out_f.split('Axioms:')[1:]:
            ax_f += [m.group(1) for m in re.finditer(r'^(\S+)(?= :|$)', blk, flags=re.M)]
    res.extra['float_theorems'] = {
        'file': 'coq/Props/C17F.v', 'theorems': thms_f, 'checked_by': 'coqc on every run (make Props/C17F.vo); not coqchk',
        'discharged': len(thms_f) if rc_f == 0 else 0, 'axioms': sorted(set(a for a in ax_f if a and a != 'Closed'))}
    if rc_f != 0:
        res.corr_errors.append(('Props/C17F.v', out_f[-3000:]))

    budget = [6]

    def fail(key, what, oracle, inp):
        """single-conversion failure: confirm it alone in a fresh interpreter; if it holds there the
        failure depends on earlier conversions - look for a reproducing history"""
        if key in fails or 'history:' + key in fails:
            return
        single = {'oracle': oracle, 'input': inp}
        if budget[0] <= 0 or oracle == 'none' or not C.holds_in_fresh_process('C17', single):
            fails[key] = C.Violation(key=key, what=what, replay=single)
            return
        budget[0] -= 1
        p = {'fmt': inp['fmt'], 'lin': inp.get('lin', 0), 'm': inp['m'], 'b': inp['b'], 'k1': inp['k1'], 'k2': inp['k2']}
        me = {'obj': 0, 'p': p, 'op': 'rt' if oracle == 'inverse' else 'fwd', 'raw': inp['raw']}
        others = [{'obj': 1 + i, 'p': dict(p, lin=code, fmt=f), 'op': 'fwd', 'raw': inp['raw']}
                  for i, (code, f) in enumerate((c, f) for c in range(12) for f in (0, 1, 2))]
        for cand in ([me, me], others + [me], hist_log[-40:] + [dict(me, obj=-1)]):
            seq = C.shrink_history('C17', 'conv_seq', cand)
            if seq:
                fails['history:' + key] = C.Violation(
                    key='history:' + key,
                    what='%s [correct alone in a fresh interpreter; fails after the %d earlier conversion(s) of the stored '
                         'history]' % (what, len(seq) - 1),
                    replay={'oracle': 'conv_seq', 'input': {'calls': seq}})
                return
        fails[key] = C.Violation(key=key, what=what + ' [holds when replayed alone; no reproducing history found]', replay=single)

    # ---- 0. history stage (first): conversions on several objects in one process in varied order -
    #      objects sharing M, B, K1, K2 but differing in linearisation / format, one object
    #      re-configured between calls, the same call repeated; every call is judged by the
    #      memory-less specification and (linear calls) re-evaluated in Coq
    hist_log = []
    for i in range(10 if q else 80):
        m, b = rng.choice(BOUNDARY_PAIRS[:14] + [(rng.randint(-20, 20) or 1, rng.randint(-50, 50))])
        k1, k2 = rng.choice([(0, 0), (-1, 0), (0, -1), (1, -2), (-2, 1), (0, 1)])
        nobj = rng.randrange(2, 5)
        calls = []
        for j in range(rng.randrange(6, 16)):
            if calls and rng.random() < 0.2:
                c = dict(rng.choice(calls))                    # the same call again
            else:
                lin = rng.choice([0, 0, 0, rng.randrange(12), 0x80, 0x80 | rng.randrange(12), 12])
                p = {'fmt': rng.randrange(3), 'lin': lin, 'm': m, 'b': b, 'k1': k1, 'k2': k2}
                if rng.random() < 0.25:                        # another set of factors in between
                    p['m'], p['b'] = rng.choice(BOUNDARY_PAIRS)
                op = rng.choice(['fwd', 'fwd', 'rt', 'none']) if lin & 0x7f == 0 else rng.choice(['fwd', 'fwd', 'none'])
                raw = rng.choice([0, 1, 2, 127, 128, 200, 254, rng.randrange(256)])
                if op == 'rt' and p['fmt'] == 1 and raw == 255:
                    raw = 254
                c = {'obj': i * 10 + rng.randrange(nobj), 'p': p, 'op': op, 'raw': raw}
            calls.append(c)
        objs = {}
        for c in calls:
            o = objs.get(c['obj'])
            if o is None:
                o = objs[c['obj']] = mk(**c['p'])
            else:
                o.analog_data_format, o.linearization = c['p']['fmt'], c['p']['lin']
                o.m, o.b, o.k1, o.k2 = c['p']['m'], c['p']['b'], c['p']['k1'], c['p']['k2']
            r = judge_call(o, c)
            res.evaluations += 1
            hist_log.append(c)
            if r and r[0] not in fails and 'history:' + r[0] not in fails:
                alone = {'oracle': 'conv_seq', 'input': {'calls': [c]}}
                if not C.holds_in_fresh_process('C17', alone):
                    fails[r[0]] = C.Violation(key=r[0], what=r[1], replay=alone)
                else:
                    seq = C.shrink_history('C17', 'conv_seq', list(hist_log)) or list(hist_log)
                    fails['history:' + r[0]] = C.Violation(
                        key='history:' + r[0],
                        what='%s [correct alone in a fresh interpreter; fails after the %d earlier conversion(s) of the stored '
                             'history]' % (r[1], len(seq) - 1),
                        replay={'oracle': 'conv_seq', 'input': {'calls': seq}})
            if c['op'] != 'none' and c['p']['lin'] & 0x7f == 0:
                # the same call against the stateless Coq models
                v = attempt(lambda: o.convert_sensor_raw_to_value(c['raw']))
                if isinstance(v, float):
                    back = attempt(lambda: o.convert_sensor_value_to_raw(v))
                    n_, e_ = fl(v)
                    pp = c['p']
                    add('chk_conv %s %s' % (coq_sensor(pp['fmt'], pp['lin'], pp['m'], pp['b'], pp['k1'], pp['k2']),
                                            C.c_list(['(%d, (%s, %s), %s)' % (c['raw'], C.c_Z(n_), C.c_Z(e_), coq_res(back))])),
                        ('history', c))
        D.add(('history', i), True, 'history-sequence')

    npairs = 40 if q else 200
    pairs = list(BOUNDARY_PAIRS)
    while len(pairs) < npairs:
        p = (rng.randint(-512, 511), rng.randint(-512, 511))
        if p[0] != 0 and p not in pairs:
            pairs.append(p)
    exps = [(k1, k2) for k1 in range(-8, 8) for k2 in range(-8, 8)]
    extra = []
    if not q:   # every M with boundary B for the reduced exponent set
        extra = [((m, b), (k1, k2)) for m in range(-512, 512) if m for b in (0, 3, 511, -512)
                 for k1 in (-1, 0, 1) for k2 in (-1, 0, 1)]

    # ---- 1. oracle: the whole domain, exact integer arithmetic ----
    def sweep(m, b, k1, k2):
        for fmt in (0, 1, 2):
            s = mk(fmt, 0, m, b, k1, k2)
            conv, back = s.convert_sensor_raw_to_value, s.convert_sensor_value_to_raw
            bt, p2 = b * 10 ** (k1 + 8), 10 ** (k2 + 8)
            for raw in range(256):
                x = raw if raw < 128 or fmt == 0 else raw - 255 if fmt == 1 else raw - 256
                try:
                    v = conv(raw)
                    num, den = v.as_integer_ratio()
                except Exception:  # noqa  (an exception or a non-float result is a wrong result)
                    v, num, den = None, 1, 0
                ex = (m * x * 10 ** 8 + bt) * p2
                mg = (abs(m * x) * 10 ** 8 + abs(bt)) * p2
                if (den == 0 or (abs(num * SCALE - ex * den) << 50) > mg * den) and \
                        'convert_sensor_raw_to_value:formula' not in fails and 'history:convert_sensor_raw_to_value:formula' not in fails:
                    inp = {'fmt': fmt, 'm': m, 'b': b, 'k1': k1, 'k2': k2, 'raw': raw}
                    fail('convert_sensor_raw_to_value:formula', oracle_forward(inp) or 'tolerance', 'forward', inp)
                if fmt == 1 and raw == 255:
                    continue
                try:
                    r = back(v)
                except Exception:  # noqa
                    r = None
                if r != raw and 'convert_sensor_value_to_raw:not-inverse' not in fails and \
                        'history:convert_sensor_value_to_raw:not-inverse' not in fails:
                    inp = {'fmt': fmt, 'm': m, 'b': b, 'k1': k1, 'k2': k2, 'raw': raw}
                    fail('convert_sensor_value_to_raw:not-inverse', oracle_inverse(inp) or 'inverse', 'inverse', inp)
        res.evaluations += 2 * 768

    for (m, b) in pairs:
        for (k1, k2) in exps:
            sweep(m, b, k1, k2)
        D.add(('pair', m, b), True, 'pair-all-exponents')
    for (m, b), (k1, k2) in extra:
        sweep(m, b, k1, k2)
    if extra:
        D.add(('extra', len(extra)), True, 'all-M-reduced-exponents')
    # M = 0: forward only
    for b in (0, 5, -512):
        for (k1, k2) in ((0, 0), (-8, 7), (7, -8)):
            for fmt in (0, 1, 2):
                for raw in range(0, 256, 5):
                    inp = {'fmt': fmt, 'm': 0, 'b': b, 'k1': k1, 'k2': k2, 'raw': raw}
                    msg = oracle_forward(inp)
                    res.evaluations += 1
                    if msg:
                        fail('convert_sensor_raw_to_value:formula', msg, 'forward', inp)
    # None and the twelve linearisations
    lin_params = [(1, 0, 0, 0), (2, 3, 0, -1), (-3, 100, -1, 0), (5, -20, 1, -2), (1, -128, 0, 0)]
    for code in list(range(14)) + [0x7f, 0x80, 0x81, 0x8b, 0x8c, 0xff]:
        for fmt in (0, 1, 2):
            inp = {'fmt': fmt, 'lin': code, 'm': 1, 'b': 0, 'k1': 0, 'k2': 0}
            msg = oracle_none(inp)
            res.evaluations += 1
            if msg:
                fail('convert_sensor_raw_to_value:none', msg, 'none', inp)
    for code in list(range(12)) + [0x80 | c for c in range(12)]:
        for (m, b, k1, k2) in lin_params:
            for fmt in (0, 1, 2):
                for raw in range(256):
                    inp = {'fmt': fmt, 'lin': code, 'm': m, 'b': b, 'k1': k1, 'k2': k2, 'raw': raw}
                    msg = oracle_lin(inp)
                    res.evaluations += 1
                    if msg:
                        fail('lin:%s' % LIN_NAMES[code & 0x7f], msg, 'lin', inp)
        D.add(('lin', code), True, 'linearisation')

    # ---- 2. correspondence (model evaluated in Coq) ----
    for k in range(-8, 9):
        n, e = fl(float(10 ** k))
        add('chk_pow10 %s %s %s' % (C.c_Z(k), C.c_Z(n), C.c_Z(e)), ('pow10', k))
    tags = {}
    for code in list(range(16)) + [0x7f, 0x80, 0x81, 0x85, 0x8b, 0x8c, 0xff]:
        s = mk(0, code, 1, 0, 0, 0)
        f = attempt(lambda: s.lin)
        if isinstance(f, Exception):
            tag = 255
        else:
            # identify the selected function by its values on probe points
            probes = (0.5, 2.0, 3.0)
            tag = 254
            for t, ref in REF.items():
                if attempt(lambda: all(abs(f(p) - ref(p)) <= 1e-12 * abs(ref(p)) for p in probes)) is True:
                    tag = t
                    break
        tags[code] = tag
        add('chk_lin %d %d' % (code, tag), ('lin', code, tag))
        sn = mk(code % 4, code, 3, 4, -1, 1)
        add('chk_none %s %s' % (coq_sensor(code % 4, code, 3, 4, -1, 1),
                                C.c_bool(attempt(lambda: sn.convert_sensor_raw_to_value(None)) is None)), ('none', code))
    cfgs = []
    for i, (m, b) in enumerate(pairs[:40] + [(0, 7), (0, 0)] + (pairs[40:200] if not q else [])):
        ex = [(0, 0), (-8, -8), (7, 7), (-8, 7), (7, -8), (-1, 0), (0, -1)] + [rng.choice(exps) for _ in range(17 if i < 42 else 3)]
        for (k1, k2) in ex:
            for fmt in (0, 1, 2):
                cfgs.append((fmt, m, b, k1, k2))
    for (fmt, m, b, k1, k2) in cfgs:
        s = mk(fmt, 0, m, b, k1, k2)
        raws = sorted(set([0, 1, 127, 128, 129, 254, 255] + [rng.randrange(256) for _ in range(25)]))
        items = []
        broken = False
        for raw in raws:
            v = attempt(lambda: s.convert_sensor_raw_to_value(raw))
            if not isinstance(v, float) or v != v or abs(v) == float('inf'):
                broken = True            # the model always yields a finite float here
                continue
            back = attempt(lambda: s.convert_sensor_value_to_raw(v))
            n, e = fl(v)
            items.append('(%d, (%s, %s), %s)' % (raw, C.c_Z(n), C.c_Z(e), coq_res(back)))
        add('%schk_conv %s %s' % ('false && ' if broken else '', coq_sensor(fmt, 0, m, b, k1, k2), C.c_list(items)),
            ('conv', fmt, m, b, k1, k2))
        D.add(('conv', fmt, m, b, k1, k2), True, 'conv-config')
    # inverse on arbitrary values (rounding ties, out-of-range, negative, other linearisations)
    for _ in range(600 if q else 6000):
        fmt, (m, b), (k1, k2) = rng.randrange(3), rng.choice(pairs + [(0, 1)]), rng.choice(exps)
        lin = rng.choice([0] * 8 + [1, 7, 11, 12, 0x80, 0x81])
        s = mk(fmt, lin, m, b, k1, k2)
        xq = rng.choice([rng.randrange(-300, 600) / 4.0, rng.uniform(-200, 400), rng.randrange(-130, 260) + 0.5,
                         rng.uniform(-1e6, 1e6)])
        v = (m * xq + b * 10.0 ** k1) * 10.0 ** k2
        if rng.random() < 0.1:
            v = int(v)
        back = attempt(lambda: s.convert_sensor_value_to_raw(v))
        n, e = fl(float(v))
        add('chk_inv %s %s %s %s' % (coq_sensor(fmt, lin, m, b, k1, k2), C.c_Z(n), C.c_Z(e), coq_res(back)),
            ('inv', fmt, lin, m, b, k1, k2, v))
        D.add(('inv', fmt, lin, m, b, k1, k2, v), True, 'inverse-arbitrary-value')

    failing, errors = C.coq_cases('C17', 'Model.SensorConv Model.SensorConvF Corr.C17', terms, shard=150)
    res.mismatches = [{'case': meta[i], 'term': terms[i][:600]} for i in failing[:50]]
    res.corr_errors = errors
    res.evaluations += len(terms)
    res.distinct_nontrivial = D.distinct
    res.histogram = D.hist
    res.extra['pairs'] = len(pairs)
    res.extra['tolerance'] = '|float - exact| <= 2^-50 * (|M x| + |B| 10^K1) * 10^K2'
    res.rule = ('history stage first: sequences of 6..15 conversions on 2..4 record objects sharing M, B, K1, K2 but '
                'differing in linearisation / format (objects re-configured, calls repeated), failures confirmed and shrunk in '
                'a fresh interpreter; oracle: all 256 raw x 3 formats x all 256 exponent pairs x %d (M,B) pairs (20 boundary + seeded)%s, '
                'forward within the stated tolerance of the exact formula and inverse(forward(raw)) == raw; M = 0 forward; '
                'None; 24 linearisation codes x 5 parameter sets x 3 formats x 256 raw. Correspondence: %d configurations x '
                '~30 readings (float model bit-exact, exact model within tolerance, float and exact inverse), inverse on '
                'arbitrary values incl. ties and out-of-range, 10**k operands, code->function table. distinct = distinct '
                '(M,B) pairs / configurations / values' % (len(pairs), '' if q else ' + every M x 4 B x 9 exponent pairs', len(cfgs)))
    res.samples = [{'term': terms[i][:300], 'case': meta[i]} for i in (0, len(terms) // 3, len(terms) // 2, len(terms) - 1)]
    res.oracle_failures = list(fails.values())
    res.exhaustive = False
    return res
