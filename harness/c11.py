"""C11 - SDR retrieval exact, complete, survives reservation loss.

The real Ipmi object (get_repository_sdr, get_device_sdr, get_repository_sdr_list,
get_device_sdr_list) is driven through harness/fakeif.py against a small Python SDR device
(two stores, per-read byte limit answered with 0xCA, reservations, a fault plan:
cancellation before / transient completion code at / raised node-busy at a request index).
time.sleep is substituted.  Every exchange is recorded.

Correspondence (Corr/C11.v): the model progs of Model/SdrIO.v are replayed in Coq against
the recorded replies - every request, every sleep and the outcome must agree - and the
Gallina device of the theorems is run on the recorded requests and must give the recorded
replies.

Oracle (independent of the model): returned record bytes / next id / list equal the
device's content; only the reservation command of the store being read is used; a read
that completes without faults also completes when up to two cancellations or one transient
code on a read request are injected.
"""
import contextlib
import types

from . import common as C
from . import fakeif

MODEL_MAP = [
    {'python': 'pyipmi/helper.py:get_sdr_chunk_helper', 'coq': 'Model.SdrIO.chunk_prog'},
    {'python': 'pyipmi/helper.py:get_sdr_data_helper', 'coq': 'Model.SdrIO.get_sdr/data_loop/catch_ca'},
    {'python': 'pyipmi/sdr.py:Sdr._get_sdr_chunk/reserve_sdr_repository/get_repository_sdr',
     'coq': 'Model.SdrIO.get_chunk/reserve/get_sdr (store Repo)'},
    {'python': 'pyipmi/sensor.py:Sensor._get_device_sdr_chunk/reserve_device_sdr_repository/get_device_sdr',
     'coq': 'Model.SdrIO.get_chunk/reserve/get_sdr (store DevSdr)'},
    {'python': 'pyipmi/sdr.py:Sdr.sdr_repository_entries/get_repository_sdr_list; pyipmi/sensor.py:device_sdr_entries/get_device_sdr_list',
     'coq': 'Model.SdrIO.entries_loop/sdr_entries'},
    {'python': 'pyipmi/sdr.py:Sdr.get_repository_sdr/get_repository_sdr_list; pyipmi/sensor.py:Sensor.get_device_sdr/get_device_sdr_list '
               '(SdrCommon.from_data on the fetched bytes, next_id attached)',
     'coq': 'Model.SdrE2E.get_sdr_obj/entries_obj_loop/sdr_list_obj (composition with Model.SdrParse.sdr_from_data of C16)'},
    {'python': 'pyipmi/__init__.py:Ipmi.send_message/send_message_with_name', 'coq': 'Model.SdrIO.send_msg_loop/send_message/reserve'},
    {'python': 'pyipmi/msgs/sdr.py:GetSdrReq/GetSdrRsp/ReserveSdrRepositoryRsp; pyipmi/msgs/sensor.py:GetDeviceSdrReq/...Rsp',
     'coq': 'Model.SdrIO.get_req/reserve_req/dec_get_rsp/dec_reserve_rsp'},
]

NETFN = {'repo': 0x0a, 'dev': 0x04}
GETCMD = {'repo': 0x23, 'dev': 0x21}
KNOWN_TYPES = (0x01, 0x02, 0x03, 0x11, 0x12, 0x13, 0xC0)
INIT_RES = {'repo': 0x1234, 'dev': 0x4321}


class SdrDevice:
    """Python twin of Model.SdrIO.sdr_dev (checked against it on every recorded exchange)."""

    def __init__(self, repo, dev, limit, plan, valid=False, res0=None):
        self.recs = {'repo': [bytes(r) for r in repo], 'dev': [bytes(r) for r in dev]}
        self.limit = limit
        self.res = dict(res0 or INIT_RES)
        self.valid = {'repo': valid, 'dev': valid}
        self.plan = list(plan)
        self.init = self.coq_state()

    def coq_state(self):
        def recs(l):
            return C.c_list([C.c_hex(r) for r in l])

        def fault(f):
            if f[0] == 'none':
                return 'FNone'
            if f[0] == 'cancel':
                return 'FCancel'
            if f[0] == 'code':
                return '(FCode %d)' % f[1]
            return 'FBusy'
        return '(mkSdr %s %s %d %d %s %d %s %s)' % (
            recs(self.recs['repo']), recs(self.recs['dev']), self.limit,
            self.res['repo'], C.c_bool(self.valid['repo']), self.res['dev'], C.c_bool(self.valid['dev']),
            C.c_list([fault(f) for f in self.plan]))

    @staticmethod
    def rec_id(r):
        return r[0] | r[1] << 8

    def lookup(self, store, rid):
        recs = self.recs[store]
        for k, r in enumerate(recs):
            if (rid == 0 and k == 0) or (rid != 0 and self.rec_id(r) == rid):
                nxt = self.rec_id(recs[k + 1]) if k + 1 < len(recs) else 0xFFFF
                return r, nxt
        return None

    def answer(self, netfn, cmd, data):
        store = {0x0a: 'repo', 0x04: 'dev'}.get(netfn)
        if store is None:
            return bytes([0xC1])
        if cmd == 0x22:
            if data != b'':
                return bytes([0xC7])
            self.res[store] = self.res[store] % 65535 + 1
            self.valid[store] = True
            return bytes([0, self.res[store] & 0xff, self.res[store] >> 8])
        if cmd == GETCMD[store]:
            if len(data) != 6:
                return bytes([0xC7])
            resv, rid, off, ln = data[0] | data[1] << 8, data[2] | data[3] << 8, data[4], data[5]
            if not (self.valid[store] and resv == self.res[store]):
                return bytes([0xC5])
            hit = self.lookup(store, rid)
            if hit is None:
                return bytes([0xCB])
            rec, nxt = hit
            if ln > self.limit:
                return bytes([0xCA])
            return bytes([0, nxt & 0xff, nxt >> 8]) + rec[off:off + ln]
        return bytes([0xC1])

    def handler(self, netfn, cmd, lun, data, req):
        import pyipmi.errors as E
        f = self.plan.pop(0) if self.plan else ('none',)
        if f[0] == 'cancel':
            self.valid = {'repo': False, 'dev': False}
        elif f[0] == 'code':
            return bytes([f[1]])
        elif f[0] == 'busy':
            raise E.CompletionCodeError(0xC0)
        return self.answer(netfn, cmd, data)


@contextlib.contextmanager
def fake_sleep(sleeps):
    import pyipmi.helper as H

    def sleep(s):
        sleeps.append(int(round(s * 1000)))
    old = H.time
    H.time = types.SimpleNamespace(sleep=sleep)
    try:
        yield
    finally:
        H.time = old


def exc_name(e):
    if isinstance(e, AttributeError):
        return 'AttributeError'
    return C.exc_class(e)


def c_err(name):
    if name.startswith('coq:(Err '):
        return name[len('coq:(Err '):-1]
    if name == 'AttributeError':
        return '(OtherError AttributeError)'
    return C.c_err(name)


def run_op(scn, conn=None):
    """scn: repo, dev (lists of hex), limit, plan, op, store, rid, resv ('none'|'valid'|'stale'),
    optional res0 = initial reservation counters of the device.  conn = (ipmi, itf) of an
    EXISTING connection to run the operation on (history stage); default: a new Ipmi object."""
    dev = SdrDevice([bytes.fromhex(x) for x in scn['repo']], [bytes.fromhex(x) for x in scn['dev']],
                    scn['limit'], [tuple(f) for f in scn['plan']], valid=(scn.get('resv') == 'valid'),
                    res0=scn.get('res0'))
    if conn is None:
        ipmi, itf = fakeif.connect(dev.handler)
    else:
        ipmi, itf = conn
        itf.handler = dev.handler
        itf.log = []
    store = scn['store']
    sleeps = []
    resv = None
    if scn.get('resv') == 'valid':
        resv = dev.res[store]
    elif scn.get('resv') == 'stale':
        resv = 0x0999

    def walks():
        # two or three listing generators in progress at once on this Ipmi object, advanced in the order
        # scn['order'] and then drained; every exchange / sleep is attributed to the generator being advanced
        gens, res = [], []
        for g in scn['gens']:
            gens.append(ipmi.sdr_repository_entries() if g == 'repo' else ipmi.device_sdr_entries())
            res.append({'store': g, 'recs': [], 'status': None, 'idx': [], 'sleeps': []})
        order = list(scn['order']) + [g for _ in range(300) for g in range(len(gens))]
        for gi in order:
            r = res[gi]
            if r['status'] is not None:
                if all(x['status'] is not None for x in res):
                    break
                continue
            m0, s0 = len(itf.log), len(sleeps)
            try:
                rec = next(gens[gi])
                r['recs'].append((rec.next_id, bytes(rec.data.array).hex()))
            except StopIteration:
                r['status'] = 'done'
            except Exception as e:  # noqa
                r['status'] = exc_name(e)
            r['idx'] += list(range(m0, len(itf.log)))
            r['sleeps'] += sleeps[s0:]
        return res

    def obj_view(o):
        from . import c16 as P
        return [P.coq_obs(P.observe_obj(o)), getattr(o, 'next_id', None), bytes(o.data.array).hex()]

    def go():
        if scn['op'] == 'walks':
            return walks()
        if scn['op'] == 'get_obj':          # the parsed object itself, every attribute (end-to-end stage)
            fn = ipmi.get_repository_sdr if store == 'repo' else ipmi.get_device_sdr
            o = fn(scn['rid'], resv)
            LAST_OBJS[:] = [o]
            return {'view': obj_view(o)}
        if scn['op'] == 'list_obj':
            fn = ipmi.get_repository_sdr_list if store == 'repo' else ipmi.get_device_sdr_list
            objs = fn()
            LAST_OBJS[:] = objs
            return {'view': [obj_view(o) for o in objs]}
        if scn['op'] == 'get':
            fn = ipmi.get_repository_sdr if store == 'repo' else ipmi.get_device_sdr
            s = fn(scn['rid'], resv)
            return (getattr(s, 'next_id', 0), bytes(s.data.array).hex())
        fn = ipmi.get_repository_sdr_list if store == 'repo' else ipmi.get_device_sdr_list
        return [(s.next_id, bytes(s.data.array).hex()) for s in fn()]
    LAST_OBJS[:] = []
    with fake_sleep(sleeps):
        try:
            out = ('ok', go())
        except Exception as e:  # noqa
            out = ('err', exc_name(e))
            if scn['op'] in ('get_obj', 'list_obj') and out[1] == 'OtherError':
                from . import c16 as P
                out = ('err', 'coq:' + P.exc_term(e))
    OPLOG.append(dict(scn, conn=scn.get('conn', 'new')))
    return dev, list(itf.log), sleeps, out, resv


LAST_OBJS = []      # the parsed objects returned by the last get_obj / list_obj operation (for the oracle)
OPLOG = []          # every operation executed in this process, in order (for history replays)


def run_history(steps):
    """steps: scenarios with an extra 'conn' index; operations run in order in THIS process, on the
    Ipmi object of their conn index (created at first use), each against its own fresh device."""
    conns = {}
    obs = []
    for st in steps:
        c = st.get('conn', 0)
        if c == 'new':
            conn = None
        else:
            if c not in conns:
                conns[c] = fakeif.connect(lambda *a: bytes([0xC1]))
            conn = conns[c]
        obs.append(run_op(st, conn))
    return obs


def c_rec(r):
    return '(%d, %s)' % (r[0], C.c_hex(bytes.fromhex(r[1])))


def term(scn, dev, log, sleeps, out, resv):
    if scn['op'] == 'walks':
        parts = ['chk_dev %s %s %s' % (dev.init, C.c_list([fakeif.c_request(x) for x in log]),
                                       C.c_list([fakeif.c_reply(x) for x in log]))]
        for g in (out[1] if out[0] == 'ok' else []):
            sub = [log[i] for i in g['idx']]
            exp = ('(Ok %s)' % C.c_list([c_rec(r) for r in g['recs']]) if g['status'] == 'done'
                   else '(Err %s)' % c_err(g['status'] or 'OtherError'))
            parts.append('chk_walk %s %s %s %s %s' % ('Repo' if g['store'] == 'repo' else 'DevSdr',
                                                      C.c_list([fakeif.c_request(x) for x in sub]),
                                                      C.c_list([fakeif.c_reply(x) for x in sub]),
                                                      C.c_list([C.c_N(x) for x in g['sleeps']]), exp))
        t = parts[-1]
        for q_ in reversed(parts[:-1]):
            t = 'andb (%s) (%s)' % (q_, t)
        return t
    reqs = C.c_list([fakeif.c_request(x) for x in log])
    reps = C.c_list([fakeif.c_reply(x) for x in log])
    sl = C.c_list([C.c_N(x) for x in sleeps])
    st = 'Repo' if scn['store'] == 'repo' else 'DevSdr'
    if scn['op'] in ('get_obj', 'list_obj'):
        def c_view(v):
            return '(%s, %s)' % (v[0], C.c_opt(None if v[1] is None else C.c_N(v[1])))
        if out[0] != 'ok':
            exp = '(Err %s)' % c_err(out[1])
        elif scn['op'] == 'get_obj':
            exp = '(Ok %s)' % c_view(out[1]['view'])
        else:
            exp = '(Ok %s)' % C.c_list([c_view(v) for v in out[1]['view']])
        if scn['op'] == 'get_obj':
            return 'chk_get_obj %s %s %d %s %s %s %s %s' % (dev.init, st, scn['rid'], C.c_opt(None if resv is None else C.c_N(resv)),
                                                           reqs, reps, sl, exp)
        return 'chk_list_obj %s %s %s %s %s %s' % (dev.init, st, reqs, reps, sl, exp)
    if scn['op'] == 'get':
        exp = '(Ok %s)' % c_rec(out[1]) if out[0] == 'ok' else '(Err %s)' % c_err(out[1])
        return 'chk_get %s %s %d %s %s %s %s %s' % (dev.init, st, scn['rid'], C.c_opt(None if resv is None else C.c_N(resv)),
                                                   reqs, reps, sl, exp)
    exp = '(Ok %s)' % C.c_list([c_rec(r) for r in out[1]]) if out[0] == 'ok' else '(Err %s)' % c_err(out[1])
    return 'chk_list %s %s %s %s %s %s' % (dev.init, st, reqs, reps, sl, exp)


# ----------------------------------------------------------------------------
# oracle
# ----------------------------------------------------------------------------
_baseline = {}


def baseline_ok(scn):
    key = repr((scn['repo'], scn['dev'], scn['limit'], scn['op'], scn['store'], scn.get('rid'), scn.get('resv')))
    if key not in _baseline:
        b = dict(scn, plan=[])
        _baseline[key] = run_op(b)[3][0] == 'ok'
    return _baseline[key]


def want_list(recs):
    return [((recs[k + 1][0] | recs[k + 1][1] << 8) if k + 1 < len(recs) else 0xFFFF, r.hex()) for k, r in enumerate(recs)]


def oracle_walks(scn, log, out):
    """generators in progress side by side on one Ipmi object: each yields every record of ITS store exactly
    once, in order, byte-exact, and talks only to its store"""
    if out[0] != 'ok':
        return 'sdr_entries:interleaved-walks-failed', 'interleaved walks raised %s' % (out[1],)
    for n, g in enumerate(out[1]):
        for i in g['idx']:
            if log[i].netfn != NETFN[g['store']]:
                return ('Sdr._get_sdr_chunk:reservation-of-other-store' if g['store'] == 'repo' else 'Sensor._get_device_sdr_chunk:reservation-of-other-store',
                        'walk %d of the %s store sent a request to netfn 0x%02x' % (n, g['store'], log[i].netfn))
        want = want_list([bytes.fromhex(r) for r in scn[g['store']]])
        got = [tuple(x) for x in g['recs']]
        ids = lambda l: ['0x%x' % (int(h[2:4] + h[0:2], 16)) for _, h in l]
        if (g['status'] == 'done' and got != want) or got != want[:len(got)]:
            return ('sdr_entries:list-incomplete',
                    'walk %d (%s store) of %d walks in progress on one Ipmi object, order %s: yielded records %s, the store holds %s'
                    % (n, g['store'], len(out[1]), scn['order'][:12], ids(got), ids(want)))
        if g['status'] != 'done' and not any(tuple(f)[0] != 'none' for f in scn['plan']):
            return ('sdr:not-completed-interleaved', 'walk %d (%s store) ended with %s although no fault was injected'
                    % (n, g['store'], g['status']))
    return None


def must_complete(scn, log):
    """The read has to complete when only cancellations and transient codes (0xC3 / 0xCE) were injected, no
    code hit a Reserve request, and no chunk request was refused more than 3 times in a row with
    0xC5 / 0xC3 / 0xCE: get_sdr_chunk_helper(retry=5) sends a chunk request up to 4 times, renewing the
    reservation after each 0xC5 (measured on /repo: 3 consecutive cancellations of one chunk complete, 4 give
    RetryError)."""
    faults = [tuple(f) for f in scn['plan'] if tuple(f)[0] != 'none']
    if not faults or any(not (f[0] == 'cancel' or (f[0] == 'code' and f[1] in (0xC3, 0xCE))) for f in faults):
        return None
    run_key, refused = None, 0
    for x in log:
        single = isinstance(x.reply, (bytes, bytearray)) and len(x.reply) == 1
        if x.cmd == 0x22:
            if single or not isinstance(x.reply, (bytes, bytearray)):
                return None                       # a code on a Reserve request is simply raised
            continue
        key = bytes(x.data[2:6])
        if key != run_key:
            run_key, refused = key, 0
        if single and x.reply[0] in (0xC5, 0xC3, 0xCE):
            refused += 1
            if refused > 3:
                return None
        else:
            run_key, refused = None, 0            # answered (data or another code): the fetch of this chunk is over
    kinds = sorted({'cancellation' if f[0] == 'cancel' else 'transient-code' for f in faults})
    return '+'.join(kinds)


def oracle_objs(scn, log, out):
    """end to end: the object(s) handed to the caller show the attributes that the C16 specification
    encoder put into the device's record(s) (expected view of harness/c16.py, independent of both
    models), carry exactly the device's bytes and the successor id"""
    from . import c16 as P
    store = scn['store']
    for x in log:
        if x.netfn != NETFN[store]:
            return 'Sdr._get_sdr_chunk:reservation-of-other-store', 'a request went to netfn 0x%02x' % x.netfn
    recs = [bytes.fromhex(r) for r in scn[store]]
    want = want_list(recs)
    specs = scn['specs']
    if out[0] != 'ok':
        kind = must_complete(scn, log)
        clean = not any(tuple(f)[0] != 'none' for f in scn['plan'])
        if (clean or kind) and all(sp is not None for sp in specs) and scn.get('rid') != 0x7777:
            return 'sdr-object:not-returned', 'ends with %s although every record is a well-formed encoding' % (out[1],)
        return None
    if scn['op'] == 'get_obj':
        k = 0 if scn['rid'] == 0 else [r[0] | r[1] << 8 for r in recs].index(scn['rid'])
        pairs = [(k, out[1]['view'], LAST_OBJS[0] if LAST_OBJS else None)]
    else:
        if len(out[1]['view']) != len(recs):
            return 'sdr_entries:list-incomplete', 'listed %d objects, device holds %d records' % (len(out[1]['view']), len(recs))
        pairs = [(k, v, LAST_OBJS[k] if len(LAST_OBJS) > k else None) for k, v in enumerate(out[1]['view'])]
    for k, view, obj in pairs:
        if view[2] != recs[k].hex():
            return 'get_sdr_data_helper:altered-record-data', 'object %d carries bytes that differ from the device content' % k
        if view[1] != want[k][0]:
            return 'get_sdr_data_helper:wrong-next-id', 'object %d: next id %r, device says %r' % (k, view[1], want[k][0])
        if specs[k] is not None and obj is not None:
            d = P.attempt_cmp(specs[k], obj)
            if d:
                return ('sdr-object:attribute-differs', 'record %d (%s) read through the Ipmi object: attribute %s is %r, encoded %r'
                        % (k, specs[k]['kind'], d[0], d[1], d[2]))
    return None


def oracle(scn, dev, log, out):
    """returns (key, message) or None"""
    if scn['op'] == 'walks':
        return oracle_walks(scn, log, out)
    if scn['op'] in ('get_obj', 'list_obj'):
        return oracle_objs(scn, log, out)
    store = scn['store']
    for x in log:
        if x.netfn != NETFN[store]:
            what = 'reservation' if x.cmd == 0x22 else 'request'
            return ('Sdr._get_sdr_chunk:reservation-of-other-store' if store == 'repo' else 'Sensor._get_device_sdr_chunk:reservation-of-other-store',
                    'while reading the %s store a %s went to netfn 0x%02x cmd 0x%02x' % (store, what, x.netfn, x.cmd))
    recs = [bytes.fromhex(r) for r in scn[store]]
    ref = SdrDevice(recs if store == 'repo' else [], recs if store == 'dev' else [], 255, [])
    if out[0] == 'ok':
        if scn['op'] == 'get':
            hit = ref.lookup(store, scn['rid'])
            if hit is None:
                return 'get_sdr_data_helper:record-invented', 'a record was returned for an id the device does not hold'
            if bytes.fromhex(out[1][1]) != hit[0]:
                return ('get_sdr_data_helper:altered-record-data',
                        'record 0x%04x (%d bytes, limit %d): returned %d bytes that differ from the device content'
                        % (scn['rid'], len(hit[0]), scn['limit'], len(out[1][1]) // 2))
            if out[1][0] != hit[1]:
                return 'get_sdr_data_helper:wrong-next-id', 'next id %r, device says %r' % (out[1][0], hit[1])
        else:
            want = [(ref.rec_id(recs[k + 1]) if k + 1 < len(recs) else 0xFFFF, r.hex()) for k, r in enumerate(recs)]
            got = [tuple(x) for x in out[1]]
            if got != want:
                if [g[1] for g in got] != [w[1] for w in want] and len(got) == len(want):
                    return 'get_sdr_data_helper:altered-record-data', 'a listed record differs from the device content (limit %d)' % scn['limit']
                return 'sdr_entries:list-incomplete', 'listed %d records, device holds %d' % (len(got), len(want))
        return None
    # an error: acceptable unless the read must complete
    kind = must_complete(scn, log)
    if kind and baseline_ok(scn):
        idx = [i for i, f in enumerate(scn['plan']) if tuple(f)[0] != 'none']
        return ('sdr:not-completed-after-%s' % ('cancellation' if kind.startswith('cancellation') else 'transient-code'),
                'read ends with %s although it completes without the injected %s at request indices %s and no chunk request '
                'was refused more than 3 times in a row' % (out[1], kind, idx))
    return None


def oracle_resv(scn, log, resv):
    """every Get request carries the reservation it has to: the one just obtained when the previous
    exchange was a successful Reserve; the same as the previous request when that one is repeated
    (0xC3 / 0xCE / raised node-busy); otherwise (first request of a chunk) the reservation the operation was
    given / obtained at its start, or the one it most recently renewed to.  Never a value remembered from an
    earlier operation."""
    if scn['op'] in ('get_obj', 'list_obj'):
        scn = dict(scn, op=scn['op'][:-4])
    if scn['op'] == 'walks':
        return None          # judged per generator by oracle_walks (walks of one store cancel each other by design)
    store = scn['store']
    held = resv
    latest = resv         # most recently obtained in THIS operation (or supplied by the caller)
    prev = None           # the previous exchange
    for i, x in enumerate(log):
        if x.netfn != NETFN[store]:
            continue
        ok_reply = isinstance(x.reply, (bytes, bytearray)) and len(x.reply) == 3 and x.reply[0] == 0
        if x.cmd == 0x22:
            if ok_reply:
                rid = x.reply[1] | x.reply[2] << 8
                if held is None:
                    held = rid
                latest = rid
                prev = ('reserve', rid)
            else:
                prev = ('reserve-failed',)
            continue
        if x.cmd != GETCMD[store] or len(x.data) != 6:
            continue
        got = x.data[0] | x.data[1] << 8
        chunk = bytes(x.data[2:6])
        if prev and prev[0] == 'reserve':
            allowed = (prev[1],)
        elif prev and prev[0] == 'get' and prev[2] == chunk and prev[3]:
            allowed = (prev[1],)
        else:
            allowed = (held, latest)      # a new chunk fetch: what the operation was given, or what it renewed to
        if held is not None and got not in allowed:
            return ('sdr-read:stale-reservation',
                    'request %d (offset %d) carries reservation 0x%04x; this operation holds 0x%04x and most recently obtained 0x%04x'
                    % (i, x.data[4], got, held, latest))
        again = (not isinstance(x.reply, (bytes, bytearray))) or bytes(x.reply) in (b'\xc3', b'\xce')
        prev = ('get', got, chunk, again)       # again: the helper / send_message repeats this very request
    if len(log) > 483 * max(1, len(scn[store])) + 3:
        return 'sdr-read:request-bound-exceeded', '%d requests' % len(log)
    return None


def judge(scn, conn=None):
    dev, log, sleeps, out, resv = run_op(scn, conn)
    verdict = oracle(scn, dev, log, out) or oracle_resv(scn, log, resv)
    return dev, log, sleeps, out, resv, verdict


def oracle_history(inp):
    """several operations in one process (same / later created Ipmi objects, fresh devices whose
    reservation counters restart): every step must satisfy the single-operation oracle.
    returns (step, key, message) or None"""
    steps = inp['calls']
    for k, (st, ob) in enumerate(zip(steps, run_history(steps))):
        dev, log, sleeps, out, resv = ob
        v = oracle(st, dev, log, out) or oracle_resv(st, log, resv)
        if v:
            return k, v[0], 'step %d of %d (%s %s on connection %s): %s' % (k + 1, len(steps), st['op'], st['store'],
                                                                          st.get('conn', 0), v[1])
    return None


def replay(data):
    r = data.get('replay', {})
    if 'input' not in r:
        return False
    if r.get('oracle') == 'history':
        return oracle_history(r['input']) is None
    return judge(r['input'])[5] is None


# ----------------------------------------------------------------------------
# generators
# ----------------------------------------------------------------------------
def mk_record(rng, rid, length, typ=None):
    if typ is None:
        typ = rng.choice([t for t in (0x04, 0x08, 0x09, 0x0a, 0x10, 0x14, 0x7f, 0xc1, 0xd0, 0xff)])
    return bytes([rid & 0xff, rid >> 8, 0x51, typ, length - 5]) + bytes(rng.randrange(256) for _ in range(length - 5))


def mk_store(rng, lengths):
    ids = rng.sample(range(1, 0xFFFF), len(lengths))
    if rng.random() < 0.3:
        ids.sort()
    return [mk_record(rng, i, n).hex() for i, n in zip(ids, lengths)]


LENGTHS = [5, 6, 20, 21, 25, 26, 64, 255, 260]
LIMITS = list(range(4, 25)) + [32, 255]


def run(ctx):
    rng = ctx.rng
    q = ctx.quick
    res = C.Result(model_map=MODEL_MAP)
    D = C.Distinct()
    terms, meta = [], []
    fails = {}

    def emit(scn, kind, dev, log, sleeps, out, resv):
        terms.append(term(scn, dev, log, sleeps, out, resv))
        meta.append({'kind': kind, 'store': scn['store'], 'op': scn['op'], 'limit': scn['limit'], 'plan': scn['plan'],
                     'requests': len(log), 'out': out[0] if out[0] == 'ok' else out[1]})
        D.add((scn['op'], scn['store'], scn.get('rid'), scn['limit'], tuple(map(tuple, scn['plan'])), tuple(scn[scn['store']]),
               kind if kind.startswith('history') else None), len(log) > 3, kind)

    def case(scn, kind):
        n_before = len(OPLOG)
        dev, log, sleeps, out, resv, verdict = judge(scn)
        emit(scn, kind, dev, log, sleeps, out, resv)
        if verdict and verdict[0] not in fails:
            rp = {'oracle': 'sdr', 'input': scn, 'observed_outcome': list(out), 'exchanges': [x.canon() for x in log][:80]}
            if C.holds_in_fresh_process('C11', {'oracle': 'sdr', 'input': scn}):
                # holds from a clean start: the failure depends on what this process did before.
                # Rebuild it as a history: the earlier operations of the same kind, then this one.
                prior = [o for o in OPLOG[:n_before] if o['op'] == scn['op'] and o['store'] == scn['store']][-40:]
                seq = C.shrink_history('C11', 'history', prior + [dict(scn, conn='new')])
                if seq:
                    fails[verdict[0]] = C.Violation(key=verdict[0], what=verdict[1] + ' [only after %d earlier operation(s) in the same process]' % (len(seq) - 1),
                                                    replay={'oracle': 'history', 'input': {'calls': seq}})
                else:
                    fails[verdict[0]] = C.Violation(key=verdict[0], what=verdict[1] + ' [observed in this run; not reproduced from a clean start]',
                                                    replay=rp, found_input=False)
            else:
                fails[verdict[0]] = C.Violation(key=verdict[0], what=verdict[1], replay=rp)
        return len(log), out

    def history(steps, kind):
        """operations in a row in this process; every step compared with the stateless model and judged"""
        first = None
        for k, (st, ob) in enumerate(zip(steps, run_history(steps))):
            dev, log, sleeps, out, resv = ob
            emit(st, kind, dev, log, sleeps, out, resv)
            v = oracle(st, dev, log, out) or oracle_resv(st, log, resv)
            if v and first is None:
                first = (k, v)
        if first and first[1][0] not in fails:
            k, v = first
            seq = C.shrink_history('C11', 'history', steps[:k + 1]) or None
            if seq:
                fails[v[0]] = C.Violation(key=v[0], what='%s [history of %d operation(s), step %d]' % (v[1], len(seq), k + 1),
                                          replay={'oracle': 'history', 'input': {'calls': seq}})
            else:
                fails[v[0]] = C.Violation(key=v[0], what=v[1] + ' [history not reproduced from a clean start]',
                                          replay={'oracle': 'history', 'input': {'calls': steps[:k + 1]}}, found_input=False)

    def scenario(store, lengths, limit, plan, op='get', pos=None, resv='none'):
        mine = mk_store(rng, lengths)
        other = mk_store(rng, [rng.choice([5, 16, 30]) for _ in range(rng.randrange(0, 3))])
        scn = {'repo': mine if store == 'repo' else other, 'dev': mine if store == 'dev' else other,
               'limit': limit, 'plan': plan, 'op': op, 'store': store, 'resv': resv}
        if op == 'get':
            k = rng.randrange(len(lengths)) if pos is None else pos
            rec = bytes.fromhex(mine[k])
            scn['rid'] = 0 if (k == 0 and rng.random() < 0.5) else (rec[0] | rec[1] << 8)
        return scn

    stores = ['repo', 'dev']
    # H. histories FIRST (nothing else has run in this process yet): several operations in a row on one
    # Ipmi object and on objects created later, devices whose reservation counters restart or hand out
    # small ids again, cancellations in the earlier operations, repositories sharing record ids.
    hid = [0]

    def small_store(n):
        ids = rng.sample(range(1, 14), n)          # small id pool: repositories overlap
        return [mk_record(rng, i, rng.choice([5, 9, 16, 21, 30, 47])).hex() for i in ids]

    def hstep(conn, store, op, mine, limit, plan, resv='none', res0=None, rid=None):
        st = {'repo': mine if store == 'repo' else [], 'dev': mine if store == 'dev' else [], 'limit': limit,
              'plan': plan, 'op': op, 'store': store, 'resv': resv, 'conn': 'h%d-%s' % (hid[0], conn)}
        if res0 is not None:
            st['res0'] = res0
        if op == 'get':
            rec = bytes.fromhex(mine[rid])
            st['rid'] = rec[0] | rec[1] << 8
        return st

    def cancel_plan(maxidx):
        return [('none',)] * rng.randrange(1, maxidx) + [('cancel',)]
    for rep in range(10 if q else 60):
        # listings: same object twice, then another repository through the same and through a new object
        hid[0] += 1
        store = stores[rep % 2]
        a, b = small_store(rng.randrange(2, 6)), small_store(rng.randrange(2, 6))
        lim = rng.choice([255, 16, 20])
        steps = [hstep(0, store, 'list', a, lim, []),
                 hstep(0, store, 'list', a, lim, cancel_plan(6) if rep % 3 == 0 else []),
                 hstep(rng.choice([0, 1]), store, 'list', b, lim, []),
                 hstep(1, stores[(rep + 1) % 2], 'list', a, lim, []),
                 hstep(2, store, 'list', b, lim, cancel_plan(5) if rep % 2 else [])]
        history(steps[:rng.randrange(2, 6)], 'history listings')
    for rep in range(18 if q else 120):
        # two or three listing generators IN PROGRESS AT ONCE on one Ipmi object: side by side (alternating),
        # nested (a walk started and finished inside another walk's loop body), random interleavings;
        # same store twice, both stores
        hid[0] += 1
        a, b = small_store(rng.randrange(2, 7)), small_store(rng.randrange(2, 7))
        gens = [['repo', 'dev'], ['dev', 'repo'], ['repo', 'repo'], ['dev', 'dev'], ['repo', 'dev', 'repo'], ['dev', 'dev', 'repo']][rep % 6]
        n = len(gens)
        shape = (rep // 6) % 3
        if shape == 0:
            order = [i % n for i in range(rng.randrange(2, 16))]
        elif shape == 1:
            order = [0] * rng.randrange(1, 3) + [1] * 12 + ([2] * 12 if n > 2 else [])
        else:
            order = [rng.randrange(n) for _ in range(rng.randrange(2, 16))]
        st = {'repo': a, 'dev': b, 'limit': rng.choice([255, 20, 16]), 'plan': [] if rep % 4 else cancel_plan(8),
              'op': 'walks', 'gens': gens, 'order': order, 'store': gens[0], 'resv': 'none', 'conn': 'h%d-0' % hid[0]}
        steps = [st]
        if rep % 3 == 0:
            steps.append(hstep(0, gens[0], 'list', a if gens[0] == 'repo' else b, 255, []))
        history(steps, 'history interleaved walks')
    for rep in range(24 if q else 150):
        # reads: a cancelled + renewed reservation in an earlier read, then reads whose reservation has the
        # same numeric value again (counter restarted / small ids), same object and a later object
        hid[0] += 1
        store = stores[rep % 2]
        mine = small_store(3)
        res0 = rng.choice([None, {'repo': 0, 'dev': 0}, {'repo': 0, 'dev': 7}, {'repo': 65534, 'dev': 65534}])
        resv = rng.choice(['none', 'none', 'valid'])
        lim = rng.choice([255, 20, 16, 8])
        steps = [hstep(0, store, 'get', mine, lim, cancel_plan(4), resv, res0, rid=rng.randrange(3)),
                 hstep(0, store, 'get', mine, lim, [], resv, res0, rid=rng.randrange(3)),
                 hstep(0, store, rng.choice(['get', 'list']), mine, lim, [], 'none', res0, rid=rng.randrange(3)),
                 hstep(1, store, 'get', mine, lim, cancel_plan(4) if rep % 2 else [], resv, res0, rid=rng.randrange(3)),
                 hstep(0, store, 'get', mine, lim, [], rng.choice(['none', 'valid']), res0, rid=rng.randrange(3))]
        history(steps[:rng.randrange(2, 6)], 'history reads')
    # A. every length x every limit, no faults (single reads inside a 3-record store)
    n = 0
    for ln in LENGTHS + [rng.randrange(5, 261) for _ in range(3 if q else 30)]:
        for lim in LIMITS:
            pos = n % 3
            lens = [rng.choice([5, 9, 40]) for _ in range(3)]
            lens[pos] = ln
            case(scenario(stores[n % 2], lens, lim, [], pos=pos), 'read len x limit')
            n += 1
    # A'. the lengths around the one-byte offset field: 256..260 x limits on both sides of every chunk size
    for ln in (256, 257, 258, 259, 260):
        for lim in (4, 5, 7, 8, 12, 13, 16, 20, 255):
            for store in stores:
                case(scenario(store, [7, ln], lim, [], pos=1), 'read len 256..260 x limit')
            # and with a cancellation / transient code somewhere in the middle of the read
            base = scenario(stores[(ln + lim) % 2], [ln, 11], lim, [], pos=0)
            k = rng.randrange(2, 14)
            case(dict(base, plan=[('none',)] * k + [rng.choice([('cancel',), ('code', 0xC3), ('code', 0xCE), ('busy',)])]),
                 'read len 256..260 x limit + fault')
    # B. one fault at every request index
    combos = [(25, 255), (64, 16), (260, 255), (21, 20), (6, 8), (120, 12)] if q else \
        [(ln, lim) for ln in (5, 6, 21, 25, 64, 120, 260) for lim in (4, 8, 12, 16, 19, 20, 255)]
    for ln, lim in combos:
        for store in stores:
            for resv in (('none',) if q else ('none', 'valid')):
                base = scenario(store, [9, ln, 30], lim, [], pos=1, resv=resv)
                nreq, _ = case(base, 'fault-base')
                for i in range(min(nreq, 40)):
                    for f in (('cancel',), ('code', 0xC3), ('code', 0xCE), ('busy',)):
                        if q and store == 'dev' and f[0] != 'cancel' and i % 2:
                            continue
                        case(dict(base, plan=[('none',)] * i + [f]), 'fault@index ' + f[0])
    # B2. two, three and four CONSECUTIVE refusals of the same chunk request: the reservation is cancelled again
    # between the renewal and the re-sent request (and cancellation / transient code combinations).  The fault
    # indices are found adaptively: the re-sent request is the next Get after the previous fault.
    def mkplan(at):
        return [at.get(i, ('none',)) for i in range(max(at) + 1)]

    def consecutive(base, first, faults):
        at = {first: faults[0]}
        for f in faults[1:]:
            log = run_op(dict(base, plan=mkplan(at)))[1]
            nxt = next((j for j in range(max(at) + 1, len(log)) if log[j].cmd != 0x22), None)
            if nxt is None:
                break
            at[nxt] = f
        return mkplan(at)
    CAN, T3, TE = ('cancel',), ('code', 0xC3), ('code', 0xCE)
    shapes = [[CAN, CAN], [CAN, CAN, CAN], [CAN, CAN, CAN, CAN], [CAN, T3], [T3, CAN], [CAN, TE, CAN], [T3, TE, CAN], [CAN, CAN, T3, CAN]]
    bases = [('get', [9, 25, 30], 255), ('get', [9, 64, 30], 16), ('get', [7, 260], 255), ('list', [16, 30, 9], 255), ('list', [21, 5, 47, 12], 20)]
    if not q:
        bases += [('get', [9, ln, 11], lim) for ln in (21, 120) for lim in (8, 12, 20)] + [('list', [30] * 6, 16)]
    for op, lens, lim in bases:
        for store in stores:
            for resv in (('none', 'valid') if op == 'get' else ('none',)):
                base = scenario(store, lens, lim, [], op=op, pos=1, resv=resv)
                blog = run_op(base)[1]
                gets = [i for i, x in enumerate(blog) if x.cmd != 0x22]
                pick = gets if (not q or len(gets) <= 6) else gets[:3] + rng.sample(gets[3:], 3)
                for i in pick:
                    for sh_ in (shapes if (not q or i == pick[0]) else rng.sample(shapes, 3) + [shapes[0]]):
                        case(dict(base, plan=consecutive(base, i, sh_)), 'consecutive refusals x%d' % len(sh_))
    # C. several faults
    for _ in range(120 if q else 2500):
        ln, lim = rng.choice(LENGTHS + [rng.randrange(5, 261)]), rng.choice(LIMITS)
        plan = [('none',)] * rng.randrange(0, 30)
        for _k in range(rng.randrange(1, 5)):
            plan.insert(rng.randrange(len(plan) + 1),
                        rng.choice([('cancel',), ('cancel',), ('code', 0xC3), ('code', 0xCE), ('busy',),
                                    ('code', 0xC9), ('code', 0xC5), ('code', 0xFF)]))
        if lim >= 8 and ln <= 256 and rng.random() < 0.2:
            # one spurious 'cannot return number of bytes' (max_req_len stays positive; the helper's
            # behaviour with max_req_len <= 0 is outside the property and not modelled).  Only for
            # records <= 256 bytes: an inconsistent limit on a longer record can steer the one-byte
            # offset past 255 (Props: C11_exact_or_error_inconsistent_limit_refuted) - outside C11.
            plan.insert(rng.randrange(len(plan) + 1), ('code', 0xCA))
        case(scenario(rng.choice(stores), [rng.choice(LENGTHS), ln], lim, plan, pos=1,
                      resv=rng.choice(['none', 'none', 'valid', 'stale'])), 'several faults')
    # D. lists
    sizes = [1, 2, 3, 5, 8, 12] if q else list(range(1, 13)) + [20, 40, 60]
    for nrec in sizes:
        for rep in range(2 if q else 4):
            lens = [rng.choice(LENGTHS[:7] + [rng.randrange(5, 120)]) for _ in range(nrec)]
            if nrec <= 3 and rep == 0:
                lens[-1] = 260
            lim = rng.choice([255, 255, 20, 16, 24, 32, 19])
            store = stores[(nrec + rep) % 2]
            base = scenario(store, lens, lim, [], op='list')
            nreq, _ = case(base, 'list')
            idx = range(nreq) if (nrec <= 3 or (not q and nrec <= 12)) else rng.sample(range(nreq), min(nreq, 6 if q else 10))
            for i in idx:
                case(dict(base, plan=[('none',)] * i + [('cancel',)]), 'list cancel@index')
                if i % 3 == 0:
                    case(dict(base, plan=[('none',)] * i + [('code', rng.choice([0xC3, 0xCE]))]), 'list code@index')
    # E2E. records of every parsed kind (encoded by the specification encoder of C16) read through the real Ipmi
    # object: the parsed objects (every attribute) against the composed model get_sdr_obj / sdr_list_obj
    from . import c16 as P
    kinds = list(P.FIELDS)
    for rep in range(14 if q else 120):
        ids = rng.sample(range(1, 0xFFFE), 4)
        specs = []
        for i in ids:
            sp = P.gen_spec(rng, kinds[(rep + len(specs)) % len(kinds)])
            sp['hdr'][0] = i
            specs.append(sp)
        recs = [P.encode(sp) for sp in specs]
        if any(not (5 <= len(r) <= 260) for r in recs):
            continue
        raw = [r.hex() for r in recs]
        spec_list = list(specs)
        if rep % 5 == 4:                      # a known-type record cut short: the parse error must come through
            cut = bytes(recs[1][:4]) + bytes([3]) + bytes(recs[1][5:8])
            raw[1] = cut.hex()
            spec_list[1] = None
        store = stores[rep % 2]
        lim = rng.choice([255, 20, 16, 9])
        plan = [] if rep % 3 else [('none',)] * rng.randrange(1, 9) + [rng.choice([('cancel',), ('code', 0xC3), ('code', 0xCE)])]
        base = {'repo': raw if store == 'repo' else [], 'dev': raw if store == 'dev' else [], 'limit': lim, 'plan': plan,
                'store': store, 'resv': 'none', 'specs': spec_list}
        case(dict(base, op='list_obj'), 'e2e list of parsed objects')
        for k in range(4):
            case(dict(base, op='get_obj', rid=ids[k] if k else 0), 'e2e parsed object')
    # E. absent record / empty store
    for store in stores:
        s = scenario(store, [10, 20], 255, [], pos=0)
        s['rid'] = 0x7777
        case(s, 'absent record')
        e = scenario(store, [10], 255, [], op='list')
        e[store] = []
        case(e, 'empty store')

    failing, errors = C.coq_cases('C11', 'Lib.Prog Model.SdrIO Model.SdrE2E Corr.C11', terms, shard=120 if q else 60)
    res.mismatches = [{'case': meta[i], 'term': terms[i][:3000]} for i in failing[:50]]
    res.corr_errors = errors
    res.evaluations = len(terms)
    res.distinct_nontrivial = D.distinct
    res.histogram = D.hist
    res.rule = ('record lengths {5,6,20,21,25,26,64,255,260,random} x limits {4..24,32,255} without faults; lengths 256..260 x '
                'limits {4,5,7,8,12,13,16,20,255} on both stores, plain and with one fault; one fault '
                '(cancellation / 0xC3 / 0xCE / raised node-busy) at every request index of selected reads; random plans '
                'with up to 4 faults incl. other codes; lists of 1..12 (thorough ..60) records with a cancellation / code at '
                'request indices; 2 / 3 / 4 consecutive refusals (cancellation, 0xC3, 0xCE combinations) of the same chunk request at '
                'Get indices of reads and lists; end to end: 4-record stores of every parsed record kind (C16 encoder) read as objects and '
                'listed, every attribute compared, one record cut short; absent record, empty store; both stores; with/without caller reservation (valid, stale). '
                'Compared per case: every request, every sleep, outcome (model replayed in Coq on the recorded replies) and '
                'the Gallina device on the recorded requests. History stage (run first): listings and reads in a row on one '
                'Ipmi object and on later created objects against fresh devices with restarting / small reservation counters, '
                'two or three listing generators in progress at once on one object (alternating, nested, random; same store twice, '
                'both stores), each step / each generator compared with the stateless model and judged (exact, complete, reservation carried, same store). distinct = distinct (operation, store, id, limit, plan, records); '
                'non-trivial = more than 3 exchanges')
    res.samples = [{'case': meta[i], 'term': terms[i][:600]} for i in (0, len(terms) // 3, len(terms) // 2, len(terms) - 1)]
    res.oracle_failures = list(fails.values())
    res.assumptions = ['time.sleep substituted by a recorder (pyipmi.helper.time)',
                       'record type bytes are taken outside the classes SdrCommon.from_data parses (parsing is C16)',
                       'per-read limits below 4 are outside the property (the helper then never terminates by itself; noted in design.d/C11.md)']
    return res
