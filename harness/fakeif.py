"""A scripted interface standing in for a transport below Ipmi.send_message.

It does exactly what the real interfaces' send_and_receive does around the wire
(encode the request, obtain response bytes, create and decode the response message),
records every exchange, and obtains the response bytes from a handler - a Python
device, a fault plan, or a recorded script.  No hook in /repo is needed.
"""
from . import common as C


class Exchange:
    def __init__(self, netfn, cmd, lun, data, reply):
        self.netfn, self.cmd, self.lun, self.data, self.reply = netfn, cmd, lun, bytes(data), reply

    def canon(self):
        r = self.reply.hex() if isinstance(self.reply, (bytes, bytearray)) else 'raise ' + C.exc_class(self.reply)
        return (self.netfn, self.cmd, self.lun, self.data.hex(), r)


class ScriptedInterface:
    """handler(netfn, cmd, lun, data: bytes, req) -> bytes (cc + data) or raises."""

    def __init__(self, handler):
        self.handler = handler
        self.log = []
        self.sleeps = []

    # transport API used by pyipmi.Ipmi
    def open(self):
        pass

    def close(self):
        pass

    def establish_session(self, session):
        pass

    def close_session(self):
        pass

    def is_ipmc_accessible(self, target):
        return True

    def _xfer(self, netfn, cmd, lun, data, req):
        try:
            rx = self.handler(netfn, cmd, lun, bytes(data), req)
        except Exception as e:  # noqa
            self.log.append(Exchange(netfn, cmd, lun, data, e))
            raise
        self.log.append(Exchange(netfn, cmd, lun, data, bytes(rx)))
        return bytes(rx)

    def send_and_receive_raw(self, target, lun, netfn, raw_bytes):
        raw = bytes(raw_bytes)
        return self._xfer(netfn, raw[0], lun, raw[1:], None)

    def send_and_receive(self, req):
        from pyipmi.msgs import encode_message, decode_message, create_message
        rx = self._xfer(req.netfn, req.cmdid, req.lun, encode_message(req), req)
        rsp = create_message(req.netfn + 1, req.cmdid, req.group_extension)
        decode_message(rsp, rx)
        return rsp


def connect(handler, **kw):
    """An Ipmi connection object on a scripted interface."""
    import pyipmi
    itf = ScriptedInterface(handler)
    ipmi = pyipmi.create_connection(itf)
    ipmi.target = pyipmi.Target(0x20)
    return ipmi, itf


# ---- Coq literals for Lib/Prog.v types ----
def c_request(x):
    return '(mkReq %d %d %d %s)' % (x.netfn, x.cmd, x.lun, C.c_hex(x.data))


def c_reply(x):
    if isinstance(x.reply, (bytes, bytearray)):
        return '(RBytes %s)' % C.c_hex(x.reply)
    return '(RRaise %s)' % C.c_err(C.exc_class(x.reply))


def c_outcome_err(e):
    return C.c_err(C.exc_class(e))
