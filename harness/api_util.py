"""Shared by the C07 / C08 harnesses: discovery of the public operations of pyipmi.Ipmi,
argument table, canonical form of results, scripted clock, exception classes.
(New shared file; nothing here depends on the Coq models.)"""
import inspect
import types
from array import array
from enum import Enum

from . import common as C


class Clock:
    """stands in for the `time` module inside pyipmi, pyipmi.helper, pyipmi.hpm: time passes in
    sleep() and - so that wait loops that never sleep still end - by `tick` per time() call"""

    def __init__(self, tick=0.25):
        self.now = 1000.0
        self.tick = tick
        self.sleeps = []

    def time(self):
        self.now += self.tick
        return self.now

    def sleep(self, x):
        self.sleeps.append(x)
        self.now += x


class patched_time:
    def __init__(self, clock=None):
        self.clock = clock or Clock()

    def __enter__(self):
        import pyipmi
        import pyipmi.helper
        import pyipmi.hpm
        self.mods = [pyipmi, pyipmi.helper, pyipmi.hpm]
        self.saved = [m.time for m in self.mods]
        for m in self.mods:
            m.time = self.clock
        return self.clock

    def __exit__(self, *a):
        for m, t in zip(self.mods, self.saved):
            m.time = t


# operations of the connection object that make no BMC exchange through send_message and take
# arguments the harness cannot usefully supply
EXCLUDED = {
    'open': 'transport set-up (interface.open / session.establish), no request of its own',
    'close': 'transport tear-down, no request of its own',
    'open_upgrade_image': 'static file parser (C18), no BMC exchange',
    'get_upgrade_version_from_file': 'static file parser (C18), no BMC exchange',
}


def public_ops():
    """names of the public callables of pyipmi.Ipmi, by introspection"""
    import pyipmi
    out = []
    for name, v in inspect.getmembers(pyipmi.Ipmi):
        if name.startswith('_') or not callable(v):
            continue
        if isinstance(inspect.getattr_static(pyipmi.Ipmi, name), (staticmethod, classmethod)) and name in EXCLUDED:
            continue
        out.append(name)
    return sorted(out)


def canon(v, depth=0):
    """canonical, comparable, JSON-able form of a return value"""
    from pyipmi.msgs.message import Message, Bitfield
    if depth > 8:
        return '<deep>'
    if v is None or isinstance(v, (bool, int, float)):
        return v
    if isinstance(v, Enum):
        return canon(v.value, depth + 1)
    if isinstance(v, str):
        return v
    if isinstance(v, (bytes, bytearray)):
        return 'hex:' + bytes(v).hex()
    if isinstance(v, array):
        return 'hex:' + bytes(bytearray(v.tolist())).hex() if v.typecode in 'Bb' else list(v)
    if isinstance(v, (list, tuple)):
        return [canon(x, depth + 1) for x in v]
    if isinstance(v, types.GeneratorType):
        return [canon(x, depth + 1) for x in v]
    if isinstance(v, dict):
        return {str(k): canon(x, depth + 1) for k, x in sorted(v.items(), key=lambda kv: str(kv[0]))}
    if isinstance(v, Bitfield.BitWrapper):
        from gen.fieldprobe import wrapper_bit_names
        return {n: getattr(v, n) for n in wrapper_bit_names(v)}
    if isinstance(v, Message):
        from . import codec_util as U
        return {'__msg__': type(v).__name__, 'env': [list(x[:1]) + [canon(y) for y in x[1:]] for x in U.canon_env(v)]}
    if hasattr(v, '__dict__'):
        d = {k: canon(x, depth + 1) for k, x in sorted(vars(v).items()) if not k.startswith('__')}
        # class-level data attributes that instances read (ChassisStatus.last_event ...)
        for k, x in sorted(vars(type(v)).items()):
            if k.startswith('_') or k in d or callable(x) or isinstance(x, (staticmethod, classmethod, property)):
                continue
            if k.isupper():
                continue
            d['cls.' + k] = canon(x, depth + 1)
        d['__class__'] = type(v).__name__
        return d
    return repr(v)


def exc_name(e):
    """class of an exception for the oracle: CCError n | RetryError | HpmError | other:<PythonName>"""
    n = C.exc_class(e)
    if n == 'OtherError':
        return 'other:' + type(e).__name__
    return n


def with_fresh_gen(gens, targets, fn):
    """Run fn() (in-Coq evaluation of cases) while holding the build lock, after making sure that coq/Gen/* and the
    compiled closure belong to THIS run's tree: another check running concurrently against a different tree may have
    regenerated them since proof_status released the lock (seen as 'inconsistent assumptions' in the case files)."""
    with C.Lock():
        info = C.run_generators(gens)
        bad = [k for k, v in info.items() if v['rc'] != 0]
        if not bad:
            C.make(targets, timeout=1500)
        return fn()
