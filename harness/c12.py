"""C12 - SEL retrieval is exact and get-and-clear is atomic.

Correspondence: the real Ipmi object (Sel mix-in of pyipmi/sel.py) is driven through
harness/fakeif.py against a Python SEL device (partial-read limit, reservations, an
adversary plan that appends records before chosen requests); every exchange is recorded.
In Coq (Corr/C12.v) the model progs of Model/SelIO.v are replayed against the recorded
replies (same requests, same outcome) and the Gallina device sel_dev, started with the
same log and plan, must give the recorded replies and end with the same log and
deletion record.

Oracle (independent of the model): entries returned == the device's log, in order, once
each, raw bytes unchanged and fields == an independent reading of the IPMI SEL record
layout; get-and-clear returns the record the device deleted, the delete request carries
the reservation obtained last before it and so do all reads in between, the final log
is the old log plus the adversary's additions minus that record.
"""
import contextlib
import os
import struct
import types

from . import common as C
from . import fakeif as F

MODEL_MAP = [
    {'python': 'pyipmi/sel.py:Sel.get_sel_entries_count (+SelInfo.entries)', 'coq': 'Model.SelIO.get_sel_entries_count'},
    {'python': 'pyipmi/sel.py:Sel.get_sel_reservation_id', 'coq': 'Model.SelIO.get_sel_reservation_id'},
    {'python': 'pyipmi/sel.py:Sel.delete_sel_entry', 'coq': 'Model.SelIO.delete_sel_entry'},
    {'python': 'pyipmi/sel.py:Sel.get_sel_entry', 'coq': 'Model.SelIO.get_sel_entry/get_entry_loop'},
    {'python': 'pyipmi/sel.py:Sel.sel_entries/get_sel_entries', 'coq': 'Model.SelIO.get_sel_entries/entries_loop'},
    {'python': 'pyipmi/sel.py:Sel.get_and_clear_sel_entry', 'coq': 'Model.SelIO.get_and_clear_sel_entry/on_cancel'},
    {'python': 'pyipmi/sel.py:SelEntry._from_response', 'coq': 'Model.SelIO.sel_entry_decode'},
    {'python': 'pyipmi/sel.py:Sel._clear_sel / Sel.clear_sel + pyipmi/helper.py:_clear_repository/clear_repository_helper',
     'coq': 'Model.SelIO.clear_sel_cmd/clear_repository/clear_sel (cross-checked with Model.Helper.clear_repository_helper)'},
    {'python': 'pyipmi/msgs/sel.py:GetSelInfo/ReserveSel/GetSelEntry/DeleteSelEntry Req+Rsp',
     'coq': 'Model.SelIO.sel_info_req/reserve_req/get_entry_req/delete_req/dec_sel_info/dec_id16/dec_get_entry'},
]
TRUSTED = ['harness/c12.py:SelDevice (Python twin of the Gallina device sel_dev; every recorded exchange is '
           're-answered by sel_dev inside Coq, final log and deletion record compared)']

NETFN = 0x0a
CMD_INFO, CMD_RESERVE, CMD_GET, CMD_DELETE, CMD_CLEAR = 0x40, 0x42, 0x43, 0x46, 0x47
MAXREQ = 500      # below Corr.C12.FI: a client that loops is cut off by a transport exception


def rec_id(r):
    return r[0] | r[1] << 8


class NoProgress(RuntimeError):
    pass


class SelDevice:
    """Reference SEL device. plan: list of None | record (bytes): consumed one per request,
    a record is appended to the log (cancelling the reservation) just before that request.
    script {request index: bytes | Exception} overrides single replies (non-conforming)."""

    def __init__(self, log, limit=0xff, resv=0x10, valid=False, plan=(), script=None, max_requests=MAXREQ,
                 range_first=False):
        self.log = [bytes(r) for r in log]
        self.limit, self.resv, self.valid = limit, resv, valid
        self.plan = list(plan)
        self.deleted = []
        self.script = script or {}
        self.n = 0
        self.max_requests = max_requests
        # variant: offset+length > 16 is refused with 0xC9 before the size limit is looked at (as legal)
        self.range_first = range_first
        self.step_budget = None

    def lookup(self, rid):
        if not self.log:
            return None
        if rid == 0:
            k = 0
        elif rid == 0xffff:
            k = len(self.log) - 1
        else:
            k = next((i for i, r in enumerate(self.log) if rec_id(r) == rid), None)
            if k is None:
                return None
        nxt = rec_id(self.log[k + 1]) if k + 1 < len(self.log) else 0xffff
        return k, self.log[k], nxt

    def __call__(self, netfn, cmd, lun, data, req):
        k = self.n
        self.n += 1
        if self.n > self.max_requests:
            raise RuntimeError('harness: request budget exceeded (client loops)')
        if self.step_budget is not None:
            self.step_budget -= 1
            if self.step_budget < 0:
                raise NoProgress('step issued more requests than any correct operation on this log needs')
        if self.plan:
            a = self.plan.pop(0)
            if isinstance(a, str):                  # 'del-first': another party deletes the oldest entry
                if self.log:
                    del self.log[0]
                    self.valid = False
            elif a is not None:
                self.log.append(bytes(a))
                self.valid = False
        if k in self.script:
            r = self.script[k]
            if isinstance(r, Exception):
                raise r
            return bytes(r)
        if netfn != NETFN or lun != 0:
            return b'\xc1'
        if cmd == CMD_INFO:
            if data:
                return b'\xc7'
            n = len(self.log)
            return bytes([0, 0x51, n & 0xff, (n >> 8) & 0xff]) + bytes(10) + b'\x0a'
        if cmd == CMD_RESERVE:
            if data:
                return b'\xc7'
            self.resv = self.resv % 65535 + 1
            self.valid = True
            return bytes([0, self.resv & 0xff, self.resv >> 8])
        if cmd == CMD_GET:
            if len(data) != 6:
                return b'\xc7'
            resv, rid, off, ln = data[0] | data[1] << 8, data[2] | data[3] << 8, data[4], data[5]
            if not self.log:
                return b'\xcb'
            ok = (off == 0) if resv == 0 else (self.valid and resv == self.resv)
            if not ok:
                return b'\xc5'
            f = self.lookup(rid)
            if f is None:
                return b'\xcb'
            _, rc, nxt = f
            hdr = bytes([0, nxt & 0xff, nxt >> 8])
            if ln == 0xff:
                if self.limit != 0xff:
                    return b'\xca'
                if off >= 16:
                    return b'\xc9'
                return hdr + rc[off:16]
            if self.range_first and off + ln > 16:
                return b'\xc9'
            if self.limit != 0xff and ln > self.limit:
                return b'\xca'
            if off + ln > 16:
                return b'\xc9'
            return hdr + rc[off:off + ln]
        if cmd == CMD_DELETE:
            if len(data) != 4:
                return b'\xc7'
            resv, rid = data[0] | data[1] << 8, data[2] | data[3] << 8
            if not (self.valid and resv == self.resv):
                return b'\xc5'
            f = self.lookup(rid)
            if f is None:
                return b'\xcb'
            k2, rc, _ = f
            del self.log[k2]
            self.deleted.append(rc)
            self.valid = False
            return bytes([0, rc[0], rc[1]])
        if cmd == CMD_CLEAR:
            if len(data) != 6:
                return b'\xc7'
            resv, key, ctl = data[0] | data[1] << 8, data[2:5], data[5]
            if key != b'CLR':
                return b'\xcc'
            if not (self.valid and resv == self.resv):
                return b'\xc5'
            if ctl == 0xaa:
                self.log = []
                return b'\x00\x01'
            if ctl == 0:
                return b'\x00\x01'
            return b'\xcc'
        return b'\xc1'


@contextlib.contextmanager
def fake_sleep(sleeps):
    """record the library's sleeps (ms) instead of sleeping, however pyipmi.helper reaches time.sleep
    (module global `time`, `from time import sleep`, or time.sleep itself)"""
    import time as T
    import pyipmi.helper as H
    real = T.sleep

    def rec(t):
        sleeps.append(int(round(t * 1000)))
    saved = {}
    for k, v in list(vars(H).items()):
        if v is T:
            saved[k] = v
            setattr(H, k, types.SimpleNamespace(sleep=rec, time=T.time, monotonic=T.monotonic))
        elif v is real:
            saved[k] = v
            setattr(H, k, rec)
    T.sleep = rec
    try:
        yield
    finally:
        T.sleep = real
        for k, v in saved.items():
            setattr(H, k, v)


def _run(dev, fn):
    ipmi, itf = F.connect(dev)
    try:
        return ('ok', fn(ipmi)), itf.log
    except Exception as e:  # noqa
        return ('err', e), itf.log


# ---------------------------------------------------------------------------
# independent reading of the SEL record layout (IPMI v2.0 section 32)
def spec_fields(r):
    rid, typ, ts, gen, evm, st, sn, desc, d1, d2, d3 = struct.unpack('<HBIHBBBB3B', bytes(r))
    out = {'record_id': rid, 'type': typ}
    if typ == 0x02:
        out.update(timestamp=ts, generator_id=gen, evm_rev=evm, sensor_type=st, sensor_number=sn,
                   event_direction=desc >> 7, event_type=desc & 0x7f, event_data=[d1, d2, d3])
    elif 0xc0 <= typ <= 0xdf:
        out.update(timestamp=ts)
    return out


def entry_bytes(e):
    d = e.data
    return bytes(d.array) if hasattr(d, 'array') else bytes(bytearray(d))


def check_entry(e, r):
    """None if SelEntry e is record r exactly (raw bytes and the fields the layout defines)"""
    if entry_bytes(e) != bytes(r):
        return 'raw bytes %s differ from the stored record %s' % (entry_bytes(e).hex(), bytes(r).hex())
    for k, v in spec_fields(r).items():
        g = getattr(e, k, None)
        if (list(g) if k == 'event_data' else g) != v:
            return 'field %s = %r, the record layout says %r (record %s)' % (k, g, v, bytes(r).hex())
    return None


def _dev_in(inp):
    return SelDevice([bytes.fromhex(x) for x in inp['log']], inp['limit'],
                     plan=[None if p is None else bytes.fromhex(p) for p in inp.get('plan', [])],
                     max_requests=40 * len(inp['log']) + 2000, range_first=inp.get('range_first', False))


def oracle_entries(inp):
    dev = _dev_in(inp)
    log = list(dev.log)
    out, ex = _run(dev, lambda ipmi: ipmi.get_sel_entries())
    if out[0] == 'err':
        return 'raised %r reading a log of %d entries (limit %s)' % (out[1], len(log), inp['limit'])
    got = out[1]
    if len(got) != len(log):
        return 'returned %d entries, the log holds %d' % (len(got), len(log))
    for k, (e, r) in enumerate(zip(got, log)):
        m = check_entry(e, r)
        if m:
            return 'entry %d: %s' % (k, m)
    if not log and any(x.cmd != CMD_INFO for x in ex):
        return 'empty log but further requests were sent'
    return None


def oracle_entries_change(inp):
    """the log changes (another party appends, or deletes the oldest entry) while it is being read: the read may fail
    with an error, but whatever it returns consists of entries that were stored - each at most once"""
    plan = [p if p in (None, 'del-first') else bytes.fromhex(p) for p in inp['plan']]
    dev = SelDevice([bytes.fromhex(x) for x in inp['log']], inp['limit'], plan=plan,
                    max_requests=40 * len(inp['log']) + 2000)
    ever = list(dev.log) + [p for p in plan if isinstance(p, bytes)]
    out, ex = _run(dev, lambda ipmi: list(getattr(ipmi, inp['op'])()))
    if out[0] == 'err':
        return None
    used = set()
    for k, e in enumerate(out[1]):
        hit = [i for i, r in enumerate(ever) if i not in used and check_entry(e, r) is None]
        if not hit:
            return ('%s returned as entry %d the bytes %s, which were never stored as one entry (or were already '
                    'returned): the log changed before request %s' % (inp['op'], k, entry_bytes(e).hex(), [i for i, p in enumerate(plan) if p is not None]))
        used.add(hit[0])
    return None


def _gac_trace(ex, rid, target):
    """the exchanges of one get_and_clear_sel_entry call: Reserve -> R, reads of rid under R that
    produce the entry, successful Delete of rid under R; every cancelled round restarted from Reserve"""
    if not ex or ex[-1].cmd != CMD_DELETE or ex[-1].reply[:1] != b'\x00':
        return 'last request is not a successful Delete SEL Entry'
    last_res = max(i for i, x in enumerate(ex) if x.cmd == CMD_RESERVE)
    R = ex[last_res].reply[1] | ex[last_res].reply[2] << 8
    read = b''
    for x in ex[last_res + 1:]:
        r = x.data[0] | x.data[1] << 8
        i = x.data[2] | x.data[3] << 8
        if x.cmd not in (CMD_GET, CMD_DELETE) or r != R or i != rid:
            return ('request cmd=%02x reservation=%04x record=%04x after the last Reserve (-> %04x): '
                    'read and delete do not share the reservation' % (x.cmd, r, i, R))
        if x.cmd == CMD_GET and x.reply[:1] == b'\x00':
            read += x.reply[3:]
    if read != target:
        return ('the reads under the reservation of the delete (%04x) produced %d bytes, not the returned entry: '
                'the entry was read under another reservation' % (R, len(read)))
    # every round that was cancelled was restarted from Reserve
    for i, x in enumerate(ex[:-1]):
        if x.reply[:1] == b'\xc5' and ex[i + 1].cmd != CMD_RESERVE:
            return 'after a cancelled reservation the next request is cmd=%02x, not Reserve' % ex[i + 1].cmd
    return None


def oracle_gac(inp):
    dev = _dev_in(inp)
    log0 = list(dev.log)
    rid = inp['rid']
    adds = [bytes.fromhex(p) for p in inp.get('plan', []) if p is not None]
    out, ex = _run(dev, lambda ipmi: ipmi.get_and_clear_sel_entry(rid))
    if out[0] == 'err':
        return 'raised %r (limit %s, %d concurrent changes)' % (out[1], inp['limit'], len(adds))
    target = next(r for r in log0 if rec_id(r) == rid) if rid not in (0,) else log0[0]
    m = check_entry(out[1], target)
    if m:
        return 'returned entry is not the stored record %04x: %s' % (rid, m)
    if dev.deleted != [target]:
        return 'device deleted %s, returned entry is %s' % ([d.hex() for d in dev.deleted], target.hex())
    used = [bytes.fromhex(p) for p in inp.get('plan', [])[:len(ex)] if p is not None]
    want = [r for r in log0 + used if r is not target]
    if dev.log != want:
        return 'log after get-and-clear is not the old log plus concurrent additions minus the entry'
    return _gac_trace(ex, rid, target)


def oracle_clear(inp):
    """clear_sel: the whole log is erased (what remains is what other parties appended after the erase),
    nothing is recorded as deleted entry by entry, Clear requests carry the reservation obtained last"""
    dev = _dev_in(inp)
    sleeps = []
    with fake_sleep(sleeps):
        out, ex = _run(dev, lambda ipmi: ipmi.clear_sel(**({'retry': inp['retry']} if inp.get('retry') else {})))
    if out[0] == 'err':
        return 'raised %r (%d concurrent changes)' % (out[1], sum(p is not None for p in inp.get('plan', [])))
    er = [i for i, x in enumerate(ex) if x.cmd == CMD_CLEAR and x.data[5:6] == b'\xaa' and x.reply[:1] == b'\x00']
    if len(er) != 1:
        return '%d successful Initiate Erase requests' % len(er)
    later = [bytes.fromhex(p) for p in inp.get('plan', [])[er[0] + 1:len(ex)] if p is not None]
    if dev.log != later:
        return 'log after clear_sel holds %d entries, expected %d (those appended after the erase)' % (len(dev.log), len(later))
    if dev.deleted:
        return 'entries were deleted one by one'
    R = None
    for x in ex:
        if x.cmd == CMD_RESERVE and x.reply[:1] == b'\x00':
            R = x.reply[1] | x.reply[2] << 8
        elif x.cmd == CMD_CLEAR and (x.data[0] | x.data[1] << 8) != R:
            return 'Clear SEL under reservation %04x, the last Reserve returned %r' % (x.data[0] | x.data[1] << 8, R)
        elif x.cmd not in (CMD_RESERVE, CMD_CLEAR):
            return 'unexpected request cmd=%02x' % x.cmd
    if not ex or ex[-1].cmd != CMD_CLEAR or ex[-1].data[5:6] != b'\x00':
        return 'the erase status was not polled last'
    return None


def oracle_decode(inp):
    import pyipmi.sel as ps
    r = bytes.fromhex(inp['rec'])
    try:
        e = ps.SelEntry(list(r))
    except Exception as ex:  # noqa
        return 'raised %r' % (ex,)
    if bytes(bytearray(e.data)) != r:
        return 'raw bytes changed'
    for k, v in spec_fields(r).items():
        g = getattr(e, k, None)
        if (list(g) if k == 'event_data' else g) != v:
            return 'field %s = %r, the record layout says %r' % (k, g, v)
    return None



# ---------------------------------------------------------------------------
# history stage: sequences of steps in ONE process on reused Ipmi objects (and objects created
# after others) against ONE device whose log persists.  Client steps: entries, count, entry (by id,
# with a reservation obtained first or relying on the default reservation 0), gac (with an adversary
# plan for that call).  Device-side steps: 'bmc_append' (the BMC logs events), 'bmc_clear' (another
# party clears the log), 'limit' (partial-read limit reconfigured).  Every client step is judged
# against the log AT THAT MOMENT, which the oracle keeps itself - including the error the device is
# expected to give (0xCB for an id that is not in the log, an empty log lists nothing, ...), so a
# shrunk history is judged as correctly as the original.
def _apply_sel(ipmi, c):
    op = c['op']
    if op == 'entries':
        return ipmi.get_sel_entries()
    if op == 'count':
        return ipmi.get_sel_entries_count()
    if op == 'gac':
        return ipmi.get_and_clear_sel_entry(c['rid'])
    if op == 'clear':
        return ipmi.clear_sel()
    if op == 'delete':
        if c['resv'] == 'fresh':
            return ipmi.delete_sel_entry(c['rid'], ipmi.get_sel_reservation_id())
        if c['resv'] == 'stale':          # a reservation that a later Reserve has superseded
            old = ipmi.get_sel_reservation_id()
            ipmi.get_sel_reservation_id()
            return ipmi.delete_sel_entry(c['rid'], old)
        return ipmi.delete_sel_entry(c['rid'])      # default reservation 0
    if op == 'entry':
        if c.get('resv'):
            return ipmi.get_sel_entry(c['rid'], ipmi.get_sel_reservation_id())
        return ipmi.get_sel_entry(c['rid'])          # default reservation 0
    raise ValueError(op)


def exec_sel_history(inp):
    dev = SelDevice([bytes.fromhex(x) for x in inp['log']], inp['limit'], max_requests=60000)
    objs = {}
    for n, c in enumerate(inp['calls']):
        op = c['op']
        if op == 'bmc_append':
            dev.log += [bytes.fromhex(x) for x in c['recs']]
            dev.valid = False
            continue
        if op == 'bmc_clear':
            dev.log = []
            dev.valid = False
            continue
        if op == 'limit':
            dev.limit = c['value']
            continue
        o = c.get('obj', 'A')
        if o not in objs:
            objs[o] = F.connect(dev)
        ipmi, itf = objs[o]
        dev.plan = [None if p is None else bytes.fromhex(p) for p in c.get('plan', [])]
        snap = {'log': list(dev.log), 'limit': dev.limit, 'resv': dev.resv, 'valid': dev.valid,
                'plan': list(dev.plan), 'ndel': len(dev.deleted)}
        start = len(itf.log)
        snap['sleeps'] = []
        dev.step_budget = 80 * (len(dev.log) + len(dev.plan) + 3)
        try:
            with fake_sleep(snap['sleeps']):
                out = ('ok', _apply_sel(ipmi, c))
        except Exception as e:  # noqa
            out = ('err', e)
        dev.step_budget = None
        dev.plan = []
        yield n, c, out, itf.log[start:], snap, dev


def _find(ref, rid):
    if not ref:
        return None
    if rid == 0:
        return 0
    if rid == 0xffff:
        return len(ref) - 1
    ids = [rec_id(r) for r in ref]
    return ids.index(rid) if rid in ids else None


def _expect_cc(out, cc, what):
    from pyipmi.errors import CompletionCodeError
    if out[0] == 'err' and isinstance(out[1], CompletionCodeError) and out[1].cc == cc:
        return None
    return 'expected CompletionCodeError 0x%02x (%s), got %r' % (cc, what, out[1])


def judge_sel_call(c, out, seg, snap, dev, ref):
    """(failure class, message, new reference log) - failure class None if the step is right"""
    op = c['op']
    if out[0] == 'err' and isinstance(out[1], NoProgress):
        return 'no-progress', 'no progress: %d requests issued and still not finished' % len(seg), list(dev.log)
    if op == 'delete':
        k = _find(ref, c['rid'])
        if c['resv'] != 'fresh':
            m = _expect_cc(out, 0xc5, 'delete without the current reservation')
            if not m and dev.log != ref:
                m = 'the log changed although the delete was refused'
            return ('delete-refused' if m else None), m, ref
        if k is None:
            m = _expect_cc(out, 0xcb, 'no such record')
            return ('delete-absent' if m else None), m, ref
        new = ref[:k] + ref[k + 1:]
        if out[0] == 'err' or out[1] != rec_id(ref[k]):
            return 'delete-result', 'returned %r, expected the id %04x of the deleted record' % (out[1], rec_id(ref[k])), list(dev.log)
        if dev.log != new or dev.deleted[snap['ndel']:] != [ref[k]]:
            return 'delete-log', 'the device did not delete exactly the named entry', list(dev.log)
        return None, None, new
    if op == 'count':
        if out[0] == 'err' or out[1] != len(ref):
            return 'count', 'returned %r, the log holds %d entries' % (out[1], len(ref)), ref
    elif op == 'entries':
        if out[0] == 'err':
            return 'entries-raises', 'raised %r, the log holds %d entries' % (out[1], len(ref)), ref
        v = out[1]
        if len(v) != len(ref):
            return 'entries-count', 'returned %d entries, the log holds %d' % (len(v), len(ref)), ref
        for k, (e, r) in enumerate(zip(v, ref)):
            m = check_entry(e, r)
            if m:
                return 'entries-content', 'entry %d: %s' % (k, m), ref
    elif op == 'clear':
        if out[0] == 'err':
            return 'clear-raises', 'raised %r' % (out[1],), ref
        if dev.log or len(dev.deleted) != snap['ndel']:
            return 'clear-log', 'log holds %d entries after clear_sel' % len(dev.log), []
        return None, None, []
    elif op == 'entry':
        k = _find(ref, c['rid'])
        if k is None:
            m = _expect_cc(out, 0xcb, 'no such record')
            return ('entry-absent' if m else None), m, ref
        if not c.get('resv') and snap['limit'] not in (0xff, 16):
            m = _expect_cc(out, 0xc5, 'partial read without a reservation')
            return ('entry-noresv' if m else None), m, ref
        if out[0] == 'err':
            return 'entry-raises', 'raised %r' % (out[1],), ref
        m = check_entry(out[1][0], ref[k])
        if m:
            return 'entry-content', m, ref
        nxt = rec_id(ref[k + 1]) if k + 1 < len(ref) else 0xffff
        if out[1][1] != nxt:
            return 'entry-next', 'next record id %04x, the log says %04x' % (out[1][1], nxt), ref
    elif op == 'gac':
        rid = c['rid']
        used = [p for p in snap['plan'][:len(seg)] if p is not None]
        if rid == 0xffff:
            return None, None, list(dev.log)            # 'last' under concurrent appends: not judged here
        k = _find(ref + used if rid != 0 else ref or used, rid)
        if _find(ref, rid) is None and not (rid == 0 and used):
            # not in the log at any time of this call (additions carry fresh ids)
            m = _expect_cc(out, 0xcb, 'no such record')
            return ('gac-absent' if m else None), m, ref + used
        if out[0] == 'err':
            return 'gac-raises', 'raised %r' % (out[1],), ref + used
        target = (ref + used)[k]
        m = check_entry(out[1], target)
        if m:
            return 'gac-entry', 'returned entry is not the stored record: ' + m, ref + used
        if dev.deleted[snap['ndel']:] != [target]:
            return 'gac-deleted', 'device deleted %s, not exactly the returned entry' % [d.hex() for d in dev.deleted[snap['ndel']:]], ref + used
        new = [r for r in ref + used if r is not target]
        if dev.log != new:
            return 'gac-log', 'log afterwards is not the old log plus concurrent additions minus the entry', new
        m = _gac_trace(seg, rid, target)
        if m:
            return 'gac-trace', m, new
        return None, None, new
    return None, None, ref


def oracle_sel_seq(inp):
    """every client step behaves as if it were the only one, on the log as it is at that moment"""
    ref = [bytes.fromhex(x) for x in inp['log']]
    done = 0
    calls = inp['calls']

    def settle(upto, ref):
        nonlocal done
        for c in calls[done:upto]:
            if c['op'] == 'bmc_append':
                ref = ref + [bytes.fromhex(x) for x in c['recs']]
            elif c['op'] == 'bmc_clear':
                ref = []
        done = upto
        return ref
    for n, c, out, seg, snap, dev in exec_sel_history(inp):
        ref = settle(n, ref)
        done = n + 1
        try:
            key, msg, ref = judge_sel_call(c, out, seg, snap, dev, ref)
        except Exception as e:  # noqa
            key, msg = 'unjudgeable', 'result could not be examined: %r' % (e,)
        if key and inp.get('only_key') in (None, key):
            return 'step %d (%s) of the sequence: %s' % (n, {k: v for k, v in c.items() if k != 'plan'}, msg), key
        if key:
            ref = list(dev.log)       # another failure class than the one being shrunk: resynchronise
    return None


def _sel_seq(inp):
    r = oracle_sel_seq(inp)
    return r[0] if r else None


ORACLES = {'entries': oracle_entries, 'entries_change': oracle_entries_change, 'gac': oracle_gac, 'decode': oracle_decode, 'sel_seq': _sel_seq,
           'clear': oracle_clear}


def _safe(f):
    def g(inp):
        try:
            return f(inp)
        except Exception as e:  # noqa  (an oracle never crashes on what the implementation returned)
            return 'the result could not be examined: %r' % (e,)
    return g


ORACLES = {k: _safe(v) for k, v in ORACLES.items()}


def replay(data):
    r = data['replay']
    if 'oracle' not in r:
        print('replay file names a broken proof obligation / correspondence, not an input')
        return False
    return ORACLES[r['oracle']](r['input']) is None


# ---------------------------------------------------------------------------
# Coq literals
def c_ex(log):
    return C.c_list(['(%s, %s)' % (F.c_request(x), F.c_reply(x)) for x in log])


def c_log(log):
    return C.c_list([C.c_hex(r) for r in log])


def c_plan(plan):
    return C.c_list([C.c_opt(None if p is None else C.c_hex(p)) for p in plan])


def c_entry(e):
    return ('(mkSelEntry %s %d %d %d %d %d %d %d %d %d %s)'
            % (C.c_hex(entry_bytes(e)), e.record_id, e.type, e.timestamp, e.generator_id, e.evm_rev,
               e.sensor_type, e.sensor_number, e.event_direction, e.event_type, C.c_hex(bytes(e.event_data))))


def c_res(out, okfmt):
    return '(Ok %s)' % okfmt(out[1]) if out[0] == 'ok' else '(Err %s)' % F.c_outcome_err(out[1])


def mk_record(rng, rid, typ=None):
    if typ is None:
        typ = rng.choice([0x02] * 3 + [rng.randrange(0xc0, 0xe0), rng.randrange(0xe0, 0x100), 0xc0, 0xdf, 0xe0, 0xff])
    return bytes([rid & 0xff, rid >> 8, typ]) + bytes(rng.getrandbits(8) for _ in range(13))


def mk_log(rng, n, ids=None):
    ids = ids or rng.sample(range(1, 0xffff), n)
    return [mk_record(rng, i) for i in ids]


def run(ctx):
    import pyipmi.errors as PE
    import pyipmi.sel as ps
    rng = ctx.rng
    q = ctx.quick
    res = C.Result(model_map=MODEL_MAP)
    D = C.Distinct()
    terms, meta, fails = [], [], {}

    def add(term, info):
        terms.append(term)
        meta.append(info)

    def oracle(name, inp, key):
        res.evaluations += 1
        msg = ORACLES[name](inp)
        if msg and key not in fails:
            fails[key] = C.Violation(key=key, what=msg, replay={'oracle': name, 'input': inp})
        return msg

    limits = list(range(1, 17)) + [0xff]
    early = [0x8000]

    def fresh_early():
        early[0] += 1
        return mk_record(rng, early[0], 0x02)

    def dev_term(log, limit, plan, dev, ex):
        return ('chk_seldev %s %d 16 false %s ex %s %s'
                % (c_log(log), limit, c_plan(plan), c_log(dev.log), c_log(dev.deleted)))

    # ------------------------------------------------------------ SelEntry decoding
    # EVERY accepted record type byte in every run: 0x02, 0xC0..0xDF (OEM timestamped), 0xE0..0xFF (OEM
    # non-timestamped); oracle = independent reading of the record layout per type class
    ALL_TYPES = [0x02] + list(range(0xc0, 0x100))

    def type_class(t):
        return 'system' if t == 0x02 else 'oem-timestamped' if t < 0xe0 else 'oem-non-timestamped'

    for typ in ALL_TYPES + [rng.randrange(0xc0, 0x100) for _ in range(10 if q else 60)]:
        for rep in range(2 if typ != 0x02 else 6):
            r = mk_record(rng, rng.randrange(0x10000), typ)
            oracle('decode', {'rec': r.hex()}, 'SelEntry._from_response:' + type_class(typ))
            try:
                out = ('ok', ps.SelEntry(list(r)))
            except Exception as e:  # noqa
                out = ('err', e)
            add('chk_decode %s %s' % (C.c_hex(r), c_res(out, c_entry)), {'kind': 'decode', 'type': typ})
            D.add(('dec', r), True, 'decode ' + type_class(typ))
    for bad in ([0x00, 0x01, 0x03, 0x04, 0x7f, 0x80, 0xbe, 0xbf] + [rng.randrange(3, 0xc0) for _ in range(8)]):
        r = mk_record(rng, 5, bad)
        try:
            ps.SelEntry(list(r))
            out = ('ok', None)
        except Exception as e:  # noqa
            out = ('err', e)
        add('chk_decode %s %s' % (C.c_hex(r), c_res(out, lambda v: 'None')), {'kind': 'decode-bad-type', 'type': bad})
        D.add(('decbad', r), True, 'decode-unknown-type')
    for n in (0, 1, 15, 17, 32):
        r = bytes(rng.getrandbits(8) for _ in range(n))
        try:
            ps.SelEntry(list(r))
            out = ('ok', None)     # empty data: State.__init__ skips decoding (not reachable through get_sel_entry)
        except Exception as e:  # noqa
            out = ('err', e)
        if n:
            add('chk_decode %s %s' % (C.c_hex(r), c_res(out, lambda v: 'None')), {'kind': 'decode-bad-length', 'len': n})

    # ------------------------------------------------------------ reading the log
    sizes = list(range(0, 21)) if q else list(range(0, 21)) + [30, 50, 100, 200]
    for n in sizes:
        lims = limits if n <= 6 or not q else rng.sample(limits, 5) + [0xff]
        for limit in lims:
            log = mk_log(rng, n)
            inp = {'log': [r.hex() for r in log], 'limit': limit}
            oracle('entries', inp, 'get_sel_entries:%s' % ('empty' if n == 0 else 'content-order'))
            dev = SelDevice(log, limit, max_requests=20000)
            out, ex = _run(dev, lambda ipmi: ipmi.get_sel_entries())
            if len(ex) <= 1400:
                add('(let ex := %s in chk_entries ex %s && %s)'
                    % (c_ex(ex), c_res(out, lambda v: C.c_list([c_entry(e) for e in v])), dev_term(log, limit, [], dev, ex)),
                    {'kind': 'entries', 'n': n, 'limit': limit, 'requests': len(ex)})
            D.add(('entries', n, limit, tuple(log)), True, 'entries n=%s limit=%s' % (
                '0' if n == 0 else '1-5' if n < 6 else '6+', 'whole' if limit == 0xff else 'partial'))
    # one log that holds a record of EVERY accepted type (65 entries, shuffled), whole-record and partial
    for limit in (0xff, 16, rng.choice(range(4, 16))):
        ids = rng.sample(range(1, 0xffff), len(ALL_TYPES))
        log = [mk_record(rng, i, t) for i, t in zip(ids, rng.sample(ALL_TYPES, len(ALL_TYPES)))]
        inp = {'log': [r.hex() for r in log], 'limit': limit}
        oracle('entries', inp, 'get_sel_entries:every-record-type')
        dev = SelDevice(log, limit, max_requests=20000)
        out, ex = _run(dev, lambda ipmi: ipmi.get_sel_entries())
        add('(let ex := %s in chk_entries ex %s && %s)'
            % (c_ex(ex), c_res(out, lambda v: C.c_list([c_entry(e) for e in v])), dev_term(log, limit, [], dev, ex)),
            {'kind': 'entries-every-type', 'limit': limit, 'requests': len(ex)})
        D.add(('entries-types', limit, tuple(log)), True, 'entries every record type')
    # get-and-clear of records of the boundary types
    for typ in (0xc0, 0xdf, 0xe0, 0xff):
        log = [mk_record(rng, 0x10 + k, t) for k, t in enumerate((0x02, typ, 0x02))]
        inp = {'log': [r.hex() for r in log], 'limit': rng.choice(limits), 'rid': 0x11, 'plan': [None, fresh_early().hex()]}
        oracle('gac', inp, 'get_and_clear_sel_entry:atomic')
    # device variant that checks offset+length <= 16 before the size limit (pins `16 - req.offset`)
    for limit in range(1, 17):
        log = mk_log(rng, 2)
        inp = {'log': [r.hex() for r in log], 'limit': limit, 'range_first': True}
        oracle('entries', inp, 'get_sel_entries:content-order:range-checked-first')
        dev = SelDevice(log, limit, range_first=True)
        out, ex = _run(dev, lambda ipmi: ipmi.get_sel_entries())
        add('chk_entries %s %s' % (c_ex(ex), c_res(out, lambda v: C.c_list([c_entry(e) for e in v]))),
            {'kind': 'entries-range-first', 'limit': limit})
        D.add(('entries-rf', limit, tuple(log)), True, 'entries range-checked-first device')
    # special ids (first/last/maximal), single get_sel_entry with 0 / 0xFFFF / by id
    for limit in (0xff, 16, 7, 1):
        log = mk_log(rng, 4, ids=[0xfffe, 1, 0x0100, 0x00ff])
        for rid in (0, 0xffff, 1, 0xfffe, 0x00ff, 0x1234):
            dev = SelDevice(log, limit, resv=16, valid=False)
            out, ex = _run(dev, lambda ipmi: ipmi.get_sel_entry(rid, ipmi.get_sel_reservation_id()))
            ex1 = ex[1:]
            add('chk_entry %d 17 %s %s' % (rid, c_ex(ex1), c_res(out, lambda v: '(%s, %d)' % (c_entry(v[0]), v[1]))),
                {'kind': 'get_sel_entry', 'rid': rid, 'limit': limit})
            D.add(('entry', rid, limit), True, 'get_sel_entry')
    # a concurrent change during sel_entries (reservation lost): outcome only compared with the model
    for pos in (0, 1, 2, 3, 5, 9):
        log = mk_log(rng, 3)
        plan = [None] * pos + [mk_record(rng, 0x7777)]
        dev = SelDevice(log, 6, plan=plan)
        out, ex = _run(dev, lambda ipmi: ipmi.get_sel_entries())
        add('(let ex := %s in chk_entries ex %s && %s)'
            % (c_ex(ex), c_res(out, lambda v: C.c_list([c_entry(e) for e in v])), dev_term(log, 6, plan, dev, ex)),
            {'kind': 'entries-concurrent-change', 'pos': pos})
        D.add(('entries-change', pos), True, 'entries-concurrent-change')

    # the same judged directly: appends and deletions of the oldest entry before every request index, every limit
    for limit in limits:
        for op in ('get_sel_entries', 'sel_entries'):
            for pos in range(0, 14 if ctx.quick else 40):
                for what in ('del-first', 'append'):
                    log = mk_log(rng, 3)
                    ch = 'del-first' if what == 'del-first' else mk_record(rng, 0x7778).hex()
                    oracle('entries_change', {'log': [r.hex() for r in log], 'limit': limit, 'op': op,
                                              'plan': [None] * pos + [ch]}, '%s:entry-never-stored' % op)
                    D.add(('entries-change-judged', limit, op, pos, what), True, 'entries-change-judged')

    # ------------------------------------------------------------ get-and-clear
    def gac_case(log, limit, rid, plan, corr=True):
        inp = {'log': [r.hex() for r in log], 'limit': limit, 'rid': rid,
               'plan': [None if p is None else p.hex() for p in plan]}
        oracle('gac', inp, 'get_and_clear_sel_entry:atomic')
        if corr:
            dev = SelDevice(log, limit, plan=plan)
            out, ex = _run(dev, lambda ipmi: ipmi.get_and_clear_sel_entry(rid))
            add('(let ex := %s in chk_gac %d ex %s && %s)'
                % (c_ex(ex), rid, c_res(out, c_entry), dev_term(log, limit, plan, dev, ex)),
                {'kind': 'gac', 'limit': limit, 'rid': rid, 'changes': sum(p is not None for p in plan),
                 'requests': len(ex)})
        D.add(('gac', limit, rid, tuple(log), tuple(plan)), True,
              'gac changes=%d' % min(3, sum(p is not None for p in plan)))

    nid = [0x9000]

    def fresh():
        nid[0] += 1
        return mk_record(rng, nid[0])

    for limit in limits:
        log = mk_log(rng, rng.choice([1, 2, 5, 10]))
        rid = rec_id(rng.choice(log))
        gac_case(log, limit, rid, [])
        # how many requests does one undisturbed round take?
        dev = SelDevice(log, limit)
        _, ex0 = _run(dev, lambda ipmi: ipmi.get_and_clear_sel_entry(rid))
        nreq = max(len(ex0), 3)      # (an implementation that sends nothing is reported by the oracle, not a crash)
        # a single change before every request index (and one beyond the end: no effect)
        for pos in range(nreq + 1):
            gac_case(log, limit, rid, [None] * pos + [fresh()], corr=(q and pos % 3 == 0) or not q)
        # several changes
        for rep in range(3 if q else 12):
            k = rng.randrange(2, 5)
            plan = [None] * (3 * nreq)
            for pos in rng.sample(range(3 * nreq), k):
                plan[pos] = fresh()
            gac_case(log, limit, rid, plan, corr=rep == 0 or not q)
        # back-to-back changes at the start
        gac_case(log, limit, rid, [fresh(), fresh(), None, fresh()])
        # MANY consecutive cancelled rounds (a busy log: another party appends between read and delete every
        # time): the operation has no budget - both steps are repeated until a round goes through
        for k in ((5, 6, 9) if q else (4, 5, 6, 7, 9, 12, 17)):
            gac_case(log, limit, rid, ([None] * (nreq - 1) + [fresh()]) * k, corr=(k in (5, 6)) or not q)   # at the delete
            gac_case(log, limit, rid, [None, fresh()] * k, corr=(k == 6) or not q)                       # at the first read
    # first record addressed as 0
    for limit in (0xff, 4):
        log = mk_log(rng, 3)
        gac_case(log, limit, 0, [None, None, fresh()])

    # ------------------------------------------------------------ small operations and non-conforming replies
    for sc in ({}, {0: b''}, {0: b'\xc1'}, {0: b'\x00\x51\x03\x00'}, {0: bytes(16)}, {0: PE.IpmiTimeoutError()}):
        dev = SelDevice(mk_log(rng, 3), script=dict(sc))
        out, ex = _run(dev, lambda ipmi: ipmi.get_sel_entries_count())
        add('chk_count %s %s' % (c_ex(ex), c_res(out, str)), {'kind': 'count', 'script': repr(sc)})
    for sc in ({}, {0: b'\x00\x01'}, {0: b'\x00\x01\x02\x03'}, {0: b'\xd5'}, {0: b'\x00\xff\xff'}):
        dev = SelDevice(mk_log(rng, 3), script=dict(sc))
        out, ex = _run(dev, lambda ipmi: ipmi.get_sel_reservation_id())
        add('chk_reserve %s %s' % (c_ex(ex), c_res(out, str)), {'kind': 'reserve', 'script': repr(sc)})
    for sc in ({}, {0: b'\xc5'}, {0: b'\x00\x01'}, {0: b'\xcb'}):
        log = mk_log(rng, 3)
        dev = SelDevice(log, resv=7, valid=True, script=dict(sc))
        out, ex = _run(dev, lambda ipmi: ipmi.delete_sel_entry(rec_id(log[1]), 7))
        add('chk_delete %d 7 %s %s' % (rec_id(log[1]), c_ex(ex), c_res(out, str)), {'kind': 'delete', 'script': repr(sc)})
    r16 = mk_record(rng, 0x42)
    hdr = b'\x00\xff\xff'
    scripts = [
        {0: hdr + r16 + b'\x01\x02'},              # more than a record
        {0: hdr + r16[:10], 1: hdr + r16[10:] + b'zz'},   # partial then too much
        {0: hdr + r16[:10], 1: hdr + r16[10:]},    # answers 0xFF with a partial record, then the rest
        {0: b'\x00\x01'}, {0: b''}, {0: b'\xc0'}, {0: b'\xcb'}, {0: b'\xc5'}, {1: b'\xc5'},
        {0: b'\xca', 1: b'\xca', 2: b'\xca', 3: hdr + r16},
        {0: b'\xca', 1: PE.IpmiTimeoutError()},
        {0: hdr + r16[:3] + b'\x05' * 0},
        dict((k, b'\xca') for k in range(0, 25)),  # refuses down to length 0 and below (encoded modulo 256)
        {0: hdr + bytes([0x42, 0, 0x05]) + bytes(13)},   # unknown record type
    ]
    for sc in scripts:
        dev = SelDevice([r16], 0xff, resv=33, valid=True, script=dict(sc), max_requests=60)
        out, ex = _run(dev, lambda ipmi: ipmi.get_sel_entry(0x42, 33))
        add('chk_entry 66 33 %s %s' % (c_ex(ex), c_res(out, lambda v: '(%s, %d)' % (c_entry(v[0]), v[1]))),
            {'kind': 'get_sel_entry-script', 'script': {k: (v.hex() if isinstance(v, bytes) else repr(v)) for k, v in sc.items()}})
        D.add(('script', repr(sc)), True, 'nonconforming-device')
    for sc in ({2: b'\xcb'}, {1: b'\xd5'}, {3: b'\xc5', 5: b'\xc5'}, {2: b'\x00\x01'}, {1: PE.IpmiTimeoutError()}):
        dev = SelDevice([r16], 0xff, script=dict(sc), max_requests=60)
        out, ex = _run(dev, lambda ipmi: ipmi.get_and_clear_sel_entry(0x42))
        add('chk_gac 66 %s %s' % (c_ex(ex), c_res(out, c_entry)), {'kind': 'gac-script', 'script': repr(sc)})
        D.add(('gscript', repr(sc)), True, 'nonconforming-device')


    # ------------------------------------------------------------ clear_sel
    def clear_case(log, plan, retry=None, script=None):
        inp = {'log': [r.hex() for r in log], 'limit': 0xff, 'plan': [None if p is None else p.hex() for p in plan]}
        if retry is not None:
            inp['retry'] = retry
        if script is None and (retry is None or retry >= 2 + sum(p is not None for p in plan)):
            oracle('clear', inp, 'clear_sel:log-erased')
        dev = SelDevice(log, 0xff, plan=plan, script=dict(script or {}), max_requests=200)
        sleeps = []
        with fake_sleep(sleeps):
            out, ex = _run(dev, lambda ipmi: ipmi.clear_sel(**({'retry': retry} if retry is not None else {})))
        devt = dev_term(log, 0xff, plan, dev, ex) if script is None else 'true'
        add('(let ex := %s in chk_clear %s ex %s %s && %s)'
            % (c_ex(ex), C.c_nat(5 if retry is None else retry), C.c_list([str(x) for x in sleeps]),
               c_res(out, lambda v: 'tt'), devt),
            {'kind': 'clear_sel', 'n': len(log), 'retry': retry, 'changes': sum(p is not None for p in plan),
             'script': repr(script) if script else None})
        D.add(('clear', len(log), retry, tuple(plan), repr(script)), True, 'clear_sel')

    for n in (0, 1, 4, 12):
        clear_case(mk_log(rng, n), [])
    for pos in range(0, 5):
        clear_case(mk_log(rng, 3), [None] * pos + [fresh_early()])
    clear_case(mk_log(rng, 3), [fresh_early(), fresh_early(), None, fresh_early()])
    clear_case(mk_log(rng, 3), [None, fresh_early(), fresh_early(), fresh_early(), fresh_early(), fresh_early()])   # budget exhausted
    for retry in (0, 1, 2, 3, 8):
        clear_case(mk_log(rng, 2), [], retry=retry)
        clear_case(mk_log(rng, 2), [None, fresh_early()], retry=retry)
    for sc in ({1: b'\x00\x00', 2: b'\x00\x00'}, {2: b'\x00\x00', 3: b'\x00\x10', 4: b'\x00\x00'},
               dict((k, b'\x00\x00') for k in range(1, 12)), {1: b'\xd5'}, {0: b'\xc0'}, {1: b'\x00'}, {1: b'\x00\x01\x02'},
               {2: PE.IpmiTimeoutError()}, {1: b'\xc5', 2: b'\xc9'}, {1: b'\xc5', 2: b'\x00\x07'}):
        clear_case(mk_log(rng, 2), [], script=sc)

    # ------------------------------------------------------------ history stage
    def snap_dev(snap, dev, ex_name='ex'):
        return ('chk_seldev %s %d %d %s %s %s %s %s'
                % (c_log(snap['log']), snap['limit'], snap['resv'], C.c_bool(snap['valid']), c_plan(snap['plan']),
                   ex_name, c_log(dev.log), c_log(dev.deleted[snap['ndel']:])))

    for hno in range(5 if q else 30):
        log = mk_log(rng, rng.choice([0, 0, 3, 5, 8]))
        cur = list(log)
        limit = rng.choice(limits)
        lim_now = [limit]
        calls = []

        def client(op=None, obj=None):
            op = op or rng.choice(['entries', 'entries', 'count', 'entry', 'gac', 'gac', 'gac', 'clear', 'delete'])
            c = {'op': op, 'obj': obj or rng.choice('AAB')}
            if op in ('entry', 'gac', 'delete') and not cur:
                c['op'] = op = 'entries'
            if op == 'clear':
                del cur[:]
            if op == 'delete':
                c['resv'] = rng.choice(['fresh', 'fresh', 'stale', 'zero'])
                t = rng.choice(cur)
                c['rid'] = rec_id(t)
                if c['resv'] == 'fresh':
                    cur[:] = [r for r in cur if r is not t]
            if op == 'entry':
                c['rid'] = rng.choice([0, 0xffff] + [rec_id(r) for r in cur])
                c['resv'] = True if lim_now[0] not in (0xff, 16) else rng.random() < 0.5
            elif op == 'gac':
                t = rng.choice(cur)
                c['rid'] = rec_id(t)
                adds = []
                if rng.random() < 0.6:
                    a = fresh()
                    adds = [a]
                    c['plan'] = [None] * rng.randrange(0, 3) + [a.hex()]
                cur[:] = [r for r in cur + adds if r is not t]
            calls.append(c)

        def failing_step(obj=None):
            """a step that must fail, from the state the log is in"""
            obj = obj or rng.choice('AAB')
            absent = rng.choice([x for x in (0x7001, 0x7002, 0x00fe, 0xfffe) if x not in [rec_id(r) for r in cur]])
            kind = rng.choice(['entry-absent', 'gac-absent', 'delete-absent', 'delete-refused', 'entry-noresv'])
            if kind == 'entry-noresv' and (lim_now[0] in (0xff, 16) or not cur):
                kind = 'entry-absent'
            if kind == 'delete-refused' and not cur:
                kind = 'delete-absent'
            if kind == 'entry-absent':
                calls.append({'op': 'entry', 'obj': obj, 'rid': absent, 'resv': True})
            elif kind == 'gac-absent':
                calls.append({'op': 'gac', 'obj': obj, 'rid': absent})
            elif kind == 'delete-absent':
                calls.append({'op': 'delete', 'obj': obj, 'rid': absent, 'resv': 'fresh'})
            elif kind == 'delete-refused':
                calls.append({'op': 'delete', 'obj': obj, 'rid': rec_id(rng.choice(cur)), 'resv': rng.choice(['stale', 'zero'])})
            else:
                calls.append({'op': 'entry', 'obj': obj, 'rid': rec_id(rng.choice(cur)), 'resv': False})

        def bmc_append():
            recs = [fresh() for _ in range(rng.randrange(1, 4))]
            cur.extend(recs)
            calls.append({'op': 'bmc_append', 'recs': [r.hex() for r in recs]})

        def bmc_clear():
            del cur[:]
            calls.append({'op': 'bmc_clear'})

        for _ in range(rng.randrange(8, 16)):
            r = rng.random()
            if r < 0.1:
                bmc_append()
            elif r < 0.15:
                bmc_clear()
            elif r < 0.25:
                lim_now[0] = rng.choice(limits)
                calls.append({'op': 'limit', 'value': lim_now[0]})
            elif r < 0.4:
                failing_step()
            else:
                client()
        # a step that must fail, then ordinary operations on the SAME object
        for pat in range(2):
            obj = rng.choice('AB')
            failing_step(obj)
            client(rng.choice(['entries', 'entry', 'gac', 'count']), obj)
            client(None, obj)
        # directed patterns on ONE object: a listing / count, then the log changes on the device side
        # (emptied by another party, or filled by the BMC), then a listing again
        for pat in range(2):
            obj = rng.choice('AB')
            if rng.random() < 0.5 or not cur:
                bmc_clear()
                client(rng.choice(['entries', 'count']), obj)
                bmc_append()
                client('entries', obj)
            else:
                client(rng.choice(['entries', 'count']), obj)
                bmc_clear()
                client('entries', obj)
            client()
        inp = {'log': [r.hex() for r in log], 'limit': limit, 'calls': calls}
        res.evaluations += len(calls)
        r = oracle_sel_seq(inp)
        if r:
            key = 'sel-history:' + r[1]
            if key not in fails:
                extra = {'log': inp['log'], 'limit': limit, 'only_key': r[1]}
                seq = C.shrink_history('C12', 'sel_seq', calls, extra=extra) or calls
                inp2 = dict(extra, calls=seq)
                fails[key] = C.Violation(key=key, what=(_sel_seq(inp2) or r[0]) + ' [history of %d step(s)]' % len(seq),
                                         replay={'oracle': 'sel_seq', 'input': inp2})
        for n, c, out, seg, snap, dev in exec_sel_history(inp):
            fmt = lambda v: '(%s, %d)' % (c_entry(v[0]), v[1])  # noqa
            try:
                if c['op'] == 'count':
                    t = 'chk_count ex %s' % c_res(out, str)
                elif c['op'] == 'entries':
                    t = 'chk_entries ex %s' % c_res(out, lambda v: C.c_list([c_entry(e) for e in v]))
                elif c['op'] == 'gac':
                    t = 'chk_gac %d ex %s' % (c['rid'], c_res(out, c_entry))
                elif c['op'] == 'delete':
                    fmtd = lambda v: str(v)  # noqa
                    nres = {'fresh': 1, 'stale': 2, 'zero': 0}[c['resv']]
                    if len(seg) >= nres and all(x.cmd == CMD_RESERVE and len(x.reply) == 3 for x in seg[:nres]):
                        Rs = [x.reply[1] | x.reply[2] << 8 for x in seg[:nres]]
                        t = ' && '.join(['chk_reserve (firstn 1 (skipn %d ex)) (Ok %d)' % (k, R) for k, R in enumerate(Rs)]
                                        + ['chk_delete %d %d (skipn %d ex) %s' % (c['rid'], Rs[0] if Rs else 0, nres, c_res(out, fmtd))])
                    else:
                        t = 'false'
                elif c['op'] == 'clear':
                    t = 'chk_clear 5 ex %s %s' % (C.c_list([str(x) for x in snap['sleeps']]), c_res(out, lambda v: 'tt'))
                elif c.get('resv') and seg and seg[0].cmd == CMD_RESERVE and len(seg[0].reply) == 3:
                    R = seg[0].reply[1] | seg[0].reply[2] << 8
                    t = ('chk_reserve (firstn 1 ex) (Ok %d) && chk_entry %d %d (tl ex) %s'
                         % (R, c['rid'], R, c_res(out, fmt)))
                elif c.get('resv'):
                    t = 'false'        # the implementation did not start with Reserve SEL: model differs
                else:
                    t = 'chk_entry %d 0 ex %s' % (c['rid'], c_res(out, fmt))
            except Exception:  # noqa  (a result object that cannot be printed: counts as a difference)
                t = 'false'
            add('(let ex := %s in %s && %s)' % (c_ex(seg), t, snap_dev(snap, dev)),
                {'kind': 'history', 'history': hno, 'step': n, 'op': c['op'], 'obj': c.get('obj')})
            D.add(('hist', hno, n, c['op'], c.get('rid'), snap['limit']), True, 'history ' + c['op'])

    failing, errors = C.coq_cases('C12_p%d' % os.getpid(), 'Lib.Prog Model.SelIO Corr.C10 Corr.C12', terms, shard=40)
    res.mismatches = [{'case': meta[i], 'term': terms[i][:400]} for i in failing[:50]]
    res.corr_errors = errors
    res.evaluations += len(terms)
    res.distinct_nontrivial = D.distinct
    res.histogram = D.hist
    res.rule = ('logs of 0..20 entries (thorough: also 30, 50, 100, 200) with random distinct 16-bit ids and record '
                'types 0x02 / 0xC0..0xFF, every limit 1..16 and whole-record; get_sel_entry by id, 0 and 0xFFFF; '
                'get-and-clear for every limit with one concurrent change before every request index of a round, '
                'random plans of 2-4 changes, back-to-back changes; SelEntry decoding on EVERY accepted type byte (0x02, 0xC0..0xFF) '
                'and a 65-entry log holding every type (whole-record, 16, one partial limit) in every run; rejected types/lengths; non-conforming replies. distinct = distinct canonical (kind, log, limit, plan); '
                'all cases drive a loop against a device or decode a record')
    pick = [0, len(terms) // 3, len(terms) // 2, len(terms) - 1]
    res.samples = [{'case': meta[i], 'term': terms[i][:300]} for i in pick]
    res.oracle_failures = list(fails.values())
    return res
