"""C06 - LAN session establishment, sequence numbering, close.

The real Rmcp interface and Session object are driven behind a scripted socket object (no
network): establish_session + k requests + close_session, against a Python reference v1.5 BMC
that is a line-by-line copy of the Gallina checker automaton Model/Bmc15.v.  Every datagram
is recorded.  Correspondence: (1) the model Model/Session.v replays the same operations
against the recorded replies inside Coq and must send byte-identical datagrams, produce the
same outcomes and end in the same session state (MD5 through the recorded hashlib table, as
in C05); (2) the Gallina BMC must give the same replies / verdict on the recorded datagrams as
the Python copy that served the client.  Oracle: the reference BMC's verdict and the expected
outcomes of the operations (independent of the client model).
random.randrange is pinned, call_repeatedly is substituted (no keep-alive thread is started).
"""
import hashlib
import socket

from . import common as C
from . import c05 as H5
from . import lan_pub as P

MODEL_MAP = [
    {'python': 'pyipmi/interfaces/rmcp.py:Rmcp.establish_session', 'coq': 'Model.Session.establish'},
    {'python': 'pyipmi/interfaces/rmcp.py:Rmcp.ping', 'coq': 'Model.Session.ping'},
    {'python': 'pyipmi/interfaces/rmcp.py:Rmcp._get_channel_auth_cap', 'coq': 'Model.Session.get_channel_auth_cap/decode_caps'},
    {'python': 'pyipmi/interfaces/rmcp.py:Rmcp._get_session_challenge', 'coq': 'Model.Session.get_session_challenge/decode_challenge/user_field'},
    {'python': 'pyipmi/interfaces/rmcp.py:Rmcp._activate_session', 'coq': 'Model.Session.activate_session/decode_activate'},
    {'python': 'pyipmi/interfaces/rmcp.py:Rmcp._set_session_privilege_level', 'coq': 'Model.Session.set_session_privilege_level/decode_cc_n'},
    {'python': 'pyipmi/interfaces/rmcp.py:Rmcp.close_session', 'coq': 'Model.Session.close_session'},
    {'python': 'pyipmi/interfaces/rmcp.py:Rmcp._send_and_receive (send side, retry on socket.timeout; one exchange atomic)',
     'coq': 'Model.Session.xchg/xchg_loop'},
    {'python': 'pyipmi/interfaces/rmcp.py:Rmcp.send_and_receive_raw', 'coq': 'Model.Session.request'},
    {'python': 'pyipmi/messaging.py:ChannelAuthenticationCapabilities._from_response/get_max_auth_type',
     'coq': 'Model.Session.max_auth_type'},
    {'python': 'pyipmi/session.py:Session.increment_sequence_number', 'coq': 'Model.Rmcp.incr_seq'},
    {'python': 'pyipmi/msgs/device_messaging.py: GetChannelAuthenticationCapabilities / GetSessionChallenge / '
               'ActivateSession / SetSessionPrivilegeLevel / CloseSession Req+Rsp (through encode/decode_message)',
     'coq': 'Model.Session request byte lists and decode_*'},
    {'python': '(specification, not code) reference IPMI v1.5 BMC', 'coq': 'Model.Bmc15.bmc_step'},
]
TRUSTED = H5.TRUSTED + ['harness/c06.py:Bmc15 - Python copy of Model/Bmc15.v serving the real client (compared with the '
                        'Gallina automaton on every recorded datagram)']

le32 = H5.le32
pad16 = H5.pad16
PING = bytes([6, 0, 0xff, 6, 0, 0, 0x11, 0xbe, 0x80, 0, 0, 0])
PONG = bytes([6, 0, 0xff, 6, 0, 0, 0x11, 0xbe, 0x40, 0, 0, 0x10, 0, 0, 0x11, 0xbe, 0, 0, 0, 0, 0x81, 0, 0, 0, 0, 0, 0, 0])
VNAMES = {1: 'malformed datagram', 2: 'message out of order', 3: 'pre-session message with non-null session header',
          4: 'Get Channel Authentication Capabilities request content', 5: 'authentication type is not the strongest offered and implemented',
          6: 'wrong user name', 7: 'Activate Session header (type / temporary id)', 8: 'Activate Session authentication code',
          9: 'Activate Session data (type / privilege / challenge)', 10: 'in-session header (type / session id)',
          11: 'session sequence number', 12: 'authentication code', 13: 'Close Session for another id', 14: 'privilege level'}


# --------------------------------------------------------------------------
# the reference BMC: Python copy of Model/Bmc15.v
# --------------------------------------------------------------------------
def le_val(b):
    return sum(x << (8 * i) for i, x in enumerate(b))


def best(caps):
    return 2 if caps & 4 else 4 if caps & 16 else 0 if caps & 1 else None


def bmc_parse(dg):
    if len(dg) < 5 or dg[0] != 6 or dg[1] != 0 or dg[2] != 0xff or dg[3] != 7:
        return None
    a = dg[4]
    off = 14 if a == 0 else 30
    if len(dg) < off or dg[off - 1] != len(dg) - off:
        return None
    return {'auth': a, 'seqb': dg[5:9], 'sidb': dg[9:13], 'code': b'' if a == 0 else dg[13:29], 'frame': dg[off:]}


def ipmb_parse(f):
    if len(f) < 7 or f[0] != 0x20 or sum(f[0:3]) % 256 or sum(f[3:]) % 256:
        return None
    return f[1] >> 2, f[1] & 3, f[5], bytes(f[6:-1])


def bmc_code(a, pw, sidb, seqb, frame):
    if a == 0:
        return b''
    if a == 4:
        return pad16(pw)
    return hashlib.md5(pad16(pw) + sidb + frame + seqb + pad16(pw)).digest()


class Bmc15:
    def __init__(self, p):
        self.p = p                       # caps user pw priv tmp chal sid init
        self.ph, self.viol, self.cnt = ('P0',), None, 0

    def flag(self, v):
        if self.viol is None:
            self.viol = v

    def step(self, dg):
        """-> bytes (reply data, or the pong datagram) | None (no answer)"""
        p = self.p
        if dg == PING:
            self.ph = ('P1',)
            return PONG
        pp = bmc_parse(dg)
        ip = ipmb_parse(pp['frame']) if pp else None
        if ip is None:
            self.flag(1)
            return None
        netfn, lun, cmd, data = ip
        null = pp['auth'] == 0 and le_val(pp['seqb']) == 0 and le_val(pp['sidb']) == 0
        if (netfn, cmd) == (6, 0x38):
            rsp = bytes([0, 1, p['caps'], 0, 0, 0, 0, 0, 0])
            if self.ph not in (('P1',), ('P2',)):        # P2: retransmission after a lost reply
                self.flag(2)
            elif not null:
                self.flag(3)
            elif not (len(data) == 2 and data[0] & 0xf == 0xe and data[1] == p['priv']):
                self.flag(4)
            self.ph = ('P2',)
            return rsp
        if (netfn, cmd) == (6, 0x39):
            if len(data) == 0:
                self.flag(1)
                return bytes([0xc7])
            a, user = data[0], data[1:]
            rsp = bytes([0]) + le32(p['tmp']) + p['chal']
            if self.ph[0] not in ('P2', 'P3'):            # P3: retransmission after a lost reply
                self.flag(2)
            elif not null:
                self.flag(3)
            elif best(p['caps']) is not None and a != best(p['caps']):
                self.flag(5)
            elif user != pad16(p['user']):
                self.flag(6)
            self.ph = ('P3', a)
            return rsp
        if (netfn, cmd) == (6, 0x3a):
            if not (self.ph[0] == 'P3' or (self.ph[0] == 'P4' and self.ph[2] is None)):   # P4/None: retransmission
                self.flag(2)
                return bytes([0x81])
            a = self.ph[1]
            rsp = bytes([0, a]) + le32(p['sid']) + le32(p['init']) + bytes([p['priv']])
            if not (pp['auth'] == a and le_val(pp['sidb']) == p['tmp']):
                self.flag(7)
            elif pp['code'] != bmc_code(a, p['pw'], pp['sidb'], pp['seqb'], pp['frame']):
                self.flag(8)
            elif not (len(data) == 22 and data[0] == a and data[1] == p['priv'] and data[2:18] == p['chal']):
                self.flag(9)
            self.ph = ('P4', a, None)
            return rsp
        if self.ph[0] != 'P4':
            self.flag(2)
            return None
        a, last = self.ph[1], self.ph[2]
        seq = le_val(pp['seqb'])
        if last is None:
            seq_ok = seq != 0 and (seq + (1 << 32) - p['init']) % (1 << 32) <= 8
        else:
            seq_ok = seq != 0 and seq == (1 if last == 0xffffffff else last + 1)
        if not (pp['auth'] == a and le_val(pp['sidb']) == p['sid']):
            self.flag(10)
        elif not seq_ok:
            self.flag(11)
        elif pp['code'] != bmc_code(a, p['pw'], pp['sidb'], pp['seqb'], pp['frame']):
            self.flag(12)
        else:
            self.cnt += 1
        self.ph = ('P4', a, seq)
        if (netfn, cmd) == (6, 0x3b):
            if len(data) != 1:
                self.flag(14)
                return bytes([0xc7])
            if data[0] != p['priv']:
                self.flag(14)
            return bytes([0, data[0]])
        if (netfn, cmd) == (6, 0x3c):
            if data == le32(p['sid']):
                self.ph = ('P5',)
                return bytes([0])
            self.flag(13)
            return bytes([0x87])
        return bytes([0]) + data


def wrap_response(req_dg, data):
    """the datagram a BMC sends back carrying response data (cc + fields) for that request"""
    body = req_dg[4:]
    a = body[0]
    off = 10 if a == 0 else 26
    f = body[off:]
    rs_sa, b1, _, rq_sa, b4, cmd = f[:6]
    head = [rq_sa, (((b1 >> 2) | 1) << 2) | (b4 & 3)]
    head.append(-sum(head) % 256)
    rest = [rs_sa, (b4 & 0xfc) | (b1 & 3), cmd] + list(data)
    rest.append(-sum(rest) % 256)
    frame = bytes(head + rest)
    hdr = bytes([a]) + body[1:9] + (bytes(16) if a != 0 else b'')
    return bytes([6, 0, 0xff, 7]) + hdr + bytes([len(frame)]) + frame


# --------------------------------------------------------------------------
# scripted socket and client driver
# --------------------------------------------------------------------------
class ScriptSock:
    def __init__(self):
        self.log = []           # per datagram: dict(dg, reply ('data', bytes) | ('timeout',), seg, fault)
        self.pending = []
        self.bmc = None
        self.faults = {}
        self.seg = -1
        self.seg_count = 0

    def attach(self, bmc, faults, seg):
        self.bmc, self.faults, self.seg, self.seg_count = bmc, faults, seg, 0

    def settimeout(self, t):
        pass

    def sendto(self, pdu, addr):
        dg = bytes(pdu)
        rep = self.bmc.step(dg)
        fault = self.faults.get(str(self.seg_count))
        self.seg_count += 1
        natural = ('timeout',) if rep is None else ('data', rep)
        eff = natural
        if fault is not None and dg != PING:
            if fault == 'timeout':
                eff = ('timeout',)
            elif fault.startswith('cc:'):
                eff = ('data', bytes([int(fault[3:], 0)]))
            elif fault == 'short' and rep:
                eff = ('data', rep[:-1])
            elif fault == 'long' and rep:
                eff = ('data', rep + b'\x00')
            elif fault == 'empty':
                eff = ('data', b'')
        elif fault is not None:
            eff = ('timeout',) if fault == 'timeout' else ('data', PONG[:-1] if fault in ('short', 'empty') else
                                                           PONG + b'\x00' if fault == 'long' else PONG[:8] + b'\x41' + PONG[9:])
        self.log.append({'dg': dg, 'natural': natural, 'eff': eff, 'seg': self.seg, 'fault': fault is not None})
        self.pending = []
        if eff[0] == 'data':
            self.pending.append(eff[1] if dg == PING else wrap_response(dg, eff[1]))

    def recvfrom(self, n):
        if not self.pending:
            raise socket.timeout()
        return (self.pending.pop(0), ('bmc', 623))


class FakeRandom:
    def __init__(self, vals):
        self.vals = list(vals)

    def randrange(self, a, b=None):
        return self.vals.pop(0)


def ocode(e):
    import pyipmi.errors as E
    if isinstance(e, E.CompletionCodeError):
        return 100 + e.cc
    if isinstance(e, E.DecodingError):
        return 1
    if isinstance(e, E.NotSupportedError):
        return 2
    if isinstance(e, E.RetryError):
        return 4
    return 3


def bmc_params(cfg, b):
    return {'caps': b['caps'], 'user': (cfg['user'] or '').encode(), 'pw': H5.pw_bytes(cfg['pw']) or b'',
            'priv': cfg['priv'], 'tmp': b['tmp'], 'chal': bytes.fromhex(b['chal']), 'sid': b['sid'], 'init': b['init']}


def run_scenario(scn):
    """Drive the real client through the scenario; returns the record used by the
    correspondence terms and by the oracle."""
    rmcp = H5._rmcp()
    from pyipmi.session import Session
    cfg = scn['cfg']
    rnds = [op[1] for seg in scn['segments'] for op in seg['ops'] if op[0] == 'est']
    saved = (rmcp.random, rmcp.call_repeatedly)
    keep = {'started': 0, 'stopped': 0}

    def fake_call_repeatedly(interval, func, *args):
        keep['started'] += 1

        def stop():
            keep['stopped'] += 1
        return stop
    rmcp.random = FakeRandom(rnds)
    rmcp.call_repeatedly = fake_call_repeatedly
    try:
        with H5.md5_recorded() as rec:
            itf = rmcp.Rmcp(max_retries=cfg['retries'], keep_alive_interval=cfg['keep'])
            sock = ScriptSock()
            P.give_socket(itf, sock)            # through the public open() with the socket factory substituted
            s = Session()
            s.set_session_type_rmcp('bmc', 623)
            s.set_auth_type_user(cfg['user'], H5.pw_value(cfg['pw']))
            s.set_priv_level({2: 'user', 3: 'operator', 4: 'administrator'}[cfg['priv']])
            s.interface = itf
            outs, segs = [], []
            for k, seg in enumerate(scn['segments']):
                bmc = Bmc15(bmc_params(cfg, seg['bmc']))
                sock.attach(bmc, seg.get('faults', {}), k)
                souts = []
                for op in seg['ops']:
                    try:
                        if op[0] == 'est':
                            rmcp.random.vals = [op[1]]
                            itf.establish_session(s)
                            r = (0, b'')
                        elif op[0] == 'req':
                            import pyipmi
                            rx = itf.send_and_receive_raw(pyipmi.Target(0x20), op[2], op[1],
                                                          bytes([op[3]]) + bytes.fromhex(op[4]))
                            r = (0, bytes(rx))
                        else:
                            itf.close_session()
                            r = (0, b'')
                    except Exception as e:  # noqa
                        r = (ocode(e), b'', type(e).__name__)
                    souts.append(r)
                outs += souts
                segs.append({'bmc': bmc, 'outs': souts})
            final = [s.auth_type if s.auth_type is not None else 999, s.sid, s.sequence_number, int(bool(s.activated)),
                     P.peek(itf, '_session', lambda v: 0 if v is None else 1 if v is s else 7),
                     getattr(itf, 'seq_number', P.WILD), getattr(itf, 'next_sequence_number', P.WILD),
                     int(keep['started'] > 0)]      # a keep-alive was started (call_repeatedly is substituted)
    finally:
        rmcp.random, rmcp.call_repeatedly = saved
    return {'log': sock.log, 'outs': outs, 'segs': segs, 'final': final, 'md5': rec.calls, 'keep': keep}


# --------------------------------------------------------------------------
# Coq terms
# --------------------------------------------------------------------------
def c_lreply(eff):
    return '(LData %s)' % C.c_hex(eff[1]) if eff[0] == 'data' else 'LTimeout'


def c_cfg(cfg):
    return '(mkCfg %s %d %d%%nat %s)' % (C.c_hex((cfg['user'] or '').encode()), cfg['priv'], cfg['retries'],
                                        C.c_bool(bool(cfg['keep'])))


def c_op(op):
    if op[0] == 'est':
        return '(OEst %d)' % op[1]
    if op[0] == 'req':
        return '(OReq %d %d %d %s)' % (op[1], op[2], op[3], C.c_hex(bytes.fromhex(op[4])))
    return 'OClose'


def c_state0(cfg):
    pb = H5.pw_bytes(cfg['pw'])
    return '(mkL (mkSess (Some 4) 0 0 false %s) false 255 0 false)' % C.c_opt(None if pb is None else C.c_hex(pb))


def terms_for(scn, rec):
    cfg = scn['cfg']
    tab = H5.c_tab(rec['md5'])
    ops = [op for seg in scn['segments'] for op in seg['ops']]
    t = ['chk_ops %s %s %s %s %s %s %s %s' % (
        tab, c_cfg(cfg), c_state0(cfg), C.c_list([c_op(o) for o in ops]),
        C.c_list([c_lreply(x['eff']) for x in rec['log']]),
        C.c_list([C.c_hex(x['dg']) for x in rec['log']]),
        C.c_list(['(%d, %s)' % (o[0], C.c_hex(o[1])) for o in rec['outs']]),
        C.c_list([str(x) for x in rec['final']]))]
    for k, seg in enumerate(scn['segments']):
        p = bmc_params(cfg, seg['bmc'])
        lg = [x for x in rec['log'] if x['seg'] == k]
        bmc = rec['segs'][k]['bmc']
        t.append('chk_bmc %s (mkBmcP %d %s %s %d %d %s %d %d) %s %s %s %d %d' % (
            tab, p['caps'], C.c_hex(p['user']), C.c_hex(p['pw']), p['priv'], p['tmp'], C.c_hex(p['chal']), p['sid'],
            p['init'], C.c_list([C.c_hex(x['dg']) for x in lg]),
            C.c_list([C.c_opt(c_lreply(x['natural'])) for x in lg]),
            C.c_opt(None if bmc.viol is None else str(bmc.viol)), bmc.cnt, int(bmc.ph[0][1])))
    return t


# --------------------------------------------------------------------------
# oracle: the property on the implementation (reference BMC verdict + outcomes)
# --------------------------------------------------------------------------
STEP_OF_CMD = {0x38: 1, 0x39: 2, 0x3a: 3, 0x3b: 4}


def dg_step(dg):
    if dg == PING:
        return 0
    pp = bmc_parse(dg)
    ip = ipmb_parse(pp['frame']) if pp else None
    if ip is None:
        return None
    return STEP_OF_CMD.get(ip[2]) if ip[0] == 6 else 9


def judge(scn, rec):
    """-> (key, message) of the first way the property fails on this run, or None"""
    cfg = scn['cfg']
    for k, seg in enumerate(scn['segments']):
        bmc, outs = rec['segs'][k]['bmc'], rec['segs'][k]['outs']
        lg = [x for x in rec['log'] if x['seg'] == k]
        faults = seg.get('faults', {})
        b = best(seg['bmc']['caps'])
        if seg['ops'][0][0] != 'est':
            continue
        if any(not (f == 'timeout' or f.startswith('cc:')) for f in faults.values()):
            continue        # malformed replies are outside the property's quantifier (only compared with the model)
        if b is None:
            # nothing the library implements is offered: establishing must fail, nothing else is required
            if outs[0][0] == 0:
                return ('establish-without-common-type', 'establish_session succeeded although support byte %#04x offers '
                        'no implemented authentication type' % seg['bmc']['caps'])
            continue
        if bmc.viol is not None:
            extra = ''
            if bmc.viol == 5:
                req = [x for x in lg if dg_step(x['dg']) == 2]
                a = ipmb_parse(bmc_parse(req[0]['dg'])['frame'])[3][0] if req else -1
                return ('auth-choice:prefers-unimplemented-type',
                        'BMC offering support byte %#04x (strongest implemented type: %s) was asked for authentication '
                        'type %d in Get Session Challenge' % (seg['bmc']['caps'], b, a))
            return ('bmc-rule-%d' % bmc.viol, 'reference BMC: datagram breaks rule "%s"%s (segment %d)'
                    % (VNAMES[bmc.viol], extra, k))
        for op, o in zip(seg['ops'], outs):
            if faults or b is None:
                break
            if o[0] != 0:
                return ('%s-raises-%s' % (op[0], o[2] if len(o) > 2 else o[0]),
                        '%s fails with %s against a conforming BMC (segment %d)' % (op[0], o[2] if len(o) > 2 else o[0], k))
            if op[0] == 'req' and o[1] != bytes([0]) + bytes.fromhex(op[4]):
                return ('request-wrong-reply', 'request returned %s' % o[1].hex())
        if not faults and b is not None:
            nreq = sum(1 for op in seg['ops'] if op[0] == 'req')
            closed = any(op[0] == 'close' for op in seg['ops'])
            want = (1 + nreq + (1 if closed else 0)) if any(op[0] == 'est' for op in seg['ops']) else 0
            if bmc.cnt != want or (closed and bmc.ph != ('P5',)):
                return ('bmc-count', 'BMC accepted %d in-session datagrams, expected %d; phase %s' % (bmc.cnt, want, bmc.ph))
        if faults:
            # handshake failure: establish must raise and no datagram of a later step may follow
            fi = min(int(i) for i in faults)
            if fi < len(lg) and seg['ops'][0][0] == 'est' and dg_step(lg[fi]['dg']) in (0, 1, 2, 3, 4):
                st = dg_step(lg[fi]['dg'])
                n_est = len([x for x in lg if dg_step(x['dg']) in (0, 1, 2, 3, 4)])
                # silence is a failure of the step only when every attempt (retries + 1, the ping: 1) stays unanswered
                attempts = 1 if st == 0 else cfg['retries'] + 1
                fatal = faults[str(fi)].startswith('cc:') or all(faults.get(str(fi + k)) == 'timeout' for k in range(attempts))
                if not fatal:
                    # the retransmission was answered: the handshake must complete and the session must work
                    for op, o in zip(seg['ops'], outs):
                        if o[0] != 0:
                            return ('%s-raises-%s-after-retransmission' % (op[0], o[2] if len(o) > 2 else o[0]),
                                    '%s fails with %s although the retransmitted step %d was answered (segment %d)'
                                    % (op[0], o[2] if len(o) > 2 else o[0], st, k))
                    continue
                if outs[0][0] == 0:
                    return ('establish-ignores-failure-step-%d' % st, 'establish_session returned normally although step %d '
                            'got fault %s' % (st, faults[str(fi)]))
                later = [dg_step(x['dg']) for x in lg[fi + 1:n_est] if dg_step(x['dg']) != st]
                if later:
                    return ('later-step-after-failure-step-%d' % st, 'after the failure of step %d datagrams of step(s) %s '
                            'were sent' % (st, later))
    return None


def oracle_scenario(scn):
    rec = run_scenario(scn)
    j = judge(scn, rec)
    return None if j is None else j[1]


def oracle_history(inp):
    """several scenarios one after the other in ONE process (what an earlier session left behind in
    class-level or module-level state is part of the input): the first one judged failing"""
    for n, scn in enumerate(inp['calls']):
        j = judge(scn, run_scenario(scn))
        if j is not None and inp.get('key') in (None, j[0]):
            return 'scenario %d of the history: %s' % (n, j[1])
    return None


ORACLES = {'scenario': oracle_scenario, 'history': oracle_history}


def replay(data):
    r = data['replay']
    if 'oracle' not in r:
        return False
    return ORACLES[r['oracle']](r['input']) is None


def reproduce(scn, before, key):
    """-> replay dict for a scenario judged failing (violation `key`) in this process after the
    scenarios `before`: the scenario alone if it fails from a clean start, else the shortest history
    found that does (same violation)"""
    alone = {'oracle': 'history', 'input': {'calls': [scn], 'key': key}}
    if not C.holds_in_fresh_process('C06', alone):
        return {'oracle': 'scenario', 'input': scn}, True

    def fails(seq):
        return not C.holds_in_fresh_process('C06', {'oracle': 'history', 'input': {'calls': seq + [scn], 'key': key}})
    cur = list(before)
    if not fails(cur):
        return {'oracle': 'history', 'input': {'calls': cur + [scn], 'key': key}}, False
    while len(cur) > 1:                      # a single earlier scenario usually suffices: halve
        a, b = cur[:len(cur) // 2], cur[len(cur) // 2:]
        if fails(b):
            cur = b
        elif fails(a):
            cur = a
        else:
            break
    seq = cur + [scn]
    if len(seq) <= 12:
        seq = C.shrink_history('C06', 'history', seq, extra={'key': key}) or seq
    return {'oracle': 'history', 'input': {'calls': seq, 'key': key}}, True


# --------------------------------------------------------------------------
IDS = H5.IDS
INITS = [0xfffffffe, 0xffffffff, 0, 1, 0xfffffff6, 0x7fffffff, 0x80000000, 0x01020304, 0xff, 0xfffffffd]
CAPS_BITS = [0, 1, 2, 4, 5]


def gen_bmc(rng, caps=None):
    if caps is None:
        caps = rng.choice([0x04, 0x14, 0x15, 0x37, 0x10, 0x01, 0x16, 0x97])
    return {'caps': caps, 'tmp': rng.choice(IDS) if rng.random() < 0.6 else rng.randrange(1 << 32),
            'chal': bytes(rng.randrange(256) for _ in range(16)).hex(),
            'sid': rng.choice(IDS) if rng.random() < 0.6 else rng.randrange(1 << 32),
            'init': rng.choice(INITS) if rng.random() < 0.8 else rng.randrange(1 << 32)}


def gen_cfg(rng, ulen=None, plen=None):
    ulen = rng.randrange(17) if ulen is None else ulen
    plen = rng.randrange(17) if plen is None else plen
    user = ''.join(chr(rng.randrange(33, 127)) for _ in range(ulen)) or rng.choice([None, ''])
    if rng.random() < 0.5:
        pw = 'str:' + ''.join(chr(rng.randrange(33, 127)) for _ in range(plen))
    else:
        pw = 'hex:' + bytes(rng.randrange(256) for _ in range(plen)).hex()
    return {'user': user, 'pw': pw, 'priv': rng.choice([2, 3, 4]), 'retries': rng.choice([0, 0, 1, 2]),
            'keep': rng.choice([1, 1, 0])}


def gen_reqs(rng, n):
    out = []
    for _ in range(n):
        # not the session commands themselves, nor Send Message (0x34: its replies are C09's bridging)
        cmd = rng.choice([c for c in range(256) if c not in (0x34, 0x38, 0x39, 0x3a, 0x3b, 0x3c)]) if rng.random() < .9 else 1
        out.append(['req', rng.choice([6, 0x0a, 0x04, 0x2c, 0x30]), rng.randrange(4), cmd,
                    bytes(rng.randrange(256) for _ in range(rng.choice([0, 1, 2, 5, 16, 40]))).hex()])
    return out


def rnd32(rng):
    return rng.choice([1, 0xfffffffe, 0x01020304]) if rng.random() < 0.4 else rng.randrange(1, 0xffffffff)


def scenarios(rng, q):
    out = []
    # sessions against different BMCs one after the other in this process, capability sets in varied
    # order (strong then weak, weak then strong), on fresh objects (consecutive scenarios) and on
    # re-used Session / Rmcp objects (segments of one scenario)
    for order in ([0x14, 0x10, 0x01], [0x01, 0x10, 0x04], [0x37, 0x11, 0x01, 0x15], [0x10, 0x04, 0x10, 0x01]):
        for caps in order:
            out.append(('caps-order-fresh-objects', {'cfg': gen_cfg(rng), 'segments': [
                {'bmc': gen_bmc(rng, caps), 'ops': [['est', rnd32(rng)]] + gen_reqs(rng, 1) + [['close']]}]}))
        out.append(('caps-order-reused-objects', {'cfg': gen_cfg(rng), 'segments': [
            {'bmc': gen_bmc(rng, caps), 'ops': [['est', rnd32(rng)]] + gen_reqs(rng, 1) + [['close']]} for caps in order]}))
    # every capability subset (x reserved / v2.0 bits), with 0..5 follow-up requests
    for m in range(32):
        caps = sum(1 << b for i, b in enumerate(CAPS_BITS) if m >> i & 1)
        for extra in ([0] if q else [0, 0x80, 0x48]):
            out.append(('caps', {'cfg': gen_cfg(rng), 'segments': [{'bmc': gen_bmc(rng, caps | extra),
                        'ops': [['est', rnd32(rng)]] + gen_reqs(rng, m % 6) + [['close']]}]}))
    # initial inbound sequence numbers around the wrap, several requests (and retransmissions)
    for init in INITS + [0xffffffff - k for k in range(2, 8)]:
        for caps in (0x04, 0x10, 0x01):
            b = gen_bmc(rng, caps)
            b['init'] = init
            cfg = gen_cfg(rng)
            seg = {'bmc': b, 'ops': [['est', rnd32(rng)]] + gen_reqs(rng, rng.choice([3, 5, 9])) + [['close']]}
            if cfg['retries'] and rng.random() < 0.5:
                seg['faults'] = {}
            out.append(('wrap', {'cfg': cfg, 'segments': [seg]}))
    # user / password lengths 0..16
    for n in range(17):
        out.append(('lengths', {'cfg': gen_cfg(rng, n, 16 - n), 'segments': [{'bmc': gen_bmc(rng), 'ops':
                    [['est', rnd32(rng)]] + gen_reqs(rng, 1) + [['close']]}]}))
    # silence on some in-session datagram with retries: retransmission advances the number
    for _ in range(6 if q else 40):
        cfg = gen_cfg(rng)
        cfg['retries'] = rng.choice([1, 2, 3])
        b = gen_bmc(rng)
        out.append(('retransmit', {'cfg': cfg, 'segments': [{'bmc': b, 'faults': {str(rng.randrange(5, 8)): 'timeout'},
                    'ops': [['est', rnd32(rng)]] + gen_reqs(rng, 4) + [['close']]}]}))
    # the reply of a handshake step is lost once or twice, the retransmission is answered: the session comes up
    for step in range(1, 5):
        for lost in (1, 2):
            cfg = gen_cfg(rng)
            cfg['retries'] = rng.choice([lost, lost + 1])
            out.append(('retransmit-handshake-step-%d' % step, {'cfg': cfg, 'segments': [{
                'bmc': gen_bmc(rng), 'faults': {str(step + k): 'timeout' for k in range(lost)},
                'ops': [['est', rnd32(rng)]] + gen_reqs(rng, 2) + [['close']]}]}))
    # every attempt of a step unanswered (retries 2): establish fails after the retransmissions
    for step in range(1, 5):
        cfg = gen_cfg(rng)
        cfg['retries'] = 2
        out.append(('silence-all-attempts-step-%d' % step, {'cfg': cfg, 'segments': [
            {'bmc': gen_bmc(rng), 'faults': {str(step + k): 'timeout' for k in range(3)}, 'ops': [['est', rnd32(rng)]]},
            {'bmc': gen_bmc(rng), 'ops': [['est', rnd32(rng)]] + gen_reqs(rng, 2) + [['close']]}]}))
    # a fault at each handshake step, then re-establishing on the same objects; close afterwards
    for step in range(5):
        for fault in ('timeout', 'cc:0xc1', 'cc:0x81', 'short', 'long', 'empty'):
            for retries in ((0,) if q else (0, 2)):
                cfg = gen_cfg(rng)
                cfg['retries'] = retries
                seg1 = {'bmc': gen_bmc(rng), 'faults': {str(step + k): fault for k in range(retries + 1)},
                        'ops': [['est', rnd32(rng)]] + ([['close']] if rng.random() < 0.3 else [])}
                seg2 = {'bmc': gen_bmc(rng), 'ops': [['est', rnd32(rng)]] + gen_reqs(rng, 2) + [['close']]}
                out.append(('fault-step-%d' % step, {'cfg': cfg, 'segments': [seg1, seg2]}))
    # after close; twice without close; close twice; request before establish; close before establish
    for _ in range(3 if q else 20):
        cfg = gen_cfg(rng)
        out.append(('reestablish-after-close', {'cfg': cfg, 'segments': [
            {'bmc': gen_bmc(rng), 'ops': [['est', rnd32(rng)]] + gen_reqs(rng, 2) + [['close']]},
            {'bmc': gen_bmc(rng), 'ops': [['est', rnd32(rng)]] + gen_reqs(rng, 3) + [['close'], ['close']]}]}))
        out.append(('reestablish-without-close', {'cfg': gen_cfg(rng), 'segments': [
            {'bmc': gen_bmc(rng), 'ops': [['est', rnd32(rng)]] + gen_reqs(rng, 1)},
            {'bmc': gen_bmc(rng), 'ops': [['est', rnd32(rng)]] + gen_reqs(rng, 2) + [['close']]}]}))
    out.append(('close-first', {'cfg': gen_cfg(rng), 'segments': [{'bmc': gen_bmc(rng), 'ops': [['close']]}]}))
    return out


def decode_cases(rng, q, add):
    """max auth type for every support byte; decode_message of the five responses on
    well-formed, short, long and error replies"""
    from pyipmi.msgs import create_message, decode_message
    from pyipmi.messaging import ChannelAuthenticationCapabilities
    from pyipmi.utils import check_completion_code
    for sup in range(256):
        rsp = create_message(7, 0x38, None)
        decode_message(rsp, bytes([0, 1, sup, 0, 0, 0, 0, 0, 0]))
        caps = ChannelAuthenticationCapabilities(rsp)
        a = caps.get_max_auth_type()
        add('chk_max_auth %d None %d' % (sup, 999 if a is None else a), ('max_auth', sup))
        for supported in ((0, 4, 2), (1, 2), ()):
            try:
                a = caps.get_max_auth_type(supported)
                a = 999 if a is None else a
            except TypeError:
                a = 998             # the unrepaired signature takes no argument
            add('chk_max_auth %d (Some %s) %d' % (sup, C.c_list([str(x) for x in supported]), a),
                ('max_auth_supported', sup, supported))

    def dec(cmd, d, fields, onerr):
        rsp = create_message(7, cmd, None)
        try:
            decode_message(rsp, d)
        except Exception as e:  # noqa
            return ocode(e), []
        if rsp.completion_code != 0:
            return 0, onerr(rsp.completion_code)
        return 0, [0] + fields(rsp)
    specs = [
        (0x38, 9, 'chk_dec_caps', lambda r: [int(r.support)], lambda cc: [cc, 0]),
        (0x39, 21, 'chk_dec_challenge', lambda r: [r.temporary_session_id] + list(r.challenge_string), lambda cc: [cc, 0]),
        (0x3a, 11, 'chk_dec_activate', lambda r: [r.session_id, r.initial_inbound_sequence_number], lambda cc: [cc, 0, 0]),
        (0x3b, 2, 'chk_dec_cc 1%nat', lambda r: [], lambda cc: [cc]),
        (0x3c, 1, 'chk_dec_cc 0%nat', lambda r: [], lambda cc: [cc]),
    ]
    for cmd, n, chk, fields, onerr in specs:
        lens = sorted(set(list(range(0, n + 4)) + [n + 10]))
        for ln in lens:
            for cc in (0, 0, 0xc1, 0x81):
                d = bytes([cc] + [rng.randrange(256) for _ in range(max(ln - 1, 0))])[:ln]
                code, v = dec(cmd, d, fields, onerr)
                add('%s %s %d %s' % (chk, C.c_hex(d), code, C.c_list([str(x) for x in v])), ('decode', cmd, d.hex()))


def run(ctx):
    rng = ctx.rng
    q = ctx.quick
    res = C.Result(model_map=MODEL_MAP)
    D = C.Distinct()
    terms, meta, fails = [], [], {}

    def add(term, info):
        terms.append(term)
        meta.append(info)

    ndg = 0
    done = []
    scenario_errors = []
    for kind, scn in scenarios(rng, q):
        try:
            rec = run_scenario(scn)
        except Exception as e:  # noqa  - an exception of the implementation that reached the harness outside an
            import traceback     # operation: an observation, the run goes on
            scenario_errors.append({'kind': kind, 'exception': '%s: %s' % (type(e).__name__, e),
                                    'traceback': traceback.format_exc()[-1200:]})
            if len(scenario_errors) <= 3:
                print('NOTE property=C06 scenario %r could not be driven: %s: %s' % (kind, type(e).__name__, e))
            continue
        ndg += len(rec['log'])
        for t in terms_for(scn, rec):
            add(t, (kind, scn))
        j = judge(scn, rec)
        res.evaluations += 1
        if j and j[0] not in fails and len(fails) < 6:
            # the scenarios run before in this process are part of the input: store what reproduces
            # from a clean start (confirmed / shrunk in fresh processes)
            rp, ok = reproduce(scn, done, j[0])
            n = len(rp['input']['calls']) if rp['oracle'] == 'history' else 1
            fails[j[0]] = C.Violation(key=j[0], what=j[1] + (' [history of %d scenario(s)%s]' % (
                n, '' if ok else ', not reproduced from a clean start') if n > 1 or not ok else ''),
                replay=rp, found_input=ok)
        done.append(scn)
        D.add(('scn', repr(scn)), True, kind)
    decode_cases(rng, q, add)
    # walks of the session sequence counter: k real increments from n against the closed form of
    # C06_seq_closed_form (starts near the 32-bit wrap, at 1, and random)
    from pyipmi.session import Session
    for n in [1, 2, 0xfffffffe, 0xffffffff, 0xffffff00, 0xfffffc00] + [rng.randrange(1, 1 << 32) for _ in range(10)]:
        for k in (0, 1, 2, 3, 255, 256, 257, 1500):
            s_ = Session()
            s_.sequence_number = n
            for _ in range(k):
                s_.increment_sequence_number()
            add('chk_seq_walk %d %d %d' % (n, k, s_.sequence_number), ('seq_walk', n, k))
            D.add(('seq_walk', n, k), True, 'seq_walk')
    failing, errors = C.coq_cases('C06', 'Model.Rmcp Model.Session Model.Bmc15 Corr.C05 Corr.C06', terms, shard=40)
    res.mismatches = [{'case': meta[i], 'term': terms[i][:600]} for i in failing[:30]]
    res.corr_errors = errors
    res.evaluations += len(terms)
    res.distinct_nontrivial = D.distinct
    res.histogram = dict(D.hist, datagrams_recorded=ndg)
    res.rule = ('scenarios on one Rmcp + Session object behind a scripted socket: all 32 capability subsets, initial inbound '
                'numbers around the 32-bit wrap, user / password lengths 0..16, 3 privilege levels, 0..9 follow-up requests, '
                'retries 0..3, lost replies of handshake steps with answered retransmissions, silence on every attempt, '
                'silence / error code / short / long / empty reply at each of the 5 handshake steps followed by '
                're-establishing on the same objects, re-establishing after close and without close, close twice / first; sessions '
                'against BMCs with different capability sets in varied order on fresh and on re-used objects (all in one process); '
                'plus get_max_auth_type on all 256 support bytes and decode of the 5 responses at every length. '
                'distinct = distinct scenarios, all non-trivial')
    res.samples = [{'term': terms[i][:400], 'case': meta[i]} for i in (0, len(terms) // 2, len(terms) - 1)]
    res.oracle_failures = list(fails.values())
    res.extra['scenario_errors'] = scenario_errors[:10]
    res.extra['library_access'] = dict(P.notes)
    return res
