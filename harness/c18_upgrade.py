"""C18, upgrade drivers: the HPM.1 methods of pyipmi/hpm.py on top of upload_binary
(initiate/finish/activate/rollback *_and_wait, the stages, install_component_from_file).

The real methods are driven through harness/fakeif.py against a Python twin of the Gallina
upgrade device (Model/HpmUpgradeSpec.v:upg_device); the model progs of Model/HpmUpgrade.v are
replayed in Coq on the recorded replies and the Gallina device is run on the recorded
requests.  Oracle = the HPM.1 sequence rule read off the wire (independent of the model).
"""
import os

from . import common as C
from . import fakeif as F

MODEL_MAP = [
    {'python': 'pyipmi/hpm.py:Hpm.abort_firmware_upgrade', 'coq': 'Model.HpmUpgrade.abort_firmware_upgrade'},
    {'python': 'pyipmi/hpm.py:Hpm.initiate_upgrade_action/_and_wait, _get_component_count',
     'coq': 'Model.HpmUpgrade.initiate_upgrade_action/_and_wait, component_count, and_wait'},
    {'python': 'pyipmi/hpm.py:Hpm.finish_firmware_upload/finish_upload_and_wait', 'coq': 'Model.HpmUpgrade.finish_firmware_upload/finish_upload_and_wait'},
    {'python': 'pyipmi/hpm.py:Hpm.activate_firmware/_and_wait', 'coq': 'Model.HpmUpgrade.activate_firmware/_and_wait'},
    {'python': 'pyipmi/hpm.py:Hpm.query_selftest_results, SelfTestResult', 'coq': 'Model.HpmUpgrade.query_selftest_results'},
    {'python': 'pyipmi/hpm.py:Hpm.query_rollback_status, initiate_manual_rollback/_and_wait, RollbackStatus',
     'coq': 'Model.HpmUpgrade.query_rollback_status/initiate_manual_rollback/_and_wait'},
    {'python': 'pyipmi/hpm.py:Hpm.get_target_upgrade_capabilities, TargetUpgradeCapabilities; pyipmi/bmc.py:Bmc.get_device_id, '
               'DeviceId._from_response (device/manufacturer/product id, VersionField checks)',
     'coq': 'Model.HpmUpgrade.get_target_upgrade_capabilities/get_device_id/dec_device_id'},
    {'python': 'pyipmi/hpm.py:Hpm.preparation_stage/upgrade_stage/activation_stage/wait_until_new_firmware_comes_up',
     'coq': 'Model.HpmUpgrade.preparation_stage/upgrade_stage/activation_stage/wait_until_new_firmware_comes_up'},
    {'python': 'pyipmi/hpm.py:Hpm.install_component_from_image/_from_file, get_upgrade_version_from_file, open_upgrade_image',
     'coq': 'Model.HpmUpgrade.install_component_from_image/_from_file, get_upgrade_version_from_file'},
]
TICK = 333        # ms per time.time() call inside wait_until_new_firmware_comes_up (never hits a boundary)


class MsClock:
    """`time` of pyipmi.hpm for the float-second API: integer milliseconds inside; time passes in
    sleep() and - only while [tick] is set - by tick per time() call."""

    def __init__(self):
        self.ms, self.tick, self.sleeps = 0, 0, []

    def time(self):
        from fractions import Fraction
        t = Fraction(self.ms, 1000)        # exact: `time.time() < start_time + timeout` has no rounding
        self.ms += self.tick
        return t

    def sleep(self, x):
        n = int(round(x * 1000))
        self.sleeps.append(n)
        self.ms += n


class UDevice:
    """Python twin of Model/HpmUpgradeSpec.v:upg_device"""

    def __init__(self, block_plans=(), cmd_plan=(), ident=(0, 0, 0), present=0, down=0):
        from .c18 import Device
        self.Device = Device
        self.core = Device([])
        self.block_plans = [list(p) for p in block_plans]
        self.cmd_plan = [tuple(a) for a in cmd_plan]
        self.cmds, self.ident, self.present, self.active, self.down = 0, tuple(ident), present, False, down

    def planned(self, kind, payload=b''):
        a = self.cmd_plan[self.cmds] if self.cmds < len(self.cmd_plan) else ('A',)
        self.cmds += 1
        if a[0] == 'F':
            return bytes([a[1], 0])
        k = a[1] if a[0] == 'P' else 0
        if kind == 'upload':
            self.core = self.Device(self.block_plans.pop(0) if self.block_plans else [])
        if kind == 'activate':
            self.active = True
        self.core.pending = k
        return b'\x80\x00' if a[0] == 'P' else b'\x00\x00' + payload

    def handle(self, netfn, cmd, lun, data, req=None):
        import pyipmi.errors as E
        if self.active and self.down:
            self.down -= 1
            raise E.IpmiTimeoutError()
        if netfn == 0x2c and lun == 0:
            if cmd in (0x32, 0x34):
                return self.core.handle(netfn, cmd, lun, data)
            if cmd == 0x30 and data == b'\x00':
                return self.planned('plain')
            if cmd == 0x31 and len(data) == 3 and data[0] == 0:
                return self.planned('upload' if data[2] in (2, 3) else 'plain')
            if cmd == 0x33 and len(data) == 6 and data[0] == 0:
                return self.planned('plain')
            if cmd == 0x35 and len(data) in (1, 2) and data[0] == 0:
                return self.planned('activate')
            if cmd == 0x38 and data == b'\x00':
                return self.planned('plain')
            if cmd == 0x36 and data == b'\x00':
                return self.planned('plain', b'\x55\x00')
            if cmd == 0x37 and data == b'\x00':
                return self.planned('plain', b'\x00')
            if cmd == 0x2e and data == b'\x00':
                return bytes([0, 0, 0, 0, 0, 0, 0, 0, self.present])
            return b'\xc1'
        if netfn == 0x06 and lun == 0 and cmd == 0x01 and data == b'':
            d, m, p = self.ident
            return bytes([0, d, 0, 0, 0, 2, 0]) + m.to_bytes(3, 'little') + p.to_bytes(2, 'little')
        return b'\xc1'


def c_dev(dv):
    """(block_plans, cmd_plan, ident, present, down) as the arguments of Corr.C18.chk_udevice"""
    from .c18 import c_plan
    return '%s %s (%d, %d, %d) %d %s' % (C.c_list([c_plan(p) for p in dv['block_plans']]), c_plan(dv['cmd_plan']),
                                          dv['ident'][0], dv['ident'][1], dv['ident'][2], dv['present'], C.c_nat(dv['down']))


def mk_dev(dv):
    return UDevice(dv['block_plans'], dv['cmd_plan'], dv['ident'], dv['present'], dv['down'])


def drive(dv, call, faults=None):
    """call(ipmi) on a fresh Ipmi object against a fresh upgrade device; returns (outcome, log, sleeps).
    faults: {exchange index: 'timeout' | bytes} in front of the device (correspondence only)."""
    import pyipmi.errors as E
    from .c18 import _hpm, attempt
    hpm = _hpm()
    dev = mk_dev(dv)
    n = [0]
    faults = {int(k): v for k, v in (faults or {}).items()}

    def handler(netfn, cmd, lun, data, req):
        i = n[0]
        n[0] += 1
        f = faults.get(i)
        if f == 'timeout':
            raise E.IpmiTimeoutError()
        if f is not None:
            try:
                dev.handle(netfn, cmd, lun, data)
            except E.IpmiTimeoutError:
                pass
            return bytes(f)
        return dev.handle(netfn, cmd, lun, data)
    ipmi, itf = F.connect(handler)
    clock = MsClock()
    orig = type(ipmi).wait_until_new_firmware_comes_up

    def comeup(timeout, interval):      # the library's own loop, under the busy-loop clock regime
        clock.tick = TICK
        try:
            return orig(ipmi, timeout, interval)
        finally:
            clock.tick = 0
    ipmi.wait_until_new_firmware_comes_up = comeup
    real = hpm.time
    hpm.time = clock
    try:
        out = attempt(lambda: call(ipmi))
    finally:
        hpm.time = real
    return out, itf.log, clock.sleeps


# ---------------------------------------------------------------- the rule, read off the wire
WAITS = (0x31, 0x32, 0x33, 0x35, 0x38)


def is_hpm(x, cmd=None):
    return x.netfn == 0x2c and x.lun == 0 and (cmd is None or x.cmd == cmd)


def steps_of(log, bs=22):
    """the HPM.1 steps of a transcript; status polls dropped, block runs after Initiate(upload) collapsed"""
    steps, cur = [], None

    def close():
        nonlocal cur
        if cur is not None:
            steps.append(('upload', bytes(cur[1]).hex()))
        cur = None
    for x in log:
        d = x.data
        if is_hpm(x, 0x34):
            continue
        if is_hpm(x, 0x32):
            if cur is not None and len(d) >= 2 and d[1] == cur[0] % 256 and len(d) - 2 <= bs:
                cur = (cur[0] + 1, cur[1] + d[2:])
            else:
                close()
                steps.append(('bad-block',))
            continue
        close()
        if is_hpm(x, 0x30) and d == b'\x00':
            steps.append(('abort',))
        elif is_hpm(x, 0x2e) and d == b'\x00':
            steps.append(('caps',))
        elif is_hpm(x, 0x31) and len(d) == 3 and d[0] == 0:
            steps.append(('initiate', d[1], d[2]))
            if d[2] in (2, 3):
                cur = (0, b'')
        elif is_hpm(x, 0x33) and len(d) == 6 and d[0] == 0:
            steps.append(('finish', d[1], int.from_bytes(d[2:6], 'little')))
        elif is_hpm(x, 0x35) and len(d) in (1, 2) and d[0] == 0:
            steps.append(('activate', d[1] if len(d) == 2 else None))
        elif x.netfn == 0x06 and x.cmd == 0x01 and d == b'':
            steps.append(('device-id',))
        else:
            steps.append(('other', x.netfn, x.cmd, d.hex()))
    close()
    return steps


def expected_steps(spec, comp):
    st = [('abort',), ('device-id',), ('caps',)]
    for a in spec['actions']:
        if not a['components'] >> comp & 1:
            continue
        st.append(('initiate', 1 << comp, a['type']))
        if a['type'] == 2:
            fw = bytes.fromhex(a['firmware'])
            st += [('upload', fw.hex()), ('finish', comp, len(fw))]
    st.append(('activate', None))
    return st


def judge_wire(log, out):
    """rules (2) and (3) on any driver transcript: returns (key, msg) or None"""
    for i, x in enumerate(log):
        rp = x.reply
        if not isinstance(rp, (bytes, bytearray)) or not rp:
            continue
        cc = rp[0]
        waits = is_hpm(x) and x.cmd in WAITS
        if cc != 0 and not (cc == 0x80 and waits):          # a refusal
            want = 'HpmError' if waits else 'CCError %d' % cc
            got = C.exc_class(out) if isinstance(out, Exception) else 'normal return'
            if i != len(log) - 1:
                return ('hpm-upgrade:continues-after-refusal',
                        'request cmd 0x%02x refused with cc 0x%02x at exchange %d, %d more request(s) follow'
                        % (x.cmd, cc, i, len(log) - 1 - i))
            if got != want:
                return ('hpm-upgrade:refusal-outcome', 'request cmd 0x%02x refused with cc 0x%02x: outcome %s, expected %s'
                        % (x.cmd, cc, got, want))
        if cc == 0x80 and waits:                              # long duration command: polls until complete
            j = i + 1
            done = False
            while j < len(log) and is_hpm(log[j], 0x34):
                r = log[j].reply
                if isinstance(r, (bytes, bytearray)) and len(r) >= 4 and r[0] == 0 and r[3] != 0x80:
                    done = True
                j += 1
            if j == i + 1:
                return ('hpm-upgrade:no-poll-after-in-progress', 'cmd 0x%02x answered 0x80 at exchange %d is not followed by a status poll' % (x.cmd, i))
            if not done:
                return ('wait_for_long_duration_command:gives-up-silently',
                        'cmd 0x%02x answered 0x80 at exchange %d: after %d status polls the device still reports "in progress" '
                        'and the driver %s' % (x.cmd, i, j - i - 1,
                                               'returns normally' if j >= len(log) else 'goes on with cmd 0x%02x' % log[j].cmd))
    return None


def write_image(data, name):
    from .c18 import SCRATCH
    SCRATCH.mkdir(parents=True, exist_ok=True)
    p = SCRATCH / ('%s-%d.hpm' % (name, os.getpid()))
    p.write_bytes(data)
    return p


def run_install(inp):
    from .c18 import enc_image
    p = write_image(enc_image(inp['spec']), 'install')
    try:
        return drive(inp['dev'], lambda ipmi: ipmi.install_component_from_file(str(p), inp['comp']))
    finally:
        p.unlink()


def oracle_install(inp):
    """install_component_from_file of an encoder image on a matching device: the HPM.1 sequence"""
    out, log, sleeps = run_install(inp)
    r = judge_wire(log, out)
    if r:
        return r
    refused = any(isinstance(x.reply, (bytes, bytearray)) and x.reply[:1] != b'\x00'
                  and not (x.reply[:1] == b'\x80' and is_hpm(x) and x.cmd in WAITS) for x in log)
    if refused:
        return None
    if out is not None:
        return ('install_component:raises', 'installation raised %s %s' % (type(out).__name__, out))
    got, want = steps_of(log), expected_steps(inp['spec'], inp['comp'])
    tail = got[len(want):]
    if got[:len(want)] != want or any(s != ('device-id',) for s in tail):
        k = next((i for i in range(min(len(got), len(want))) if got[i] != want[i]), min(len(got), len(want)))

        def show(s):
            return repr(tuple(v if not isinstance(v, str) or len(v) < 24 else v[:20] + '...' for v in s))
        key = 'install_component:sequence'
        if k < len(want) and k < len(got) and want[k][0] == got[k][0] == 'activate':
            key = 'activation_stage:activate-request'
        return (key, 'step %d on the wire is %s, the HPM.1 sequence for this image has %s'
                % (k, show(got[k]) if k < len(got) else 'nothing', show(want[k]) if k < len(want) else 'nothing more'))
    return None


# drivers callable by name in replays: name -> (call(ipmi, *args), Coq prog printer(*args))
def _opt(v):
    return 'None' if v is None else '(Some %d)' % v


DRIVERS = {
    'initiate_upgrade_action_and_wait': (lambda ipmi, m, a, t, i: ipmi.initiate_upgrade_action_and_wait(m, a, t, i),
                                         lambda m, a, t, i: '(initiate_upgrade_action_and_wait %d %d %d %d)' % (m, a, t * 1000, i * 1000)),
    'finish_upload_and_wait': (lambda ipmi, c, n, t, i: ipmi.finish_upload_and_wait(c, n, t, i),
                               lambda c, n, t, i: '(finish_upload_and_wait %d %d %d %d)' % (c, n, t * 1000, i * 1000)),
    'activate_firmware_and_wait': (lambda ipmi, o, t, i: ipmi.activate_firmware_and_wait(o, t, i),
                                   lambda o, t, i: '(activate_firmware_and_wait %s %d %d)' % (_opt(o), t * 1000, i * 1000)),
    'initiate_manual_rollback_and_wait': (lambda ipmi, t, i: ipmi.initiate_manual_rollback_and_wait(t, i),
                                          lambda t, i: '(initiate_manual_rollback_and_wait %d %d)' % (t * 1000, i * 1000)),
    'abort_firmware_upgrade': (lambda ipmi: ipmi.abort_firmware_upgrade(), lambda: 'abort_firmware_upgrade'),
    'initiate_upgrade_action': (lambda ipmi, m, a: ipmi.initiate_upgrade_action(m, a),
                                lambda m, a: '(initiate_upgrade_action %d %d)' % (m, a)),
    'finish_firmware_upload': (lambda ipmi, c, n: ipmi.finish_firmware_upload(c, n) and None,
                               lambda c, n: '(finish_firmware_upload %d %d)' % (c, n)),
    'activate_firmware': (lambda ipmi, o: ipmi.activate_firmware(o), lambda o: '(activate_firmware %s)' % _opt(o)),
}


def oracle_driver(inp):
    """one *_and_wait driver on the upgrade device: rules (2) and (3)"""
    call = DRIVERS[inp['name']][0]
    out, log, sleeps = drive(inp['dev'], lambda ipmi: call(ipmi, *inp['args']))
    r = judge_wire(log, out)
    if r:
        return r
    if not log:
        return None
    first = log[0].reply
    if isinstance(first, (bytes, bytearray)) and first[:1] in (b'\x00', b'\x80') and out is not None:
        return ('hpm-upgrade:raises', '%s raised %s although the device accepted the command' % (inp['name'], type(out).__name__))
    return None


ORACLES = {'install': oracle_install, 'driver': oracle_driver}


# ---------------------------------------------------------------- the stage
def stage(ctx, add, oracle, D, res):
    from . import c18 as B
    rng, q = ctx.rng, ctx.quick

    def outcome(out, printer=None):
        if isinstance(out, Exception):
            return '(Err %s)' % C.c_err(C.exc_class(out))
        return '(Ok %s)' % ('tt' if printer is None else printer(out))

    def tr_of(log):
        return C.c_list([B.c_exch(x) for x in log])

    def rand_answer(p_prog=0.3, p_fail=0.0, kmax=3):
        r = rng.random()
        if r < p_fail:
            return ['F', rng.choice([0x81, 0x82, 0xc1, 0xc9, 0xd5, 0xff, 0x01])]
        if r < p_fail + p_prog:
            return ['P', rng.randrange(kmax + 1)]
        return ['A']

    # ---- single drivers: every *_and_wait variant x accept / in progress k / refusal / transport faults
    waits = [('initiate_upgrade_action_and_wait', lambda t, i: [1 << rng.randrange(8), rng.choice([0, 1, 2, 3]), t, i]),
             ('finish_upload_and_wait', lambda t, i: [rng.randrange(8), rng.choice([0, 1, 4096, 104220, 0xffffffff, rng.randrange(1 << 32)]), t, i]),
             ('activate_firmware_and_wait', lambda t, i: [rng.choice([None, 0, 1]), t, i]),
             ('initiate_manual_rollback_and_wait', lambda t, i: [t, i])]
    for name, mk in waits:
        answers = [['A'], ['F', 0x81], ['F', 0xc1], ['F', 0xff]] + [['P', k] for k in (0, 1, 2, 5, 19, 20, 21, 40)]
        answers += [rand_answer(0.5, 0.3, 6) for _ in range(2 if q else 20)]
        for a in answers:
            t, i = rng.choice([(2, 1), (3, 1), (20, 1), (7, 2), (1, 1)])
            if name == 'initiate_manual_rollback_and_wait' and a[0] == 'P' and a[1] > 21:
                a = ['P', 21]
            args = mk(t, i)
            dv = {'block_plans': [], 'cmd_plan': [a], 'ident': [0, 0, 0], 'present': 0, 'down': 0}
            call, coq = DRIVERS[name]
            out, log, sleeps = drive(dv, lambda ipmi: call(ipmi, *args))
            add('chk_driver_dev %s %s %s %s %s %s' % (coq(*args), C.c_list([]), B.c_plan([a]), tr_of(log),
                                                      C.c_list([C.c_N(x) for x in sleeps]), outcome(out)), ('driver', name, a))
            oracle('driver', {'name': name, 'args': args, 'dev': dv})
            D.add(('drv', name, tuple(a), tuple(map(repr, args))), True, 'driver-and-wait')
        # transport time-out / malformed reply on the command itself and inside the wait (correspondence only)
        for _ in range(3 if q else 20):
            t, i = rng.choice([(2, 1), (5, 1)])
            args = mk(t, i)
            dv = {'block_plans': [], 'cmd_plan': [rng.choice([['A'], ['P', 2], ['P', 4]])], 'ident': [0, 0, 0], 'present': 0, 'down': 0}
            faults = {rng.randrange(0, 4): rng.choice(['timeout', 'timeout', b'', b'\x00', b'\x00\x00\x00', b'\xc3', b'\x00\x00\x31\x80\x05', b'\x80'])}
            call, coq = DRIVERS[name]
            out, log, sleeps = drive(dv, lambda ipmi: call(ipmi, *args), faults)
            add('chk_client %s %s %s %s' % (coq(*args), tr_of(log), C.c_list([C.c_N(x) for x in sleeps]), outcome(out)),
                ('driver-fault', name, repr(faults)))
            D.add(('drvf', name, repr(faults), repr(dv['cmd_plan'])), True, 'driver-fault')
    # the guard of initiate_upgrade_action: upload actions need exactly one component
    for m in [0, 1, 2, 3, 0x80, 0x81, 0xff, 0x100, 0x101] + [rng.randrange(256) for _ in range(6)]:
        for a in (0, 1, 2, 3):
            for name, args in (('initiate_upgrade_action_and_wait', [m, a, 2, 1]), ('initiate_upgrade_action', [m, a])):
                dv = {'block_plans': [], 'cmd_plan': [], 'ident': [0, 0, 0], 'present': 0, 'down': 0}
                call, coq = DRIVERS[name]
                out, log, sleeps = drive(dv, lambda ipmi: call(ipmi, *args))
                add('chk_client %s %s %s %s' % (coq(*args), tr_of(log), C.c_list([C.c_N(x) for x in sleeps]), outcome(out)),
                    ('driver-guard', name, m, a))
                D.add(('guard', name, m, a), True, 'driver-guard')
    # plain methods and queries: accepted / refused / in progress (no follow-up) / malformed
    plain = [('abort_firmware_upgrade', []), ('finish_firmware_upload', [3, 1234]), ('activate_firmware', [None]), ('activate_firmware', [1])]
    for name, args in plain:
        for a in (['A'], ['F', 0xc9], ['P', 1]):
            dv = {'block_plans': [], 'cmd_plan': [a], 'ident': [0, 0, 0], 'present': 0, 'down': 0}
            call, coq = DRIVERS[name]
            out, log, sleeps = drive(dv, lambda ipmi: call(ipmi, *args))
            add('chk_client %s %s %s %s' % (coq(*args), tr_of(log), C.c_list([]), outcome(out)), ('plain', name, a))
            D.add(('plain', name, tuple(a)), True, 'driver-plain')
    for reply in [bytes([0, 0, 0x55, 0]), bytes([0, 0, 0x57, 0xff]), bytes([0, 0, 0x57, 0x5a]), bytes([0, 0, 0x58, 0xa5]), bytes([0, 0, 0x55]),
                  bytes([0xd5, 0]), bytes([0x80, 0]), bytes([0, 0, 1, 2, 3])] + [bytes([0, 0, rng.randrange(256), rng.randrange(256)]) for _ in range(8)]:
        dv = {'block_plans': [], 'cmd_plan': [], 'ident': [0, 0, 0], 'present': 0, 'down': 0}
        out, log, sleeps = drive(dv, lambda ipmi: ipmi.query_selftest_results(), {0: reply})

        def pst(s):
            first = None
            if hasattr(s, 'fail_sel'):
                first = C.c_list([C.c_N(x) for x in (s.fail_sel, s.fail_sdrr, s.fail_bmc_fru, s.fail_ipmb)])
            return '(%d, %s, %s)' % (s.status, C.c_opt(first), C.c_list([C.c_N(x) for x in (
                s.fail_sdrr_empty, s.fail_bmc_fru_interanl_area, s.fail_bootblock, s.fail_mc)]))
        add('chk_clientA selftest_eqb query_selftest_results %s %s %s' % (tr_of(log), C.c_list([]), outcome(out, pst)), ('selftest', reply.hex()))
        D.add(('selftest', reply), True, 'query')
    for name, coq in (('query_rollback_status', 'query_rollback_status'), ('initiate_manual_rollback', 'initiate_manual_rollback')):
        for reply in [bytes([0, 0, 0]), bytes([0, 0, 0, 0]), bytes([0, 0, 0, 55]), bytes([0, 0]), bytes([0, 0, 1, 100]), bytes([0x81, 0]),
                      bytes([0x80, 0]), bytes([0, 0, 1, 2, 3]), bytes([0])]:
            dv = {'block_plans': [], 'cmd_plan': [], 'ident': [0, 0, 0], 'present': 0, 'down': 0}
            out, log, sleeps = drive(dv, lambda ipmi: getattr(ipmi, name)(), {0: reply})
            add('chk_clientA optN_eqb %s %s %s %s' % (coq, tr_of(log), C.c_list([]),
                                                      outcome(out, lambda s: C.c_opt(C.c_N(s.percent_complete) if hasattr(s, 'percent_complete') else None))),
                ('rollback', name, reply.hex()))
            D.add(('rb', name, reply), True, 'query')
    # get_device_id as preparation_stage reads it (VersionField checks on the firmware / IPMI version bytes)
    for _ in range(30 if q else 300):
        body = bytearray(rng.randrange(256) for _ in range(rng.choice([11, 11, 15, 15, 10, 12, 16])))
        if rng.random() < 0.6:
            body[3] = rng.choice([0, 0x12, 0x99, 0xff, 0x1a])
            body[4] = rng.choice([0x02, 0x51, 0x20, 0x92])
        reply = bytes([rng.choice([0, 0, 0, 0xc1])]) + bytes(body)
        dv = {'block_plans': [], 'cmd_plan': [], 'ident': [0, 0, 0], 'present': 0, 'down': 0}
        out, log, sleeps = drive(dv, lambda ipmi: ipmi.get_device_id(), {0: reply})
        add('chk_clientA ident_eqb get_device_id %s %s %s' % (tr_of(log), C.c_list([]),
                                                             outcome(out, lambda s: '(%d, %d, %d)' % (s.device_id, s.manufacturer_id, s.product_id))),
            ('device-id', reply.hex()))
        D.add(('devid', reply), True, 'device-id')
    # get_upgrade_version_from_file
    for _ in range(8 if q else 60):
        spec = B.rand_spec(rng, fw_max=40)
        data = B.enc_image(spec)
        if rng.random() < 0.2:
            data = data[:rng.randrange(len(data))]
        p = write_image(data, 'ver')
        out = B.attempt(lambda: B._hpm().Hpm.get_upgrade_version_from_file(str(p)))
        p.unlink()
        add('chk_version_from_file %s %s' % (C.c_hex(data), B.c_res(out, lambda v: C.c_opt(None if v is None else B.c_version(v)))),
            ('version-from-file', len(data)))
        D.add(('vff', data), True, 'version-from-file')

    # ---- installations of one component from encoder images
    def install_case(spec, comp, dv, kind, judge=True, faults=None):
        data = B.enc_image(spec)
        p = write_image(data, 'inst')
        try:
            out, log, sleeps = drive(dv, lambda ipmi: ipmi.install_component_from_file(str(p), comp), faults)
        finally:
            p.unlink()
        args = '%s %d %d' % (C.c_hex(data), comp, TICK)
        tail = '%s %s %s' % (tr_of(log), C.c_list([C.c_N(x) for x in sleeps]), outcome(out))
        if faults:
            add('chk_install %s %s' % (args, tail), (kind, len(data), len(log)))
        else:
            add('chk_install_dev %s %s %s' % (args, c_dev(dv), tail), (kind, len(data), len(log)))
            if judge:
                oracle('install', {'spec': spec, 'comp': comp, 'dev': dv})
        D.add((kind, data, comp, repr(dv), repr(faults)), True, kind)

    def matching_dev(spec, comp, cmd_plan, block_plans, down):
        h = spec['header']
        return {'block_plans': block_plans, 'cmd_plan': cmd_plan, 'ident': [h['device_id'], h['manufacturer_id'], h['product_id']],
                'present': (1 << comp) | rng.randrange(256), 'down': down}

    def image_for(comp, nactions, fw_max):
        spec = B.rand_spec(rng, nactions=nactions, fw_max=fw_max, oem_len=rng.choice([0, 0, 3, 40]))
        spec['header']['components'] |= 1 << comp
        spec['header']['inaccessibility_timeout'] = rng.choice([1, 2, 3, 5, 12])
        for a in spec['actions']:
            if rng.random() < 0.75:
                a['components'] |= 1 << comp
            if a['type'] == 2 and rng.random() < 0.5:
                a['components'] = 1 << comp
        return spec

    def n_cmds(spec, comp):
        n = 1                                   # abort
        for a in spec['actions']:
            if a['components'] >> comp & 1:
                n += 2 if a['type'] == 2 else 1
        return n + 1                            # activate

    def n_blocks(spec, comp):
        return [(len(a['firmware']) // 2 + 21) // 22 for a in spec['actions'] if a['components'] >> comp & 1 and a['type'] == 2]

    sizes = [(k, 120) for k in range(1, 9)] + [(rng.randrange(1, 9), rng.choice([60, 300, 600])) for _ in range(6 if q else 80)]
    sizes += [(rng.randrange(1, 4), 4096) for _ in range(2 if q else 20)]
    for nact, fw_max in sizes:
        comp = rng.randrange(8)
        spec = image_for(comp, nact, fw_max)
        nc = n_cmds(spec, comp)
        # accepted / in progress at every step (k small: the default float time-outs are never reached)
        mode = rng.choice(['accept', 'progress', 'progress', 'mixed'])
        cmd_plan = [['A'] if mode == 'accept' else rand_answer(0.6 if mode == 'progress' else 0.3) for _ in range(nc)]
        block_plans = [[rand_answer(0.0 if mode == 'accept' else 0.15) for _ in range(nb)] for nb in n_blocks(spec, comp)]
        if cmd_plan[-1][0] == 'P':              # Activate Firmware: completes within the image's inaccessibility time-out
            cmd_plan[-1] = ['P', rng.randrange(0, min(3, spec['header']['inaccessibility_timeout']))]
        install_case(spec, comp, matching_dev(spec, comp, cmd_plan, block_plans, rng.choice([0, 0, 1, 2, 5])), 'install')
    # a refusal at each step in turn (command steps and blocks)
    for _ in range(3 if q else 20):
        comp = rng.randrange(8)
        spec = image_for(comp, rng.randrange(2, 6), 100)
        nc = n_cmds(spec, comp)
        for k in range(nc):
            cmd_plan = [rand_answer(0.3) for _ in range(nc)]
            cmd_plan[k] = ['F', rng.choice([0x81, 0x82, 0xc1, 0xc9, 0xd5, 0xff])]
            install_case(spec, comp, matching_dev(spec, comp, cmd_plan, [], 0), 'install-refusal')
        nbs = n_blocks(spec, comp)
        for u, nb in enumerate(nbs):
            if nb:
                bp = [[] for _ in nbs]
                bp[u] = [['A']] * rng.randrange(nb) + [['F', rng.choice([0x81, 0xc3, 0xff])]]
                install_case(spec, comp, matching_dev(spec, comp, [], bp, 0), 'install-block-refusal')
    # preparation failures, unknown component, refusals of Get Device Id / capabilities, transport faults (correspondence)
    for _ in range(10 if q else 80):
        comp = rng.randrange(8)
        spec = image_for(comp, rng.randrange(1, 4), 60)
        dv = matching_dev(spec, comp, [], [], 0)
        what = rng.choice(['ident', 'ident', 'present', 'component', 'fault', 'fault'])
        faults = None
        if what == 'ident':
            dv['ident'][rng.randrange(3)] ^= 1 << rng.randrange(8)
        elif what == 'present':
            dv['present'] = 0 if rng.random() < 0.5 else 0xff & ~spec['header']['components']
        elif what == 'component':
            comp = rng.choice([c for c in range(9) if not spec['header']['components'] >> c & 1] or [8])
        else:
            faults = {rng.randrange(0, 8): rng.choice(['timeout', b'\xc1', b'\xd5\x00', b'\x00', b'\x00\x00\x00', b'\x80\x00',
                                                       bytes([0, 1, 0, 0, 0xaa, 2, 0, 0, 0, 0, 0, 0])])}
        install_case(spec, comp, dv, 'install-' + what, judge=False, faults=faults)
    # the known finding: a long duration command that outlasts the driver's wait (integer seconds API)
    dv = {'block_plans': [], 'cmd_plan': [['P', 50]], 'ident': [0, 0, 0], 'present': 0, 'down': 0}
    oracle('driver', {'name': 'finish_upload_and_wait', 'args': [1, 100, 3, 1], 'dev': dv})
