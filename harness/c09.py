"""C09 - bridged requests traverse every hop; replies unwrap to the target's reply.

Correspondence: Model/Bridge.v evaluated in Coq (Corr/C09.v checkers) against
pyipmi.interfaces.ipmb.{encode_send_message, encode_bridged_message,
decode_bridged_message} and Target.set_routing on the same inputs.
Oracle (independent of the model): the transmitted bytes are peeled by a chain of
simulated bridges written here from the IPMI specification (checksums verified at every
layer), replies are wrapped by simulated bridges and must unwrap to the target's
reply; a failing layer must surface as CompletionCodeError(cc); a bare acknowledgement
must come back empty, and the LAN transport must then wait for the forwarded reply.
The Python peeler / wrapper are themselves compared with the Gallina ones (chk_peel,
chk_wrap) so the two copies of the specification cannot drift.
"""
import itertools
import os

from . import common as C

MODEL_MAP = [
    {'python': 'pyipmi/interfaces/ipmb.py:encode_send_message', 'coq': 'Model.Bridge.encode_send_message'},
    {'python': 'pyipmi/msgs/device_messaging.py:SendMessageReq (channel byte)', 'coq': 'Model.Bridge.send_message_req_bytes'},
    {'python': 'pyipmi/interfaces/ipmb.py:encode_bridged_message', 'coq': 'Model.Bridge.encode_bridged/bridged_header'},
    {'python': 'pyipmi/interfaces/ipmb.py:decode_bridged_message', 'coq': 'Model.Bridge.decode_bridged'},
    {'python': 'pyipmi/msgs/device_messaging.py:SendMessageRsp (completion code)', 'coq': 'Model.Bridge.decode_bridged_fuel'},
    {'python': 'pyipmi/__init__.py:Target.set_routing/Routing', 'coq': 'Model.Bridge.route'},
]
FIELDS = ['rs_sa', 'rs_lun', 'rq_sa', 'rq_lun', 'rq_seq', 'netfn', 'cmdid']


def _ipmb():
    import pyipmi.interfaces.ipmb as ipmb
    return ipmb


def mk_req(h):
    o = _ipmb().IpmbHeaderReq()
    for k, v in zip(FIELDS, h):
        setattr(o, k, v)
    return o


def attempt(f):
    try:
        return f()
    except Exception as e:  # noqa
        return e


def c_res(r):
    """bytes or exception -> Coq term of type res (list N)"""
    if isinstance(r, Exception):
        return '(Err %s)' % C.c_err(C.exc_class(r))
    return '(Ok %s)' % C.c_hex(r)


def nl(xs):
    return C.c_list([C.c_N(x) for x in xs])


# ---------------------------------------------------------------------------
# specification side, written from IPMI 2.0 (Send Message, IPMB framing)
# ---------------------------------------------------------------------------
def csum(bs):
    return (-sum(bs)) % 256


def spec_request_frame(rs_sa, rs_lun, rq_sa, rq_lun, seq, netfn, cmd, data):
    """independent construction of an IPMB request frame"""
    a = [rs_sa, (netfn << 2) | rs_lun]
    a.append(csum(a))
    b = [rq_sa, (seq << 2) | rq_lun, cmd] + list(data)
    b.append(csum(b))
    return bytes(a + b)


def spec_bridge_hop(f):
    """What a conforming bridge does with a Send Message request: returns
    ((rq_sa, rs_sa, channel, tracking, seq), embedded frame) or None if it would reject."""
    f = list(f)
    if len(f) < 8:
        return None
    if sum(f[0:3]) % 256 != 0 or sum(f[3:]) % 256 != 0:
        return None
    if f[1] != (6 << 2) or f[5] != 0x34 or (f[4] & 3) != 0:
        return None
    cb = f[6]
    if (cb >> 4) & 3:
        return None
    return ([f[3], f[0], cb & 0xf, cb >> 6, f[4] >> 2], bytes(f[7:-1]))


def spec_peel(n, f):
    hops = []
    for _ in range(n):
        r = spec_bridge_hop(f)
        if r is None:
            return None
        hops.append(r[0])
        f = r[1]
    return hops, bytes(f)


def spec_wrap_reply(w, cc, emb):
    """Send Message response of bridge w=(rq_sa, rq_lun, rs_sa, rs_lun, seq)"""
    rq_sa, rq_lun, rs_sa, rs_lun, seq = w
    a = [rq_sa, (7 << 2) | rq_lun]
    a.append(csum(a))
    b = [rs_sa, (seq << 2) | rs_lun, 0x34, cc] + list(emb)
    b.append(csum(b))
    return bytes(a + b)


def spec_reply_frame(h, data):
    """reply of the final target to request header h (list in FIELDS order)"""
    rs_sa, rs_lun, rq_sa, rq_lun, seq, netfn, cmd = h
    a = [rq_sa, ((netfn | 1) << 2) | rq_lun]
    a.append(csum(a))
    b = [rs_sa, (seq << 2) | rs_lun, cmd] + list(data)
    b.append(csum(b))
    return bytes(a + b)


# ---------------------------------------------------------------------------
# implementation drivers
# ---------------------------------------------------------------------------
def make_routing(routing, how):
    """Target.set_routing from tuples (how='tuple'), from a string (how='str'), via the
    constructor (how='ctor'); last channel is None as documented"""
    import pyipmi
    tuples = [(r[0], r[1], r[2]) for r in routing[:-1]] + [(routing[-1][0], routing[-1][1], None)]
    if how == 'str':
        t = pyipmi.Target(0x20)
        t.set_routing(repr(tuples))
    elif how == 'ctor':
        t = pyipmi.Target(0x20, routing=tuples)
    elif how == 'info':
        t = pyipmi.Target(0x20)
        t.set_routing_information('[' + ','.join('(0x%x,%d,%s)' % (a, b, c) for a, b, c in tuples) + ']')
    else:
        t = pyipmi.Target(0x20)
        t.set_routing(tuples)
    return t


def impl_bridged(routing, h, p, seq, how='tuple'):
    """returns (bytes or the exception raised, header fields after the call)"""
    t = make_routing(routing, how)
    hdr = mk_req(h)
    try:
        tx = bytes(_ipmb().encode_bridged_message(t.routing, hdr, bytes(p), seq))
    except Exception as e:  # noqa
        tx = e
    return tx, [getattr(hdr, k) for k in FIELDS]


# ---------------------------------------------------------------------------
# oracles: the property on the implementation
# ---------------------------------------------------------------------------
def oracle_nest(inp):
    routing, h, p, seq, how = inp['routing'], inp['h'], bytes.fromhex(inp['p']), inp['seq'], inp.get('how', 'tuple')
    t = make_routing(routing, how)
    got = [(r.rq_sa, r.rs_sa, r.channel) for r in t.routing]
    want = [tuple(r) for r in routing[:-1]] + [(routing[-1][0], routing[-1][1], None)]
    if got != want:
        return 'Target.set_routing(%s) gives %r, expected %r' % (how, got, want)
    tx, _ = impl_bridged(routing, h, p, seq, how)
    if isinstance(tx, Exception):
        return 'encode_bridged_message raised %s: %s' % (type(tx).__name__, tx)
    n = len(routing) - 1
    r = spec_peel(n, tx)
    if r is None:
        return 'a bridge on the path rejects the frame %s (checksum / netfn / cmd / length)' % tx.hex()
    hops, inner = r
    want_hops = [[x[0], x[1], x[2], 1, seq] for x in routing[:-1]]
    if hops != want_hops:
        return 'hops seen by the bridges %r differ from the routing %r (frame %s)' % (hops, want_hops, tx.hex())
    want_inner = spec_request_frame(routing[-1][1], h[1], routing[-1][0], h[3], h[4], h[5], h[6], p)
    if inner != want_inner:
        return 'innermost frame %s is not the original request %s' % (inner.hex(), want_inner.hex())
    return None


def oracle_unwrap(inp):
    """reply wrapped by the simulated bridges (completion codes ccs, outermost first)"""
    ipmb = _ipmb()
    import pyipmi.errors as E
    ws, ccs, r = inp['ws'], inp['ccs'], bytes.fromhex(inp['r'])
    f = r
    for w, cc in reversed(list(zip(ws, ccs))):
        f = spec_wrap_reply(w, cc, f)
    bad = [cc for cc in ccs if cc != 0]
    try:
        got = bytes(ipmb.decode_bridged_message(f))
    except E.CompletionCodeError as e:
        if bad and e.cc == bad[0]:
            return None
        return 'CompletionCodeError(0x%02x) raised, expected %s' % (e.cc, ('cc 0x%02x' % bad[0]) if bad else 'the reply')
    except Exception as e:  # noqa
        return 'raised %s: %s' % (type(e).__name__, e)
    if bad:
        return 'layer answered cc=0x%02x but decode_bridged_message returned %s' % (bad[0], got.hex())
    if got != r:
        return 'unwrapped %s, the target replied %s' % (got.hex(), r.hex())
    return None


def routing_of(t):
    return [(r.rq_sa, r.rs_sa, r.channel) for r in (t.routing or [])]


def oracle_nest_seq(inp):
    """Several encode_bridged_message calls through the SAME Target / routing list (and, with
    reuse_hdr, the same header object): every call must produce the full nest - as if it were the
    first - and leave target.routing as it was."""
    routing, how = inp['routing'], inp.get('how', 'tuple')
    t = make_routing(routing, how)
    want_routing = [tuple(r) for r in routing[:-1]] + [(routing[-1][0], routing[-1][1], None)]
    if routing_of(t) != want_routing:
        return 'Target.set_routing(%s) gives %r, expected %r' % (how, routing_of(t), want_routing)
    hdr = _ipmb().IpmbHeaderReq()
    for n, c in enumerate(inp['calls']):
        h, p, seq = c['h'], bytes.fromhex(c['p']), c['seq']
        if not inp.get('reuse_hdr'):
            hdr = _ipmb().IpmbHeaderReq()
        for k, v in zip(FIELDS, h):
            setattr(hdr, k, v)
        try:
            tx = bytes(_ipmb().encode_bridged_message(t.routing, hdr, p, seq))
        except Exception as e:  # noqa
            return 'call %d through the same Target: encode_bridged_message raised %s: %s' % (n, type(e).__name__, e)
        r = spec_peel(len(routing) - 1, tx)
        if r is None:
            return 'call %d through the same Target: a bridge on the path rejects the frame %s' % (n, tx.hex())
        hops, inner = r
        want_hops = [[x[0], x[1], x[2], 1, seq] for x in routing[:-1]]
        if hops != want_hops:
            return 'call %d through the same Target: hops seen by the bridges %r differ from the routing %r' % (n, hops, want_hops)
        want_inner = spec_request_frame(routing[-1][1], h[1], routing[-1][0], h[3], h[4], h[5], h[6], p)
        if inner != want_inner:
            return 'call %d through the same Target: innermost frame %s is not the original request %s' % (
                n, inner.hex(), want_inner.hex())
        if routing_of(t) != want_routing:
            return 'after call %d target.routing is %r, it was %r' % (n, routing_of(t), want_routing)
    return None


def oracle_unwrap_seq(inp):
    """decode_bridged_message called repeatedly on the SAME input objects (bytes / bytearray /
    array): every call gives the target's reply (or the layer's error) and leaves its input alone."""
    from array import array
    import pyipmi.errors as E
    ipmb = _ipmb()
    pool = []
    for it in inp['pool']:
        r = bytes.fromhex(it['r'])
        f = r
        for w, cc in reversed(list(zip(it['ws'], it['ccs']))):
            f = spec_wrap_reply(w, cc, f)
        objs = {'bytes': f, 'bytearray': bytearray(f), 'array': array('B', f)}
        pool.append((f, objs, r, [cc for cc in it['ccs'] if cc != 0]))
    for n, c in enumerate(inp['calls']):
        f, objs, r, bad = pool[c['i']]
        obj = objs[c['as']]
        try:
            got = bytes(ipmb.decode_bridged_message(obj))
            err = None
        except E.CompletionCodeError as e:
            got, err = None, e.cc
        except Exception as e:  # noqa
            return 'call %d (%s input reused): raised %s: %s' % (n, c['as'], type(e).__name__, e)
        if bad:
            if err != bad[0]:
                return 'call %d (%s input reused): expected CompletionCodeError(0x%02x), got %r / cc %r' % (n, c['as'], bad[0], got, err)
        elif err is not None or got != r:
            return 'call %d (%s input reused): unwrapped %r (cc %r), the target replied %s' % (n, c['as'], got, err, r.hex())
        if bytes(obj) != f:
            return 'call %d: decode_bridged_message changed its %s argument' % (n, c['as'])
    return None


ORACLES = {'nest': oracle_nest, 'unwrap': oracle_unwrap, 'nest_seq': oracle_nest_seq, 'unwrap_seq': oracle_unwrap_seq}


def _load_e2e():
    # the end-to-end oracle (Rmcp with a scripted socket) lives with the C04 transport stubs
    try:
        from . import c04_util
    except Exception:  # noqa
        return None
    return c04_util


def oracle_e2e(inp):
    u = _load_e2e()
    if u is None:
        return None
    return u.oracle_bridged_e2e(inp, spec_peel, spec_wrap_reply, spec_reply_frame, spec_request_frame)


ORACLES['e2e'] = oracle_e2e


def replay(data):
    r = data['replay']
    if 'oracle' not in r:
        return False
    return ORACLES[r['oracle']](r['input']) is None


# ---------------------------------------------------------------------------
def rand_hdr(rng, small=False):
    if small:
        return [rng.randrange(16), rng.randrange(4), rng.randrange(16), rng.randrange(4),
                rng.randrange(64), rng.randrange(0, 64, 2), rng.choice([0, 1, 0x33, 0x35, 0xff, rng.randrange(256)])]
    return [rng.randrange(256), rng.randrange(4), rng.randrange(256), rng.randrange(4),
            rng.randrange(64), rng.randrange(0, 64, 2), rng.randrange(256)]


def rand_route(rng, small):
    if small:
        return [rng.randrange(16), rng.randrange(16), rng.randrange(16)]
    return [rng.choice([0x20, 0x72, 0x81, 0x82, rng.randrange(256)]),
            rng.choice([0x20, 0x72, 0x82, 0x8e, rng.randrange(256)]), rng.randrange(16)]


def run(ctx):
    ipmb = _ipmb()
    rng = ctx.rng
    q = ctx.quick
    res = C.Result(model_map=MODEL_MAP)
    D = C.Distinct()
    terms, meta = [], []
    fails = {}

    def add(term, info):
        terms.append(term)
        meta.append(info)

    def oracle(name, inp, key):
        res.evaluations += 1
        msg = ORACLES[name](inp)
        if msg and key not in fails:
            fails[key] = C.Violation(key=key, what=msg, replay={'oracle': name, 'input': inp})

    def payload(n):
        return bytes(rng.randrange(256) for _ in range(n))

    maxdepth = 4 if q else 6

    # ---- encode_send_message: payload 0..40, every channel, tracking 0..3, out-of-range values
    for n in range(0, 41):
        for rep in range(2 if q else 8):
            p = payload(n)
            rq, rs, seq = rng.randrange(256), rng.randrange(256), rng.randrange(64)
            ch = (n + 7 * rep) % 16
            tr = 1 if rep == 0 else rng.randrange(4)
            r = attempt(lambda: ipmb.encode_send_message(p, rq, rs, ch, seq, tr))
            add('chk_send_message %s %d %d %d %d %d %s' % (C.c_hex(p), rq, rs, ch, seq, tr, c_res(r)),
                ('send_message', p.hex(), rq, rs, ch, seq, tr))
            D.add(('sm', p, rq, rs, ch, seq, tr), True, 'send_message')
    for _ in range(40 if q else 300):
        p = payload(rng.randrange(5))
        v = [rng.randrange(256), rng.randrange(256), rng.randrange(16), rng.randrange(64), rng.randrange(4)]
        i = rng.randrange(5)
        v[i] = rng.choice([16, 17, 31, 64, 65, 200, 255, 256, 300, 1023])
        r = attempt(lambda: ipmb.encode_send_message(p, *v))
        add('chk_send_message %s %d %d %d %d %d %s' % (C.c_hex(p), v[0], v[1], v[2], v[3], v[4], c_res(r)),
            ('send_message-out-of-range', p.hex(), v))
        D.add(('smx', p, tuple(v)), True, 'send_message-out-of-range')

    # ---- encode_bridged_message
    def bridged_case(routing, h, p, seq, how, corr=True, kind='bridged'):
        if corr:
            out, hdr_after = impl_bridged(routing, h, p, seq, how)
            add('chk_bridged %s %s %s %d %s %s' % (C.c_list([nl(x) for x in routing]), nl(h), C.c_hex(p), seq,
                                                 c_res(out), nl(hdr_after)),
                (kind, routing, h, p.hex(), seq, how))
        oracle('nest', {'routing': routing, 'h': h, 'p': p.hex(), 'seq': seq, 'how': how},
               'encode_bridged_message:nesting-wrong:depth%d' % min(len(routing), 3))
        D.add(('br', tuple(map(tuple, routing)), tuple(h), p, seq), len(routing) > 1, '%s-depth%d' % (kind, len(routing)))

    hows = ['tuple', 'str', 'ctor', 'info']
    # depth 1: all rq_sa x rs_sa in 0..15
    for i, (a, b) in enumerate(itertools.product(range(16), range(16))):
        h = rand_hdr(rng, small=True)
        bridged_case([[a, b, 0]], h, payload(i % 41), h[4], hows[i % 4], corr=(i % (4 if q else 1) == 0), kind='bridged-exh')
    # depth 2: first hop exhaustive over rq_sa x rs_sa x channel in 0..15 (oracle), last hop:
    # quick = 2 sampled pairs, thorough = all 256 pairs for a 1/4 stride + samples
    k = 0
    for a, b, c in itertools.product(range(16), range(16), range(16)):
        lasts = [(rng.randrange(16), rng.randrange(16)) for _ in range(2 if q else 6)]
        if not q and (a * 256 + b * 16 + c) % 16 == 5:
            lasts = list(itertools.product(range(16), range(16)))
        for (d, e) in lasts:
            h = rand_hdr(rng, small=True)
            k += 1
            bridged_case([[a, b, c], [d, e, 0]], h, payload(k % 41), h[4], hows[k % 4],
                         corr=(k % (16 if q else 24) == 0), kind='bridged-exh')
    # depths 1..maxdepth sampled, realistic addresses, payload 0..40, independent seq
    for depth in range(1, maxdepth + 1):
        for n in range(0, 41):
            for rep in range(1 if q else 4):
                small = rng.random() < 0.5
                routing = [rand_route(rng, small) for _ in range(depth)]
                routing[-1][2] = 0
                h = rand_hdr(rng, small)
                seq = h[4] if rng.random() < 0.7 else rng.randrange(64)
                bridged_case(routing, h, payload(n), seq, rng.choice(hows))
    # the documented examples
    for routing in ([[0x81, 0x20, 0], [0x20, 0x82, 0]], [[0x81, 0x20, 0], [0x20, 0x82, 7], [0x20, 0x72, 0]],
                    [[0x81, 0x20, 0], [0x20, 0x8e, 7], [0x20, 0x80, 0]], [[0x81, 0x20, 7], [0x20, 0x72, 0]]):
        bridged_case(routing, [0x20, 0, 0x81, 0, 0x11, 6, 0xaa], b'\xaa\xbb', 0x22, 'tuple')
    # out-of-range routing / header / seq (model and code must fail alike)
    for _ in range(30 if q else 300):
        depth = rng.randrange(1, 4)
        routing = [rand_route(rng, False) for _ in range(depth)]
        routing[-1][2] = 0
        h = rand_hdr(rng)
        seq = rng.randrange(64)
        what = rng.randrange(4)
        if what == 0:
            i = rng.randrange(depth)
            routing[i][rng.randrange(2)] = rng.choice([256, 300, 511])
        elif what == 1 and depth > 1:
            routing[rng.randrange(depth - 1)][2] = rng.choice([16, 17, 64, 255, 256])
        elif what == 2:
            seq = rng.choice([64, 65, 100, 255])
        else:
            h[rng.choice([1, 3, 4, 5, 6])] = rng.choice([4, 64, 65, 256])
        out, hdr_after = impl_bridged(routing, h, b'\x01', seq)
        add('chk_bridged %s %s %s %d %s %s' % (C.c_list([nl(x) for x in routing]), nl(h), C.c_hex(b'\x01'), seq,
                                             c_res(out), nl(hdr_after)), ('bridged-out-of-range', routing, h, seq))
        D.add(('brx', tuple(map(tuple, routing)), tuple(h), seq), True, 'bridged-out-of-range')
    # empty routing list: IndexError in code, Err in model
    r = attempt(lambda: ipmb.encode_bridged_message([], mk_req([1, 0, 2, 0, 3, 6, 1]), b'', 3))
    add('chk_bridged [] %s %s 3 %s %s' % (nl([1, 0, 2, 0, 3, 6, 1]), C.c_hex(b''), c_res(r), nl([1, 0, 2, 0, 3, 6, 1])),
        ('bridged-empty-routing',))

    # ---- decode_bridged_message
    def rand_w():
        return [rng.randrange(256), rng.randrange(4), rng.randrange(256), rng.randrange(4), rng.randrange(64)]

    def decode_case(f, kind):
        r = attempt(lambda: bytes(ipmb.decode_bridged_message(bytes(f))))
        add('chk_decode %s %s' % (C.c_hex(f), c_res(r)), (kind, bytes(f).hex()))
        D.add(('dec', bytes(f)), len(f) >= 6, kind)

    def wrapped(ws, ccs, r):
        f = r
        for w, cc in reversed(list(zip(ws, ccs))):
            f = spec_wrap_reply(w, cc, f)
        return f

    for depth in range(0, maxdepth + 1):
        for n in range(0, 41):
            for rep in range(1 if q else 3):
                h = rand_hdr(rng)
                if h[6] == 0x34:
                    h[6] = 0x35
                r = spec_reply_frame(h, payload(n))
                ws = [rand_w() for _ in range(depth)]
                decode_case(wrapped(ws, [0] * depth, r), 'decode-depth%d' % depth)
                oracle('unwrap', {'ws': ws, 'ccs': [0] * depth, 'r': r.hex()}, 'decode_bridged_message:unwrap-wrong')
    # every completion code at every layer
    for depth in range(1, maxdepth + 1):
        for layer in range(depth):
            for cc in range(1, 256):
                ws = [rand_w() for _ in range(depth)]
                ccs = [0] * depth
                ccs[layer] = cc
                h = rand_hdr(rng)
                if h[6] == 0x34:
                    h[6] = 0x33
                # a failing bridge answers without embedded data; also try with trailing junk
                inner = b'' if cc % 3 else spec_reply_frame(h, payload(cc % 5))
                f = wrapped(ws[:layer + 1], ccs[:layer + 1], inner)
                oracle('unwrap', {'ws': ws[:layer + 1], 'ccs': ccs[:layer + 1], 'r': inner.hex()},
                       'decode_bridged_message:hop-error-not-reported')
                if q and (cc * 7 + layer + depth) % 8:
                    continue
                decode_case(f, 'decode-cc-layer')
    # bare acknowledgements at every depth
    for depth in range(1, maxdepth + 1):
        for rep in range(3):
            ws = [rand_w() for _ in range(depth)]
            f = wrapped(ws, [0] * depth, b'')
            decode_case(f, 'decode-ack')
            oracle('unwrap', {'ws': ws, 'ccs': [0] * depth, 'r': ''}, 'decode_bridged_message:ack-not-empty')
    # malformed: every truncation of a double-wrapped reply, random bytes with cmd 0x34, short inner rest
    base = wrapped([rand_w(), rand_w()], [0, 0], spec_reply_frame(rand_hdr(rng)[:6] + [1], payload(3)))
    for n in range(len(base) + 1):
        decode_case(base[:n], 'decode-truncated')
    for _ in range(60 if q else 600):
        n = rng.randrange(0, 30)
        f = bytearray(payload(n))
        if n > 5 and rng.random() < 0.8:
            f[5] = 0x34
        if n > 6 and rng.random() < 0.6:
            f[6] = 0
        if n > 13 and rng.random() < 0.5:
            f[12] = 0x34
            f[13] = rng.choice([0, 0, 0xc1])
        decode_case(bytes(f), 'decode-random')

    # ---- histories: several calls through the SAME Target / routing list (and header object); every step is
    # compared with the (stateless) model and judged by the oracle; a failing history is confirmed and shrunk
    # in fresh processes
    def history_fail(key, oname, calls, extra, msg):
        if key in fails:
            return
        seq = C.shrink_history('C09', oname, calls, key='calls', extra=extra)
        if seq is None:
            seq = calls      # does not reproduce from a clean start: keep the history as observed
        inp = dict(extra, calls=seq)
        fails[key] = C.Violation(key=key, what=(ORACLES[oname](inp) or msg) + ' [history of %d call(s)]' % len(seq),
                                 replay={'oracle': oname, 'input': inp})

    for depth in range(1, maxdepth + 1):
        for rep in range(4 if q else 16):
            small = rng.random() < 0.5
            routing = [rand_route(rng, small) for _ in range(depth)]
            routing[-1][2] = 0
            how, reuse = hows[rep % 4], rep % 2 == 1
            calls = []
            for _ in range(rng.randrange(2, 6)):
                h = rand_hdr(rng, small)
                calls.append({'h': h, 'p': payload(rng.randrange(0, 41)).hex(), 'seq': h[4]})
            # step-by-step correspondence on one Target
            t = make_routing(routing, how)
            hdr = ipmb.IpmbHeaderReq()
            for c in calls:
                if not reuse:
                    hdr = ipmb.IpmbHeaderReq()
                for k, v in zip(FIELDS, c['h']):
                    setattr(hdr, k, v)
                out = attempt(lambda: bytes(ipmb.encode_bridged_message(t.routing, hdr, bytes.fromhex(c['p']), c['seq'])))
                add('chk_bridged %s %s %s %d %s %s' % (C.c_list([nl(x) for x in routing]), nl(c['h']),
                                                     C.c_hex(bytes.fromhex(c['p'])), c['seq'], c_res(out),
                                                     nl([getattr(hdr, k) for k in FIELDS])),
                    ('bridged-history', routing, c['h'], c['p'], how))
            extra = {'routing': routing, 'how': how, 'reuse_hdr': reuse}
            res.evaluations += len(calls)
            msg = ORACLES['nest_seq'](dict(extra, calls=calls))
            if msg:
                history_fail('encode_bridged_message:call-depends-on-earlier-calls', 'nest_seq', calls, extra, msg)
            D.add(('hist', repr(extra), repr(calls)), True, 'bridged-history-depth%d' % depth)
    # decode on reused input objects
    for rep in range(6 if q else 40):
        pool = []
        for _ in range(rng.randrange(1, 4)):
            depth = rng.randrange(0, maxdepth + 1)
            h = rand_hdr(rng)
            if h[6] == 0x34:
                h[6] = 0x35
            ccs = [0] * depth
            if depth and rng.random() < 0.3:
                ccs[rng.randrange(depth)] = rng.randrange(1, 256)
            r = spec_reply_frame(h, payload(rng.randrange(0, 20))) if not any(ccs) else b''
            k = next((i for i, cc in enumerate(ccs) if cc), depth - 1)
            pool.append({'ws': [rand_w() for _ in range(k + 1 if any(ccs) else depth)],
                         'ccs': ccs[:k + 1] if any(ccs) else ccs, 'r': r.hex()})
        calls = [{'i': rng.randrange(len(pool)), 'as': rng.choice(['bytes', 'bytearray', 'array'])}
                 for _ in range(rng.randrange(2, 8))]
        res.evaluations += len(calls)
        msg = ORACLES['unwrap_seq']({'pool': pool, 'calls': calls})
        if msg:
            history_fail('decode_bridged_message:call-depends-on-earlier-calls', 'unwrap_seq', calls, {'pool': pool}, msg)
        D.add(('dhist', repr(pool), repr(calls)), True, 'decode-history')

    # ---- the two copies of the specification side
    for _ in range(60 if q else 400):
        w, cc, emb = rand_w(), rng.choice([0, 0, rng.randrange(256)]), payload(rng.randrange(0, 20))
        add('chk_wrap %s %d %s %s' % (nl(w), cc, C.c_hex(emb), C.c_hex(spec_wrap_reply(w, cc, emb))), ('spec-wrap',))
    for _ in range(80 if q else 500):
        depth = rng.randrange(1, 4)
        routing = [rand_route(rng, rng.random() < 0.5) for _ in range(depth + 1)]
        h = rand_hdr(rng)
        f = spec_request_frame(routing[-1][1], h[1], routing[-1][0], h[3], h[4], h[5], h[6], payload(rng.randrange(6)))
        for x in reversed(routing[:-1]):
            f = spec_request_frame(x[1], 0, x[0], 0, h[4], 6, 0x34, bytes([0x40 | x[2]]) + f)
        if rng.random() < 0.4:  # damage one byte: the bridges must reject alike
            f = bytearray(f)
            f[rng.randrange(len(f))] ^= rng.choice([1, 4, 0x40, 0x80])
            f = bytes(f)
        sp = spec_peel(depth, f)
        exp = 'None' if sp is None else '(Some (%s, %s))' % (C.c_list([nl(x) for x in sp[0]]), C.c_hex(sp[1]))
        add('chk_peel %s %s %s' % (C.c_nat(depth), C.c_hex(f), exp), ('spec-peel', f.hex()))

    # ---- end to end through Rmcp with a scripted socket (needs harness/c04_util.py)
    if _load_e2e() is not None:
        for depth in range(2, maxdepth + 1):
            for rep in range(6 if q else 30):
                routing = [rand_route(rng, rng.random() < 0.5) for _ in range(depth)]
                routing[-1][2] = 0
                inp = {'routing': routing, 'lun': rng.randrange(4), 'netfn': rng.randrange(0, 64, 2),
                       'cmd': rng.choice([1, 0x33, 0x35, rng.randrange(256)]), 'p': payload(rng.randrange(0, 41)).hex(),
                       'reply': payload(rng.randrange(1, 41)).hex(), 'acks': rng.randrange(0, 4),
                       'seq0': rng.randrange(64), 'max_retries': rng.randrange(0, 4),
                       'fail_layer': rng.choice([None, None, rng.randrange(depth - 1)]), 'cc': rng.randrange(1, 256)}
                if inp['cmd'] == 0x34:
                    inp['cmd'] = 0x35
                oracle('e2e', inp, 'Rmcp.send_and_receive_raw:bridged-%s'
                       % ('hop-error' if inp['fail_layer'] is not None else 'reply'))
                D.add(('e2e', repr(sorted(inp.items()))), True, 'rmcp-end-to-end-depth%d' % depth)

        # several requests through one Rmcp object and ONE Target object
        for depth in range(1, maxdepth + 1):
            for rep in range(3 if q else 12):
                routing = [rand_route(rng, rng.random() < 0.5) for _ in range(depth)]
                routing[-1][2] = 0
                calls = []
                for _ in range(rng.randrange(2, 5)):
                    cmd = rng.choice([1, 0x33, 0x35, rng.randrange(256)])
                    calls.append({'lun': rng.randrange(4), 'netfn': rng.randrange(0, 64, 2), 'cmd': 0x35 if cmd == 0x34 else cmd,
                                  'p': payload(rng.randrange(0, 41)).hex(), 'reply': payload(rng.randrange(1, 41)).hex(),
                                  'acks': rng.randrange(0, 3),
                                  'fail_layer': rng.choice([None, None, None, rng.randrange(depth - 1)]) if depth > 1 else None,
                                  'cc': rng.randrange(1, 256)})
                extra = {'routing': routing, 'seq0': rng.randrange(64), 'max_retries': rng.randrange(0, 4)}
                res.evaluations += len(calls)
                msg = ORACLES['e2e'](dict(extra, calls=calls))
                if msg:
                    history_fail('Rmcp.send_and_receive_raw:bridged-request-depends-on-earlier-requests', 'e2e', calls, extra, msg)
                D.add(('e2ehist', repr(extra), repr(calls)), True, 'rmcp-end-to-end-history-depth%d' % depth)

    if _load_e2e() is not None:
        _load_e2e().uninstall()
    failing, errors = C.coq_cases('C09_%d' % os.getpid(), 'Corr.C09', terms)
    res.mismatches = [{'case': meta[i], 'term': terms[i][:600]} for i in failing[:50]]
    res.corr_errors = errors
    res.evaluations += len(terms)
    res.distinct_nontrivial = D.distinct
    res.histogram = D.hist
    res.rule = ('routing depth 1..%d; depth 1: all rq_sa x rs_sa in 0..15; depth 2: first hop all rq_sa x rs_sa x channel '
                'in 0..15 with sampled (thorough: 1/16 exhaustive) last hop; deeper sampled over 0..15 and realistic '
                'addresses; payload 0..40; Target.set_routing from tuples / string / constructor / '
                'set_routing_information in turn; replies wrapped 0..%d deep, every completion code 1..255 at every '
                'layer (oracle; correspondence on %s), acknowledgements, every truncation, random 34h frames. '
                'distinct = distinct canonical inputs; non-trivial = at least one Send Message layer / frame >= 6 bytes'
                % (maxdepth, maxdepth, '1/8 of them' if q else 'all'))
    idx = [0, len(terms) // 4, len(terms) // 2, 3 * len(terms) // 4, len(terms) - 1]
    res.samples = [{'term': terms[i][:400], 'case': meta[i]} for i in idx]
    res.oracle_failures = list(fails.values())
    return res
