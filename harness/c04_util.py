"""Scripted transports for C04 (and the end-to-end part of C09): the three native interfaces are
driven through their PUBLIC entry points (constructor, open(), send_and_receive_raw,
is_ipmc_accessible) with everything below them substituted AT THE ORIGIN, so it does not matter in
which module of the library the code lives:
  * time.sleep / time.time / time.monotonic of the real `time` module -> the scripted clock,
  * select.select / select.poll, os.open / os.read / os.write / os.close of the real modules -> the
    scripted ipmb-dev device, for its (fake) path / descriptor only; everything else is delegated,
  * sys.modules['pyaardvark'] -> a stub whose open() returns the scripted adapter,
  * socket.socket (while Rmcp.open() runs) -> the scripted UDP socket,
  * names in loaded pyipmi.* modules that are bound to the real functions (`from time import sleep`)
    or to a missing / real pyaardvark are re-bound too.
The substitutes are dispatchers: they act only in the thread that is inside `driven(rig)` and
delegate to the real function otherwise; `uninstall()` puts the originals back.  Every driven call
runs under a wall-clock guard (GUARD_S): a real sleep or blocking call that escaped the substitution
ends in HarnessTimeout - reported as a limitation of the harness, never a hang.
No private name of the library is needed: `_q` (RMCP receive queue) is an optional observation.

An event script is a list of ('F', bytes) | ('N',) | ('E',) | ['L', data]:
  frame received | nothing within the time-out | OS error on the receive side | reply to the frame written last.
An exhausted script behaves like ('N',) for ever.
"""
import os
import select
import signal
import socket
import sys
import threading
import time
import types

GUARD_S = 20.0
FAKE_FD = 1000077
FAKE_PORT = '/dev/ipmb-verif'


class HarnessTimeout(BaseException):
    """a driven call exceeded GUARD_S of wall-clock time (not an Exception: nothing swallows it)"""


class Clock:
    def __init__(self):
        self.now = 1000.0
        self.sleeps = []

    def time(self):
        return self.now

    def sleep(self, t):
        self.sleeps.append(t)
        self.now += t


class Script:
    """Events are ('F', bytes) | ('N',) | ('E',) | ['L', data]: 'L' = the responder answers the frame the
    interface wrote LAST with this data; it is resolved (in place) when the transport first looks at it."""

    def __init__(self, events):
        self.events = list(events)
        self.pos = 0
        self.resolver = None

    def _at(self, i):
        e = self.events[i]
        if e[0] == 'L' and self.resolver is not None:
            r = self.resolver(e)
            if isinstance(e, list):
                e[:] = list(r)
            else:
                self.events[i] = r
            e = self.events[i]
        return e

    def next(self):
        if self.pos >= len(self.events):
            return ('N',)
        e = self._at(self.pos)
        self.pos += 1
        return e

    def peek(self):
        if self.pos >= len(self.events):
            return ('N',)
        return self._at(self.pos)

    def unread(self):
        return len(self.events) - self.pos

    def extend(self, events):
        self.events = self.events[self.pos:] + list(events)
        self.pos = 0


def reply_to_wire(frame, data):
    """what a responder answers to the request frame it saw on the wire"""
    f = bytes(frame)
    a = [f[3], (((f[1] >> 2) | 1) << 2) | (f[4] & 3)]
    a.append((-sum(a)) % 256)
    b = [f[0], (f[4] & 0xfc) | (f[1] & 3), f[5]] + list(data)
    b.append((-sum(b)) % 256)
    return bytes(a + b)


# ---------------------------------------------------------------------------
# RMCP datagrams: frames are carried in the RMCP + IPMI v1.5 wrapping (IpmiMsg pack/unpack are C05's
# subject and transparent here); replies use the constant "no session" header
# ---------------------------------------------------------------------------
RMCP_HDR = bytes([0x06, 0x00, 0xff, 0x07])
SESSION_NONE = bytes([0x00]) + bytes(8)


def rmcp_wrap(frame):
    return RMCP_HDR + SESSION_NONE + bytes([len(frame)]) + bytes(frame)


def rmcp_unwrap(datagram):
    datagram = bytes(datagram)
    assert datagram[:2] == RMCP_HDR[:2] and datagram[3] == 7, datagram.hex()
    body = datagram[4:]
    hl = 10 if body[0] == 0 else 26
    assert body[hl - 1] == len(body) - hl, datagram.hex()
    return body[hl:]


class Rig:
    """everything scripted below one interface object"""

    def __init__(self, kind, script):
        self.kind, self.script = kind, script
        self.clock = Clock()
        self.sent = []
        self.dev = FakeAardvarkDev(self) if kind == 'aardvark' else None
        self.sock = FakeSocket(self) if kind == 'rmcp' else None

    # ---- ipmb-dev character device
    def dev_write(self, data):
        data = bytes(data)
        assert data[0] == len(data) - 1, data.hex()
        self.sent.append(data[1:])
        return len(data)

    def dev_read(self, n):
        e = self.script.next()
        if e[0] == 'F':
            return bytes([len(e[1])]) + bytes(e[1])
        if e[0] == 'E':
            raise OSError(5, 'scripted I/O error')
        raise AssertionError('read without a ready descriptor')

    def dev_ready(self, timeout):
        """select / poll on the fake descriptor: ready unless the next event is 'nothing'"""
        e = self.script.peek()
        if e[0] == 'N':
            self.script.next()
            self.clock.now += timeout or 0
            return False
        return True


class FakeSocket:
    def __init__(self, rig):
        self.rig = rig
        self.timeout = None

    def settimeout(self, t):
        self.timeout = t

    def sendto(self, data, addr):
        self.rig.sent.append(rmcp_unwrap(data))

    def recvfrom(self, n):
        e = self.rig.script.next()
        if e[0] == 'F':
            return rmcp_wrap(e[1]), ('192.0.2.1', 623)
        if e[0] == 'N':
            raise socket.timeout('timed out')
        raise OSError(111, 'scripted OS error')

    def close(self):
        pass


class FakeAardvarkDev:
    def __init__(self, rig):
        self.rig = rig
        self.i2c_bitrate = None
        self.i2c_pullups = None
        self.target_power = None

    def enable_i2c_slave(self, addr):
        self.slave = addr

    def close(self):
        pass

    def i2c_master_write(self, addr, data):
        self.rig.sent.append(bytes([(addr << 1) & 0xff]) + bytes(data))

    def poll(self, timeout_ms):
        return [1] if self.rig.dev_ready(timeout_ms / 1000.0) else []

    def i2c_slave_read(self):
        e = self.rig.script.next()
        if e[0] == 'E':
            raise IOError(5, 'scripted I/O error')
        assert e[0] == 'F'
        f = bytes(e[1])
        if not f:
            return 0, b''
        return f[0] >> 1, f[1:]


class _FakePoll:
    """select.poll() object: the fake descriptor is served from the script, others by a real poll"""

    def __init__(self, real):
        self._real, self._fake = real, False

    def register(self, fd, *a):
        if _fd(fd) == FAKE_FD:
            self._fake = True
        else:
            self._real.register(fd, *a)

    def modify(self, fd, *a):
        if _fd(fd) != FAKE_FD:
            self._real.modify(fd, *a)

    def unregister(self, fd):
        if _fd(fd) == FAKE_FD:
            self._fake = False
        else:
            self._real.unregister(fd)

    def poll(self, timeout=None):
        rig = _cur()
        if self._fake and rig is not None:
            return [(FAKE_FD, select.POLLIN)] if rig.dev_ready((timeout or 0) / 1000.0) else []
        return self._real.poll(timeout)


def _fd(x):
    return x if isinstance(x, int) else getattr(x, 'fileno', lambda: -1)()


# ---------------------------------------------------------------------------
# substitution at the origin
# ---------------------------------------------------------------------------
_tls = threading.local()
_REAL = {}
_DISPATCH = {}
_STATE = {'installed': False, 'nmodules': -1, 'bound': [], 'saved_pyaardvark': None}


def _cur():
    return getattr(_tls, 'rig', None)


def _mk_dispatchers():
    R = _REAL

    def d_sleep(t):
        rig = _cur()
        return R['time.sleep'](t) if rig is None else rig.clock.sleep(t)

    def d_time():
        rig = _cur()
        return R['time.time']() if rig is None else rig.clock.time()

    def d_monotonic():
        rig = _cur()
        return R['time.monotonic']() if rig is None else rig.clock.time()

    def d_select(r, w, x, timeout=None):
        rig = _cur()
        if rig is not None and any(_fd(f) == FAKE_FD for f in r):
            return ([f for f in r if _fd(f) == FAKE_FD], [], []) if rig.dev_ready(timeout) else ([], [], [])
        return R['select.select'](r, w, x, timeout) if timeout is not None else R['select.select'](r, w, x)

    def d_poll(*a):
        real = R['select.poll'](*a)
        return real if _cur() is None else _FakePoll(real)

    def d_open(path, *a, **k):
        rig = _cur()
        if rig is not None and path == FAKE_PORT:
            return FAKE_FD
        return R['os.open'](path, *a, **k)

    def d_read(fd, n):
        rig = _cur()
        return rig.dev_read(n) if (rig is not None and fd == FAKE_FD) else R['os.read'](fd, n)

    def d_write(fd, data):
        rig = _cur()
        return rig.dev_write(data) if (rig is not None and fd == FAKE_FD) else R['os.write'](fd, data)

    def d_close(fd):
        if fd == FAKE_FD:
            return None
        return R['os.close'](fd)

    return {'time.sleep': d_sleep, 'time.time': d_time, 'time.monotonic': d_monotonic, 'select.select': d_select,
            'select.poll': d_poll, 'os.open': d_open, 'os.read': d_read, 'os.write': d_write, 'os.close': d_close}


_MODS = {'time': time, 'select': select, 'os': os}


def _stub_pyaardvark():
    m = types.ModuleType('pyaardvark')
    m._verif_stub = True
    m.open = lambda *a, **k: _cur().dev
    return m


def install():
    if _STATE['installed']:
        return
    for key in ('time.sleep', 'time.time', 'time.monotonic', 'select.select', 'select.poll',
                'os.open', 'os.read', 'os.write', 'os.close'):
        mod, name = key.split('.')
        if hasattr(_MODS[mod], name):
            _REAL[key] = getattr(_MODS[mod], name)
    _DISPATCH.update(_mk_dispatchers())
    for key in _REAL:
        mod, name = key.split('.')
        setattr(_MODS[mod], name, _DISPATCH[key])
    _STATE['saved_pyaardvark'] = sys.modules.get('pyaardvark')
    _STATE['stub'] = _stub_pyaardvark()
    sys.modules['pyaardvark'] = _STATE['stub']
    _STATE['installed'] = True
    _STATE['nmodules'] = -1


def _rebind():
    """names in loaded pyipmi.* modules bound to the real functions (from time import sleep ...) or to
    pyaardvark (None when the import failed) follow the substitution; cached until a module is imported"""
    if _STATE['nmodules'] == len(sys.modules):
        return
    by_id = {id(v): _DISPATCH[k] for k, v in _REAL.items()}
    for name, mod in list(sys.modules.items()):
        if not (name == 'pyipmi' or name.startswith('pyipmi.')) or mod is None:
            continue
        for attr, val in list(vars(mod).items()):
            if id(val) in by_id and callable(val):
                _STATE['bound'].append((mod, attr, val))
                setattr(mod, attr, by_id[id(val)])
            elif attr == 'pyaardvark' and val is not _STATE['stub']:
                _STATE['bound'].append((mod, attr, val))
                setattr(mod, attr, _STATE['stub'])
    _STATE['nmodules'] = len(sys.modules)


def uninstall():
    if not _STATE['installed']:
        return
    for key, real in _REAL.items():
        mod, name = key.split('.')
        setattr(_MODS[mod], name, real)
    for mod, attr, val in reversed(_STATE['bound']):
        setattr(mod, attr, val)
    _STATE['bound'] = []
    if _STATE['saved_pyaardvark'] is None:
        sys.modules.pop('pyaardvark', None)
    else:
        sys.modules['pyaardvark'] = _STATE['saved_pyaardvark']
    _REAL.clear()
    _STATE['installed'] = False
    if _STATE.get('alarm_pid') == os.getpid() and threading.current_thread() is threading.main_thread():
        signal.setitimer(signal.ITIMER_REAL, 0)
        signal.signal(signal.SIGALRM, _STATE.get('old_alarm') or signal.SIG_DFL)
        _STATE['alarm_pid'] = None


def _on_alarm(signum, frame):
    raise HarnessTimeout('driven call exceeded %.0f s of wall-clock time' % GUARD_S)


class driven:
    """with driven(rig): ... - the calling thread sees the scripted clock / device / adapter; wall-clock guard"""

    def __init__(self, rig):
        self.rig = rig

    def __enter__(self):
        install()
        _rebind()
        self.prev = _cur()
        _tls.rig = self.rig
        self.guard = self.prev is None and threading.current_thread() is threading.main_thread()
        if self.guard:
            if _STATE.get('alarm_pid') != os.getpid():       # once per process (the handler stays until uninstall)
                _STATE['old_alarm'] = signal.signal(signal.SIGALRM, _on_alarm)
                _STATE['alarm_pid'] = os.getpid()
            signal.setitimer(signal.ITIMER_REAL, GUARD_S)
        return self.rig

    def __exit__(self, *a):
        if self.guard:
            signal.setitimer(signal.ITIMER_REAL, 0)
        _tls.rig = self.prev
        return False


def rig_of(intf):
    return intf.verif_rig


def _finish(intf, rig, max_retries, next_seq):
    intf.max_retries = max_retries
    intf.next_sequence_number = next_seq
    intf.verif_rig = rig
    rig.script.resolver = None
    return intf


def make_rmcp(script, max_retries=3, next_seq=0, quirks=None, slave=0x81):
    """An Rmcp object that was opened but never established a session (v1.5 "none": the state a fresh
    object is in), behind the scripted socket: the socket factory is substituted while open() runs.
    No keep-alive thread exists before establish_session."""
    import pyipmi.interfaces.rmcp as R
    rig = Rig('rmcp', script)
    with driven(rig):
        intf = R.Rmcp(slave_address=slave, max_retries=max_retries, keep_alive_interval=0,
                      quirks_cfg=dict(quirks or {}))
        real = socket.socket
        if _STATE.get('sockscan') != len(sys.modules):      # names bound by `from socket import socket`
            _STATE['sockbound'] = [(m, a) for n, m in list(sys.modules.items())
                                   if n.startswith('pyipmi') and m is not None
                                   for a, v in list(vars(m).items()) if v is real]
            _STATE['sockscan'] = len(sys.modules)
        bound = _STATE['sockbound']
        factory = lambda *a, **k: rig.sock      # noqa
        socket.socket = factory
        for m, a in bound:
            setattr(m, a, factory)
        try:
            intf.open()
        finally:
            socket.socket = real
            for m, a in bound:
                setattr(m, a, real)
    intf.host, intf.port = '192.0.2.1', 623
    return _finish(intf, rig, max_retries, next_seq)


def rmcp_queue(intf):
    """the RMCP receive queue, if the interface (still) has one under that name - optional observation"""
    q = getattr(intf, '_q', None)
    try:
        return [bytes(x) for x in list(q.queue)] if q is not None else []
    except Exception:  # noqa
        return []


def rmcp_prefill(intf, frames):
    """put frames on the receive queue (exercises the get path of the model); False if there is no queue"""
    q = getattr(intf, '_q', None)
    if q is None or not hasattr(q, 'put'):
        return False
    for f in frames:
        q.put(f)
    return True


def make_ipmbdev(script, max_retries=3, next_seq=0, slave=0x20):
    import pyipmi.interfaces.ipmbdev as M
    rig = Rig('ipmbdev', script)
    with driven(rig):
        intf = M.IpmbDev(slave_address=slave, port=FAKE_PORT)
        intf.open()
    return _finish(intf, rig, max_retries, next_seq)


def make_aardvark(script, max_retries=3, next_seq=0, slave=0x20):
    install()
    _rebind()
    import pyipmi.interfaces.aardvark as M
    rig = Rig('aardvark', script)
    with driven(rig):
        intf = M.Aardvark(slave_address=slave)
        intf.open()
    return _finish(intf, rig, max_retries, next_seq)


def sent_of(kind, intf):
    return list(intf.verif_rig.sent)


def clear_sent(kind, intf):
    intf.verif_rig.sent.clear()


MAKERS = {'rmcp': make_rmcp, 'ipmbdev': make_ipmbdev, 'aardvark': make_aardvark}


def make_target(rs_sa, routing=None):
    import pyipmi
    t = pyipmi.Target()
    t.ipmb_address = rs_sa          # Target(0) would leave the address unset
    if routing:
        t.set_routing([(r[0], r[1], r[2]) for r in routing])
    return t


def probe(intf, rs_sa, targets=None):
    """Ipmi.is_ipmc_accessible -> interface.is_ipmc_accessible(target); b'' for True, else the exception"""
    if targets is None:
        t = make_target(rs_sa, None)
    else:
        key = (rs_sa, repr(None))
        if key not in targets:
            targets[key] = make_target(rs_sa, None)
        t = targets[key]
    try:
        with driven(intf.verif_rig):
            r = intf.is_ipmc_accessible(t)
        return b'' if r is True else ValueError('is_ipmc_accessible returned %r' % (r,))
    except Exception as e:  # noqa
        return e


def call(intf, rs_sa, routing, lun, netfn, cmd, payload, targets=None):
    """send_and_receive_raw; returns bytes or the exception.  With [targets] (a dict owned by the
    caller) requests to the same address / routing go through the SAME Target object."""
    if targets is None:
        t = make_target(rs_sa, routing)
    else:
        key = (rs_sa, repr(routing))
        if key not in targets:
            targets[key] = make_target(rs_sa, routing)
        t = targets[key]
    try:
        with driven(intf.verif_rig):
            return bytes(intf.send_and_receive_raw(t, lun, netfn, bytes([cmd]) + bytes(payload)))
    except Exception as e:  # noqa
        return e


# ---------------------------------------------------------------------------
# C09 end to end: Rmcp with a routed target behind a chain of simulated bridges
# ---------------------------------------------------------------------------
def oracle_bridged_e2e(inp, spec_peel, spec_wrap_reply, spec_reply_frame, spec_request_frame):
    """One Rmcp object, ONE Target object, one or several requests (inp['calls'], else the single
    request described by inp itself): every transmitted datagram is peeled by the simulated bridges,
    every reply comes back through them; target.routing must be left as it was."""
    import pyipmi.errors as E
    routing = inp['routing']
    depth = len(routing)
    calls = inp.get('calls') or [inp]
    slave = 0x81
    script = Script([])
    intf = make_rmcp(script, max_retries=inp['max_retries'], next_seq=inp['seq0'], slave=slave)
    t = make_target(0x20, routing)
    want_routing = [(r[0], r[1], r[2]) for r in routing]
    for n, c in enumerate(calls):
        where = 'request %d through the same Target: ' % n if len(calls) > 1 else ''
        p, reply = bytes.fromhex(c['p']), bytes.fromhex(c['reply'])
        seq = (inp['seq0'] + n + 1) % 64
        # what the chain will answer, computed from the request the spec says must arrive
        h_final = [routing[-1][1], c['lun'], routing[-1][0], 0, seq, c['netfn'], c['cmd']]
        inner_reply = spec_reply_frame(h_final, reply)
        ws = [[r[0], 0, r[1], 0, seq] for r in routing[:-1]]
        events = []
        for k in range(c['acks'] if ws else 0):
            # acknowledgement of the outermost bridge(s): Send Message response, no embedded frame
            nlayers = 1 + (k % max(1, depth - 1))
            f = b''
            for w in reversed(ws[:nlayers]):
                f = spec_wrap_reply(w, 0, f)
            events.append(('F', f))
        fl = c.get('fail_layer') if ws else None
        if fl is not None:
            f = b''
            for i in range(fl, -1, -1):
                f = spec_wrap_reply(ws[i], c['cc'] if i == fl else 0, f)
            events.append(('F', f))
        else:
            f = inner_reply
            for w in reversed(ws):
                f = spec_wrap_reply(w, 0, f)
            events.append(('F', f))
        script.extend(events)
        clear_sent('rmcp', intf)
        try:
            with driven(intf.verif_rig):
                got = bytes(intf.send_and_receive_raw(t, c['lun'], c['netfn'], bytes([c['cmd']]) + p))
        except Exception as e:  # noqa
            got = e
        sent = sent_of('rmcp', intf)
        if len(sent) != 1:
            return where + '%d datagrams sent, expected exactly one (acknowledgements must not trigger a resend): %r' % (
                len(sent), [x.hex() for x in sent])
        r = spec_peel(depth - 1, sent[0])
        if r is None:
            return where + 'a bridge on the path rejects the transmitted frame %s' % sent[0].hex()
        hops, inner = r
        want_hops = [[x[0], x[1], x[2], 1, seq] for x in routing[:-1]]
        if hops != want_hops:
            return where + 'hops %r differ from the routing %r' % (hops, want_hops)
        want_inner = spec_request_frame(routing[-1][1], c['lun'], routing[-1][0], 0, seq, c['netfn'], c['cmd'], p)
        if inner != want_inner:
            return where + 'innermost frame %s is not the request %s' % (inner.hex(), want_inner.hex())
        if fl is not None:
            if not (isinstance(got, E.CompletionCodeError) and got.cc == c['cc']):
                return where + 'hop %d answered cc=0x%02x; send_and_receive_raw gave %r' % (fl, c['cc'], got)
        else:
            if isinstance(got, Exception):
                return where + 'after %d acknowledgement(s) the forwarded reply was not returned: %s %s' % (
                    c['acks'], type(got).__name__, got)
            if got != reply:
                return where + 'returned %s, the target replied %s' % (got.hex(), reply.hex())
        if script.unread() != 0:
            return where + 'request finished before the forwarded reply was read'
        now = [(x.rq_sa, x.rs_sa, x.channel) for x in (t.routing or [])]
        if now != want_routing:
            return where + 'target.routing is now %r, it was %r' % (now, want_routing)
    return None
