"""Scripted transports for C04 (and the end-to-end part of C09): the three native
interfaces are driven through their public send_and_receive_raw with the socket
(Rmcp), os.read / os.write / select.select (IpmbDev), a stub pyaardvark (Aardvark) and
time.time / time.sleep replaced from outside.  No real socket, device, thread or sleep.

An event script is a list of ('F', bytes) | ('N',) | ('E',):
  frame received | nothing within the time-out | OS error on the receive side.
An exhausted script behaves like ('N',) for ever.
"""
import socket
import sys
import types

# ---------------------------------------------------------------------------
# scripted clock (shared by ipmbdev / aardvark modules: they call time.time / time.sleep)
# ---------------------------------------------------------------------------


class Clock:
    def __init__(self):
        self.now = 1000.0
        self.sleeps = []

    def time(self):
        return self.now

    def sleep(self, t):
        self.sleeps.append(t)
        self.now += t


class FakeTimeModule:
    """stands in for the `time` module inside one interface module"""

    def __init__(self, clock):
        self._c = clock

    def time(self):
        return self._c.time()

    def sleep(self, t):
        return self._c.sleep(t)


class Script:
    """Events are ('F', bytes) | ('N',) | ('E',) | ['L', data]: 'L' = the responder answers the frame the
    interface wrote LAST with this data; it is resolved (in place) when the transport first looks at it."""

    def __init__(self, events):
        self.events = list(events)
        self.pos = 0
        self.resolver = None

    def _at(self, i):
        e = self.events[i]
        if e[0] == 'L' and self.resolver is not None:
            r = self.resolver(e)
            if isinstance(e, list):
                e[:] = list(r)
            else:
                self.events[i] = r
            e = self.events[i]
        return e

    def next(self):
        if self.pos >= len(self.events):
            return ('N',)
        e = self._at(self.pos)
        self.pos += 1
        return e

    def peek(self):
        if self.pos >= len(self.events):
            return ('N',)
        return self._at(self.pos)

    def unread(self):
        return len(self.events) - self.pos

    def extend(self, events):
        self.events = self.events[self.pos:] + list(events)
        self.pos = 0


def reply_to_wire(frame, data):
    """what a responder answers to the request frame it saw on the wire"""
    f = bytes(frame)
    a = [f[3], (((f[1] >> 2) | 1) << 2) | (f[4] & 3)]
    a.append((-sum(a)) % 256)
    b = [f[0], (f[4] & 0xfc) | (f[1] & 3), f[5]] + list(data)
    b.append((-sum(b)) % 256)
    return bytes(a + b)


# ---------------------------------------------------------------------------
# RMCP: scripted UDP socket.  Frames are carried in the constant RMCP + IPMI v1.5
# "no session" wrapping (IpmiMsg pack/unpack are C05's subject and transparent here).
# ---------------------------------------------------------------------------
RMCP_HDR = bytes([0x06, 0x00, 0xff, 0x07])
SESSION_NONE = bytes([0x00]) + bytes(8)


def rmcp_wrap(frame):
    return RMCP_HDR + SESSION_NONE + bytes([len(frame)]) + bytes(frame)


def rmcp_unwrap(datagram):
    datagram = bytes(datagram)
    assert datagram[:4] == RMCP_HDR and datagram[4:13] == SESSION_NONE, datagram.hex()
    assert datagram[13] == len(datagram) - 14, datagram.hex()
    return datagram[14:]


class FakeSocket:
    def __init__(self, script):
        self.script = script
        self.sent = []
        self.timeout = None

    def settimeout(self, t):
        self.timeout = t

    def sendto(self, data, addr):
        self.sent.append(rmcp_unwrap(data))

    def recvfrom(self, n):
        e = self.script.next()
        if e[0] == 'F':
            return rmcp_wrap(e[1]), ('192.0.2.1', 623)
        if e[0] == 'N':
            raise socket.timeout('timed out')
        raise OSError(111, 'scripted OS error')

    def close(self):
        pass


def make_rmcp(script, max_retries=3, next_seq=0, quirks=None, slave=0x81):
    """An Rmcp object as establish_session leaves it, minus the network: no session
    object (v1.5 'none'), scripted socket, no keep-alive thread."""
    import pyipmi.interfaces.rmcp as R
    intf = R.Rmcp(slave_address=slave, max_retries=max_retries, keep_alive_interval=0,
                  quirks_cfg=dict(quirks or {}))
    intf._sock = FakeSocket(script)       # instead of open(): no socket.socket() call
    intf._session = None
    intf.host, intf.port = '192.0.2.1', 623
    intf.next_sequence_number = next_seq
    assert getattr(intf, '_stop_keep_alive', None) is None
    return intf


def rmcp_queue(intf):
    return [bytes(x) for x in list(intf._q.queue)]


# ---------------------------------------------------------------------------
# ipmb-dev: os.read / os.write / select.select and time replaced in the module namespace
# ---------------------------------------------------------------------------
class FakeOs:
    def __init__(self, script, real_os):
        self.script = script
        self.sent = []
        self._real = real_os
        self.O_RDWR = real_os.O_RDWR

    def open(self, *a):
        return 77

    def close(self, fd):
        pass

    def write(self, fd, data):
        data = bytes(data)
        assert fd == 77 and data[0] == len(data) - 1, data.hex()
        self.sent.append(data[1:])
        return len(data)

    def read(self, fd, n):
        e = self.script.next()
        if e[0] == 'F':
            return bytes([len(e[1])]) + bytes(e[1])
        if e[0] == 'E':
            raise OSError(5, 'scripted I/O error')
        raise AssertionError('read without a ready descriptor')


class FakeSelect:
    def __init__(self, script, clock):
        self.script, self.clock = script, clock

    def select(self, r, w, x, timeout=None):
        e = self.script.peek()
        if e[0] == 'N':
            self.script.next()
            self.clock.now += timeout or 0
            return [], [], []
        return list(r), [], []


def make_ipmbdev(script, max_retries=3, next_seq=0, slave=0x20):
    import os as real_os
    import pyipmi.interfaces.ipmbdev as M
    clock = Clock()
    fos = FakeOs(script, real_os)
    M.os = fos
    M.select = FakeSelect(script, clock)
    M.time = FakeTimeModule(clock)
    intf = M.IpmbDev(slave_address=slave)
    intf.open()
    intf.max_retries = max_retries
    intf.next_sequence_number = next_seq
    intf._fake_os, intf._clock = fos, clock
    return intf


# ---------------------------------------------------------------------------
# Aardvark: stub pyaardvark module
# ---------------------------------------------------------------------------
class FakeAardvarkDev:
    def __init__(self, script, clock):
        self.script, self.clock = script, clock
        self.sent = []
        self.i2c_bitrate = None
        self.i2c_pullups = None
        self.target_power = None

    def enable_i2c_slave(self, addr):
        self.slave = addr

    def close(self):
        pass

    def i2c_master_write(self, addr, data):
        self.sent.append(bytes([(addr << 1) & 0xff]) + bytes(data))

    def poll(self, timeout_ms):
        e = self.script.peek()
        if e[0] == 'N':
            self.script.next()
            self.clock.now += timeout_ms / 1000.0
            return []
        return [1]

    def i2c_slave_read(self):
        e = self.script.next()
        if e[0] == 'E':
            raise IOError(5, 'scripted I/O error')
        assert e[0] == 'F'
        f = bytes(e[1])
        if not f:
            return 0, b''
        return f[0] >> 1, f[1:]


def _stub_pyaardvark():
    if 'pyaardvark' not in sys.modules or not getattr(sys.modules['pyaardvark'], '_verif_stub', False):
        m = types.ModuleType('pyaardvark')
        m._verif_stub = True
        m.open = lambda port=0, serial_number=None: m._dev
        m._dev = None
        sys.modules['pyaardvark'] = m
    return sys.modules['pyaardvark']


def make_aardvark(script, max_retries=3, next_seq=0, slave=0x20):
    stub = _stub_pyaardvark()
    import pyipmi.interfaces.aardvark as M
    M.pyaardvark = stub
    clock = Clock()
    M.time = FakeTimeModule(clock)
    stub._dev = FakeAardvarkDev(script, clock)
    intf = M.Aardvark(slave_address=slave)
    intf.open()
    intf.max_retries = max_retries
    intf.next_sequence_number = next_seq
    intf._clock = clock
    return intf


def sent_of(kind, intf):
    if kind == 'rmcp':
        return list(intf._sock.sent)
    if kind == 'ipmbdev':
        return list(intf._fake_os.sent)
    return list(intf._dev.sent)


def clear_sent(kind, intf):
    if kind == 'rmcp':
        intf._sock.sent.clear()
    elif kind == 'ipmbdev':
        intf._fake_os.sent.clear()
    else:
        intf._dev.sent.clear()


MAKERS = {'rmcp': make_rmcp, 'ipmbdev': make_ipmbdev, 'aardvark': make_aardvark}


def make_target(rs_sa, routing=None):
    import pyipmi
    t = pyipmi.Target()
    t.ipmb_address = rs_sa          # Target(0) would leave the address unset
    if routing:
        t.set_routing([(r[0], r[1], r[2]) for r in routing])
    return t


def probe(intf, rs_sa, targets=None):
    """Ipmi.is_ipmc_accessible -> interface.is_ipmc_accessible(target); b'' for True, else the exception"""
    if targets is None:
        t = make_target(rs_sa, None)
    else:
        key = (rs_sa, repr(None))
        if key not in targets:
            targets[key] = make_target(rs_sa, None)
        t = targets[key]
    try:
        r = intf.is_ipmc_accessible(t)
        return b'' if r is True else ValueError('is_ipmc_accessible returned %r' % (r,))
    except Exception as e:  # noqa
        return e


def call(intf, rs_sa, routing, lun, netfn, cmd, payload, targets=None):
    """send_and_receive_raw; returns bytes or the exception.  With [targets] (a dict owned by the
    caller) requests to the same address / routing go through the SAME Target object."""
    if targets is None:
        t = make_target(rs_sa, routing)
    else:
        key = (rs_sa, repr(routing))
        if key not in targets:
            targets[key] = make_target(rs_sa, routing)
        t = targets[key]
    try:
        return bytes(intf.send_and_receive_raw(t, lun, netfn, bytes([cmd]) + bytes(payload)))
    except Exception as e:  # noqa
        return e


# ---------------------------------------------------------------------------
# C09 end to end: Rmcp with a routed target behind a chain of simulated bridges
# ---------------------------------------------------------------------------
def oracle_bridged_e2e(inp, spec_peel, spec_wrap_reply, spec_reply_frame, spec_request_frame):
    """One Rmcp object, ONE Target object, one or several requests (inp['calls'], else the single
    request described by inp itself): every transmitted datagram is peeled by the simulated bridges,
    every reply comes back through them; target.routing must be left as it was."""
    import pyipmi.errors as E
    routing = inp['routing']
    depth = len(routing)
    calls = inp.get('calls') or [inp]
    slave = 0x81
    script = Script([])
    intf = make_rmcp(script, max_retries=inp['max_retries'], next_seq=inp['seq0'], slave=slave)
    t = make_target(0x20, routing)
    want_routing = [(r[0], r[1], r[2]) for r in routing]
    for n, c in enumerate(calls):
        where = 'request %d through the same Target: ' % n if len(calls) > 1 else ''
        p, reply = bytes.fromhex(c['p']), bytes.fromhex(c['reply'])
        seq = (inp['seq0'] + n + 1) % 64
        # what the chain will answer, computed from the request the spec says must arrive
        h_final = [routing[-1][1], c['lun'], routing[-1][0], 0, seq, c['netfn'], c['cmd']]
        inner_reply = spec_reply_frame(h_final, reply)
        ws = [[r[0], 0, r[1], 0, seq] for r in routing[:-1]]
        events = []
        for k in range(c['acks'] if ws else 0):
            # acknowledgement of the outermost bridge(s): Send Message response, no embedded frame
            nlayers = 1 + (k % max(1, depth - 1))
            f = b''
            for w in reversed(ws[:nlayers]):
                f = spec_wrap_reply(w, 0, f)
            events.append(('F', f))
        fl = c.get('fail_layer') if ws else None
        if fl is not None:
            f = b''
            for i in range(fl, -1, -1):
                f = spec_wrap_reply(ws[i], c['cc'] if i == fl else 0, f)
            events.append(('F', f))
        else:
            f = inner_reply
            for w in reversed(ws):
                f = spec_wrap_reply(w, 0, f)
            events.append(('F', f))
        script.extend(events)
        clear_sent('rmcp', intf)
        try:
            got = bytes(intf.send_and_receive_raw(t, c['lun'], c['netfn'], bytes([c['cmd']]) + p))
        except Exception as e:  # noqa
            got = e
        sent = sent_of('rmcp', intf)
        if len(sent) != 1:
            return where + '%d datagrams sent, expected exactly one (acknowledgements must not trigger a resend): %r' % (
                len(sent), [x.hex() for x in sent])
        r = spec_peel(depth - 1, sent[0])
        if r is None:
            return where + 'a bridge on the path rejects the transmitted frame %s' % sent[0].hex()
        hops, inner = r
        want_hops = [[x[0], x[1], x[2], 1, seq] for x in routing[:-1]]
        if hops != want_hops:
            return where + 'hops %r differ from the routing %r' % (hops, want_hops)
        want_inner = spec_request_frame(routing[-1][1], c['lun'], routing[-1][0], 0, seq, c['netfn'], c['cmd'], p)
        if inner != want_inner:
            return where + 'innermost frame %s is not the request %s' % (inner.hex(), want_inner.hex())
        if fl is not None:
            if not (isinstance(got, E.CompletionCodeError) and got.cc == c['cc']):
                return where + 'hop %d answered cc=0x%02x; send_and_receive_raw gave %r' % (fl, c['cc'], got)
        else:
            if isinstance(got, Exception):
                return where + 'after %d acknowledgement(s) the forwarded reply was not returned: %s %s' % (
                    c['acks'], type(got).__name__, got)
            if got != reply:
                return where + 'returned %s, the target replied %s' % (got.hex(), reply.hex())
        if script.unread() != 0:
            return where + 'request finished before the forwarded reply was read'
        now = [(x.rq_sa, x.rs_sa, x.channel) for x in (t.routing or [])]
        if now != want_routing:
            return where + 'target.routing is now %r, it was %r' % (now, want_routing)
    return None
